"""C01 — whole-message integrity on every transport under any segmentation.

Three parts, one verdict:
 UNIT  nni_aio_set_iov / nni_aio_iov_advance / nni_aio_iov_count and nni_msg_pull_up (with allocation
       failure) on the real code vs the Lean model (Model/SpStream.lean) and the specification.
 REAL  (a) an nng socket against the raw peer of harness/rawpeer.c on tcp, ipc and socket://: exact wire
       bytes vs `encode` of the model, deliveries vs the sent messages (Lean judge), the model's receive
       machine fed with the same cut schedule vs what nng delivered;
       (b) nng <-> nng over inproc, ipc, tcp, socket:// and ws:// with the NNG_VERIF clamp cutting both
       sides' reads and writes.
 Judged predicate (violation, with replay): received sequence = sent sequence per connection.
 Model differences (wire bytes, iov state, receive machine) with the predicate intact: correspondence."""
import os, re, time, json, subprocess, tempfile, shutil
from .. import core, build, lean, unit

PROP = "C01"
MODULES = ["NngModel.Props.C01"]
M64 = (1 << 64) - 1

SIZES_SMALL = list(range(0, 10)) + [15, 16, 17, 31, 32, 33, 55, 56, 57, 63, 64, 65]
SIZES_MID = [100, 127, 128, 129, 255, 256, 257, 511, 512, 513, 1000, 1023, 1024, 1025, 2047, 2048, 2049, 4095, 4096, 4097]
SIZES_BIG = [8191, 8192, 8193, 16384, 65535, 65536, 65537]
SIZES_HUGE = [131072, 262143, 262144, 524289, 1048576]
STREAM_TRANS = ["tcp", "ipc", "sfd"]
N2N_TRANS = ["inproc", "ipc", "tcp", "sfd", "ws"]
KIND = {"tcp": "tcp", "ipc": "ipc", "sfd": "sfd", "ws": None, "inproc": None}
HEADLEN = {"tcp": 8, "ipc": 9, "sfd": 8}
PEER_PROTOS = ["pair0", "pair0raw", "pair1", "pair1raw", "reqraw"]
N2N_PROTOS = ["pair0", "pair0raw", "pair1", "pair1raw", "reqrep"]
PROTO_NUM = {"pair0": 0x10, "pair0raw": 0x10, "pair1": 0x11, "pair1raw": 0x11, "reqraw": 0x30}


# ------------------------------------------------------------------ byte tokens
def pat(seed, n):
    x = (seed * 0x9E3779B97F4A7C15 + 1) & M64
    out = bytearray()
    for _ in range(n):
        x = (x * 6364136223846793005 + 1442695040888963407) & M64
        out.append(x >> 56)
    return bytes(out)


def fnv(b):
    h = 0xcbf29ce484222325
    for c in b:
        h = ((h ^ c) * 0x100000001b3) & M64
    return h


def tok_len(t):
    if t == "-":
        return 0
    if t.startswith("g"):
        return int(t.split(":")[1])
    return len(t) // 2


def tok_bytes(t):
    if t == "-":
        return b""
    if t.startswith("g"):
        s, n = t[1:].split(":")
        return pat(int(s), int(n))
    return bytes.fromhex(t)


def flat_digest(tok):
    """harness flat token (hex | - | D<len>:<fnv>) -> '<len>:<fnv>'"""
    if tok.startswith("D"):
        return tok[1:]
    b = tok_bytes(tok)
    return f"{len(b)}:{fnv(b):016x}"


def gtok(r, n):
    if n == 0:
        return "-"
    if n <= 8 and r.chance(1, 2):
        return r.bytes(n).hex()
    return f"g{r.below(1 << 30)}:{n}"


# ------------------------------------------------------------------ protocol rules (what goes on the wire,
# what the receiving protocol hands up); bytes are tokens, concatenation stays symbolic (h', b')
def hop(n):
    return f"{n:08x}"


def wire_of(proto, h, b):
    """(h', b') the transport is given for a message sent with header token h and body token b"""
    if proto in ("pair0", "pair0raw", "reqraw"):
        return h, b
    if proto == "pair1":
        return hop(1), b           # cooked: header cleared, hop count 0 + 1
    if proto == "pair1raw":
        return hop(int(h, 16) + 1), b
    raise ValueError(proto)


def recv_hlen(proto, scn, wire_h_len, total):
    """header length the receiving socket reports"""
    if proto in ("pair0", "pair0raw"):
        return 0
    if proto in ("pair1", "pair1raw", "reqraw"):
        return 4
    if proto == "reqrep":
        return 4 + wire_h_len      # pipe id + backtrace
    raise ValueError(proto)


# ------------------------------------------------------------------ UNIT cases
def gen_unit_case(r):
    ops = []
    k = r.below(10)
    if k < 7:
        # iov shapes: up to 8 entries (sometimes 9: EINVAL), zero-length entries included
        def entries():
            n = r.choice([0, 1, 1, 2, 3, 3, 3, 4, 5, 8, 8, 9]) if r.chance(1, 3) else r.range(1, 4)
            return [gtok(r, r.choice([0, 0, 1, 2, 3, 8, 9, r.range(0, 40)])) for _ in range(n)]
        es = entries()
        ops.append("iov " + " ".join(es) if es else "iov")
        left = sum(tok_len(e) for e in es) if len(es) <= 8 else 0
        while left > 0 and len(ops) < 40:
            n = r.choice([0, 1, 1, 2, 3, left, left, max(1, left - 1), r.range(1, left)])
            n = min(n, left)
            ops.append(f"adv {n}")
            left -= n
        ops.append("adv 0")
        if r.chance(1, 3) and len(es) <= 8:
            # a second, shorter vector over the leftovers of the first (set_iov keeps the tail)
            es2 = [gtok(r, r.range(0, 12)) for _ in range(r.range(0, 3))]
            ops.append("iov " + " ".join(es2) if es2 else "iov")
            left = sum(tok_len(e) for e in es2)
            while left > 0:
                n = min(left, r.choice([1, 2, left]))
                ops.append(f"adv {n}")
                left -= n
    else:
        for _ in range(r.range(1, 6)):
            sz = r.choice([0, 1, 8, 31, 32, 33, 100, 1000, 1023, 1024, 1025, 2048, 4096, r.range(0, 3000)])
            tr = r.choice([0, 0, 1, 4, 8, r.range(0, 40)])
            ch = r.choice([0, 0, 1, 4, 8, r.range(0, 70)])
            tr = min(tr, sz)
            ch = min(ch, sz - tr)
            h = gtok(r, r.choice([0, 4, 4, 8, 12, 60, 64, r.range(0, 64)]))
            refs = r.choice([1, 1, 1, 2])
            fail = r.choice(["-", "-", "0", "1", "2"])
            ops.append(f"pullup {sz} {r.below(1000)} {tr} {ch} {h} {refs} {fail}")
    return ops


def unit_directed():
    cs = []
    # exact-fit bodies (power of two >= 1024: no headroom) chopped so that only a regrow fits
    for sz in (1024, 2048, 4096):
        for ch in (0, 1, 3, 4, 5, 7, 8, 11, 12, 64):
            for fail in ("-", "0"):
                cs.append([f"pullup {sz} 7 0 {ch} 00000001 1 {fail}", f"pullup {sz} 7 4 {ch} 8000000100000002 1 {fail}"])
    cs.append(["iov 0102 - 030405 - -", "adv 2", "adv 0", "adv 1", "adv 2", "adv 0"])
    cs.append(["iov " + " ".join(["aa"] * 8), "adv 8"])
    cs.append(["iov " + " ".join(["aa"] * 9)])
    return cs


def unit_proj_spec(l):
    return " ".join(w for w in l.split() if w.split("=")[0] in ("rv", "count", "pend", "h", "b", "null"))


def unit_spec_rewrite(ops, impl_lines):
    out = []
    for op, l in zip(ops, impl_lines):
        out.append("pullup-null" if op.startswith("pullup") and l.strip() == "null" else op)
    out.extend(ops[len(impl_lines):])
    return out


def unit_judge(ops, impl_lines):
    for op, l in zip(ops, impl_lines):
        if op.startswith("pullup") and l.strip() == "null" and op.split()[-1] == "-":
            return f"nni_msg_pull_up returned NULL without an allocation failure on `{op}`"
    return None


# ------------------------------------------------------------------ REAL cases
def size(r, tier, big_ok=True):
    k = r.below(20)
    if k < 9:
        return r.choice(SIZES_SMALL)
    if k < 14:
        return r.choice(SIZES_MID)
    if k < 16:
        return r.range(0, 300)
    if not big_ok:
        return r.choice(SIZES_MID)
    if k < 19 or tier == "quick":
        return r.choice(SIZES_BIG)
    return r.choice(SIZES_HUGE)


def clamp_for(r, total_bytes):
    seed = r.below(1 << 31)
    if total_bytes <= 6000:
        pal = r.choice([[1], [1, 2, 3, 7], [1, 2, 3, 5, 7, 8, 9, 13], [2, 8, 9, 64]])
        pas = r.choice([0, 50, 300, 800])
    elif total_bytes <= 200000:
        pal = r.choice([[1, 7, 64, 255, 1000, 4096], [4095, 4096, 4097, 1], [255, 8191, 3]])
        pas = r.choice([100, 300, 600])
    else:
        pal = r.choice([[1, 4095, 65537, 100000], [65536, 8, 131071]])
        pas = r.choice([300, 600])
    if r.chance(1, 12):
        pal, pas = [], 1000   # no clamp at all
    return f"clamp={seed}:{pas}:{','.join(map(str, pal)) if pal else '-'}"


def hdr_for(r, proto):
    """header token an nng-side sender sets"""
    if proto in ("pair0", "pair0raw", "reqraw"):
        n = r.choice([0, 0, 4, 4, 8, 12, 60, 63, 64, r.range(0, 64)])
        return gtok(r, n)
    if proto == "pair1":
        return r.choice(["-", "-", gtok(r, 4)])    # ignored and cleared by the cooked socket
    if proto == "pair1raw":
        return hop(r.choice([0, 1, 2, 5, 7]))      # arrives as n+1 <= ttl 8
    if proto == "reqrep":
        k = r.range(1, 5)
        ws = [r.below(1 << 31) for _ in range(k - 1)] + [r.below(1 << 31) | 0x80000000]
        return "".join(f"{w:08x}" for w in ws)
    raise ValueError(proto)


def prefix_for(r, proto):
    """what the raw peer puts in front of the body so that nng's protocol accepts the message"""
    if proto in ("pair0", "pair0raw"):
        return gtok(r, r.choice([0, 0, 0, 4, 64]))
    if proto in ("pair1", "pair1raw"):
        return hop(r.range(1, 8))
    if proto == "reqraw":
        return f"{r.below(1 << 31) | 0x80000000:08x}"
    raise ValueError(proto)


def cuts_for(r, flen):
    k = r.below(10)
    if flen <= 1 or k < 2:
        return "-", "b"
    if flen <= 80 and k < 4:
        return "*", r.choice(["s", "s", "b"])
    n = r.choice([1, 1, 2, 3, 5])
    pts = sorted({r.choice([1, 7, 8, 9, 10, flen - 1, r.range(1, flen - 1)]) for _ in range(n)})
    pts = [p for p in pts if 0 < p < flen]
    if not pts:
        return "-", "b"
    return ",".join(map(str, pts)), r.choice(["s", "s", "b"])


def gen_peer_case(r, cid, tran, tier):
    proto = r.choice(PEER_PROTOS)
    role = "l" if tran == "sfd" else r.choice(["d", "l"])
    nm = r.range(1, 12)
    msgs, total = [], 0
    d = r.choice("oi")
    big_budget = 1 if tier == "quick" else 2
    for _ in range(nm):
        if r.chance(1, 3):
            d = "i" if d == "o" else "o"
        n = size(r, tier, big_ok=big_budget > 0)
        if n > 5000:
            big_budget -= 1
        if d == "o":
            h = hdr_for(r, proto)
            msgs.append(f"o/{h}/{gtok(r, n)}/{r.choice([0, 0, 1, 3, 7, 4096])}")
        else:
            p = prefix_for(r, proto)
            flen = HEADLEN[tran] + tok_len(p) + n
            c, mode = cuts_for(r, flen)
            msgs.append(f"i/{p}/{gtok(r, n)}/{c}/{mode}")
        total += n
    return f"case {cid} peer {tran} {proto} {role} rcvmax={r.choice([0, 0, 1 << 24])} {clamp_for(r, total)} strip=0 msgs=" + ";".join(msgs)


def gen_n2n_case(r, cid, tran, tier):
    proto = r.choice(N2N_PROTOS)
    nm = r.range(1, 12)
    msgs, total = [], 0
    d = "a"
    big_budget = 1 if tier == "quick" else 2
    for _ in range(nm):
        if proto != "reqrep" and r.chance(1, 3):
            d = "b" if d == "a" else "a"
        n = size(r, tier, big_ok=big_budget > 0)
        if n > 5000:
            big_budget -= 1
        msgs.append(f"{d}/{hdr_for(r, proto)}/{gtok(r, n)}")
        total += n
    strip = 4 if proto == "reqrep" else 0
    # every third two-way case runs both directions AT THE SAME TIME (sends start while incoming frames are half read)
    duplex = " duplex=1" if proto != "reqrep" and any(m.startswith("b/") for m in msgs) and r.chance(1, 2) else ""
    return f"case {cid} n2n {tran} {proto} d rcvmax=0 {clamp_for(r, total)} strip={strip}{duplex} msgs=" + ";".join(msgs)


def directed_split_cases(tier):
    """every split point of every frame with payload 0..64 bytes (quick: a stride over the sizes for ipc/sfd,
    all for tcp), peer side, confirmed cut by cut; plus every-byte schedules"""
    cs = []
    for ti, tran in enumerate(STREAM_TRANS):
        for L in range(0, 65):
            if tier == "quick" and tran != "tcp" and L % 4 != ti:
                continue
            flen = HEADLEN[tran] + L
            msgs = [f"i/-/g{L + 1}:{L}/{p}/s" if L else f"i/-/-/{p}/s" for p in range(1, flen)]
            msgs.append(f"i/-/g{L + 7}:{L}/*/s" if L else "i/-/-/*/s")
            cs.append(f"case split-{tran}-{L} peer {tran} pair0 {'l' if tran == 'sfd' else 'dl'[L % 2]} rcvmax=0 "
                      f"clamp={L}:1000:- strip=0 msgs=" + ";".join(msgs))
        # raw headers 0..64 going out through a one-byte clamp: every write boundary of the three iov entries
        for hl in (0, 1, 4, 63, 64):
            msgs = [f"o/g{hl + 3}:{hl}/g{b + 11}:{b}/{st}" if hl else f"o/-/g{b + 11}:{b}/{st}"
                    for b, st in ((0, 0), (1, 1), (2, 0), (9, 3), (64, 0))]
            msgs = [m.replace("g11:0", "-") for m in msgs]
            cs.append(f"case hdr-{tran}-{hl} peer {tran} reqraw {'l' if tran == 'sfd' else 'd'} rcvmax=0 "
                      f"clamp={hl + 1}:0:1 strip=0 msgs=" + ";".join(msgs))
    return cs


# ------------------------------------------------------------------ evaluation
class CaseEval:
    def __init__(self, line):
        self.line = line
        w = line.split(" ")
        self.id, self.scn, self.tran, self.proto, self.role = w[1], w[2], w[3], w[4], w[5]
        self.rcvmax = int(next(x for x in w if x.startswith("rcvmax=")).split("=")[1])
        self.msgs = [m.split("/") for m in next(x for x in w if x.startswith("msgs="))[5:].split(";") if m]
        self.kind = KIND[self.tran]


def parse_result(l):
    nohook = l.startswith("nohook ")
    if nohook:
        l = l[7:]
    m = re.match(r"case (\S+) (\S+) hs=(\S+) ::(.*) :: clamp rd=(\d+)/(\d+) wr=(\d+)/(\d+) cuts=(\d+)/(\d+)$", l)
    if not m:
        return None
    res = [x.split("=", 1) for x in m.group(4).split()]
    return {"id": m.group(1), "status": m.group(2), "hs": m.group(3), "res": res, "nohook": nohook,
            "rd": (int(m.group(5)), int(m.group(6))), "wr": (int(m.group(7)), int(m.group(8))),
            "cuts": (int(m.group(9)), int(m.group(10)))}


def lean_lines(ce, res):
    """-> (spec lines, model lines, model expectations) for one executed case.
    model expectations: list of (index of the model output line, kind, expected text)"""
    spec, model, expect = [], [], []
    if ce.kind and ce.scn == "peer":
        model.append(f"rx {ce.kind} {ce.rcvmax}")
        model.append(f"hs {PROTO_NUM[ce.proto]}")
        expect.append((1, "hs", res["hs"]))
    # the judge looks at one direction of the connection at a time: messages of the other direction are
    # interleaved in the case but independent
    for d in sorted({m[0] for m in ce.msgs}):
        spec.append("#dir " + d)
        for m, (rd, rv) in zip(ce.msgs, res["res"]):
            if m[0] != d:
                continue
            if d == "o":
                h2, b2 = wire_of(ce.proto, m[1], m[2])
                spec.append(f"sent {h2} {b2}")
            elif d == "i":
                spec.append(f"sent {m[1]} {m[2]}")
            else:
                if ce.proto == "reqrep":
                    spec.append(f"sent {m[1]} {m[2]}")
                else:
                    h2, b2 = wire_of(ce.proto, m[1], m[2])
                    spec.append(f"sent {h2} {b2}")
        for m, (rd, rv) in zip(ce.msgs, res["res"]):
            if m[0] != d or rv.startswith("!"):
                continue
            flat = rv.split(",")[-1]
            spec.append(("recvd " + flat[1:]) if flat.startswith("D") else ("recv " + flat))
        spec.append("end")
    if ce.kind and ce.scn == "peer":
        for m, (rd, rv) in zip(ce.msgs, res["res"]):
            if rv.startswith("!"):
                continue
            if m[0] == "o":
                h2, b2 = wire_of(ce.proto, m[1], m[2])
                model.append(f"enc {ce.kind} {h2} {b2}")
                expect.append((len(model) - 1, "enc", "enc " + rv.split(",")[0]))
            elif m[0] == "i":
                model.append(f"feedenc {m[1]} {m[2]} {m[3]}")
                expect.append((len(model) - 1, "rx", "err=0 want=%d out=%s" % (HEADLEN[ce.tran], flat_digest(rv.split(",")[-1]))))
    return spec, model, expect


def _errtext(e):
    return e if len(e) <= 3600 else e[:1800] + "\n[...]\n" + e[-1800:]


def run_real(exe, lines, workers=None, timeout=900):
    parts = core.chunked(lines, workers or core.NCPU)
    env = build.env()
    # ipc socket files and per-process scratch directories live under one directory that is removed
    # afterwards, also when a harness process was killed by a sanitizer
    scratch = tempfile.mkdtemp(prefix="c01-")
    env["TMPDIR"] = scratch
    try:
        return _run_real(exe, parts, env, workers, timeout)
    finally:
        shutil.rmtree(scratch, ignore_errors=True)


def _run_real(exe, parts, env, workers, timeout):
    def work(part):
        r = core.run_stream([exe], "\n".join(part) + "\n", env=env, timeout=timeout)
        return part, r

    out = {}
    crashes, suspects = [], []
    for part, r in core.parallel_map(work, parts, workers or core.NCPU):
        got = [parse_result(l) for l in r.lines]
        got = [g for g in got if g]
        for g in got:
            out[g["id"]] = g
        if r.rc != 0 or len(got) != len(part):
            k = len(got)
            if k < len(part):
                crashes.append({"line": part[k], "rc": r.rc, "stderr": _errtext(r.err)})
            else:
                # every case completed, the process failed at exit (LeakSanitizer): find the case(s) by
                # running each one alone
                suspects.append((part, r))
    for part, r in suspects:
        def alone(c):
            for _ in range(3):
                q = core.run_stream([exe], c + "\n", env=env, timeout=timeout)
                if q.rc != 0:
                    return c, q
            return c, None
        hits = [(c, q) for c, q in core.parallel_map(alone, part, workers or core.NCPU) if q is not None]
        if hits:
            for c, q in hits[:2]:
                crashes.append({"line": c, "rc": q.rc, "stderr": _errtext(q.err), "reproduced_alone": True})
        else:
            crashes.append({"line": part[-1], "rc": r.rc, "stderr": _errtext(r.err), "reproduced_alone": False,
                            "chunk": part})
    return out, crashes


def evaluate(cases, results):
    """-> (violations, correspondence, missing, stats)"""
    ces = [CaseEval(l) for l in cases]
    todo = [(ce, results[ce.id]) for ce in ces if ce.id in results]
    metas = []
    for ce, res in todo:
        s, m, e = lean_lines(ce, res)
        metas.append((ce, res, s, m, e))
    # the Lean processes, in parallel chunks
    def chunks_of(metas_part, which):
        t = []
        for (_, _, s, m, _) in metas_part:
            t += ([x for x in s if not x.startswith("#")] if which == "s" else m) + ["reset"]
        return "\n".join(t) + "\n"

    parts = core.chunked(metas, core.NCPU)

    def work(part):
        rs = core.run_stream(lean.driver_cmd("spstream-spec"), chunks_of(part, "s"))
        rm = core.run_stream(lean.driver_cmd("spstream-model"), chunks_of(part, "m"))
        return part, core.split_cases(rs.lines)[0], core.split_cases(rm.lines)[0]

    viol, corr, missing = [], [], []
    stats = {"messages": 0, "o": 0, "i": 0, "a": 0, "b": 0}
    for part, sc, mc in core.parallel_map(work, parts):
        for k, (ce, res, s, m, e) in enumerate(part):
            sl = sc[k] if k < len(sc) else []
            ml = mc[k] if k < len(mc) else []
            sops = [x for x in s if not x.startswith("#")]
            bad = [(op, l) for op, l in zip(sops, sl) if l.startswith("BAD") and not l.startswith("BAD lost")]
            lost = [(op, l) for op, l in zip(sops, sl) if l.startswith("BAD lost")]
            fails = [f"{d}={rv}" for (d, rv) in res["res"] if rv.startswith("!")]
            # header re-parse: the receiving protocol finds its header again
            for mm, (rd, rv) in zip(ce.msgs, res["res"]):
                if rv.startswith("!"):
                    continue
                stats["messages"] += 1
                stats[mm[0]] += 1
                if mm[0] == "o":
                    continue
                got_hlen = int(rv.split(",")[0])
                if mm[0] == "i":
                    want = recv_hlen(ce.proto, ce.scn, 0, 0)
                else:
                    want = recv_hlen(ce.proto, ce.scn, tok_len(mm[1]), 0)
                if got_hlen != want:
                    bad.append((f"msg {'/'.join(mm)}", f"BAD header-reparse: header length {got_hlen}, expected {want}"))
            if len(sl) != len(sops):
                corr.append({"case": ce.line, "what": "specification driver produced no verdict", "got": sl[-3:]})
            if bad:
                viol.append({"case": ce.line, "result": res, "judge": [f"{op} -> {l}" for op, l in bad][:6]})
            elif lost or fails or res["status"] != "ok":
                missing.append({"case": ce.line, "status": res["status"], "failed_ops": fails[:6],
                                "judge": [l for _, l in lost]})
            else:
                for (idx, kind, want) in e:
                    got = ml[idx] if idx < len(ml) else "<none>"
                    if kind == "hs":
                        ok = got.split()[1:2] == [want]
                    else:
                        ok = got == want
                    if not ok:
                        corr.append({"case": ce.line, "what": f"model {kind}: `{m[idx]}`", "model": got, "impl": want})
                        break
    return viol, corr, missing, stats


def minimise_real(exe, line, budget_s=40):
    """ddmin over the message list of a violating REAL case"""
    head, msgs = line.split(" msgs=")
    msgs = [m for m in msgs.split(";") if m]

    def fails(ms):
        l = head + " msgs=" + ";".join(ms)
        r, c = run_real(exe, [l], workers=1, timeout=120)
        if c:
            return True
        vi, _, mi, _ = evaluate([l], r)
        return bool(vi) or bool(mi)

    try:
        if not fails(msgs):
            return line     # not reproducible alone (timing): keep the original
        return head + " msgs=" + ";".join(core.ddmin(msgs, fails, budget_s))
    except Exception:
        return line


# ------------------------------------------------------------------ run
def run(tier, seed, replay=None):
    t0 = time.time()
    v = core.Verdict(PROP, seed)
    core.clear_replays(PROP)
    st = lean.prepare(MODULES)
    core.log(PROP, f"lean: {len(st.discharged)}/{len(st.theorems)} theorems re-checked; extract {st.extract_count} constants "
                   f"(changed: {st.extract_changed}); {st.build_s:.1f}s")
    try:
        uexe = build.harness("u_sp", ["u_sp.c"])
        rexe = build.harness("r_stream", ["r_stream.c", "rawpeer.c"])
    except build.BuildError as e:
        v.violation("build", {"kind": "build", "error": str(e), "log": e.log[-4000:]}, no_input=True)
        core.write_evidence(PROP, tier, seed, "proof", {"obligations": len(st.theorems), "discharged": 0,
                            "checker_cmd": "lake build", "trusted_base": [], "explanation": "implementation or harness does not build"},
                            [], time.time() - t0, 1)
        return v.finish()

    quick = tier == "quick"
    n_unit = 1500 if quick else 20000
    n_peer = 400 if quick else 2700       # per stream transport
    n_n2n = {"inproc": 400, "ipc": 400, "tcp": 400, "sfd": 400, "ws": 400} if quick else \
            {"inproc": 8000, "ipc": 5300, "tcp": 5300, "sfd": 5300, "ws": 8000}
    found_input = False

    # ---- replay mode
    if replay:
        rp = json.load(open(replay))
        ucases = [rp["ops"]] if "ops" in rp else []
        rcases = [rp["case"]] if "case" in rp else []
    else:
        ucases = unit_directed()
        corpus = os.path.join(core.HERE, "corpus", PROP)
        rcases = []
        if os.path.isdir(corpus):
            for f in sorted(os.listdir(corpus)):
                ls = [l.strip() for l in open(os.path.join(corpus, f)) if l.strip() and not l.startswith("#")]
                if ls and ls[0].startswith("case "):
                    rcases += ls
                elif ls:
                    ucases.append(ls)
        for i in range(n_unit):
            ucases.append(gen_unit_case(core.Rng(seed, PROP, tier, "unit", i)))
        rcases += directed_split_cases(tier)
        for tran in STREAM_TRANS:
            for i in range(n_peer):
                rcases.append(gen_peer_case(core.Rng(seed, PROP, tier, "peer", tran, i), f"p-{tran}-{i}", tran, tier))
        for tran in N2N_TRANS:
            for i in range(n_n2n[tran]):
                rcases.append(gen_n2n_case(core.Rng(seed, PROP, tier, "n2n", tran, i), f"n-{tran}-{i}", tran, tier))

    # ---- UNIT
    ures = unit.run_unit(PROP, ucases, uexe, "spstream-spec" if st.driver_ok else None,
                         "spstream-model" if st.driver_ok else None, unit_proj_spec, judge=unit_judge,
                         spec_rewrite=unit_spec_rewrite)
    core.log(PROP, f"UNIT cases {ures.cases} ops {ures.ops}; spec mismatches {len(ures.spec_mismatch)}, model mismatches "
                   f"{len(ures.model_mismatch)}, crashes {len(ures.crashes)}")
    for c in ures.crashes[:2]:
        ops = unit.minimise(uexe, "spstream-spec", c["ops"], unit_proj_spec)
        v.violation(f"unit-crash-{c['case']}", {"kind": "sanitizer/crash in nni_aio_iov_* / nni_msg_pull_up", "ops": ops,
                                                "rc": c["rc"], "stderr": c["stderr"]})
        found_input = True
    for mm in ures.spec_mismatch[:2]:
        ops = mm["ops"] if mm["spec"] == "judge" else unit.minimise(uexe, "spstream-spec", mm["ops"], unit_proj_spec,
                                                                     spec_rewrite=unit_spec_rewrite)
        s = unit.single(uexe, "spstream-spec", None, ops, spec_rewrite=unit_spec_rewrite)
        v.violation(f"unit-spec-{mm['case']}", {
            "kind": "implementation differs from the specification (bytes designated by the iov / header++body after pull-up)",
            "ops": ops, "impl": s["impl"].lines, "spec": s["spec"].lines,
            "first": {k: mm[k] for k in ("impl", "spec", "op_index")}})
        found_input = True

    # ---- REAL
    results, crashes = run_real(rexe, rcases)
    nohook = any(r["nohook"] for r in results.values())
    viol, corr, missing, stats = evaluate(rcases, results) if st.driver_ok else ([], [], [], {})
    # cases that lost messages or timed out are re-run alone, unloaded: only a reproducible loss counts
    retried = 0
    aborted = sum(1 for r in results.values() if r["status"] == "FAIL:aborted-after-failures")
    missing = [m for m in missing if m["status"] != "FAIL:aborted-after-failures"]
    if missing:
        again = [m["case"] for m in missing][:8]
        retried = len(again)
        r2, c2 = run_real(rexe, again, workers=8)
        v2, k2, m2, _ = evaluate(again, r2)
        viol += v2
        corr += k2
        missing = m2
        crashes += c2
    per_tran = {}
    clamp = {"rd_calls": 0, "rd_fired": 0, "wr_calls": 0, "wr_fired": 0, "cuts_confirmed": 0, "cuts_attempted": 0}
    for l in rcases:
        w = l.split(" ")
        key = f"{w[2]}:{w[3]}"
        r = results.get(w[1])
        d = per_tran.setdefault(key, {"sequences": 0, "executed": 0, "messages": 0, "rd_fired": 0, "wr_fired": 0, "cuts_confirmed": 0})
        d["sequences"] += 1
        if r:
            d["executed"] += 1
            d["messages"] += sum(1 for _, rv in r["res"] if not rv.startswith("!"))
            d["rd_fired"] += r["rd"][1]; d["wr_fired"] += r["wr"][1]; d["cuts_confirmed"] += r["cuts"][0]
            clamp["rd_calls"] += r["rd"][0]; clamp["rd_fired"] += r["rd"][1]
            clamp["wr_calls"] += r["wr"][0]; clamp["wr_fired"] += r["wr"][1]
            clamp["cuts_confirmed"] += r["cuts"][0]; clamp["cuts_attempted"] += r["cuts"][1]
    core.log(PROP, f"REAL sequences {len(rcases)} executed {len(results)} messages {stats.get('messages', 0)}; violations {len(viol)}, "
                   f"model differences {len(corr)}, lost/timeouts after retry {len(missing)} (retried {retried}), crashes {len(crashes)}; "
                   f"clamp fired rd {clamp['rd_fired']} wr {clamp['wr_fired']}, peer cuts confirmed {clamp['cuts_confirmed']}/{clamp['cuts_attempted']}"
                   + ("; NNG_VERIF clamp hook ABSENT in this tree" if nohook else ""))
    for c in crashes[:2]:
        v.violation(f"real-crash-{len(v.violations)}", {"kind": "sanitizer/crash/hang of the implementation in a REAL scenario",
                                                        "case": c["line"], "rc": c["rc"], "stderr": c["stderr"],
                                                        "how": "./check C01 --replay <this file>"})
        found_input = True
    for n, x in enumerate(viol[:3]):
        cl = x["case"].split(" ")
        v.violation(f"real-{cl[1]}", {"kind": "received sequence differs from sent sequence (truncated/merged/altered/duplicated/reordered)",
                                      "transport": cl[3], "protocol": cl[4],
                                      "case": minimise_real(rexe, x["case"]) if n == 0 and not replay else x["case"],
                                      "original_case": x["case"], "judge": x["judge"],
                                      "seed": seed, "result": x["result"]["res"][:40], "how": "./check C01 --replay <this file>"})
        found_input = True
    for x in missing[:3]:
        cl = x["case"].split(" ")
        v.violation(f"real-lost-{cl[1]}", {"kind": "message accepted by send never delivered on a live connection (reproduced when re-run alone)",
                                           "transport": cl[3], "protocol": cl[4], "case": x["case"], "status": x["status"],
                                           "failed_ops": x["failed_ops"], "judge": x["judge"], "seed": seed})
        found_input = True
    if not found_input:
        if ures.model_mismatch:
            mm = ures.model_mismatch[0]
            ops = unit.minimise(uexe, "spstream-model", mm["ops"], lambda l: l)
            s = unit.single(uexe, None, "spstream-model", ops)
            v.violation("corr-unit", {"kind": "correspondence broken: nni_aio_iov_* / nni_msg_pull_up differ from the Lean model the C01 "
                                              "theorems are about (no input violating the specification was found)",
                                      "correspondence": "spstream-model vs u_sp", "ops": ops, "impl": s["impl"].lines,
                                      "model": s["model"].lines, "mismatching_cases": len(ures.model_mismatch)}, no_input=True)
        if corr:
            v.violation("corr-real", {"kind": "correspondence broken: wire bytes / receive machine / negotiation bytes differ from the Lean model "
                                              "(deliveries were still correct)", "first": corr[0], "count": len(corr)}, no_input=True)
        if not st.ok:
            v.violation("proof", {"kind": "proof obligation no longer checks", "broken": st.broken, "log": st.log[-3000:]}, no_input=True)
    if nohook:
        v.known_finding("limitation: the tree under test does not carry the NNG_VERIF short-I/O clamp (integration/fixes/hook_io_clamp.patch); "
                        "nng-side cuts were not exercised")
    distinct = len({l.split(" msgs=")[1] for l in rcases if " msgs=" in l}) + len({tuple(c) for c in ucases})
    cov = {
        "obligations": len(st.theorems), "discharged": len(st.discharged),
        "checker_cmd": "lake build NngModel.Props.C01 && lake env lean <#print axioms for each theorem>",
        "trusted_base": ["Lean 4.33.0 kernel", "axioms: " + ", ".join(sorted({a for x in st.axioms.values() if x for a in x})),
                         "vlib/extract_c01.py (header widths, handshake bytes, size rule, NNI_AIO_MAX_IOV)",
                         "harness/u_sp.c + vlib/unit.py (UNIT correspondence)",
                         "harness/rawpeer.c + harness/r_stream.c (REAL executor; the raw peer is the reference SP receiver/sender)",
                         "Linux kernel sockets and epoll (exercised, not modelled)", "gcc ASan/UBSan on the implementation"],
        "theorems": st.discharged, "axioms": st.axioms, "broken": st.broken,
        "evaluations": len(results) + ures.cases, "distinct_nontrivial": distinct,
        "rule": "UNIT: iov shapes (0-9 entries, lengths 0-40) advanced to exhaustion in random steps, pull-up over body sizes/trim/chop/"
                "header/refcount/failing allocation. REAL: message sequences (1-12 messages, size palette with boundaries, raw headers 0-64) "
                "from splitmix64(seed,C01,tier,kind,transport,i); peer-side cuts: every split point of every frame with payload 0-64 (directed) "
                "and sampled cuts above; nng-side cuts by the seeded clamp; distinct = distinct message lists + distinct UNIT op lists",
        "unit": {"cases": ures.cases, "ops": ures.ops, "op_histogram": ures.op_hist, "spec_mismatches": len(ures.spec_mismatch),
                 "model_mismatches": len(ures.model_mismatch), "crashes": len(ures.crashes)},
        "real": {"sequences": len(rcases), "executed": len(results), "per_transport": per_tran, "clamp": clamp, "stats": stats,
                 "violations": len(viol), "model_differences": len(corr), "lost_after_retry": len(missing), "retried": retried,
                 "crashes": len(crashes), "clamp_hook_present": not nohook,
                 "skipped_after_failures_in_their_process": aborted},
        "samples": [rcases[0][:400], rcases[len(rcases) // 2][:400], rcases[-1][:400]] if rcases else [],
        "extract_changed": st.extract_changed,
    }
    core.write_evidence(PROP, tier, seed, "proof", cov,
                        ["Model/SpStream.lean mirrors tcp.c/ipc.c/sockfd.c framing, aio.c iov bookkeeping and nni_msg_pull_up; tie = UNIT "
                         "differential execution and REAL wire-byte / delivery comparison on the cases above",
                         "readv/sendmsg never report more bytes than requested (precondition of nni_aio_iov_advance)",
                         "the receiving application keeps receiving (the model's re-arm after each delivery)",
                         "websocket framing itself is property C16; ws:// is covered end-to-end only"], time.time() - t0, len(v.violations))
    return v.finish()
