"""C16, part U — SHA-1 (sha1.c), ws_make_accept and the WebSocket opening handshake on both sides (websocket.c ws_handler,
ws_http_cb_dialer, ws_conn_cb, ws_contains_word).

UNIT executors:
  harness/u_sha1.c  — the real nni_sha1_init/update/final/nni_sha1 from libnng.a, driven by init / update <hex> / final;
  harness/u_wsup.c  — #includes the real websocket.c; ws_handler is called on a real HTTP connection object whose request
                      was parsed by the real nni_http_read_req; ws_dialer_dial runs ws_conn_cb and ws_http_cb_dialer over a
                      fake byte stream (only nni_http_client_connect, the stream under the HTTP connection and nni_random
                      are replaced); ws_make_accept and ws_contains_word are also called directly.
Three-way differential per op line: implementation / Lean specification (`sha1-spec` = FIPS 180-4 one shot, `wsup-spec` =
the rule tables of Spec/WsUpgrade.lean with RFC 7230's reading of header lines) / Lean model (`sha1-model`, `wsup-model`:
what the theorems of Props/C16Sha1.lean and Props/C16Upgrade.lean are about).
  impl != spec  -> VIOLATION with a minimised replay (ops; for a handshake op also the header lines are minimised)
  impl != model only, or a theorem / axiom audit failure -> VIOLATION ... no-failing-input-found
Entry points: run(tier, seed, replay) (stand-alone: `./check c16_upgrade quick`) and
run_upgrade_part(tier, seed, st, replay) -> (counts, [(tag, payload, no_input)]) for vlib/props/c16.py.
"""
import re, os, json, time, base64, hashlib
from .. import core, build, lean, unit

PROP = "C16"
SUB = "upgrade"
MODULES = ["NngModel.Props.C16Sha1", "NngModel.Props.C16Upgrade"]
GUID = b"258EAFA5-E914-47DA-95CA-C5AB0DC85B11"   # only used to build *stimuli* (a correct accept value); never for a verdict
RULE = ("sha1: per case i (splitmix64(seed,C16,tier,upgrade,sha1,i)) a message (random, all-zero, all-0xff, 0x80 runs) of a length from "
        "{0,1,2,54..58,62..66,118..122,126..130,183,184,191,192,193,255,256} or random up to 4 KB (thorough: up to 64 KB), fed as init, "
        "updates under a segmentation (whole, bytewise, fixed 1..130, cuts at 64k-1/64k/64k+1, random cuts with empty segments), "
        "final, then the one-call nni_sha1 of the same bytes; a tenth of the cases continue after final (update/final again: model "
        "only, no specified meaning); directed: every length 0..200 whole and every 2-cut of the lengths 55..66. "
        "handshake: per case 10 ops: server requests = a valid upgrade request with 0-3 of ~70 mutations (method, version, each of "
        "Upgrade / Connection / Sec-WebSocket-Version / -Key / -Protocol value variants incl. case, comma/space separation, prefixes, "
        "suffixes, missing, empty, repeated header lines, header-name case, blanks around values, Content-Length and "
        "Transfer-Encoding variants, listener closed, listener protocol variants), shuffled header order; client responses = status "
        "from {101 x8,100,200,301,400,401,403,404,405,426,500,501,503,999}, correct or perturbed Sec-WebSocket-Accept for the op's "
        "random nonce, Upgrade / Connection / Protocol / Extensions variants, dialer protocol variants; ws_make_accept on keys of "
        "length 0..40; ws_contains_word on phrases over {a,b,A,' ',','} (length 0..12) x words (length 0..4) and on real header values")


def hx(b):
    return core.hexs(bytes(b))


# ------------------------------------------------------------------------------------------ SHA-1 cases
EDGE = [0, 1, 2, 54, 55, 56, 57, 58, 62, 63, 64, 65, 66, 118, 119, 120, 121, 122, 126, 127, 128, 129, 130, 183, 184, 191, 192, 193,
        255, 256]


def gen_msg(r, n):
    k = r.below(8)
    if k == 0:
        return bytes(n)
    if k == 1:
        return b"\xff" * n
    if k == 2:
        return b"\x80" * n
    return r.bytes(n)


def cuts_to_ops(msg, cuts):
    """cuts: sorted positions (may repeat, 0 and len allowed) -> update ops"""
    ops = []
    prev = 0
    for c in list(cuts) + [len(msg)]:
        ops.append("update " + hx(msg[prev:c]))
        prev = c
    return ops


def gen_seg(r, n):
    k = r.below(7)
    if k == 0 or n == 0:
        return [] if r.chance(2, 3) else [0]
    if k == 1 and n <= 300:
        return list(range(1, n))
    if k == 2:
        st = r.range(1, 130)
        return list(range(st, n, st))
    if k == 3:
        c = set()
        for b in range(64, n + 65, 64):
            for d in (-1, 0, 1):
                if r.chance(1, 2) and 0 <= b + d <= n:
                    c.add(b + d)
        return sorted(c)
    m = r.range(1, 12)
    c = sorted(r.below(n + 1) for _ in range(m))
    if r.chance(1, 3):
        c = sorted(c + [c[r.below(len(c))]])  # an empty segment
    return c


def gen_sha_case(r, idx, tier):
    if r.chance(1, 2):
        n = r.choice(EDGE)
    elif r.chance(1, 12) and tier != "quick":
        n = r.range(4096, 65536)
    else:
        n = r.range(0, 4096) if r.chance(1, 3) else r.range(0, 300)
    msg = gen_msg(r, n)
    ops = ["init %d" % r.below(256)] + cuts_to_ops(msg, gen_seg(r, n)) + ["final", "hash " + hx(msg)]
    return ops


def gen_sha_misuse(r, idx):
    ops = ["init %d" % r.below(256)]
    for _ in range(r.range(2, 6)):
        k = r.below(3)
        if k == 0:
            ops.append("final")
        else:
            ops.append("update " + hx(gen_msg(r, r.choice(EDGE + [3, 70]))))
    ops.append("final")
    return ops


def sha_directed():
    cases = []
    for n in range(0, 201):
        msg = bytes((i * 7 + n) & 0xff for i in range(n))
        cases.append(["init 0", "update " + hx(msg), "final", "hash " + hx(msg)])
    for n in range(55, 67):
        msg = bytes((i * 13 + 1) & 0xff for i in range(n))
        for c in range(0, n + 1):
            cases.append(["init 255", "update " + hx(msg[:c]), "update " + hx(msg[c:]), "final"])
    # the FIPS 180-4 / RFC 3174 vectors
    for m in (b"abc", b"", b"abcdbcdecdefdefgefghfghighijhijkijkljklmklmnlmnomnopnopq", b"a" * 1000):
        cases.append(["init 90", "update " + hx(m), "final", "hash " + hx(m)])
    return cases


# ------------------------------------------------------------------------------------------ handshake cases
def b64(b):
    return base64.b64encode(b)


def accept_for(key):
    return b64(hashlib.sha1(key + GUID).digest())


def enc_lines(lines):
    if not lines:
        return "-"
    return ";".join(hx(n) + "=" + hx(v) for n, v in lines)


def opt(x):
    return "~" if x is None else hx(x)


UPG = [b"websocket"] * 6 + [b"WebSocket", b"WEBSOCKET", b"websocket, foo", b"foo, websocket", b"foo,websocket", b"foo websocket",
                            b"websocketx", b"xwebsocket", b"web socket", b"", None, b"websocket,", b", websocket", b"h2c, websocket",
                            b"websocket/13", b"foo,, websocket", b"foo , websocket", b"websocket foo"]
CONN = [b"Upgrade"] * 6 + [b"upgrade", b"UPGRADE", b"keep-alive, Upgrade", b"keep-alive,Upgrade", b"Upgrade, keep-alive", b"close",
                           b"keep-alive Upgrade", b"Upgradex", None, b"", b" ,Upgrade", b"upgrade ,x", b",, upgrade", b"xupgrade",
                           b"keep-alive,  upgrade", b"upgrade,keep-alive"]
WSV = [b"13"] * 8 + [b"12", b"13, 8", b"013", b"", None, b"8", b"1 3", b"13x"]
LPROTO = [None] * 6 + [b"a", b"a", b"pair.sp.nanomsg.org", b"a, b", b"a b", b"", b"b,a"]
CPROTO = [None] * 6 + [b"a", b"a", b"b", b"A", b"a, b", b"b, a", b"pair.sp.nanomsg.org", b"", b"a,", b"ab"]
CLEN = [None] * 12 + [b"0", b"5", b"-1", b"4294967296", b"abc", b"+3", b"00", b"4294967297", b"99999999999999999999", b"2147483648"]
TENC = [None] * 14 + [b"chunked", b"Chunked", b"gzip, chunked", b"gzip", b"xchunkedx", b"CHUNKED"]
METH = [b"GET"] * 12 + [b"HEAD", b"POST", b"get", b"PUT", b"OPTIONS"]
VERS = [b"HTTP/1.1"] * 12 + [b"HTTP/1.0", b"HTTP/1.0"]


def name_case(r, n):
    k = r.below(8)
    if k == 0:
        return n.lower()
    if k == 1:
        return n.upper()
    return n


def blanks(r, v):
    k = r.below(8)
    if k == 0:
        return b" " + v
    if k == 1:
        return v + b" "
    if k == 2:
        return b"   " + v + b"  "
    if k == 3:
        return v
    return b" " + v


def gen_key(r):
    k = r.below(12)
    if k < 7:
        return b64(r.bytes(16))
    if k == 7:
        return b64(r.bytes(16))[:23]
    if k == 8:
        return b64(r.bytes(18))
    if k == 9:
        return bytes(r.choice(b"!#$%&*@~abcXYZ019+/=") for _ in range(24))
    if k == 10:
        return b""
    return None


def gen_srv(r):
    mut = r.below(4)  # how many fields deviate from the plain valid request
    fields = {"Upgrade": b"websocket", "Connection": b"Upgrade", "Sec-WebSocket-Version": b"13", "Sec-WebSocket-Key": b64(r.bytes(16)),
              "Sec-WebSocket-Protocol": None, "Content-Length": None, "Transfer-Encoding": None}
    meth, vers, closed, lproto = b"GET", b"HTTP/1.1", 0, None
    if r.chance(1, 3):
        lproto = r.choice(LPROTO)
        fields["Sec-WebSocket-Protocol"] = lproto if r.chance(2, 3) else r.choice(CPROTO)
    for _ in range(mut):
        w = r.below(11)
        if w == 0:
            fields["Upgrade"] = r.choice(UPG)
        elif w == 1:
            fields["Connection"] = r.choice(CONN)
        elif w == 2:
            fields["Sec-WebSocket-Version"] = r.choice(WSV)
        elif w == 3:
            fields["Sec-WebSocket-Key"] = gen_key(r)
        elif w == 4:
            fields["Sec-WebSocket-Protocol"] = r.choice(CPROTO)
        elif w == 5:
            lproto = r.choice(LPROTO)
        elif w == 6:
            fields["Content-Length"] = r.choice(CLEN)
        elif w == 7:
            fields["Transfer-Encoding"] = r.choice(TENC)
        elif w == 8:
            meth = r.choice(METH)
        elif w == 9:
            vers = r.choice(VERS)
        else:
            closed = 1 if r.chance(1, 3) else 0
    lines = [(b"Host", b" h")]
    for n, v in fields.items():
        if v is None:
            continue
        nb = n.encode()
        if n in ("Connection", "Upgrade", "Sec-WebSocket-Protocol") and b", " in v and r.chance(1, 2):
            # the same list sent as repeated header lines
            for part in v.split(b", "):
                lines.append((name_case(r, nb), blanks(r, part)))
        else:
            lines.append((name_case(r, nb), blanks(r, v)))
    if r.chance(1, 3):
        lines.append((r.choice([b"Origin", b"User-Agent", b"X-Foo", b"Sec-WebSocket-Extensions", b"Cookie"]), b" " + r.choice([b"x", b"http://h", b"a=b; c=d"])))
    # shuffle (Fisher-Yates on the deterministic stream)
    for i in range(len(lines) - 1, 0, -1):
        j = r.below(i + 1)
        lines[i], lines[j] = lines[j], lines[i]
    return "srv %d %s %s %s %s" % (closed, opt(lproto), hx(meth), hx(vers), enc_lines(lines))


STATUS = [101] * 8 + [100, 200, 301, 400, 401, 403, 404, 405, 426, 500, 501, 503, 999]
REASON = {101: b"Switching Protocols", 200: b"OK", 404: b"Not Found", 403: b"Forbidden", 401: b"Unauthorized"}


def gen_cli(r):
    nonce = r.bytes(16)
    key = b64(nonce)
    good = accept_for(key)
    dproto = r.choice([None] * 6 + [b"a", b"pair.sp.nanomsg.org", b"a, b", b"", b"b a"])
    status = r.choice(STATUS)
    fields = {"Upgrade": b"websocket", "Connection": b"Upgrade", "Sec-WebSocket-Accept": good,
              "Sec-WebSocket-Protocol": (dproto if dproto is not None and r.chance(3, 4) else None)}
    for _ in range(r.below(3)):
        w = r.below(5)
        if w == 0:
            fields["Upgrade"] = r.choice([b"WebSocket", b"WEBSOCKET", b"websocket, x", None, b"", b"websockets", b"websocket"])
        elif w == 1:
            fields["Connection"] = r.choice(CONN)
        elif w == 2:
            k = r.below(7)
            bad = bytearray(good)
            if k == 0:
                bad[r.below(len(bad))] ^= 1
            elif k == 1:
                bad = bad[:-1]
            elif k == 2:
                bad = bytearray(good.swapcase())
            elif k == 3:
                bad = bytearray(accept_for(b64(r.bytes(16))))
            elif k == 4:
                bad = bytearray(good + b"=")
            elif k == 5:
                bad = bytearray(b"")
            else:
                bad = None
            fields["Sec-WebSocket-Accept"] = bytes(bad) if bad is not None else None
        elif w == 3:
            fields["Sec-WebSocket-Protocol"] = r.choice([None, b"a", b"b", b"A", b"a, b", b"pair.sp.nanomsg.org", b"", b"ab"])
        else:
            fields["Sec-WebSocket-Extensions"] = b"permessage-deflate"
    lines = []
    for n, v in fields.items():
        if v is None:
            continue
        lines.append((name_case(r, n.encode()), blanks(r, v)))
        if n == "Sec-WebSocket-Accept" and r.chance(1, 25):
            lines.append((n.encode(), b" " + v))  # repeated: joined with ", " -> no longer equal
    if r.chance(1, 4):
        lines.append((r.choice([b"Server", b"Date", b"X-Foo"]), b" x"))
    for i in range(len(lines) - 1, 0, -1):
        j = r.below(i + 1)
        lines[i], lines[j] = lines[j], lines[i]
    return "cli %s %s %d %s %s" % (hx(nonce), opt(dproto), status, hx(REASON.get(status, b"Status")), enc_lines(lines))


def gen_word(r):
    if r.chance(1, 3):
        return "word %s %s" % (hx(r.choice([x for x in UPG + CONN + LPROTO + CPROTO if x is not None])),
                               hx(r.choice([b"websocket", b"upgrade", b"a", b"b", b"a, b", b"", b"pair.sp.nanomsg.org", b"Upgrade"])))
    al = b"abA ,"
    p = bytes(al[r.below(len(al))] for _ in range(r.range(0, 12)))
    w = bytes(al[r.below(len(al))] for _ in range(r.range(0, 4)))
    return "word %s %s" % (hx(p), hx(w))


def gen_accept(r):
    n = 24 if r.chance(1, 2) else r.range(0, 40)
    return "accept " + hx(bytes(r.choice(b"ABCDEFGHIJKLMNOPQRSTUVWXYZabcdefghijklmnopqrstuvwxyz0123456789+/=!") for _ in range(n)))


def gen_hs_case(r, idx):
    ops = []
    for _ in range(10):
        k = r.below(10)
        if k < 4:
            ops.append(gen_srv(r))
        elif k < 7:
            ops.append(gen_cli(r))
        elif k < 9:
            ops.append(gen_word(r))
        else:
            ops.append(gen_accept(r))
    return ops


def hs_directed():
    key = b"dGhlIHNhbXBsZSBub25jZQ=="
    base = [(b"Host", b" h"), (b"Upgrade", b" websocket"), (b"Connection", b" Upgrade"), (b"Sec-WebSocket-Key", b" " + key),
            (b"Sec-WebSocket-Version", b" 13")]
    cases = [["srv 0 ~ %s %s %s" % (hx(b"GET"), hx(b"HTTP/1.1"), enc_lines(base)),
              "srv 1 ~ %s %s %s" % (hx(b"GET"), hx(b"HTTP/1.1"), enc_lines(base)),
              "srv 0 ~ %s %s %s" % (hx(b"GET"), hx(b"HTTP/1.0"), enc_lines(base)),
              "srv 0 ~ %s %s %s" % (hx(b"HEAD"), hx(b"HTTP/1.1"), enc_lines(base)),
              "accept " + hx(key)]]
    # every single Upgrade / Connection / version variant on an otherwise valid request
    ops = []
    for i, (n, vals) in enumerate(((b"Upgrade", UPG), (b"Connection", CONN), (b"Sec-WebSocket-Version", WSV), (b"Content-Length", CLEN),
                                   (b"Transfer-Encoding", TENC))):
        for v in sorted({x for x in vals if x is not None}) + [None]:
            lines = [(a, b) for a, b in base if a != n] + ([(n, b" " + v)] if v is not None else [])
            ops.append("srv 0 ~ %s %s %s" % (hx(b"GET"), hx(b"HTTP/1.1"), enc_lines(lines)))
    for lp in sorted({x for x in LPROTO if x is not None}) + [None]:
        for cp in sorted({x for x in CPROTO if x is not None}) + [None]:
            lines = base + ([(b"Sec-WebSocket-Protocol", b" " + cp)] if cp is not None else [])
            ops.append("srv 0 %s %s %s %s" % (opt(lp), hx(b"GET"), hx(b"HTTP/1.1"), enc_lines(lines)))
    cases += [ops[i:i + 12] for i in range(0, len(ops), 12)]
    # the client with every status, and the RFC example
    nonce = b"the sample nonce"
    good = [(b"Upgrade", b" websocket"), (b"Connection", b" Upgrade"), (b"Sec-WebSocket-Accept", b" s3pPLMBiTxaQ9kYGzzhZRbK+xOo=")]
    ops = ["cli %s ~ %d %s %s" % (hx(nonce), s, hx(b"X"), enc_lines(good)) for s in sorted(set(STATUS))]
    for dp in (b"a", b"a, b", b""):
        for sp in (None, b"a", b"b", b"a, b", b""):
            ops.append("cli %s %s 101 %s %s" % (hx(nonce), opt(dp), hx(b"X"),
                                                 enc_lines(good + ([(b"Sec-WebSocket-Protocol", b" " + sp)] if sp is not None else []))))
    cases += [ops[i:i + 12] for i in range(0, len(ops), 12)]
    return cases


# ------------------------------------------------------------------------------------------ minimisation of one handshake op
def dec_lines(w):
    if w == "-":
        return []
    return [tuple(p.split("=")) for p in w.split(";") if p]


def min_hs_op(exe, comp, op, budget_s=30):
    """drop header lines of a srv/cli op while implementation and the Lean component still disagree"""
    ws = op.split()
    if ws[0] not in ("srv", "cli"):
        return op
    env = build.env()
    t0 = time.time()

    def differ(o):
        a = core.run_stream([exe], o + "\n", env=env, timeout=60)
        b = core.run_stream(lean.driver_cmd(comp), o + "\n", timeout=60)
        return a.rc != 0 or a.lines[:1] != b.lines[:1]

    lines = dec_lines(ws[5])
    i = 0
    while i < len(lines) and time.time() - t0 < budget_s:
        cand = lines[:i] + lines[i + 1:]
        o = " ".join(ws[:5] + [";".join(n + "=" + v for n, v in cand) or "-"])
        if differ(o):
            lines = cand
        else:
            i += 1
    return " ".join(ws[:5] + [";".join(n + "=" + v for n, v in lines) or "-"])


def readable(op):
    """a human-readable rendering of a handshake op for the replay file"""
    ws = op.split()
    try:
        if ws[0] in ("srv", "cli"):
            hd = [(bytes.fromhex(n).decode("latin1") + ":" + (bytes.fromhex(v).decode("latin1") if v != "-" else "")) for n, v in dec_lines(ws[5])]
            f = [w if w in ("~", "-") or not all(c in "0123456789abcdef" for c in w) or len(w) % 2 else bytes.fromhex(w).decode("latin1") for w in ws[1:5]]
            return {"op": ws[0], "args": f, "header_lines": hd}
    except Exception:
        pass
    return {"op": op[:300]}


def conf_query(op, impl_line):
    """`conf <key> <offered|~> 101 <lines>` for an `srv` op the implementation answered with a 101 head, else None"""
    ws = op.split()
    m = re.match(r"srv st=101 res=([0-9a-f]*)$", impl_line.strip())
    if not ws or ws[0] != "srv" or not m:
        return None
    req = [(bytes.fromhex(n), bytes.fromhex(v) if v != "-" else b"") for n, v in dec_lines(ws[5])]
    get = lambda name: [v for n, v in req if n.lower() == name]
    keys, offers = get(b"sec-websocket-key"), get(b"sec-websocket-protocol")
    if len(keys) != 1:
        return None          # no single key: nothing a conforming client could have sent
    head = bytes.fromhex(m.group(1)).split(b"\r\n\r\n")[0].split(b"\r\n")
    lines = []
    for l in head[1:]:
        n, _, v = l.partition(b":")
        lines.append((n, v))
    offer = b", ".join(o.strip(b" \t") for o in offers) if offers else None
    return "conf %s %s 101 %s" % (hx(keys[0].strip(b" \t")), opt(offer), enc_lines(lines))


def min_hs_op_conf(exe, op):
    """drop request header lines while the implementation still emits a non-conforming 101"""
    ws = op.split()
    lines = dec_lines(ws[5])

    def bad(ls):
        o = " ".join(ws[:5] + [";".join(n + "=" + v for n, v in ls) or "-"])
        r = unit.single(exe, None, None, [o])
        il = [l for l in r["impl"].lines if l.startswith("srv ")]
        q = conf_query(o, il[-1]) if il else None
        if not q:
            return False
        a = core.run_stream(lean.driver_cmd("wsup-conf"), q + "\n").lines
        return bool(a) and a[0].strip() == "conf 0"
    i = 0
    while i < len(lines):
        t = lines[:i] + lines[i + 1:]
        if bad(t):
            lines = t
        else:
            i += 1
    return " ".join(ws[:5] + [";".join(n + "=" + v for n, v in lines) or "-"])


# ------------------------------------------------------------------------------------------ the run
class Part:
    def __init__(self, name, harness, spec, model):
        self.name, self.harness, self.spec, self.model = name, harness, spec, model
        self.cases, self.model_only, self.exe = [], [], None


def run_upgrade_part(tier, seed, st, replay=None):
    t0 = time.time()
    counts = {"cases": 0, "ops": 0, "spec": 0, "model": 0, "crash": 0, "op_hist": {}, "rv_hist": {}, "samples": [], "distinct": 0,
              "wall_s": 0.0, "sha_bytes": 0}
    viol = []
    parts = [Part("sha1", ("u_sha1", ["u_sha1.c"]), "sha1-spec", "sha1-model"),
             Part("wsup", ("u_wsup", ["u_wsup.c"]), "wsup-spec", "wsup-model")]
    try:
        for p in parts:
            p.exe = build.harness(*p.harness)
    except build.BuildError as e:
        viol.append(("upgrade-build", {"kind": "build", "sub": SUB, "error": str(e), "log": e.log[-4000:]}, True))
        return counts, viol
    by = {p.name: p for p in parts}
    if replay:
        rp = json.load(open(replay))
        if rp.get("sub") != SUB or rp.get("part") not in by:
            return counts, viol
        by[rp["part"]].cases = [rp["ops"]]
    else:
        nsha = 1200 if tier == "quick" else 30000
        nhs = 1200 if tier == "quick" else 25000
        by["sha1"].cases = sha_directed() + [gen_sha_case(core.Rng(seed, PROP, tier, SUB, "sha1", i), i, tier) for i in range(nsha)]
        by["sha1"].model_only = [gen_sha_misuse(core.Rng(seed, PROP, tier, SUB, "sha1x", i), i) for i in range(nsha // 10)]
        by["wsup"].cases = hs_directed() + [gen_hs_case(core.Rng(seed, PROP, tier, SUB, "hs", i), i) for i in range(nhs)]
        corpus = os.path.join(core.HERE, "corpus", PROP)
        if os.path.isdir(corpus):
            for f in sorted(os.listdir(corpus)):
                for p in parts:
                    if f.startswith("upgrade-" + p.name + "-"):
                        p.cases.append([l.strip() for l in open(os.path.join(corpus, f)) if l.strip() and not l.startswith("#")])
    found_input = False
    corr = None
    ident = lambda l: l
    for p in parts:
        if not p.cases and not p.model_only:
            continue
        with_lean = bool(st.driver_ok)
        emitted = []   # (case ops up to and including the op, conf query) for every 101 response the implementation wrote

        def collect(ops, il, _acc=emitted):
            for k, (o, l) in enumerate(zip(ops, il)):
                q = conf_query(o, l)
                if q:
                    _acc.append((ops[:k + 1], q))
            return None
        res = unit.run_unit(PROP, p.cases, p.exe, p.spec if with_lean else None, p.model if with_lean else None, ident,
                            judge=collect if p.name == "wsup" else None)
        if p.name == "wsup" and with_lean and emitted:
            r_ = core.run_stream(lean.driver_cmd("wsup-conf"), "\n".join(q for _, q in emitted) + "\n")
            bad = [(ops, q) for (ops, q), a in zip(emitted, r_.lines) if a.strip() != "conf 1"]
            counts["emitted_101_judged"] = len(emitted)
            counts["emitted_101_nonconforming"] = len(bad) + (0 if len(r_.lines) == len(emitted) else 1)
            if len(r_.lines) != len(emitted):
                viol.append(("upgrade-wsup-conf-judge", {"kind": "the conformance judge (wsup-conf) did not answer every query", "sub": SUB,
                                                         "part": "wsup", "answers": len(r_.lines), "queries": len(emitted)}, True))
            for ops, q in bad[:2]:
                last = min_hs_op_conf(p.exe, ops[-1])
                viol.append((f"upgrade-wsup-emit-{len(viol)}",
                             {"kind": "the 101 response the implementation emitted is not acceptable to a conforming RFC 6455 client "
                                      "(Spec/WsUpgrade.lean clientRequiresB: status, Upgrade, Connection, exact accept value, no unrequested "
                                      "extension, subprotocol = ONE of the offered tokens)", "sub": SUB, "part": "wsup", "ops": [last],
                              "readable": [readable(last)], "conf_query": q[:800]}, False))
                counts["spec"] += 1
                found_input = True
        res2 = unit.run_unit(PROP, p.model_only, p.exe, None, p.model if with_lean else None, ident) if p.model_only else None
        nops = res.ops + (res2.ops if res2 else 0)
        counts["cases"] += res.cases + (res2.cases if res2 else 0)
        counts["ops"] += nops
        crashes = res.crashes + (res2.crashes if res2 else [])
        mm_model = res.model_mismatch + (res2.model_mismatch if res2 else [])
        counts["spec"] += len(res.spec_mismatch); counts["model"] += len(mm_model); counts["crash"] += len(crashes)
        counts["op_hist"][p.name] = res.op_hist
        counts["rv_hist"][p.name] = res.rv_hist
        allc = p.cases + p.model_only
        counts["distinct"] += len({tuple(c) for c in allc if len(c) > 1})
        counts["samples"] += [{"sub": SUB, "part": p.name, "ops": [o[:200] for o in c]} for c in (allc[0], allc[len(allc) // 2], allc[-1])]
        if p.name == "sha1":
            counts["sha_bytes"] = sum((len(o) - 7) // 2 for c in allc for o in c if o.startswith("update ") and o != "update -")
        core.log(PROP, f"upgrade/{p.name}: cases {res.cases + (res2.cases if res2 else 0)} ops {nops}; spec mismatches {len(res.spec_mismatch)}, model mismatches "
                       f"{len(mm_model)}, crashes {len(crashes)}")
        for c in crashes[:2]:
            ops = unit.minimise(p.exe, p.spec, c["ops"], ident)
            viol.append((f"upgrade-{p.name}-crash-{c['case']}", {"kind": "sanitizer/crash on the implementation", "sub": SUB, "part": p.name,
                                                                "ops": ops, "rc": c["rc"], "stderr": c["stderr"]}, False))
            found_input = True
        for mm in res.spec_mismatch[:2]:
            ops = unit.minimise(p.exe, p.spec, mm["ops"], ident)
            if p.name == "wsup" and len(ops) >= 1:
                ops = ops[:-1] + [min_hs_op(p.exe, p.spec, ops[-1])] if len(ops) == 1 else ops
            r1 = unit.single(p.exe, p.spec, None, ops)
            viol.append((f"upgrade-{p.name}-spec-{mm['case']}",
                         {"kind": "implementation differs from the specification (" +
                                  ("FIPS 180-4 SHA-1" if p.name == "sha1" else "handshake rule table / RFC 6455 accept value") + ")",
                          "sub": SUB, "part": p.name, "ops": ops, "readable": [readable(o) for o in ops][:6],
                          "impl": [l[:600] for l in r1["impl"].lines], "spec": [l[:600] for l in r1["spec"].lines],
                          "first": {k: str(mm[k])[:600] for k in ("impl", "spec", "op_index")}}, False))
            found_input = True
        if mm_model and corr is None:
            mm = mm_model[0]
            ops = unit.minimise(p.exe, p.model, mm["ops"], ident)
            r1 = unit.single(p.exe, None, p.model, ops)
            corr = (f"upgrade-{p.name}-corr",
                    {"kind": "correspondence broken: implementation differs from the Lean model the C16 (part U) theorems are about "
                             "(no input violating the specification was found)", "sub": SUB, "part": p.name,
                     "correspondence": f"{p.model} vs {p.harness[0]}", "ops": ops, "impl": [l[:600] for l in r1["impl"].lines],
                     "model": [l[:600] for l in r1["model"].lines], "mismatching_cases": len(mm_model)}, True)
    if corr and not found_input:
        viol.append(corr)
    counts["wall_s"] = round(time.time() - t0, 1)
    return counts, viol


def run(tier, seed, replay=None):
    """stand-alone entry (./check c16_upgrade quick): Lean build + axiom audit + the differential run + evidence"""
    t0 = time.time()
    me = "C16U"
    v = core.Verdict(me, seed)
    core.clear_replays(me)
    st = lean.prepare(MODULES)
    core.log(PROP, f"lean: {len(st.discharged)}/{len(st.theorems)} theorems re-checked; extract {st.extract_count} constants "
                   f"(changed: {st.extract_changed}); {st.build_s:.1f}s")
    c, vs = run_upgrade_part(tier, seed, st, replay)
    found = False
    for tag, payload, no_input in vs:
        v.violation(tag, payload, no_input=no_input)
        found = found or not no_input
    if not st.ok and not found:
        v.violation("proof", {"kind": "proof obligation no longer checks", "broken": st.broken, "log": st.log[-3000:]}, no_input=True)
    cov = {
        "obligations": len(st.theorems), "discharged": len(st.discharged),
        "checker_cmd": "lake build NngModel.Props.C16Sha1 NngModel.Props.C16Upgrade && lake env lean <#print axioms for each theorem>",
        "trusted_base": ["Lean 4.33.0 kernel", "axioms: " + ", ".join(sorted({a for x in st.axioms.values() if x for a in x})),
                         "vlib/extract.py + vlib/extract_c16u.py (SHA-1 constants and thresholds, GUID, buffer sizes, handshake literals)",
                         "harness/u_sha1.c; harness/u_wsup.c (includes the real websocket.c; replaces nni_http_client_connect, the byte "
                         "stream under the real HTTP connection object, nni_random); vlib/unit.py (correspondence)",
                         "C locale for strcasecmp/tolower; LP64 for atoi; unsigned = 32 bits",
                         "gcc ASan/UBSan as the out-of-bounds detector on the implementation"],
        "theorems": st.discharged, "axioms": st.axioms, "broken": st.broken,
        "evaluations": c["cases"], "distinct_nontrivial": c["distinct"], "rule": RULE, "ops": c["ops"],
        "op_histogram": c["op_hist"], "rv_histogram": c["rv_hist"], "samples": c["samples"], "sha1_bytes_hashed": c["sha_bytes"],
        "spec_mismatches": c["spec"], "model_mismatches": c["model"], "crashes": c["crash"], "extract_changed": st.extract_changed,
    }
    core.write_evidence(me, tier, seed, "proof", cov,
                        ["Model/Sha1.lean, Model/WsAccept.lean, Model/WsUpgrade.lean mirror sha1.c and the handshake functions of websocket.c; "
                         "tie = three-way differential execution on the cases above",
                         "ws_handler is called directly on a parsed request: the HTTP server front (routing, Host test, its own version and "
                         "Transfer-Encoding tests, the overwrite of the version before the handler runs) is not in the path",
                         "user-supplied extra headers of listener/dialer, the listener hook and ENOMEM are not modelled"],
                        time.time() - t0, len(v.violations))
    return v.finish()
