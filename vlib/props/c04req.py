"""C04 (requester half) and C12 — cooked REQ socket: replies reach only the matching outstanding
request, at most once; retransmission on connection loss and after NNG_OPT_REQ_RESENDTIME;
ECONNRESET with resending disabled.  One machinery, two judges (Spec/Req.lean).

Request ids are allocated from a random start.  Nothing here predicts them: the runner talks
to the harness line by line (its stdout is a pty, hence line buffered), renames the 4-byte id
at the start of every `psend` header to 0x80000000 + (index of first occurrence on the wire),
and writes the replies it injects with the real id observed for the request they name.  The
Lean model and the judges only ever see the renamed form.

Symbolic reply ids in generated ops (resolved by the runner from the op list and the
implementation's own `psend` events, never from the model):
  @k        the k-th distinct id seen on the wire (k from 0); unknown id when not seen yet
  @cur:c    id of the request most recently sent on context c ('-' = socket), if on the wire
  @old:c    id of an earlier request of context c that reached the wire
  <ref>m<d> / <ref>p<d>   the id at distance -d / +d from <ref> (ids are allocated consecutively, wrapping
            inside 0x80000000..0xffffffff): names requests that were allocated but never reached the wire
            (send cancelled / timed out / replaced while no pipe was ready); e.g. @cur:-m1, @3p2
  a trailing '~' clears the high bit.   Form: recv_done <p> <idref>.<bodyhex|->
Replays and corpus files contain only the concrete forms @k and @k m|p d.
"""
import os, re, sys, time, json, pty, tty, select, subprocess, tempfile, concurrent.futures as cf
from .. import core, build, lean, sim

PROP = "C04REQ"
JUDGES = {"C04": "req-judge-c04", "C12": "req-judge-c12"}
MODEL = "req-model"
IDBASE = 0x80000000
RESEND = [-1, -1, 0, 5, 12, 30, 70, 150, 1000]
TICKS = [3, 7, 10, 25, 100]
TIMEOUTS = [4, 9, 20, 50, 100]
ERRS = [7, 19, 31]
PER_PROC = 100


# ---------------------------------------------------------------------------------------------
# generator

class Gen:
    def __init__(self, r):
        self.r = r
        self.ops = []
        self.now = 0
        self.aio_dl = set()      # deadlines of user aios (unique by construction)
        self.tick_c = set()      # times at which the resend tick may fire (superset)
        self.targets = set()     # resend deadlines worth approaching
        self.tick = 1000
        self.npipes = 0
        self.ctxs = []           # open context slots
        self.closed_ctxs = []
        self.busy = set()
        self.nbody = 0
        self.retry = {"-": 60000}
        self.sent = []           # contexts that sent something
        self.last_reply = None
        self.abandoned = False   # some send may have ended without ever reaching a pipe

    def body(self):
        self.nbody += 1
        return (self.nbody.to_bytes(2, "big") + self.r.bytes(self.r.choice([0, 0, 1, 3, 6]))).hex()

    def aio(self):
        free = [a for a in range(16) if a not in self.busy]
        return self.r.choice(free) if free else None

    def mode(self, p_nb=3, p_inf=4):
        k = self.r.below(10)
        if k < p_nb:
            return "nb"
        if k < p_nb + p_inf:
            return self.r.choice(["inf", "inf", "def"])
        t = self.r.choice(TIMEOUTS)
        while self.now + t in self.cand or self.now + t in self.targets:
            t += 1                       # two timers never share a deadline
        self.aio_dl.add(self.now + t)
        return str(t)

    @property
    def cand(self):
        return self.aio_dl | self.tick_c

    def who(self):
        xs = ["-"] + [str(c) for c in self.ctxs]
        return self.r.choice(xs)

    def advance(self, want=None):
        """never lands on a candidate time; crosses at most one candidate per op"""
        r = self.r
        ahead = sorted(c for c in self.cand | self.targets if c > self.now)
        if want is None:
            if ahead and r.chance(2, 3):
                c = r.choice(ahead[:3])
                want = c + r.choice([-1, 1, 1, 2])
            else:
                want = self.now + r.choice([1, 3, 8, 21, 55, 144])
        if want <= self.now:
            want = self.now + 1
        timers = sorted(c for c in self.cand if c > self.now)
        # the first timer may be crossed, the second one may not even be reached
        if len(timers) >= 2:
            want = min(want, timers[1] - 1)
        # a time at which both a user timeout and the tick may be due is never crossed
        barrier = sorted(c for c in self.aio_dl & self.tick_c if c > self.now)
        if barrier:
            want = min(want, barrier[0] - 1)
        while want > self.now and (want in self.cand or want in self.targets):
            want -= 1
        if want <= self.now:
            return False
        crossed = any(self.now < c < want for c in self.cand)
        self.ops.append(f"advance {want - self.now}")
        self.now = want
        if crossed:
            if self.tick >= 1:
                self.tick_c.add(self.now + self.tick)
            self.busy.clear()
        return True

    def emit_send(self, w, a, m):
        # a cooked REQ socket replaces whatever header the caller left in the message (a recycled message, a pre-filled
        # header): every 6th send submits one
        hdr = "-" if not self.r.chance(1, 6) else self.r.choice([self.r.bytes(4).hex(), "80000001", "8000000180000002", self.r.bytes(8).hex()])
        self.ops.append(f"send {w} {a} {hdr} {self.body()} {m}")
        if m != "nb":
            self.busy.add(a)
        if self.npipes == 0 or (w in self.sent and self.r.chance(1, 3)):
            self.abandoned = True        # (approximation; only steers the choice of reply ids)
        self.sent.append(w)
        if self.tick >= 1:
            self.tick_c.add(self.now + self.tick)
        if self.retry.get(w, -1) > 0:
            self.targets.add(self.now + self.retry[w])

    def abandon_prologue(self):
        """a request that is queued while no pipe is ready and ends there (timeout, cancel, replaced, context
        closed), then a new request on the same context that is sent, then a reply carrying the id allocated
        just before it — the id of the request that never reached the wire"""
        r = self.r
        w = self.who()
        a = self.aio()
        how = r.choice(["timeout", "cancel", "replace", "nb", "abort"])
        if how == "timeout":
            t = r.choice(TIMEOUTS)
            while self.now + t in self.cand or self.now + t in self.targets:
                t += 1
            self.aio_dl.add(self.now + t)
            dl = self.now + t
            self.emit_send(w, a, str(t))
            for _ in range(6):
                if self.now > dl or not self.advance(dl + r.choice([1, 2])):
                    break
        elif how == "nb":
            self.emit_send(w, a, "nb")
        else:
            self.emit_send(w, a, r.choice(["inf", "def"]))
            if how == "cancel":
                self.ops.append(f"cancel {a}")
            elif how == "abort":
                self.ops.append(f"abort {a} {r.choice([5, 20, 7])}")
        self.busy.clear()
        if r.chance(1, 4):
            self.ops.append("poll")
        self.ops.append("pipe_add 0031")
        self.npipes += 1
        a2 = self.aio()
        self.emit_send(w, a2, r.choice(["inf", "nb", "def"]))
        if r.chance(1, 2):
            self.ops.append("send_done 0 0")
        a3 = None
        if r.chance(2, 3):
            a3 = self.aio()
            self.ops.append(f"recv {w} {a3} {r.choice(['inf', 'def'])}")
        d = r.choice([1, 1, 1, 2])
        self.ops.append(f"recv_done 0 @cur:{w}m{d}.{self.body()}")
        if a3 is None and r.chance(1, 2):
            self.ops.append(f"recv {w} {self.aio()} nb")
        if r.chance(2, 3):
            self.ops.append(f"recv_done 0 @cur:{w}.{self.body()}")
        self.busy.clear()

    def reply(self):
        r = self.r
        p = r.below(self.npipes)
        k = r.below(100)
        body = self.body() if r.chance(4, 5) else "-"
        c = r.choice(self.sent) if self.sent else "-"
        rel = f"{'m' if r.chance(4, 5) else 'p'}{r.choice([1, 1, 1, 2, 2, 3])}"
        if k < (28 if self.abandoned else 44):
            ref = f"@cur:{c}"
        elif k < 50:
            # an id next to the current one: a request that was allocated before/after it; it may never have
            # reached the wire (send cancelled / timed out / replaced while no pipe was ready)
            ref = f"@cur:{c}{rel}"
        elif k < 60:
            ref = f"@old:{c}"
        elif k < 68:
            ref = f"@{r.below(max(1, self.nbody + 1))}"
        elif k < 75 and self.last_reply:
            self.ops.append(f"recv_done {p if r.chance(1, 2) else self.last_reply[0]} {self.last_reply[1]}")
            return
        elif k < 81:
            ref = f"@cur:{c}~"
        elif k < 86:
            self.ops.append(f"recv_done {p} {r.bytes(r.below(4)).hex() or '-'}")
            return
        elif k < 92:
            self.ops.append(f"recv_done {p} {(0x80000000 | r.below(1 << 31)).to_bytes(4, 'big').hex()}{'' if body == '-' else body}")
            return
        elif k < 96:
            self.ops.append(f"recv_done {p} !{r.choice(ERRS)}")
            return
        else:
            ref = f"@{r.below(4)}" + (rel if r.chance(1, 2) else "")
        self.last_reply = (p, f"{ref}.{body}")
        self.ops.append(f"recv_done {p} {ref}.{body}")

    def setopt(self):
        r = self.r
        if r.chance(2, 3):
            w = self.who()
            v = r.choice(RESEND + [-2])
            self.ops.append(f"setopt {w} req:resend-time {'ms' if r.chance(19, 20) else 'int'} {v}")
            if v >= -1:
                self.retry[w] = v
        else:
            v = r.choice(TICKS + [-1, -2] if r.chance(1, 6) else TICKS)
            w = "-" if r.chance(9, 10) else self.who()
            self.ops.append(f"setopt {w} req:resend-tick ms {v}")
            if w == "-" and v >= -1:
                self.tick = v

    def gen(self, n):
        r = self.r
        self.ops.append("open req")
        if r.chance(4, 5):
            v = r.choice(RESEND)
            self.ops.append(f"setopt - req:resend-time ms {v}")
            self.retry["-"] = v
        if r.chance(4, 5):
            self.tick = r.choice(TICKS)
            self.ops.append(f"setopt - req:resend-tick ms {self.tick}")
        for _ in range(r.choice([0, 0, 1, 1, 2, 3, 4])):
            free = [c for c in range(8) if c not in self.ctxs and c not in self.closed_ctxs]
            c = r.choice(free)
            self.ops.append(f"ctx_open {c}")
            self.ctxs.append(c)
            self.retry[str(c)] = self.retry["-"]
        if r.chance(1, 5):
            self.abandon_prologue()
        elif r.chance(1, 8):
            # a request parked while no pipe is connected for longer than a resend tick, then a peer arrives and takes it
            # (seeded C12-7A: the retry timer stopped meanwhile and the request was never retransmitted)
            self.emit_send(self.who(), self.aio(), "inf")
            for _ in range(r.choice([1, 2, 3])):
                self.advance()
            self.ops.append("pipe_add 0031")
            self.npipes += 1
            self.busy.clear()
        for _ in range(r.choice([0, 1, 1, 2])):
            if self.npipes < 3:
                self.ops.append("pipe_add 0031")
                self.npipes += 1
        while len(self.ops) < n:
            k = r.below(100)
            if k < 6 and self.npipes < 3:
                self.ops.append(f"pipe_add {'0031' if r.chance(9, 10) else r.choice(['0030', '0051', '0010'])}")
                self.npipes += 1
            elif k < 11 and self.npipes:
                self.ops.append(f"pipe_drop {r.below(self.npipes)}")
                self.busy.clear()
            elif k < 27:
                a = self.aio()
                if a is None:
                    self.busy.clear(); continue
                self.emit_send(self.who(), a, self.mode())
            elif k < 40:
                a = self.aio()
                if a is None:
                    self.busy.clear(); continue
                m = self.mode(2, 5)
                w = r.choice(self.sent) if self.sent and r.chance(4, 5) else self.who()
                self.ops.append(f"recv {w} {a} {m}")
                if m != "nb":
                    self.busy.add(a)
            elif k < 52 and self.npipes:
                self.ops.append(f"send_done {r.below(self.npipes)} {0 if r.chance(9, 10) else r.choice(ERRS)}")
                self.busy.clear()
            elif k < 70 and self.npipes:
                self.reply()
                self.busy.clear()
            elif k < 74:
                self.ops.append(f"cancel {r.below(16)}" if r.chance(3, 4) else f"abort {r.below(16)} {r.choice([5, 20, 7])}")
                self.busy.clear()
            elif k < 86:
                self.advance()
            elif k < 92:
                self.setopt()
            elif k < 95:
                self.ops.append("poll")
            elif k < 96:
                w = self.who()
                self.ops.append(f"getopt {w} {r.choice(['req:resend-time', 'req:resend-tick'])} ms")
            elif k < 98:
                free = [c for c in range(8) if c not in self.ctxs and c not in self.closed_ctxs]
                if self.ctxs and r.chance(1, 2):
                    c = r.choice(self.ctxs)
                    self.ctxs.remove(c); self.closed_ctxs.append(c)
                    self.ops.append(f"ctx_close {c}")
                    self.busy.clear()
                elif free and len(self.ctxs) < 4:
                    c = r.choice(free)
                    self.ctxs.append(c)
                    self.ops.append(f"ctx_open {c}")
                    self.retry[str(c)] = self.retry["-"]
                elif self.closed_ctxs:
                    # operations on a closed context: NNG_ECLOSED
                    c = r.choice(self.closed_ctxs)
                    self.ops.append(r.choice([f"recv {c} {self.aio() or 0} nb", f"send {c} {self.aio() or 0} - {self.body()} nb",
                                              f"setopt {c} req:resend-time ms 10"]))
            elif k < 99:
                # hammer the resend path: walk over the next deadlines
                for _ in range(r.range(2, 5)):
                    if len(self.ops) < n and not self.advance():
                        break
            else:
                self.ops.append("close")
                break
        return self.ops


def gen_case(seed, tier, i):
    r = core.Rng(seed, PROP, tier, i)
    return Gen(r).gen(r.range(10, 60))


def corpus_cases():
    out = []
    for prop in ("C04", "C12"):
        d = os.path.join(core.HERE, "corpus", prop)
        if os.path.isdir(d):
            for f in sorted(os.listdir(d)):
                if not f.startswith("req"):
                    continue
                ops = [l.strip() for l in open(os.path.join(d, f)) if l.strip() and not l.startswith("#")]
                out.append((f"{prop}/{f}", ops))
    return out


# ---------------------------------------------------------------------------------------------
# id renaming (kept out of the shared files on purpose)

REF = re.compile(r"^@(cur:|old:)?(\d+|-)(?:([mp])(\d+))?(~?)\.([0-9a-fA-F]*|-)$")
IDMAX = 0xffffffff
REL_BASE, REL_OFF = 65536, 128        # Model/Req.lean relBase, relOff


class Ids:
    """first-occurrence renaming of the ids seen on the wire, plus what is needed to resolve the
    symbolic references: which context sent which body."""

    def __init__(self):
        self.order = []        # real id (int), by first occurrence
        self.index = {}
        self.by_body = {}      # body hex -> real id
        self.sends = {}        # context -> list of body hex, in order

    def see_op(self, line):
        w = line.split()
        if w and w[0] == "send" and len(w) == 6:
            self.sends.setdefault(w[1], []).append(w[4])

    def rename_out(self, out):
        """rename ids in `psend p hdr body` events of one output line"""
        if "psend" not in out:
            return out
        evs = out.split(" ; ")
        for i, e in enumerate(evs):
            w = e.split()
            if len(w) == 4 and w[0] == "psend" and len(w[2]) == 8:
                try:
                    real = int(w[2], 16)
                except ValueError:
                    continue
                if real not in self.index:
                    self.index[real] = len(self.order)
                    self.order.append(real)
                self.by_body.setdefault(w[3], real)
                w[2] = "%08x" % ((IDBASE + self.index[real]) & 0xffffffff)
                evs[i] = " ".join(w)
        return " ; ".join(evs)

    def resolve(self, kind, arg):
        """-> wire index or None"""
        if kind == "":
            return int(arg)              # an index nothing was seen for names no request
        bodies = self.sends.get(arg, [])
        if not bodies:
            return None
        if kind == "cur:":
            real = self.by_body.get(bodies[-1])
            return self.index[real] if real is not None else None
        for b in reversed(bodies[:-1]):
            real = self.by_body.get(b)
            if real is not None:
                return self.index[real]
        return None

    def concretise(self, line):
        """symbolic op -> (op with @k[m|p d] only, line for the implementation, line for the model).
        `m<d>` / `p<d>`: the id at distance -d / +d from the named one.  nni_id_alloc hands out consecutive ids
        (wrapping inside [IDBASE, IDMAX]), so this names requests that were allocated but never seen on the
        wire; if the id at that distance was seen after all, its own first-occurrence name is used."""
        w = line.split()
        if len(w) == 3 and w[0] == "recv_done" and w[2].startswith("@"):
            m = REF.match(w[2])
            if not m:
                return line, line, line
            kind, arg, sign, dist, low, body = m.group(1) or "", m.group(2), m.group(3), m.group(4), m.group(5), m.group(6)
            k = self.resolve(kind, arg)
            if k is None:
                k = 9000 + len(self.order)       # names no request
            body = "" if body == "-" else body
            delta = 0
            if sign and k < len(self.order):
                delta = min(int(dist), REL_OFF - 1) * (-1 if sign == "m" else 1)
            if k < len(self.order):
                real = self.order[k]
                if delta:
                    real = IDBASE + (real - IDBASE + delta) % (IDMAX - IDBASE + 1)
                    if real in self.index:       # seen on the wire: it has a name of its own
                        k, delta = self.index[real], 0
            else:
                real = (0xF0000000 + k) & 0xffffffff
                while real in self.index:
                    real = (real + 0x10000) | IDBASE
            canon = IDBASE + k + (REL_BASE * (REL_OFF + delta) if delta else 0)
            rel = f"{'m' if delta < 0 else 'p'}{abs(delta)}" if delta else ""
            if low:
                real &= 0x7fffffff
                canon &= 0x7fffffff
            conc = f"recv_done {w[1]} @{k}{rel}{low}.{body or '-'}"
            return conc, f"recv_done {w[1]} {real:08x}{body}", f"recv_done {w[1]} {canon:08x}{body}"
        if len(w) == 3 and w[0] == "recv_done" and len(w[2]) >= 8 and w[2][0] in "89abcdefABCDEF":
            # a literal id: the model sees the first-occurrence name if it was on the wire, else a name of nothing
            try:
                real = int(w[2][:8], 16)
            except ValueError:
                return line, line, line
            canon = IDBASE + (self.index[real] if real in self.index else REL_BASE - 1)
            return line, line, f"recv_done {w[1]} {canon:08x}{w[2][8:]}"
        return line, line, line


# ---------------------------------------------------------------------------------------------
# interactive runner

class Harness:
    def __init__(self, exe):
        self.master, slave = pty.openpty()
        tty.setraw(slave)
        self.err = tempfile.TemporaryFile()
        self.p = subprocess.Popen([exe], stdin=subprocess.PIPE, stdout=slave, stderr=self.err, env=build.env(), close_fds=True)
        os.close(slave)
        self.buf = b""
        self.dead = False

    def ask(self, line, timeout=60):
        if self.dead:
            return None
        try:
            self.p.stdin.write((line + "\n").encode()); self.p.stdin.flush()
        except (BrokenPipeError, OSError):
            self.dead = True
            return None
        while b"\n" not in self.buf:
            r, _, _ = select.select([self.master], [], [], timeout)
            if not r:
                self.dead = True
                self.p.kill()
                return None
            try:
                d = os.read(self.master, 65536)
            except OSError:
                d = b""
            if not d:
                self.dead = True
                return None
            self.buf += d
        l, self.buf = self.buf.split(b"\n", 1)
        return l.decode().rstrip("\r")

    def finish(self):
        try:
            self.p.stdin.close()
        except OSError:
            pass
        try:
            rc = self.p.wait(timeout=60)
        except subprocess.TimeoutExpired:
            self.p.kill(); rc = -999
        os.close(self.master)
        self.err.seek(0)
        err = self.err.read().decode(errors="replace")
        self.err.close()
        return rc, err


def run_jobs(exe, jobs, restart=True):
    """jobs: [(case, sched, symbolic ops)] -> (records, rc, stderr).  A record is
    dict(case, sched, ops (concrete), mops (for the model), impl (renamed outputs), crashed).
    After a crash the remaining jobs continue in a fresh process; rc/stderr are those of the
    first process that failed (or of the last one)."""
    recs = []
    first_bad = None
    i = 0
    rc, err = 0, ""
    while i < len(jobs):
        h = Harness(exe)
        crashed = False
        n0 = i
        # a fresh process every PER_PROC histories (the simulated platform's side tables are
        # sized for a bounded number of init/fini cycles)
        while i < len(jobs) and not crashed and i - n0 < PER_PROC:
            ci, sk, ops = jobs[i]
            i += 1
            ids = Ids()
            rec = {"case": ci, "sched": sk, "ops": [], "mops": [], "impl": [], "crashed": False}
            recs.append(rec)
            for line in [f"sched {sk}"] + ops:
                ids.see_op(line)
                conc, il, ml = ids.concretise(line)
                rec["ops"].append(conc); rec["mops"].append(ml)
                out = h.ask(il)
                if out is None:
                    crashed = True
                    break
                rec["impl"].append(ids.rename_out(out))
            if not crashed and h.ask("reset") is None:
                crashed = True
            rec["crashed"] = crashed
        rc, err = h.finish()
        if crashed:
            rec["stderr"] = err[-4000:]
            rec["rc"] = rc
        if (rc != 0 or crashed) and first_bad is None:
            first_bad = (rc, err)
        if not restart and crashed:
            break
    if first_bad:
        rc, err = first_bad
    return recs, rc, err


def _work(args):
    exe, jobs, model, judges = args
    recs, rc, err = run_jobs(exe, jobs)
    done = [r for r in recs if not r["crashed"]]
    res = {"recs": recs, "rc": rc, "err": err[-6000:], "njobs": len(jobs)}
    if model:
        text = core.cases_to_text([r["mops"] for r in done])
        res["model"] = core.split_cases(core.run_stream(lean.driver_cmd(model), text).lines)[0]
    for name, comp in judges.items():
        jl = []
        for r in done:
            jl += [f"{op} => {o}" for op, o in zip(r["mops"], r["impl"])] + ["reset"]
        res["judge-" + name] = core.split_cases(core.run_stream(lean.driver_cmd(comp), "\n".join(jl) + "\n").lines)[0]
    return res


def canon(line, is_close):
    evs = line.split(" ; ")
    if is_close:
        # the reaper closes the pipes in a schedule-dependent order at socket close: whether a
        # pending request is moved once more to a pipe that is about to close is not determined
        evs = [e for e in evs if not e.startswith("psend ")] or ["-"]
    return " ; ".join(sorted(evs))


class Result:
    def __init__(self):
        self.cases = self.runs = self.ops = 0
        self.crashes, self.leaks, self.mismatch = [], [], []
        self.judge = {}
        self.op_hist, self.ev_hist = {}, {}
        self.concrete = []


def execute(cases, scheds, exe, model=MODEL, judges=JUDGES, attribute_leaks=True):
    res = Result()
    res.cases = len(cases)
    jobs = [(ci, k, ops) for ci, ops in enumerate(cases) for k in scheds]
    res.runs = len(jobs)
    res.judge = {n: [] for n in judges}
    # small chunks, aggregated as they come back: memory stays bounded in the thorough tier
    per = max(PER_PROC, min(3 * PER_PROC, (len(jobs) + core.NCPU - 1) // core.NCPU))
    parts = [jobs[i:i + per] for i in range(0, len(jobs), per)]
    ex = cf.ProcessPoolExecutor(max_workers=core.NCPU)
    for part, out in zip(parts, ex.map(_work, [(exe, part, model, judges) for part in parts])):
        recs = out["recs"]
        done = [r for r in recs if not r["crashed"]]
        for r in recs:
            res.ops += len(r["impl"])
            for l in r["ops"]:
                w = l.split()[0]
                res.op_hist[w] = res.op_hist.get(w, 0) + 1
            for l in r["impl"]:
                for e in l.split(" ; "):
                    w = e.split()[0] if e.split() else "-"
                    if w == "done":
                        w = "done:" + (e.split()[2] if len(e.split()) > 2 else "?")
                    res.ev_hist[w] = res.ev_hist.get(w, 0) + 1
            if r["crashed"]:
                res.crashes.append({"case": r["case"], "sched": r["sched"], "ops": r["ops"], "done_ops": len(r["impl"]),
                                    "rc": r.get("rc", out["rc"]), "last": r["impl"][-3:], "stderr": r.get("stderr", out["err"])})
        if not any(r["crashed"] for r in recs) and (out["rc"] != 0 or "LeakSanitizer" in out["err"]):
            res.leaks.append({"jobs": part, "rc": out["rc"], "stderr": out["err"]})
        for j, r in enumerate(done):
            for name in judges:
                vs = out.get("judge-" + name, [])
                if j < len(vs):
                    for t, v in enumerate(vs[j]):
                        if v.startswith("VIOLATION"):
                            res.judge[name].append({"case": r["case"], "sched": r["sched"], "ops": r["ops"], "clause": v[10:],
                                                    "op_index": t, "impl": r["impl"][t] if t < len(r["impl"]) else None})
                            break
            if model and j < len(out["model"]):
                for t, (a, b) in enumerate(zip(r["impl"], out["model"][j])):
                    cl = r["ops"][t].startswith("close")
                    if canon(a, cl) != canon(b, cl):
                        res.mismatch.append({"case": r["case"], "sched": r["sched"], "ops": r["ops"], "op_index": t, "impl": a, "model": b})
                        break
        if len(res.concrete) < 4 and done:
            res.concrete.append(done[0]["ops"])
    ex.shutdown()
    if attribute_leaks and res.leaks:
        for lk in res.leaks[:2]:
            lk["culprit"] = find_leak(exe, lk["jobs"])
    return res


def leaks(exe, jobs):
    recs, rc, err = run_jobs(exe, jobs)
    return (rc != 0 or "LeakSanitizer" in err) and not any(r["crashed"] for r in recs), recs, err


def find_leak(exe, jobs):
    """LeakSanitizer reports at process exit: bisect the chunk to one (case, schedule), which is
    then run alone in its own process"""
    lo, hi = 0, len(jobs)            # invariant: jobs[lo:hi] leaks
    while hi - lo > 1:
        mid = (lo + hi) // 2
        if leaks(exe, jobs[lo:mid])[0]:
            hi = mid
        elif leaks(exe, jobs[mid:hi])[0]:
            lo = mid
        else:
            break
    ok, recs, err = leaks(exe, jobs[lo:lo + 1])
    if not ok:
        return None
    return {"case": jobs[lo][0], "sched": jobs[lo][1], "ops": recs[0]["ops"], "stderr": err[-3000:]}


# ---------------------------------------------------------------------------------------------
# minimisation on concrete ops

def valid(ops):
    """candidates produced by ddmin must stay inside what the harness/model agree to execute"""
    opened, ever = set(), set()
    for l in ops:
        w = l.split()
        if w[0] == "ctx_open":
            if w[1] in opened or w[1] in ever:
                return False
            opened.add(w[1]); ever.add(w[1])
        elif w[0] == "ctx_close":
            if w[1] not in opened:
                return False
            opened.discard(w[1])
        elif w[0] in ("send", "recv", "setopt", "getopt") and w[1] != "-" and w[1] not in ever:
            return False
    return True


def run_one(exe, ops, comp=None, judge=False):
    """ops start with `sched k`"""
    sk = int(ops[0].split()[1])
    recs, rc, err = run_jobs(exe, [(0, sk, ops[1:])])
    r = recs[0]
    bad = r["crashed"] or rc != 0 or "LeakSanitizer" in err
    other = None
    if comp and not r["crashed"]:
        if judge:
            jl = [f"{op} => {o}" for op, o in zip(r["mops"], r["impl"])] + ["reset"]
            o = core.split_cases(core.run_stream(lean.driver_cmd(comp), "\n".join(jl) + "\n").lines)[0]
        else:
            o = core.split_cases(core.run_stream(lean.driver_cmd(comp), core.cases_to_text([r["mops"]])).lines)[0]
        other = o[0] if o else []
    return r, bad, other, err


def minimise(exe, ops, kind, comp=None, budget_s=40):
    def fails(o):
        if not valid(o[1:]):
            return False
        r, bad, other, err = run_one(exe, o, comp, kind == "judge")
        if kind == "crash":
            return r["crashed"]
        if kind == "leak":
            return bad and not r["crashed"]
        if other is None:
            return False
        if kind == "judge":
            return any(v.startswith("VIOLATION") for v in other)
        return any(canon(a, op.startswith("close")) != canon(b, op.startswith("close")) for a, b, op in zip(r["impl"], other, r["ops"]))

    if not fails(ops):
        return ops
    return core.ddmin(ops, fails, budget_s, keep_prefix=2)


# ---------------------------------------------------------------------------------------------

def nontrivial(ops):
    """a case counts when it contains a request, a connection and a reply or a time step"""
    ws = {l.split()[0] for l in ops}
    return "send" in ws and "pipe_add" in ws and ("recv_done" in ws or "advance" in ws)


def run_req_part(tier, seed, replay=None, which=("C04", "C12"), driver_ok=True):
    """runs the REQ machinery; returns dict(counts, violations[(tag, payload, no_input)], coverage, found_input)"""
    exe = sim.build_sim("s_proto", ["s_proto.c"])
    n = 2000 if tier == "quick" else 40000
    scheds = (1, 2, 3) if tier == "quick" else tuple(range(1, 11))
    if replay:
        rp = json.load(open(replay))
        ops = rp["ops"]
        if ops and ops[0].startswith("sched"):
            scheds = (int(ops[0].split()[1]),)
            ops = ops[1:]
        cases = [ops]
    else:
        cases = [ops for _, ops in corpus_cases()] + [gen_case(seed, tier, i) for i in range(n)]
    judges = {k: JUDGES[k] for k in which} if driver_ok else {}
    res = execute(cases, scheds, exe, MODEL if driver_ok else None, judges)
    viol = []
    found = False
    seen_cases = set()
    for c in res.crashes:
        if c["case"] in seen_cases or len(seen_cases) >= 2:
            continue
        seen_cases.add(c["case"])
        ops = minimise(exe, c["ops"], "crash")
        r, bad, _, err = run_one(exe, ops)
        viol.append((f"crash-req-{c['case']}", {"kind": "crash / sanitizer report / deadlock of the implementation under the simulated platform (REQ)",
                     "ops": ops, "rc": c["rc"], "last_output": r["impl"][-3:], "stderr": (err or c["stderr"])[-3000:]}, False))
        found = True
    for lk in res.leaks[:2]:
        cu = lk.get("culprit")
        if cu:
            ops = minimise(exe, [f"sched {cu['sched']}"] + cu["ops"][1:], "leak")
            r, bad, _, err = run_one(exe, ops)
            viol.append((f"leak-req-{cu['case']}", {"kind": "LeakSanitizer: memory still allocated at exit after this history, run alone in its own process "
                         "(retained REQ request not released)", "ops": ops, "stderr": err[-3000:]}, False))
            found = True
        else:
            viol.append(("leak-req", {"kind": "LeakSanitizer report at exit of a harness process; could not be attributed to one case",
                                      "stderr": lk["stderr"][-3000:]}, True))
    for name in which:
        seen_cases = set()
        for jv in res.judge.get(name, []):
            if jv["case"] in seen_cases or len(seen_cases) >= 2:
                continue
            seen_cases.add(jv["case"])
            ops = minimise(exe, jv["ops"], "judge", JUDGES[name])
            r, bad, verdicts, err = run_one(exe, ops, JUDGES[name], True)
            viol.append((f"judge-{name}-req-{jv['case']}", {"kind": f"implementation trace violates the {name} trace predicate (Spec/Req.lean)",
                         "clause": jv["clause"], "ops": ops, "impl": r["impl"], "judge": verdicts}, False))
            found = True
    if not found and res.mismatch:
        mm = res.mismatch[0]
        ops = minimise(exe, mm["ops"], "model", MODEL)
        r, bad, ml, err = run_one(exe, ops, MODEL)
        viol.append(("corr-req", {"kind": "correspondence broken: implementation differs from the Lean model the REQ theorems are about "
                     "(no trace violating the property predicates was found)", "correspondence": "req-model vs s_proto (req.c)",
                     "ops": ops, "impl": r["impl"], "model": ml, "mismatching_runs": len(res.mismatch)}, True))
    counts = {"cases": res.cases, "runs": res.runs, "ops": res.ops, "crash": len(res.crashes), "leak": len(res.leaks),
              "model": len(res.mismatch), **{"judge-" + k: len(v) for k, v in res.judge.items()}}
    cov = {"evaluations": res.runs, "distinct_nontrivial": len({tuple(o) for o in cases if nontrivial(o)}),
           "rule": "event histories for one cooked REQ socket (10-60 events; 0-4 contexts plus the socket itself, 0-3 connections; sends and receives "
                   "non-blocking / blocking / with timeout, cancel, abort, superseding sends, req:resend-time and req:resend-tick set at any point, "
                   "connection add/drop, transport send completions ok/err, replies with the current / an old / another context's / an unknown id, "
                   "duplicates, ids without the high bit, short replies, receive errors, virtual-time steps placed just before/after timer and resend "
                   "deadlines (at most one timer per step), poll, context open/close, close) from splitmix64(seed,C04REQ,tier,i), each run under "
                   f"{len(scheds)} schedule seeds; distinct = distinct op lists that contain a request, a connection and a reply or time step",
           "schedules_per_case": len(scheds), "ops": res.ops, "op_histogram": res.op_hist, "event_histogram": res.ev_hist,
           "samples": res.concrete[:2] or cases[:1], "model_mismatches": len(res.mismatch), "crashes": len(res.crashes),
           "leak_reports": len(res.leaks), "judge_violations": {k: len(v) for k, v in res.judge.items()}}
    return {"counts": counts, "violations": viol, "coverage": cov, "found_input": found}


ASSUMPTIONS = ["protocol callbacks are atomic under the protocol mutex (SIM still interleaves their unlocked tails)",
               "the mock transport honours the transport contract of the real transports",
               "at most one timer (user aio timeout or resend tick) is due per virtual-time step (generator), as with real time",
               "request ids are compared after renaming by first occurrence on the wire; the model allocates fresh ids, nni_id_alloc "
               "is assumed not to wrap onto a live id within one history (C18 covers the allocator)",
               "at socket close the order in which the reaper closes pipes is not fixed: psend events of the close step are not compared"]


def run_prop(prop, modules, which, tier, seed, replay=None):
    t0 = time.time()
    v = core.Verdict(prop, seed)
    core.clear_replays(prop)
    st = lean.prepare(modules)
    core.log(prop, f"lean: {len(st.discharged)}/{len(st.theorems)} theorems re-checked; extract {st.extract_count} constants "
                   f"(changed: {st.extract_changed}); {st.build_s:.1f}s")
    try:
        part = run_req_part(tier, seed, replay, which, st.driver_ok)
    except build.BuildError as e:
        v.violation("build", {"kind": "build", "error": str(e), "log": e.log[-4000:]}, no_input=True)
        core.write_evidence(prop, tier, seed, "proof", {"obligations": max(1, len(st.theorems)), "discharged": 0, "checker_cmd": "lake build",
                            "trusted_base": [], "explanation": "implementation or harness does not build"}, [], time.time() - t0, 1)
        return v.finish()
    core.log(prop, "REQ: " + ", ".join(f"{k} {x}" for k, x in part["counts"].items()))
    for tag, payload, no_input in part["violations"]:
        v.violation(tag, payload, no_input=no_input)
    if not part["found_input"] and not st.ok:
        v.violation("proof", {"kind": "proof obligation no longer checks", "broken": st.broken, "log": st.log[-3000:]}, no_input=True)
    cov = {"obligations": len(st.theorems), "discharged": len(st.discharged),
           "checker_cmd": " && ".join(f"lake build {m}" for m in modules) + " && lake env lean <#print axioms for each theorem>",
           "trusted_base": ["Lean 4.33.0 kernel", "axioms: " + ", ".join(sorted({a for x in st.axioms.values() if x for a in x})),
                            "vlib/extract.py + extract_c04req.py (constants)", "harness/simplat.c (scheduler, virtual clock), mocktran.c (transport contract), s_proto.c",
                            "vlib/props/c04req.py (id renaming by first occurrence, diff, canonicalisation of event order within a quiescent batch)",
                            "gcc ASan/UBSan/LeakSanitizer"],
           "theorems": st.discharged, "axioms": st.axioms, "broken": st.broken, "extract_changed": st.extract_changed}
    cov.update(part["coverage"])
    core.write_evidence(prop, tier, seed, "proof", cov, ASSUMPTIONS, time.time() - t0, len(v.violations))
    return v.finish()


def run(tier, seed, replay=None):
    return run_prop(PROP, ["NngModel.Props.C04Req"], ("C04",), tier, seed, replay)
