"""C18N (part of C18; C15 at the level of a message queue) - the two pollable levels of nni_msgq.

Lean: NngModel.Props.C18Notify (all call sequences: the levels that nni_msgq_run_notify leaves are up exactly when
a non-blocking put / get would succeed; they change only at the anchored call sites; closed queues).
Tie to the code: harness/u_msgq.c in `norefresh` mode fetches the two nni_pollable objects and their descriptors
ONCE, right after nni_msgq_init (nni_msgq_get_sendable/recvable run the notification themselves and would repair
a stale level), and after every op reports the `p_raised` flags and poll(2) of the descriptors.  Three checks on
every case:

 judge  (implementation trace alone): flag == polled descriptor on every line; every `nbput` / `nbget` (the real
        zero-timeout nni_msgq_aio_put/get) must succeed iff the level polled on the line before was up
        (up + NNG_ETIMEDOUT = busy loop, down + success = missed wake-up) - on a queue that was not closed
 spec   (`msgqn-spec`, Spec/MsgqNotify.lean on the FIFO channel): results, completions, freed messages and
        the two levels (= acceptance of a non-blocking put / get; unconstrained once closed)
 model  (`msgqn-model`, Model/MsgqNotify.lean): line-exact, including the stale levels of a closed queue

 judge or spec disagree   -> VIOLATION with the minimised op list as replay
 only the model disagrees -> VIOLATION ... no-failing-input-found (correspondence; also when an anchor of
                             vlib/extract_c18n.py no longer matches - reported by lean.prepare as `extract`)

Used by vlib/props/c18.py through `run_part(tier, seed, st, replay)`."""
import os, re, json, time
from .. import core, build, lean

PROP = "C18"
SUB = "notify"
COMP = "msgqn"
HARNESS = "u_msgq"
SPEC, MODEL = "msgqn-spec", "msgqn-model"
MODULES = ["NngModel.Props.C18Notify"]
PRELUDE = ("norefresh",)
MAXOPS = 80
ETIMEDOUT = "5"
RULE = ("msgq pollable levels: (1) directed cases = the sequences of the `pinned_*` / `seeded_*` / `closed_*` theorems of "
        "Props/C18Notify.lean and small exhaustive families (capacity 0..2 x fill x parked reader/writer x one of cancel / "
        "resize / close / get / put, each followed by nbput, nbget); (2) corpus/C18/msgqn-*; (3) the C18 msgq sequences "
        "(vlib/props/c18.py gen_msgq, same seeds) run in norefresh mode; (4) sequences from splitmix64(seed,C18,tier,msgqn,i) "
        "biased to capacities 0..3 with parked readers/writers, cancels of parked aios, resizes around the fill level, "
        "zero-timeout put/get probes (about 1 op in 4), getter calls and close; distinct = distinct op lists with > 5 ops")


# ------------------------------------------------------------------ generators
class Sim:
    """generator-side bookkeeping only (which aios are parked, rough fill level); never used for a verdict"""

    def __init__(self, cap):
        self.cap, self.items, self.putq, self.getq, self.closed = cap, 0, [], [], False

    def busy(self):
        return set(self.putq) | set(self.getq)

    def tryput(self):
        if self.closed:
            return
        if self.getq:
            self.getq.pop(0)
        elif self.items < self.cap:
            self.items += 1

    def aput(self, a, nb=False):
        if nb and (self.putq or (self.items >= self.cap and not self.getq)):
            return
        self.putq.append(a)
        while self.putq:
            if self.getq:
                self.getq.pop(0); self.putq.pop(0)
            elif self.items < self.cap:
                self.items += 1; self.putq.pop(0)
            else:
                break

    def aget(self, a, nb=False):
        if nb and (self.getq or (self.items == 0 and not self.putq)):
            return
        self.getq.append(a)
        while self.getq:
            if self.items:
                self.items -= 1; self.getq.pop(0)
            elif self.putq:
                self.putq.pop(0); self.getq.pop(0)
            else:
                break

    def cancel(self, a):
        self.putq = [x for x in self.putq if x != a]
        self.getq = [x for x in self.getq if x != a]

    def close(self):
        self.closed = True; self.items = 0; self.putq = []; self.getq = []

    def resize(self, c):
        self.items = min(self.items, c + 1); self.cap = c


CAPS = [0, 0, 0, 1, 1, 1, 2, 2, 3, 4, 6]


def gen_notify(r):
    ops = []
    tag = [0]

    def t():
        tag[0] += 1
        return tag[0]

    cap = r.choice(CAPS)
    sim = Sim(cap)
    ops.append(f"init {cap}")
    fill = r.choice([0, cap, cap, max(cap - 1, 0), r.range(0, cap)])
    for _ in range(fill):
        ops.append(f"tryput {t()}"); sim.tryput()
    budget = r.range(len(ops) + 6, MAXOPS - 10)
    # phases make parked readers resp. writers likely (a uniform mix keeps both lists empty most of the time)
    while len(ops) < budget:
        phase = r.below(3)  # 0 readers ahead, 1 writers ahead, 2 mixed
        for _ in range(r.range(3, 10)):
            if len(ops) >= budget:
                break
            k = r.below(100)
            free = [a for a in range(8) if a not in sim.busy()]
            wput = (10, 34, 20)[phase]
            wget = (34, 10, 20)[phase]
            if k < 12:
                nc = r.choice([0, 0, 1, max(sim.items - 1, 0), sim.items, sim.items + 1, r.choice(CAPS), r.choice(CAPS)])
                if r.chance(1, 14):
                    ops.append("fail")
                ops.append(f"resize {nc}"); sim.resize(nc)
            elif k < 12 + wput and free:
                a = r.choice(free)
                if r.chance(1, 3):
                    ops.append(f"tryput {t()}"); sim.tryput()
                else:
                    ops.append(f"aput {a} {t()}"); sim.aput(a)
            elif k < 12 + wput + wget and free:
                a = r.choice(free); ops.append(f"aget {a}"); sim.aget(a)
            elif k < 68 and free:
                a = r.choice(free); ops.append(f"nbput {a} {t()}"); sim.aput(a, nb=True)
            elif k < 80 and free:
                a = r.choice(free); ops.append(f"nbget {a}"); sim.aget(a, nb=True)
            elif k < 92:
                a = r.choice(sorted(sim.busy())) if sim.busy() and r.chance(9, 10) else r.below(8)
                ops.append(f"cancel {a}"); sim.cancel(a)
            elif k < 96:
                ops.append(r.choice(["getsnd", "getrcv", "levels"]))
            elif k < 97 and len(ops) > 25:
                ops.append("close"); sim.close()
            else:
                ops.append(f"tryput {t()}"); sim.tryput()
    free = [a for a in range(8) if a not in sim.busy()]
    if len(free) >= 2:
        ops += [f"nbput {free[0]} {t()}", f"nbget {free[1]}"]
    return ops


def directed():
    cs = [
        # the sequences of Props/C18Notify.lean
        ["init 0", "resize 2", "nbput 0 1"],                                              # pinned_resize_missed_wakeup
        ["init 2", "tryput 1", "resize 0", "nbput 0 2"],                                  # pinned_resize_busy_loop
        ["init 1", "tryput 1", "aput 0 2", "aget 1", "nbput 2 3"],                         # pinned_sendable_ignores_parked_writers
        ["init 0", "aget 0", "cancel 0", "nbput 1 1"],                                    # seeded_cancel_without_notify_is_stale
        ["init 1", "tryput 7", "close", "nbget 0", "nbput 1 8", "levels", "getrcv", "getsnd"],   # closed_queue_levels_can_be_stale
        ["init 0", "aput 0 1", "cancel 0", "nbget 1"],                                    # recv side of the seeded fault
        ["init 1", "levels", "getsnd", "getrcv", "nbget 0", "nbput 0 1", "nbput 1 2", "nbget 2", "nbget 3"],
    ]
    # small exhaustive families: state (capacity, fill, who is parked) x one event x both probes
    for cap in (0, 1, 2):
        for fill in range(0, cap + 1):
            for parked in ("none", "reader", "writer", "2readers", "2writers"):
                if parked in ("reader", "2readers") and fill > 0:
                    continue
                if parked in ("writer", "2writers") and fill < cap:
                    continue
                pre = [f"init {cap}"] + [f"tryput {i + 1}" for i in range(fill)]
                pre += {"none": [], "reader": ["aget 6"], "2readers": ["aget 6", "aget 7"],
                        "writer": ["aput 6 50"], "2writers": ["aput 6 50", "aput 7 51"]}[parked]
                for ev in (["cancel 6"], ["cancel 7"], ["cancel 6", "cancel 7"], ["resize 0"], ["resize 1"], ["resize 3"],
                           ["fail", "resize 5"], ["close"], ["aget 5"], ["aput 5 60"], ["tryput 61"], ["getsnd"], []):
                    cs.append(pre + ev + ["nbput 0 70", "nbget 1"])
                    cs.append(pre + ev + ["nbget 1", "nbput 0 70", "aget 2", "nbput 3 71"])
    return cs


def load_corpus():
    d = os.path.join(core.HERE, "corpus", PROP)
    out = []
    if os.path.isdir(d):
        for f in sorted(os.listdir(d)):
            if f.startswith(COMP + "-"):
                out.append((f, [l.strip() for l in open(os.path.join(d, f)) if l.strip() and not l.startswith("#")]))
    return out


# ------------------------------------------------------------------ judging
LV = re.compile(r" snd=(\S+) rcv=(\S+) ps=(\S+) pr=(\S+)")


def levels(line):
    m = LV.search(line)
    return m.groups() if m else None


def own_result(line, aio):
    """result code of aio's completion on this line, or None"""
    m = re.search(r" ev=(\S+)", line)
    if not m or m.group(1) == "-":
        return None
    for e in m.group(1).split(","):
        p = e.split(":")
        if len(p) == 3 and p[0] == aio:
            return p[1]
    return None


def judge(ops, il):
    """property clauses on the implementation trace alone -> None or (op_index, text)"""
    closed = False
    prev = None
    for k, (op, l) in enumerate(zip(ops, il)):
        w = op.split()
        lv = levels(l)
        if l in ("busy", "ok"):
            continue
        if lv is None:
            return k, f"harness could not execute `{op}`: {l}"
        if "BAD" in l or "DUP" in l or "CORRUPT" in l or "NULL" in l:
            return k, f"queue handed out a message it should not have after `{op}`: {l}"
        if lv[0] != lv[2] or lv[1] != lv[3]:
            return k, (f"after `{op}` the pollable flag and its descriptor disagree at rest: snd={lv[0]} polled {lv[2]}, "
                       f"rcv={lv[1]} polled {lv[3]}")
        if w[0] in ("nbput", "nbget") and prev is not None and not closed:
            res = own_result(l, w[1])
            lvl = prev[2] if w[0] == "nbput" else prev[3]
            what = "put" if w[0] == "nbput" else "get"
            fd = "send" if w[0] == "nbput" else "receive"
            if res == ETIMEDOUT and lvl == "1":
                return k, (f"busy loop: the {fd} descriptor polled readable, yet the non-blocking {what} `{op}` failed with "
                           f"NNG_ETIMEDOUT (NNG_EAGAIN at the public API)")
            if res == "0" and lvl == "0":
                return k, (f"missed wake-up: the {fd} descriptor did not poll readable, yet the non-blocking {what} `{op}` "
                           f"succeeded at once")
            if res is None:
                return k, f"the zero-timeout `{op}` neither completed nor failed within the call: {l}"
        if w[0] == "close":
            closed = True
        prev = lv
    return None


def spec_differs(a, b):
    """impl line vs spec line; `x` in the spec's levels = unconstrained"""
    if a == b:
        return False
    la, lb = levels(a), levels(b)
    if la is None or lb is None:
        return True
    if LV.sub("", a) != LV.sub("", b):
        return True
    return any(y != "x" and x != y for x, y in zip(la, lb))


def spec_rewrite(ops, impl_lines):
    out = []
    for k, op in enumerate(ops):
        if k < len(impl_lines) and impl_lines[k].split()[0:1] == ["2"] and k > 0 and ops[k - 1] == "fail":
            out.append("enomem")
        else:
            out.append(op)
    return out


def run_three(cases, exe, with_lean):
    """-> {case index: (impl lines, spec lines | None, model lines | None)}, crashes"""
    env = build.env()
    parts = core.chunked(list(enumerate(cases)), core.NCPU)

    def work(part):
        text = core.cases_to_text([c for _, c in part], PRELUDE)
        impl = core.run_stream([exe], text, env=env)
        spec = model = None
        if with_lean:
            ic = core.split_cases(impl.lines)[0]
            rc = [spec_rewrite(c, ic[j][len(PRELUDE):]) if j < len(ic) else c for j, (_, c) in enumerate(part)]
            spec = core.run_stream(lean.driver_cmd(SPEC), core.cases_to_text(rc, PRELUDE))
            model = core.run_stream(lean.driver_cmd(MODEL), text)
        return part, impl, spec, model

    res, crashes = {}, []
    n = len(PRELUDE)
    for part, impl, spec, model in core.parallel_map(work, parts):
        ic, partial = core.split_cases(impl.lines)
        sc = core.split_cases(spec.lines)[0] if spec else None
        mc = core.split_cases(model.lines)[0] if model else None
        if impl.rc != 0 or len(ic) != len(part):
            k = len(ic)
            idx, ops = part[k] if k < len(part) else part[-1]
            err = impl
            for j in range(k, len(part)):  # block-buffered stdout: the failing case is part[k] or a later one
                one = core.run_stream([exe], core.cases_to_text([part[j][1]], PRELUDE), env=env)
                if one.rc != 0:
                    idx, ops, err = part[j][0], part[j][1], one
                    break
            crashes.append({"case": idx, "ops": ops, "rc": err.rc, "stderr": err.err[-3000:]})
        for j, (idx, _) in enumerate(part):
            if j >= len(ic):
                break
            res[idx] = (ic[j][n:], sc[j][n:] if sc is not None and j < len(sc) else None,
                        mc[j][n:] if mc is not None and j < len(mc) else None)
    return res, crashes


def one(exe, ops, with_lean=True):
    res, crashes = run_three([ops], exe, with_lean)
    il, sl, ml = res.get(0, ([], None, None))
    return il, sl, ml, crashes


def first_spec_diff(il, sl):
    if sl is None:
        return None
    for t, (a, b) in enumerate(zip(il, sl)):
        if spec_differs(a, b):
            return t
    return None


def minimise(exe, ops, budget_s=40, judge_only=False):
    def fails(o):
        if not o or not o[0].startswith("init "):
            return False
        il, sl, _, crashes = one(exe, o, with_lean=not judge_only)
        if crashes:
            return True
        return judge(o, il) is not None or (not judge_only and first_spec_diff(il, sl) is not None)

    if not fails(ops):
        return ops
    return core.ddmin(ops, fails, budget_s, keep_prefix=1)


# ------------------------------------------------------------------ the part
def run_part(tier, seed, st, replay=None):
    """-> (counts dict, [(tag, payload, no_input)])"""
    t0 = time.time()
    counts = {"cases": 0, "ops": 0, "directed": 0, "corpus": 0, "c18_sequences": 0, "random": 0, "distinct": 0,
              "judge": 0, "spec": 0, "model": 0, "crash": 0, "nb_probes": 0, "nb_probe_outcomes": {}, "level_points": 0,
              "levels_hist": {}, "op_hist": {}, "clauses": {}, "samples": [], "wall_s": 0.0}
    viol = []
    try:
        exe = build.harness(HARNESS, [HARNESS + ".c"])
    except build.BuildError as e:
        viol.append((f"{COMP}-build", {"kind": "build", "component": COMP, "error": str(e), "log": e.log[-4000:]}, True))
        return counts, viol
    with_lean = bool(st.driver_ok)
    cases = []
    if replay:
        rp = json.load(open(replay)) if isinstance(replay, str) else replay
        if rp.get("component") != COMP or "ops" not in rp:
            return counts, viol
        cases.append(list(rp["ops"]))
    else:
        from . import c18
        d = directed()
        cases += d; counts["directed"] = len(d)
        for _, ops in load_corpus():
            cases.append(ops); counts["corpus"] += 1
        n18 = 800 if tier == "quick" else 10000
        for i in range(n18):
            cases.append(c18.gen_msgq(core.Rng(seed, PROP, tier, "msgq", i)))
        counts["c18_sequences"] = n18
        nrand = 4000 if tier == "quick" else 60000
        for i in range(nrand):
            cases.append(gen_notify(core.Rng(seed, PROP, tier, COMP, i)))
        counts["random"] = nrand
    counts["cases"] = len(cases)
    counts["ops"] = sum(len(c) for c in cases)
    counts["distinct"] = len({tuple(c) for c in cases if len(c) > 5})
    for c in cases:
        for l in c:
            k = l.split()[0]
            counts["op_hist"][k] = counts["op_hist"].get(k, 0) + 1
    if cases:
        counts["samples"] = [cases[0], cases[len(cases) // 2], cases[-1]]
    res, crashes = run_three(cases, exe, with_lean)
    counts["crash"] = len(crashes)
    jv, sv, mv = [], [], []
    for idx in range(len(cases)):
        if idx not in res:
            continue
        il, sl, ml = res[idx]
        closed = False
        prev = None
        for op, l in zip(cases[idx], il):
            lv = levels(l)
            w = op.split()
            if lv:
                counts["level_points"] += 1
                key = ("closed " if closed else "") + f"snd={lv[2]} rcv={lv[3]}"
                counts["levels_hist"][key] = counts["levels_hist"].get(key, 0) + 1
                if w[0] in ("nbput", "nbget") and prev is not None and not closed:
                    r = own_result(l, w[1])
                    counts["nb_probes"] += 1
                    key = f"{w[0]} level={prev[2] if w[0] == 'nbput' else prev[3]} result={r}"
                    counts["nb_probe_outcomes"][key] = counts["nb_probe_outcomes"].get(key, 0) + 1
                if w[0] == "close":
                    closed = True
                prev = lv
        j = judge(cases[idx], il)
        if j:
            clause = j[1].split(":")[0]
            counts["clauses"][clause] = counts["clauses"].get(clause, 0) + 1
            jv.append((idx, j))
        t = first_spec_diff(il, sl)
        if t is not None:
            sv.append((idx, t))
        if ml is not None and ml[:len(il)] != il:
            t = next((k for k, (x, y) in enumerate(zip(il, ml)) if x != y), min(len(il), len(ml)))
            mv.append((idx, t))
    counts["judge"], counts["spec"], counts["model"] = len(jv), len(sv), len(mv)
    found_input = False
    for c in crashes[:2]:
        viol.append((f"{COMP}-crash-{c['case']}", {"kind": "sanitizer/crash on the implementation", "component": COMP, "ops": c["ops"],
                                                   "rc": c["rc"], "stderr": c["stderr"]}, False))
        found_input = True
    how = ("ops are lines for harness/u_msgq.c after the prelude `norefresh` (pollables and descriptors fetched once at `init`); "
           "every result line ends with snd/rcv = p_raised of mq_sendable/mq_recvable and ps/pr = poll(2) of their descriptors; "
           "nbput/nbget = nni_msgq_aio_put/get with a zero timeout (result 5 = NNG_ETIMEDOUT)")
    seen = set()
    for idx, (k, text) in jv:
        # one replay per clause and kind of the op that preceded the offending one
        before = next((o.split()[0] for o in reversed(cases[idx][:k]) if o != "fail"), "-")
        sig = (text.split(":")[0], cases[idx][k].split()[0], before)
        if sig in seen:
            continue
        seen.add(sig)
        ops = minimise(exe, cases[idx], judge_only=True)
        il, sl, ml, _ = one(exe, ops, with_lean)
        jj = judge(ops, il)
        viol.append((f"{COMP}-judge-{idx}", {
            "kind": "the queue's poll level does not mirror readiness (C15 at the level of nni_msgq): " + (jj[1] if jj else text),
            "component": COMP, "sub": SUB, "ops": ops, "impl": il, "spec": sl, "model": ml, "how_to_read": how,
            "cases_with_a_judge_violation": len(jv)}, False))
        found_input = True
        if len(seen) >= 4:
            break
    if not jv:
        for idx, t in sv[:2]:
            ops = minimise(exe, cases[idx]) if with_lean else cases[idx]
            il, sl, ml, _ = one(exe, ops, with_lean)
            t2 = first_spec_diff(il, sl)
            viol.append((f"{COMP}-spec-{idx}", {
                "kind": "implementation output differs from the specification of the queue and its poll levels "
                        "(Spec/MsgqNotify.lean: FIFO channel; level = a non-blocking put/get would be accepted)",
                "component": COMP, "sub": SUB, "ops": ops, "impl": il, "spec": sl, "model": ml, "how_to_read": how,
                "first": {"op_index": t2, "impl": il[t2] if t2 is not None and t2 < len(il) else None,
                          "spec": sl[t2] if sl and t2 is not None and t2 < len(sl) else None},
                "cases_with_a_spec_mismatch": len(sv)}, False))
            found_input = True
    if not found_input and mv:
        idx, t = mv[0]
        il, sl, ml = res[idx]
        viol.append((f"{COMP}-corr", {
            "kind": "correspondence broken: the real msgqueue.c differs from the Lean model the C18Notify theorems are about "
                    "(no input violating the specification was found)",
            "component": COMP, "sub": SUB, "correspondence": f"{MODEL} vs harness/{HARNESS}.c (norefresh)", "ops": cases[idx],
            "first": {"op_index": t, "impl": il[t] if t < len(il) else None, "model": ml[t] if ml and t < len(ml) else None},
            "mismatching_cases": len(mv)}, True))
    counts["wall_s"] = round(time.time() - t0, 1)
    core.log(PROP, f"msgq levels: cases {counts['cases']} ops {counts['ops']} (directed {counts['directed']}, corpus {counts['corpus']}, "
                   f"c18 sequences {counts['c18_sequences']}, random {counts['random']}); level points {counts['level_points']}, "
                   f"non-blocking probes {counts['nb_probes']}; judge violations {counts['judge']} {counts['clauses'] or ''}, "
                   f"spec mismatches {counts['spec']}, model mismatches {counts['model']}, crashes {counts['crash']}; {counts['wall_s']}s")
    return counts, viol
