#!/usr/bin/env python3
"""Pipe-id canonicalising proxy in front of harness/s_proto for raw REP (XREP) cases.

usage: c04rep_filter.py <s_proto exe>      (stdin: op lines, stdout: one output line per op line)

The core gives pipes random-start 32-bit ids (`nni_pipe_id`); XREP puts the id of the receiving pipe in
front of the header it hands up and routes a reply by the first header word.  The model must not
predict those numbers, so this proxy works in lock step with the harness and renames them:
  * after every `pipe_add` it asks the harness for the new pipe's id (`pipe_id <p>`, answer hidden) and remembers
    id -> canonical id p+1; an explicit `pipe_id <p>` op is answered `rv 0 <p+1>`;
  * in `send <ctx> <aio> P<p>+<hex> ...` it replaces `P<p>+` by the real id of pipe p (8 hex digits);
  * in `done <aio> 0 <hdr> <body>` events it renames a leading header word that is a known real id.
Everything else passes through unchanged; `reset` forgets the ids."""
import os, subprocess, sys


def main():
    env = dict(os.environ)     # stdbuf preloads libstdbuf.so in front of the ASan runtime: tell ASan not to mind
    env["ASAN_OPTIONS"] = (env.get("ASAN_OPTIONS", "") + ":verify_asan_link_order=0").lstrip(":")
    child = subprocess.Popen(["stdbuf", "-oL", sys.argv[1]], stdin=subprocess.PIPE, stdout=subprocess.PIPE, text=True,
                             bufsize=1, env=env)
    real_of, canon_of = {}, {}
    out = sys.stdout
    for line in sys.stdin:
        w = line.split()
        if not w:
            continue
        if w[0] == "send" and len(w) == 6 and w[3].startswith("P") and "+" in w[3]:
            p, rest = w[3][1:].split("+", 1)
            rid = real_of.get(int(p), 0) if p.isdigit() else 0
            w[3] = f"{rid:08x}" + ("" if rest == "-" else rest)
            line = " ".join(w) + "\n"
        child.stdin.write(line)
        child.stdin.flush()
        res = child.stdout.readline()
        if not res:
            break
        if w[0] == "pipe_add":
            # learn the new pipe's id at once (hidden query), so cases need no explicit pipe_id ops
            for e in res.split(" ; "):
                t = e.split()
                if len(t) == 2 and t[0] == "pipe" and t[1].isdigit():
                    child.stdin.write(f"pipe_id {t[1]}\n")
                    child.stdin.flush()
                    ans = child.stdout.readline().split()
                    if len(ans) == 3 and ans[0] == "rv" and ans[2].isdigit() and int(ans[2]) != 0:
                        real_of[int(t[1])] = int(ans[2])
                        canon_of[f"{int(ans[2]):08x}"] = f"{int(t[1]) + 1:08x}"
        if w[0] == "reset":
            real_of.clear(); canon_of.clear()
        elif w[0] == "pipe_id" and len(w) == 2 and res.startswith("rv 0 "):
            try:
                rid, p = int(res.split()[2]), int(w[1])
                if rid != 0:
                    real_of[p] = rid
                    canon_of[f"{rid:08x}"] = f"{p + 1:08x}"
                    res = f"rv 0 {p + 1}\n"
            except ValueError:
                pass
        elif "done " in res and canon_of:
            evs = res.rstrip("\n").split(" ; ")
            for i, e in enumerate(evs):
                t = e.split()
                if len(t) == 5 and t[0] == "done" and t[2] == "0" and len(t[3]) >= 8 and t[3][:8] in canon_of:
                    t[3] = canon_of[t[3][:8]] + t[3][8:]
                    evs[i] = " ".join(t)
            res = " ; ".join(evs) + "\n"
        out.write(res)
        out.flush()
    child.stdin.close()
    rest = child.stdout.read()
    if rest:
        out.write(rest)
    rc = child.wait()
    sys.exit(rc if rc >= 0 else 128 - rc)


if __name__ == "__main__":
    main()
