"""C16 part Q — the WebSocket receive queue (rxq / recvq / the pause rule of ws_start_read).

Three-way differential on the queue-mode ops of harness/u_ws.c (which #includes the real websocket.c):
  impl  : ws_str_recv / ws_read_cancel / ws_close / ws_read_cb / ws_read_finish_{msg,str} / ws_start_read / ws_fini
  model : Lean `wsq-model` (Model/WsQueue.lean; the C16Queue theorems are about it)
  spec  : Lean `wsq-spec`  (Spec/WsQueue.lean): a judge over the implementation's trace that only knows the byte
          stream (RFC 6455 reference decoder) and the operations: messages delivered to the receives in post order =
          messages encoded in the stream, whenever the receives are posted; a cancelled receive takes nothing; nothing
          withheld while a receive waits; nothing consumed past the first undelivered message; after close nobody waits.
Case = a frame stream (messages of 1..4 fragments, PING/PONG interleaved, sometimes one bad frame or a CLOSE) cut at
random points, with receives posted before / between / after the arrivals, bursts of several messages before any
receive, cancellations (of waiting and of idle receives), close, and `fini` at the end (LeakSanitizer is the witness
that every queued frame is released).
"""
import os, re, json, time
from .. import core, build, lean, unit
from . import c16 as C

PROP = "C16"
SUB = "queue"
MODULES = ["NngModel.Props.C16Queue"]
ALLOC_LIMIT = 1 << 22
RULE = ("queue: per case i (splitmix64(seed,C16,tier,queue,i)): role, message/stream mode (1/5 stream), limits; 1..6 messages of "
        "1..4 fragments (payload 0..40, sometimes 126..300) with PING/PONG before fragments (p=1/4 each), one mutated/CLOSE frame "
        "in 1/6 of the cases; the wire is cut whole / at frames / at random points / bytewise; schedule = one of: receives first, "
        "burst of all bytes first, alternating, random; cancellations p=1/5 per step (waiting id 3/4, idle id 1/4; rv 20 or 5); "
        "close in 1/10; always `fini` last; plus directed cases (every cut position x post position of a 2-fragment message "
        "followed by a second message) and corpus/C16/queue-*.txt")


def gen_case(r, idx):
    server = r.chance(1, 2)
    isstream = r.chance(1, 5)
    recvtext = r.chance(1, 3)
    maxframe = r.choice([0, 0, 0, 125, 300, 1 << 20])
    recvmax = r.choice([0, 0, 0, 40, 300, 1 << 20])
    ops = [f"qcfg {int(server)} {int(isstream)} {int(recvtext)} 0 {maxframe} {recvmax} 0 {ALLOC_LIMIT}"]
    pm = server

    def key():
        return r.bytes(4)

    def psize():
        k = r.below(12)
        if k < 8:
            return r.range(0, 40)
        if k < 10:
            return r.choice([0, 1, 2, 125])
        return r.choice([126, 127, 200, 300])

    def ctl():
        return C.frame(r.choice([9, 9, 10]), True, r.bytes(r.choice([0, 1, 4, 20, 125])), pm, key())

    frames = []
    nmsg = r.range(1, 6)
    for _ in range(nmsg):
        nfrag = r.choice([1, 1, 2, 2, 3, 4])
        dop = 1 if (recvtext and r.chance(1, 2)) else 2
        for i in range(nfrag):
            while r.chance(1, 4):
                frames.append(ctl())
            frames.append(C.frame(dop if i == 0 else 0, i == nfrag - 1, r.bytes(psize()), pm, key()))
        while r.chance(1, 6):
            frames.append(ctl())
    if r.chance(1, 6) and frames:
        k = r.below(len(frames) + 1)
        m = r.below(6)
        if m == 0:
            bad = C.frame(8, True, r.choice([b"", b"\x03\xe8"]), pm, key())
        elif m == 1:
            bad = C.frame(r.choice([0, 2, 9]), True, r.bytes(3), not pm, key())
        elif m == 2:
            bad = C.frame(r.choice([3, 7, 11, 15]), True, r.bytes(2), pm, key())
        elif m == 3:
            bad = C.frame(r.choice([0, 2]), r.chance(1, 2), r.bytes(5), pm, key())   # stray CONT / data while open
        elif m == 4:
            bad = C.frame(2, True, r.bytes(4), pm, key(), form=16)
        else:
            bad = C.frame(9, True, r.bytes(126), pm, key())
        frames.insert(k, bad)
    wire = b"".join(frames)
    mode = r.below(5)
    if mode == 0:
        blocks = [wire]
    elif mode == 1:
        blocks = list(frames)
    elif mode == 2 and len(wire) <= 160:
        blocks = [wire[i:i + 1] for i in range(len(wire))]
    else:
        ncut = r.range(1, 10)
        cuts = sorted({r.below(len(wire) + 1) for _ in range(ncut)} | {0, len(wire)})
        blocks = [wire[a:b] for a, b in zip(cuts, cuts[1:])]
    blocks = [b for b in blocks if b] or [b""]
    # schedule
    caps = [1, 2, 3, 5, 8, 64, 1000]
    nid = [0]
    live = []      # ids we believe may be waiting (the generator does not track completions exactly)
    done_ids = []

    def post():
        if nid[0] >= 60:
            return
        i = nid[0]
        nid[0] += 1
        live.append(i)
        ops.append(f"post {i} {r.choice(caps) if isstream else 0}")

    def cancel():
        if live and r.chance(3, 4):
            i = r.choice(live)
            live.remove(i)
            done_ids.append(i)
        elif nid[0] > 0:
            i = r.below(nid[0])
        else:
            return
        ops.append(f"cancel {i}" if r.chance(1, 2) else f"cancel {i} 5")

    sched = r.below(4)
    npost = nmsg + r.choice([0, 0, 1, 2]) if not isstream else nmsg * r.range(1, 6)
    close_at = r.below(len(blocks) + 1) if r.chance(1, 10) else -1
    if sched == 0:       # receives first
        for _ in range(npost):
            post()
            if r.chance(1, 5):
                cancel()
    for i, b in enumerate(blocks):
        if i == close_at:
            ops.append("close")
        if sched == 2:   # alternating
            if r.chance(1, 2):
                post()
        elif sched == 3:  # random
            for _ in range(r.choice([0, 0, 1, 1, 2, 3])):
                post()
        if r.chance(1, 5):
            cancel()
        ops.append(f"rx {core.hexs(b)}")
    if close_at == len(blocks):
        ops.append("close")
    # receives after everything arrived (burst first): enough to drain
    for _ in range(npost if sched == 1 else r.choice([0, 1, 2, nmsg])):
        post()
        if r.chance(1, 6):
            cancel()
    if r.chance(1, 8):
        ops.append("close")
        if r.chance(1, 2):
            post()
    ops.append("fini")
    return ops


def directed():
    cs = []
    lim = f"0 0 0 {ALLOC_LIMIT}"
    for server in (0, 1):
        m = bool(server)
        k = bytes([9, 8, 7, 6])
        f1 = C.frame(2, False, b"he", m, k)
        f2 = C.frame(0, True, b"llo", m, k)
        ping = C.frame(9, True, b"p", m, k)
        g = C.frame(2, True, b"second", m, k)
        h1 = C.frame(2, False, b"th", m, k)
        h2 = C.frame(0, True, b"ird", m, k)
        base = f"qcfg {server} 0 0 0 {lim}"
        # the C16-2A shape: a fragmented message completes while no receive is posted, another message follows
        cs.append([base, "post 0 0", "cancel 0", f"rx {core.hexs(f1 + f2 + g)}", "post 1 0", "post 2 0", "fini"])
        cs.append([base, "post 0 0", f"rx {core.hexs(f1)}", "cancel 0", f"rx {core.hexs(ping + f2 + g + h1 + h2)}", "post 1 0", "post 2 0",
                   "post 3 0", "post 4 0", "fini"])
        wire = f1 + ping + f2 + g
        # every cut of the stream x every position of the two receives (before / between / after)
        for cut in range(0, len(wire) + 1, 1):
            for where in range(6):
                ops = [base]
                seq = [f"rx {core.hexs(wire[:cut])}", f"rx {core.hexs(wire[cut:])}"]
                posts = ["post 0 0", "post 1 0", "post 2 0"]
                a, b = {0: (0, 0), 1: (0, 1), 2: (0, 2), 3: (1, 1), 4: (1, 2), 5: (2, 2)}[where]
                out = []
                for i in range(3):
                    if a == i:
                        out.append(posts[0])
                        if where % 2 == 0 and i == 0:
                            out += ["cancel 0", "post 3 0"]
                    if b == i:
                        out.append(posts[1])
                    if i < 2:
                        out.append(seq[i])
                ops += out + [posts[2], "fini"]
                cs.append(ops)
        # stream mode: small buffers against frames, bytes arriving before and after
        sb = f"qcfg {server} 1 0 0 {lim}"
        d1 = C.frame(2, False, b"abcdefg", m, k)
        e0 = C.frame(0, False, b"", m, k)
        d2 = C.frame(0, True, b"hij", m, k)
        for cap in (1, 3, 7, 8, 100):
            cs.append([sb, f"rx {core.hexs(d1 + e0)}", f"post 0 {cap}", f"post 1 {cap}", f"rx {core.hexs(d2 + ping)}", f"post 2 {cap}",
                       f"post 3 {cap}", "cancel 3", f"post 4 {cap}", "close", "fini"])
    return cs


WANT = re.compile(r" want=(\d+) ")
USED = re.compile(r" used=(\d+)")
DONE = re.compile(r" done=(\S+)")


def rewrite(ops, impl_lines):
    out = []
    used = 0
    for k, op in enumerate(ops):
        l = impl_lines[k] if k < len(impl_lines) else None
        if l is None or op.startswith("qcfg") or " done=" not in l:
            out.append(op)
            continue
        w = WANT.search(l)
        u = USED.search(l)
        if u:
            used = int(u.group(1))
        out.append(f"chk {w.group(1) if w else 0} {used} {DONE.search(l).group(1)} {op}")
    return out


def proj_spec(l):
    return "ok" if " done=" in l or l == "ok" else l


def run_part(tier, seed, st, replay=None):
    t0 = time.time()
    counts = {"cases": 0, "ops": 0, "spec": 0, "model": 0, "crash": 0, "op_hist": {}, "rv_hist": {}, "samples": [], "distinct": 0,
              "wall_s": 0.0, "completions": {}, "paused_lines": 0, "held_lines": 0}
    viol = []
    try:
        exe = build.harness("u_ws", ["u_ws.c"])
    except build.BuildError as e:
        viol.append(("queue-build", {"kind": "build", "sub": SUB, "error": str(e), "log": e.log[-4000:]}, True))
        return counts, viol
    if replay:
        rp = json.load(open(replay))
        if rp.get("sub") != SUB:
            return counts, viol
        cases = [rp["ops"]]
    else:
        n = 1500 if tier == "quick" else 40000
        cases = directed() + [gen_case(core.Rng(seed, PROP, tier, SUB, i), i) for i in range(n)]
        corpus = os.path.join(core.HERE, "corpus", PROP)
        if os.path.isdir(corpus):
            for f in sorted(os.listdir(corpus)):
                if f.startswith("queue-"):
                    cases.append([l.strip() for l in open(os.path.join(corpus, f)) if l.strip() and not l.startswith("#")])
    with_lean = bool(st.driver_ok)
    comp = {}

    def tally(ops, il):
        # measured coverage: kinds of completions; lines where reading was paused with something queued
        for l in il:
            m = DONE.search(l)
            if m and m.group(1) != "-":
                for d in m.group(1).split(","):
                    k = d.split(":")[1]
                    comp[k] = comp.get(k, 0) + 1
            if " want=0 closed=0" in l and " q=0 " not in l + " ":
                counts["paused_lines"] += 1
                if " inmsg=0" in l:
                    counts["held_lines"] += 1
        return None
    res = unit.run_unit(PROP, cases, exe, "wsq-spec" if with_lean else None, "wsq-model" if with_lean else None, proj_spec,
                        judge=tally, spec_rewrite=rewrite)
    counts["cases"] = res.cases
    counts["ops"] = res.ops
    counts["spec"] = len(res.spec_mismatch)
    counts["model"] = len(res.model_mismatch)
    counts["crash"] = len(res.crashes)
    counts["op_hist"] = res.op_hist
    counts["rv_hist"] = res.rv_hist
    counts["completions"] = comp
    counts["distinct"] = len({tuple(c) for c in cases if len(c) > 3})
    counts["samples"] = [{"sub": SUB, "ops": [o[:200] for o in c]} for c in (cases[0], cases[len(cases) // 2], cases[-1])]
    core.log(PROP, f"queue: cases {res.cases} ops {res.ops}; spec mismatches {len(res.spec_mismatch)}, model mismatches "
                   f"{len(res.model_mismatch)}, crashes {len(res.crashes)}; completions {comp}; paused lines {counts['paused_lines']}")
    found = False
    for c in res.crashes[:2]:
        ops = unit.minimise(exe, "wsq-spec", c["ops"], proj_spec, spec_rewrite=rewrite)
        viol.append((f"queue-crash-{c['case']}", {"kind": "sanitizer/crash/leak on the implementation (receive queue)", "sub": SUB, "ops": ops,
                                                  "rc": c["rc"], "stderr": c["stderr"]}, False))
        found = True
    for mm in res.spec_mismatch[:2]:
        ops = unit.minimise(exe, "wsq-spec", mm["ops"], proj_spec, spec_rewrite=rewrite)
        r1 = unit.single(exe, "wsq-spec", None, ops, spec_rewrite=rewrite)
        verdicts = [l for l in r1["spec"].lines if l.startswith("bad")]
        viol.append((f"queue-spec-{mm['case']}",
                     {"kind": "the receives did not get the messages of the byte stream (whole, in order, none lost/merged), or a "
                              "cancelled receive took data, or back-pressure/close rule broken (Spec/WsQueue.lean judge)", "sub": SUB,
                      "ops": ops, "impl": [l[:300] for l in r1["impl"].lines], "judge": verdicts[:3],
                      "first": {k: str(mm[k])[:400] for k in ("impl", "spec", "op_index")}}, False))
        found = True
    if res.model_mismatch and not found:
        mm = res.model_mismatch[0]
        ops = unit.minimise(exe, "wsq-model", mm["ops"], lambda l: l)
        r1 = unit.single(exe, None, "wsq-model", ops)
        viol.append(("queue-corr", {"kind": "correspondence broken: implementation differs from the Lean model the C16Queue theorems are "
                                            "about (no input violating the specification was found)", "sub": SUB,
                                    "correspondence": "wsq-model vs u_ws (queue mode)", "ops": ops, "impl": [l[:300] for l in r1["impl"].lines],
                                    "model": [l[:300] for l in r1["model"].lines], "mismatching_cases": len(res.model_mismatch)}, True))
    counts["wall_s"] = round(time.time() - t0, 1)
    return counts, viol


def run(tier, seed, replay=None):
    """stand-alone entry (./check c16_queue quick)"""
    t0 = time.time()
    me = "C16Q"
    v = core.Verdict(me, seed)
    core.clear_replays(me)
    st = lean.prepare(MODULES)
    core.log(PROP, f"lean: {len(st.discharged)}/{len(st.theorems)} theorems re-checked; {st.build_s:.1f}s")
    c, vs = run_part(tier, seed, st, replay)
    found = False
    for tag, payload, no_input in vs:
        v.violation(tag, payload, no_input=no_input)
        found = found or not no_input
    if not st.ok and not found:
        v.violation("proof", {"kind": "proof obligation no longer checks", "broken": st.broken, "log": st.log[-3000:]}, no_input=True)
    cov = {
        "obligations": len(st.theorems), "discharged": len(st.discharged),
        "checker_cmd": "lake build NngModel.Props.C16Queue && lake env lean <#print axioms for each theorem>",
        "trusted_base": ["Lean 4.33.0 kernel", "axioms: " + ", ".join(sorted({a for x in st.axioms.values() if x for a in x})),
                         "harness/u_ws.c queue mode (includes the real websocket.c; fakes only nni_http_read_full/write_full/conn_close "
                         "and nni_random; receive aios are real nng aios without callbacks), vlib/unit.py (correspondence)",
                         "gcc ASan/UBSan/LeakSanitizer on the implementation"],
        "theorems": st.discharged, "axioms": st.axioms, "broken": st.broken,
        "evaluations": c["cases"], "distinct_nontrivial": c["distinct"], "rule": RULE, "ops": c["ops"],
        "op_histogram": c["op_hist"], "rv_histogram": c["rv_hist"], "completion_histogram": c["completions"],
        "paused_lines": c["paused_lines"], "held_lines": c["held_lines"], "samples": c["samples"],
        "spec_mismatches": c["spec"], "model_mismatches": c["model"], "crashes": c["crash"], "extract_changed": st.extract_changed,
    }
    core.write_evidence(me, tier, seed, "proof", cov,
                        ["Model/WsQueue.lean mirrors ws_start_read / ws_read_finish_msg / ws_read_finish_str / ws_str_recv / ws_read_cancel / "
                         "ws_close / ws_fini on top of the frame reader of Model/Ws.lean; tie = three-way differential on the cases above",
                         "frame-struct and message allocation succeed; one iov of cap > 0 per stream-mode receive; transport read errors "
                         "(ws_read_cb with a failed rxaio) are not generated"],
                        time.time() - t0, len(v.violations))
    return v.finish()
