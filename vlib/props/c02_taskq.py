"""C02, task layer — src/core/taskq.c (one nni_task, W task threads, client threads) under thread schedules.

Lean: NngModel.Props.C02Taskq (all schedules, all W >= 1, all client programs within the contract K1/K2).
Tie to the code: harness/u_taskq.c replays a schedule on the REAL taskq.c one critical section at a time (hooks on
nni_mtx_lock/unlock, nni_cv_wait/wake/wake1, the creation of the nni_taskq_thread workers, nni_list_append; the task
callback parks at its begin and its end) and prints one observation per step.  The same schedules go through the Lean
model (`taskq-model`, line-exact comparison incl. task_busy, task_prep, run-list membership and the call each thread is
parked at) and the implementation's observations are judged by the Lean specification (`taskq-judge`, Spec/Taskq.lean
clauses a-e; a schedule that leaves the contract is recognised by the judge and not judged from there on).

 judge rejects an implementation trace  -> VIOLATION with the minimised schedule as replay
 only impl != model                     -> VIOLATION ... no-failing-input-found

Used by vlib/props/c02.py through `run_part`; `run` is the stand-alone entry (./check c02_taskq quick)."""
import os, re, json, time
from .. import core, build, lean

PROP = "C02"
SUB = "taskq"
CORPUS = "C02T"
MODULES = ["NngModel.Props.C02Taskq"]
RULE = ("schedules for harness/u_taskq.c: (1) corpus/C02T/taskq-*; (2) ALL maximal contract-respecting interleavings (every wake1 choice) of "
        "the configurations in EXHAUSTIVE (W = 1..2 task threads, one or two clients, callback present / NULL), capped per "
        "configuration at 1500 (quick) / 30000 (thorough) leaves of a depth-first enumeration with seeded child order; (3) random "
        "schedules from splitmix64(seed,C02,tier,taskq,i): W 1-4, 1-4 clients, programs of 1-8 calls built from the patterns "
        "prep+dispatch, prep+exec, dispatch, exec, wait, busy; bursty choice among the threads that can move within the contract, 4% choices of "
        "parked/finished threads (must be no-ops), 6% of the cases allowed to leave the contract (then only impl = model is compared); "
        "distinct = distinct op lists")

OPS = "pdxwb"
EXHAUSTIVE = [
    # (hasCb, W, programs)
    (1, 1, ["dw"]), (1, 2, ["dw"]), (1, 1, ["pdw"]), (1, 2, ["pdwb"]), (1, 1, ["xw"]), (1, 1, ["pxwb"]), (0, 1, ["pdwxw"]), (0, 2, ["dw", "b"]),
    (1, 1, ["d", "w"]), (1, 2, ["d", "w"]), (1, 2, ["pd", "w"]), (1, 1, ["d", "bw"]), (1, 2, ["dwdw"]), (1, 2, ["dw", "w"]),
    (1, 2, ["d", "x"]), (1, 2, ["dx", "w"]), (1, 2, ["dd", "w"]), (1, 2, ["pdpd", "w"]), (1, 1, ["x", "x"]), (1, 2, ["dw", "xw"]),
    (1, 2, ["pdw", "b"]), (1, 2, ["d", "w", "w"]),
]


# ---------------------------------------------------------------- schedule generator's own little interpreter
# (used ONLY to know which threads can move / stay within the contract, so that schedules are maximal and mostly
#  inside the contract; nothing is judged with it)
class Gen:
    def __init__(self, has_cb, nw, progs):
        self.has_cb, self.busy, self.prep, self.onq, self.panic = bool(has_cb), 0, False, False, False
        self.ws = ["ready"] * nw
        self.cs = [["idle", list(p)] for p in progs]
        self.sd = self.bw = self.owed = 0

    def clone(self):
        c = Gen.__new__(Gen)
        c.__dict__.update(self.__dict__)
        c.ws = list(self.ws)
        c.cs = [[pc, list(pr)] for pc, pr in self.cs]
        return c

    def names(self):
        return [f"w{j}" for j in range(len(self.ws))] + [f"c{i}" for i in range(len(self.cs))]

    def can_move(self, t):
        if self.panic:
            return False
        k = int(t[1:])
        if t[0] == "w":
            return k < len(self.ws) and self.ws[k] != "sleep"
        if k >= len(self.cs):
            return False
        pc, pr = self.cs[k]
        return pc != "waitSleep" and not (pc == "idle" and not pr)

    def allowed(self, t):
        if t[0] == "w":
            return True
        k = int(t[1:])
        if k >= len(self.cs):
            return True
        pc, pr = self.cs[k]
        if pc == "idle" and pr:
            if pr[0] == "d":
                return self.sd == self.bw
            if pr[0] == "p":
                return self.owed == 0
        return True

    def enabled(self, contract=True):
        return [t for t in self.names() if self.can_move(t) and (not contract or self.allowed(t))]

    def at_wake1(self, t):
        return t[0] == "c" and int(t[1:]) < len(self.cs) and self.cs[int(t[1:])][0] == "dispEnq"

    def _take(self):
        if self.prep:
            self.prep = False
            self.owed = max(0, self.owed - 1)
        else:
            self.busy += 1

    def _dec(self):
        if self.busy == 1:
            for c in self.cs:
                if c[0] == "waitSleep":
                    c[0] = "waitChk"
        self.busy = max(0, self.busy - 1)

    def step(self, t, pick=None):
        if not self.can_move(t):
            return
        k = int(t[1:])
        if t[0] == "w":
            w = self.ws[k]
            if w == "ready":
                if self.onq:
                    self.onq = False
                    self.ws[k] = "popped"
                else:
                    self.ws[k] = "sleep"
            elif w == "popped":
                self.bw += 1
                self.ws[k] = "inCb"
            elif w == "inCb":
                self.ws[k] = "after"
            elif w == "after":
                self.ws[k] = "ready"
                self._dec()
            return
        c = self.cs[k]
        pc = c[0]
        if pc == "idle":
            op = c[1].pop(0)
            if op == "p":
                self.busy += 1
                self.prep = True
                self.owed += 1
            elif op == "d":
                self._take()
                self.sd += 1
                if self.has_cb:
                    c[0] = "dispEnq"
                else:
                    self.bw += 1
                    self._dec()
            elif op == "x":
                self._take()
                if self.has_cb:
                    c[0] = "execPop"
                else:
                    self._dec()
            elif op == "w":
                if self.busy != 0:
                    c[0] = "waitSleep"
        elif pc == "dispEnq":
            if self.onq:
                self.panic = True
            else:
                self.onq = True
                c[0] = "idle"
                if pick is not None and pick < len(self.ws) and self.ws[pick] == "sleep":
                    self.ws[pick] = "ready"
                elif "sleep" in self.ws:
                    self.ws[self.ws.index("sleep")] = "ready"
        elif pc == "execPop":
            c[0] = "execCb"
        elif pc == "execCb":
            c[0] = "execAfter"
        elif pc == "execAfter":
            c[0] = "idle"
            self._dec()
        elif pc == "waitChk":
            c[0] = "idle" if self.busy == 0 else "waitSleep"


def init_line(has_cb, nw, progs):
    return f"init {has_cb} {nw} " + (",".join(p or "-" for p in progs) if progs else "none")


def all_interleavings(has_cb, nw, progs, limit=None, rng=None):
    """every maximal contract-respecting schedule (no stutter), with every wake1 choice that makes a difference"""
    out = []
    head = init_line(has_cb, nw, progs)

    def rec(st, acc):
        if limit is not None and len(out) >= limit:
            return
        en = st.enabled()
        if not en:
            out.append([head] + acc)
            return
        if rng is not None and len(en) > 1:
            k = rng.below(len(en))
            en = en[k:] + en[:k]
            if rng.chance(1, 2):
                en.reverse()
        for t in en:
            picks = [None]
            if st.at_wake1(t) and not st.onq:
                sl = [j for j, w in enumerate(st.ws) if w == "sleep"]
                if len(sl) > 1:
                    picks = sl
            for p in picks:
                c = st.clone()
                c.step(t, p)
                rec(c, acc + [f"step {t}" + ("" if p is None else f" {p}")])

    rec(Gen(has_cb, nw, progs), [])
    return out


def gen_prog(r, loose):
    out = ""
    for _ in range(r.range(1, 4)):
        k = r.weighted([("pd", 5), ("d", 5), ("px", 2), ("x", 3), ("w", 5), ("b", 3), ("dw", 4), ("pdw", 3)] + ([("p", 2), ("dd", 2)] if loose else []))
        out += k
    return out[:8]


def gen_random(r):
    loose = r.chance(6, 100)                   # may leave the contract
    has_cb = 0 if r.chance(1, 8) else 1
    nw = r.weighted([(1, 4), (2, 6), (3, 3), (4, 1)])
    progs = [gen_prog(r, loose) for _ in range(r.weighted([(1, 4), (2, 6), (3, 3), (4, 1)]))]
    st = Gen(has_cb, nw, progs)
    ops = [init_line(has_cb, nw, progs)]
    names = st.names()
    weights = {t: r.range(1, 6) for t in names}
    cur = None
    for _ in range(r.range(5, 140)):
        en = st.enabled(contract=not loose)
        if not en:
            break
        if r.chance(1, 25):
            t = r.choice(names + [f"w{nw}", f"c{len(progs)}"])       # possibly parked / finished / non-existent: must be a no-op
            if not st.allowed(t) and not loose:
                continue
        elif cur in en and r.chance(2, 3):
            t = cur
        else:
            t = r.weighted([(t, weights[t]) for t in en])
        cur = t
        pick = r.below(nw) if st.at_wake1(t) and r.chance(1, 2) else None
        st.step(t, pick)
        ops.append(f"step {t}" + ("" if pick is None else f" {pick}"))
    return ops


# ---------------------------------------------------------------- running
def run_three(cases, exe, with_lean):
    parts = core.chunked(list(enumerate(cases)), core.NCPU * 2)
    env = build.env()

    def work(part):
        text = core.cases_to_text([c for _, c in part])
        a = core.run_stream([exe], text, env=env, timeout=1800)
        ic, partial = core.split_cases(a.lines)
        if partial and len(ic) < len(part):
            ic.append(partial)
        jc = mc = None
        if with_lean:
            jc = core.split_cases(core.run_stream(lean.driver_cmd("taskq-judge"), "\n".join(a.lines) + "\nreset\n", timeout=1800).lines)[0]
            mc = core.split_cases(core.run_stream(lean.driver_cmd("taskq-model"), text, timeout=1800).lines)[0]
        return part, a, ic, partial, jc, mc

    res, crashes = {}, []
    for part, a, ic, partial, jc, mc in core.parallel_map(work, parts):
        if a.rc != 0 or len(ic) != len(part):
            k = max(0, len(ic) - 1) if partial else len(ic)
            idx, ops = part[k] if k < len(part) else part[-1]
            crashes.append({"case": idx, "ops": ops, "rc": a.rc, "stderr": a.err[-3000:], "done_ops": len(partial)})
        for j, (idx, ops) in enumerate(part):
            res[idx] = (ic[j] if j < len(ic) else None, jc[j] if jc is not None and j < len(jc) else None,
                        mc[j] if mc is not None and j < len(mc) else None)
    return res, crashes


def judge_one(exe, ops):
    """-> (impl lines, judge lines, model lines, first violated clause or None)"""
    text = core.cases_to_text([ops])
    a = core.run_stream([exe], text, env=build.env(), timeout=120)
    il = core.split_cases(a.lines)[0]
    il = il[0] if il else a.lines
    j = core.run_stream(lean.driver_cmd("taskq-judge"), "\n".join(il) + "\nreset\n", timeout=120)
    jl = core.split_cases(j.lines)[0]
    jl = jl[0] if jl else j.lines
    m = core.run_stream(lean.driver_cmd("taskq-model"), text, timeout=120)
    ml = core.split_cases(m.lines)[0]
    ml = ml[0] if ml else m.lines
    clause = next((l.split(None, 1)[1] for l in jl if l.startswith("VIOLATION")), None)
    if a.rc != 0:
        clause = clause or f"crash rc={a.rc}"
    return il, jl, ml, clause


def minimise(exe, ops, clause, budget_s=40):
    head, steps = ops[:1], ops[1:]

    def fails(o):
        return judge_one(exe, head + o)[3] == clause

    if not fails(steps):
        return ops
    return head + core.ddmin(steps, fails, budget_s)


def load_corpus():
    out = []
    d = os.path.join(core.HERE, "corpus", CORPUS)
    if os.path.isdir(d):
        for f in sorted(os.listdir(d)):
            if f.startswith("taskq-"):
                out.append((f, [l.strip() for l in open(os.path.join(d, f)) if l.strip() and not l.startswith("#")]))
    return out


CLAUSE_TEXT = {
    "k:panic": "nni_panic (task appended to the run list while it is on it) in a schedule that respects the contract",
    "a:callback-without-dispatch": "a callback execution began that no nni_task_dispatch / nni_task_exec call accounts for (doubled callback)",
    "a:callback-lost": "nothing can move any more and a dispatched callback has not run / not been accounted (lost callback)",
    "e:busy-counter": "task_busy differs from (unconsumed prep) + (dispatch/exec calls) - (completed executions)",
    "c:returned-while-pending": "nni_task_wait returned (or nni_task_busy said false) while a callback was scheduled, running or prepared",
    "c:busy-while-idle": "nni_task_busy said true although nothing is scheduled, running or prepared",
    "b:callbacks-overlap": "two executions of the callback overlap although no dispatch/exec was issued while an earlier one was unfinished",
    "d:deadlock": "nothing can move, a client has not finished and no prep is outstanding (a wait that never returns)",
    "obs:counters": "callback end before begin / accounting before end",
}

# what breaks when a clause of the contract is dropped, run on the real code for the record (never a violation):
DEMO_K1 = ["init 1 1 dd"] + ["step c0"] * 4                              # second dispatch while queued: nni_panic
DEMO_K2 = ["init 1 1 ppddw"] + ["step c0"] * 4 + ["step w0"] * 4 + ["step c0"] * 2 + ["step w0"] * 5 + ["step c0"] * 2   # busy stays 1: wait hangs
DEMO_OVERLAP = ["init 1 2 d,d", "step c0", "step c0", "step w0", "step w0", "step c1", "step c1", "step w1", "step w1"]  # two workers inside the callback


def run_part(tier, seed, st, replay=None):
    """-> (counts dict, [(tag, payload, no_input)])"""
    t0 = time.time()
    counts = {"cases": 0, "steps": 0, "exhaustive": 0, "random": 0, "corpus": 0, "judge": 0, "model": 0, "crash": 0, "distinct": 0,
              "off_contract": 0, "complete_runs": 0, "max_overlap": 0, "clauses": {}, "next_hist": {}, "samples": [], "demos": {}, "wall_s": 0.0}
    viol = []
    try:
        exe = build.harness("u_taskq", ["u_taskq.c"])
    except build.BuildError as e:
        viol.append(("taskq-build", {"kind": "build", "sub": SUB, "error": str(e), "log": e.log[-4000:]}, True))
        return counts, viol
    with_lean = bool(st.driver_ok)
    cases = []
    if replay:
        rp = json.load(open(replay)) if isinstance(replay, str) else replay
        if rp.get("sub") != SUB or "ops" not in rp:
            return counts, viol
        cases.append(list(rp["ops"]))
    else:
        for _, ops in load_corpus():
            cases.append(ops); counts["corpus"] += 1
        lim = 1500 if tier == "quick" else 30000
        for k, (cb, nw, progs) in enumerate(EXHAUSTIVE):
            cs = all_interleavings(cb, nw, progs, limit=lim, rng=core.Rng(seed, PROP, tier, SUB, "dfs", k))
            cases += cs; counts["exhaustive"] += len(cs)
        nrand = 3000 if tier == "quick" else 50000
        for i in range(nrand):
            cases.append(gen_random(core.Rng(seed, PROP, tier, SUB, i)))
        counts["random"] = nrand
    counts["cases"] = len(cases)
    counts["steps"] = sum(len(c) - 1 for c in cases)
    counts["distinct"] = len({tuple(c) for c in cases})
    if cases:
        counts["samples"] = [{"sub": SUB, "ops": c[:40]} for c in (cases[0], cases[len(cases) // 2], cases[-1])]
    res, crashes = run_three(cases, exe, with_lean)
    counts["crash"] = len(crashes)
    jv, mv = [], []
    for idx in range(len(cases)):
        il, jl, ml = res.get(idx, (None, None, None))
        if il is None:
            continue
        for l in il:
            m = re.search(r"next=(\S+)", l)
            if m:
                for w in re.split(r"[,|]", m.group(1)):
                    if w:
                        counts["next_hist"][w] = counts["next_hist"].get(w, 0) + 1
            m = re.search(r"bw=(\d+) bx=(\d+) ce=(\d+)", l)
            if m:
                counts["max_overlap"] = max(counts["max_overlap"], int(m.group(1)) + int(m.group(2)) - int(m.group(3)))
        if il and " live=0 fin=1 " in il[-1]:
            counts["complete_runs"] += 1
        if jl is not None:
            if any(l.startswith("CONTRACT") for l in jl):
                counts["off_contract"] += 1
            bad = next((l for l in jl if l.startswith("VIOLATION") or l == "bad-obs"), None)
            if bad:
                clause = bad.split(None, 1)[1] if " " in bad else bad
                counts["clauses"][clause] = counts["clauses"].get(clause, 0) + 1
                jv.append((idx, clause))
        if ml is not None and ml[:len(il)] != il:
            t = next((k for k, (x, y) in enumerate(zip(il, ml)) if x != y), min(len(il), len(ml)))
            mv.append((idx, t))
    counts["judge"], counts["model"] = len(jv), len(mv)
    found_input = False
    for c in crashes[:2]:
        viol.append((f"taskq-crash-{c['case']}", {"kind": "crash / sanitizer report of the implementation under the schedule",
                                                  "sub": SUB, "ops": c["ops"], "rc": c["rc"], "stderr": c["stderr"]}, False))
        found_input = True
    seen = set()
    for idx, clause in jv:
        if clause in seen:
            continue
        seen.add(clause)
        ops = minimise(exe, cases[idx], clause) if with_lean else cases[idx]
        il, jl, ml, cl = judge_one(exe, ops)
        viol.append((f"taskq-judge-{idx}", {
            "kind": "implementation observations violate the task-layer specification (Spec/Taskq.lean): " + CLAUSE_TEXT.get(clause, clause),
            "clause": clause, "sub": SUB, "ops": ops, "impl": il, "judge": jl, "model": ml,
            "how_to_read": "ops: `init <callback present> <task threads> <client programs: p prep d dispatch x exec w wait b busy>`, "
                           "`step <w<j>|c<i>> [wake1 choice]` = that thread performs the critical section / callback boundary it is parked at (see next=)",
            "violating_cases_with_this_clause": counts["clauses"].get(clause, 0)}, False))
        found_input = True
        if len(seen) >= 3:
            break
    if not found_input and mv:
        idx, t = mv[0]
        il, jl, ml, _ = judge_one(exe, cases[idx])
        viol.append(("taskq-corr", {"kind": "correspondence broken: the real taskq.c differs step-for-step from the Lean model the "
                                            "C02Taskq theorems are about (no schedule violating the specification was found)",
                                    "sub": SUB, "correspondence": "taskq-model vs harness/u_taskq.c",
                                    "ops": cases[idx], "first": {"op_index": t, "impl": il[t] if t < len(il) else None,
                                                                 "model": ml[t] if t < len(ml) else None},
                                    "mismatching_cases": len(mv)}, True))
    if not replay and with_lean:
        for name, ops in (("K1 dropped (dispatch while queued)", DEMO_K1), ("K2 dropped (prep twice)", DEMO_K2), ("overlap (dispatch during the callback, W=2)", DEMO_OVERLAP)):
            il, jl, _, cl = judge_one(exe, ops)
            counts["demos"][name] = {"ops": ops, "judge": next((l for l in jl if l.startswith("CONTRACT")), cl or "ok"), "last": il[-1] if il else None}
    counts["wall_s"] = round(time.time() - t0, 1)
    core.log(PROP, f"taskq: cases {counts['cases']} (exhaustive {counts['exhaustive']}, random {counts['random']}, corpus {counts['corpus']}; "
                   f"{counts['complete_runs']} run to completion, {counts['off_contract']} leave the contract) steps {counts['steps']}; judge violations "
                   f"{counts['judge']} {counts['clauses'] or ''}, model mismatches {counts['model']}, crashes {counts['crash']}; {counts['wall_s']}s")
    return counts, viol


def run(tier, seed, replay=None):
    """stand-alone entry: Lean build + axiom audit of Props/C02Taskq, then the differential run"""
    t0 = time.time()
    v = core.Verdict(PROP, seed)
    if os.path.isdir(core.REPLAYS):
        for f in os.listdir(core.REPLAYS):
            if f.startswith(f"{PROP}-") and "-taskq-" in f:
                os.unlink(os.path.join(core.REPLAYS, f))
    st = lean.prepare(MODULES)
    core.log(PROP, f"lean: {len(st.discharged)}/{len(st.theorems)} theorems re-checked; {st.build_s:.1f}s")
    counts, viol = run_part(tier, seed, st, replay)
    found_input = False
    for tag, payload, no_input in viol:
        v.violation(tag, payload, no_input=no_input)
        found_input = found_input or not no_input
    if not found_input and not st.ok:
        v.violation("taskq-proof", {"kind": "proof obligation no longer checks", "broken": st.broken, "log": st.log[-3000:]}, no_input=True)
    cov = {"obligations": len(st.theorems), "discharged": len(st.discharged),
           "checker_cmd": "lake build NngModel.Props.C02Taskq && lake env lean <#print axioms for each theorem>",
           "trusted_base": ["Lean 4.33.0 kernel", "axioms: " + ", ".join(sorted({a for x in st.axioms.values() if x for a in x})),
                            "harness/u_taskq.c (hooks on the mutex / condition-variable / thread-creation calls of the real taskq.c; tracked locks)",
                            "vlib/props/c02_taskq.py", "nni_cv_wake1 wakes exactly one waiter; no spurious wake-ups"],
           "theorems": st.discharged, "axioms": st.axioms, "broken": st.broken,
           "evaluations": counts["cases"], "distinct_nontrivial": counts["distinct"], "rule": RULE, "samples": counts["samples"],
           "taskq_part": {k: counts[k] for k in counts if k != "samples"}}
    ev = core.write_evidence(PROP + "-taskq", tier, seed, "proof", cov,
                             ["one task per queue (other tasks on the same queue only delay the workers)",
                              "nni_taskq_fini / nni_taskq_drain are not called while the task is in use"],
                             time.time() - t0, len(v.violations))
    ev["property_id"] = PROP
    json.dump(ev, open(os.path.join(core.EVIDENCE, f"{PROP}-taskq.json"), "w"), indent=1)
    return v.finish()
