"""C07 — SURVEYOR/RESPONDENT: only responses to the current survey and only before its deadline;
a response goes to the surveyor whose survey was received last.  Raw mode (xsurvey.c / xrespond.c): fan-out,
routing by the first header word, header processing as C13 classifies it (cases from index RAW_BASE on, kinds
`xsurveyor` / `xrespondent`, pipe ids renamed by `RawXf`).

Survey ids are allocated by nni_id_alloc from a randomised start.  Every case re-seeds the random
stream (`reseed 7`, additive harness op) right before its first survey, so the first id is the same
constant S in every case; S is learnt once per run from a probe.  Cases are written with symbolic
ids (`@k` = id of the k-th survey of the case, `^k` = the same without the high bit); for the
implementation they become S+k, for the Lean model and judge survIdMin+k, and the ids in the
implementation's outputs (`psend` headers, headers of delivered responses) are renamed the same way."""
import os, time, json, re
from .. import core, build, lean, sim

PROP = "C07"
MODULES = ["NngModel.Props.C07"]
KINDS = ("surveyor", "respondent", "xsurveyor", "xrespondent")
ADV = [7, 13, 31, 61, 127]
IDMIN, IDRANGE = 0x80000000, 0x80000000
RESEED = "reseed 7"
SYM = re.compile(r"([@^])(\d+)\.")


# ----------------------------------------------------------------------------- id translation
def expand(line, base):
    """symbolic ids -> 8 hex digits (base = S for the implementation, IDMIN for model/judge)"""
    if base is None:
        return line

    def f(m):
        v = IDMIN + (base - IDMIN + int(m.group(2))) % IDRANGE
        if m.group(1) == "^":
            v -= IDMIN
        return "%08x" % v
    return SYM.sub(f, line)


def canon_out(line, S):
    """rename the survey ids in an implementation output line to canonical ones"""
    if S is None or ("psend" not in line and "done" not in line):
        return line
    evs = line.split(" ; ")
    for i, e in enumerate(evs):
        w = e.split()
        h = None
        if len(w) == 4 and w[0] == "psend":
            h = 2
        elif len(w) == 5 and w[0] == "done" and w[2] == "0":
            h = 3
        if h is not None and len(w[h]) == 8:
            v = int(w[h], 16)
            if v >= IDMIN:
                w[h] = "%08x" % (IDMIN + (v - S) % IDRANGE)
                evs[i] = " ".join(w)
    return " ; ".join(evs)


def probe_start(exe):
    """first survey id after `reseed`, for a first survey sent through an aio and through the
    non-blocking call (whose stack aio draws one random number for its expiry queue first)"""
    out = {}
    for key, mode in (("aio", "inf"), ("nb", "nb")):
        ops = ["sched 1", "open surveyor", "pipe_add 0063", RESEED, f"send - 0 - 00 {mode}"]
        r = core.run_stream([exe], core.cases_to_text([ops]), env=build.env(), timeout=60)
        m = None
        for l in r.lines:
            m = m or re.search(r"psend 0 ([0-9a-f]{8}) 00", l)
        if not m:
            raise RuntimeError("cannot learn the survey id start: " + " | ".join(r.lines[-5:]))
        out[key] = int(m.group(1), 16)
        if out[key] + 4096 >= 0xffffffff:
            raise RuntimeError("probe id start too close to the wrap point for the canonical renaming")
    return out


def start_of(ops, S):
    if kind_of([o for o in ops if not o.startswith("sched")]) != "surveyor":
        return None
    idx = [i for i, l in enumerate(ops) if l.startswith("reseed")]
    for l in ops[idx[-1]:] if idx else ops:
        if l.startswith("send "):
            return S["nb"] if l.split()[-1] == "nb" else S["aio"]
    return S["aio"]


class CookedXf:
    """survey-id renaming for the cooked sockets (see module docstring)"""
    def __init__(self, S):
        self.S = S

    def impl_ops(self, ops):
        Sj = start_of(ops, self.S)
        return [expand(l, Sj) for l in ops]

    def model_ops(self, ops):
        return [expand(l, IDMIN) for l in ops]

    def canon(self, ops, lines):
        Sj = start_of(ops, self.S)
        return [canon_out(l, Sj) for l in lines]


class RawXf:
    """pipe-id renaming for the raw sockets: the core's pipe ids are random; raw RESPONDENT shows them
    (first header word of a delivered survey) and routes by them.  Cases carry `pipe_id <k>` after every
    `pipe_add` and address replies with the harness op `sendp <ctx> <aio> <k> <hdr> <body> <mode>` (header =
    real id of pipe k, then <hdr>).  Model and judge get `send` with the canonical id k+1 instead; in the
    implementation's output the answer to `pipe_id k` teaches real -> canonical, and the leading header
    word of delivered messages is renamed."""

    def impl_ops(self, ops):
        return ops

    def model_ops(self, ops):
        out = []
        for l in ops:
            w = l.split()
            if w and w[0] == "sendp" and len(w) == 7:
                l = f"send {w[1]} {w[2]} {int(w[3]) + 1:08x}{'' if w[4] == '-' else w[4]} {w[5]} {w[6]}"
            out.append(l)
        return out

    def canon(self, ops, lines):
        canon_of = {}
        out = []
        for op, l in zip(ops, lines):
            w = op.split()
            if w and w[0] == "pipe_id" and len(w) == 2 and l.startswith("rv 0 "):
                try:
                    rid, k = int(l.split()[2]), int(w[1])
                    if rid != 0:
                        canon_of["%08x" % rid] = "%08x" % (k + 1)
                    l = f"rv 0 {k + 1}"
                except ValueError:
                    pass
            elif "done " in l and canon_of:
                evs = l.split(" ; ")
                for i, e in enumerate(evs):
                    t = e.split()
                    if len(t) == 5 and t[0] == "done" and t[2] == "0" and len(t[3]) >= 8 and t[3][:8] in canon_of:
                        t[3] = canon_of[t[3][:8]] + t[3][8:]
                        evs[i] = " ".join(t)
                l = " ; ".join(evs)
            out.append(l)
        return out + lines[len(out):]


# ----------------------------------------------------------------------------- generators
class Base:
    def __init__(self, r):
        self.r = r
        self.ops = []
        self.npipes = 0
        self.nbody = 0
        self.busy_aio = set()
        self.now = 0
        self.deadlines = set()
        self.ctxs = set()       # open context numbers
        self.last_rd = None

    def body(self):
        self.nbody += 1
        return (self.nbody.to_bytes(2, "big") + self.r.bytes(self.r.choice([0, 0, 1, 3]))).hex()

    def aio(self):
        free = [a for a in range(16) if a not in self.busy_aio]
        return self.r.choice(free) if free else None

    def mode(self, wnb=4):
        k = self.r.below(10)
        if k < wnb:
            return "nb"
        if k < wnb + 2:
            return "inf"
        if k < wnb + 3:
            return "def"
        t = self.r.choice([0, 10, 20, 50, 100, 400, 2000])
        self.deadlines.add(self.now + t)
        return str(t)

    def advance(self, d=None):
        if d is None:
            d = self.r.choice(ADV)
        d = max(1, d)
        while self.now + d in self.deadlines:
            d += 1
        self.now += d
        self.ops.append(f"advance {d}")
        self.busy_aio.clear()

    def ctx(self, stray=20):
        """a context to operate on: socket, an open one, rarely one that is not open"""
        if self.r.chance(1, stray):
            return str(self.r.below(4))
        if self.ctxs and self.r.chance(2, 3):
            return str(self.r.choice(sorted(self.ctxs)))
        return "-"

    def common(self, k):
        r = self.r
        if k == "cancel":
            self.ops.append(f"cancel {r.below(16)}"); self.busy_aio.clear()
        elif k == "abort":
            self.ops.append(f"abort {r.below(16)} {r.choice([5, 20, 7])}"); self.busy_aio.clear()
        elif k == "advance":
            self.advance()
        elif k == "poll":
            self.ops.append("poll")
            if r.chance(1, 2):
                # probe the pollable: a socket-level non-blocking call right after the poll
                a = self.aio()
                if a is not None:
                    if r.chance(1, 2):
                        self.ops.append(f"recv - {a} nb")
                    else:
                        self.probe_send(a)
        elif k == "ctx_open":
            free = [c for c in range(4) if c not in self.ctxs]
            if free:
                c = r.choice(free)
                self.ops.append(f"ctx_open {c}"); self.ctxs.add(c)
        elif k == "ctx_close":
            if self.ctxs and r.chance(9, 10):
                c = r.choice(sorted(self.ctxs))
                self.ctxs.discard(c)
            else:
                c = r.below(4)
                if c in self.ctxs:
                    self.ctxs.discard(c)
            self.ops.append(f"ctx_close {c}"); self.busy_aio.clear()
        elif k == "pipe_drop" and self.npipes:
            self.ops.append(f"pipe_drop {r.below(self.npipes)}"); self.busy_aio.clear()


    def probe_send(self, a):
        self.ops.append(f"send - {a} - {self.body()} nb")


class SurvGen(Base):
    def __init__(self, r):
        super().__init__(r)
        self.nsurv = 0
        self.cur = {}      # ctx -> (k, deadline)
        self.stime = {"-": 1000}
        self.hist = {}     # ctx -> list of older k

    def probe_send(self, a):
        self.survey("-", "nb")

    def survey(self, c, mode=None):
        a = self.aio()
        if a is None:
            self.advance(); return
        if self.nsurv == 0:
            self.ops.append(RESEED)
        self.ops.append(f"send {c} {a} {'-' if self.r.chance(3, 4) else 'aabb'} {self.body()} {mode or self.mode(3)}")
        if c == "-" or int(c) in self.ctxs:
            if c in self.cur:
                self.hist.setdefault(c, []).append(self.cur[c][0])
            dl = self.now + self.stime.get(c, 1000)
            self.cur[c] = (self.nsurv, dl)
            self.deadlines.add(dl)
            self.nsurv += 1
            self.busy_aio.clear()

    def resp_id(self):
        r = self.r
        k = r.below(100)
        live = sorted(self.cur)
        if k < 55 and live:
            return f"@{self.cur[r.choice(live)][0]}."
        if k < 65 and self.hist:
            return f"@{r.choice(self.hist[r.choice(sorted(self.hist))])}."     # stale
        if k < 72:
            return f"@{self.nsurv + r.choice([0, 1, 5])}."                     # not yet issued
        if k < 78:
            return f"@{100000 + r.below(1000)}."                               # unknown
        if k < 86 and self.nsurv:
            return f"^{r.below(self.nsurv)}."                                  # high bit missing
        if k < 90:
            return r.choice(["00000000", "00000001", "7fffffff"])
        return None                                                            # short

    def response(self):
        r = self.r
        p = r.below(self.npipes)
        if self.last_rd and r.chance(1, 8):
            self.ops.append(f"recv_done {p} {self.last_rd}")                   # duplicate
        elif r.chance(1, 25):
            self.ops.append(f"recv_done {p} !{r.choice([7, 19, 31])}")
        else:
            i = self.resp_id()
            d = r.choice(["-", "01", "0102", "010203"]) if i is None else i + self.body()
            self.last_rd = d
            self.ops.append(f"recv_done {p} {d}")
        self.busy_aio.clear()

    def near_deadline(self):
        live = [(c, kd) for c, kd in sorted(self.cur.items()) if kd[1] > self.now]
        if not live:
            return self.advance()
        c, (k, dl) = self.r.choice(live)
        before = self.r.chance(1, 2)
        target = dl - 1 if before else dl + 1
        if target <= self.now:
            target = dl + 1
        self.advance(target - self.now)
        if self.npipes and self.r.chance(3, 4):
            self.ops.append(f"recv_done {self.r.below(self.npipes)} @{k}.{self.body()}")
            self.busy_aio.clear()

    def gen(self, n):
        r = self.r
        self.ops.append("open surveyor")
        for _ in range(r.range(0, 2)):
            self.ops.append("pipe_add 0063"); self.npipes += 1
        while len(self.ops) < n:
            k = r.weighted([("survey", 14), ("recv", 22), ("response", 22 if self.npipes else 0), ("send_done", 8 if self.npipes else 0),
                            ("pipe_add", 5 if self.npipes < 3 else 0), ("pipe_drop", 2), ("near", 7), ("advance", 6),
                            ("setopt", 5), ("poll", 5), ("cancel", 3), ("abort", 1), ("ctx_open", 5 if len(self.ctxs) < 3 else 0),
                            ("ctx_close", 2), ("getopt", 1), ("close", 1)])
            if k == "survey":
                self.survey(self.ctx())
            elif k == "recv":
                a = self.aio()
                if a is None:
                    self.advance(); continue
                m = self.mode()
                self.ops.append(f"recv {self.ctx()} {a} {m}")
                if m != "nb":
                    self.busy_aio.add(a)
            elif k == "response":
                self.response()
            elif k == "send_done":
                self.ops.append(f"send_done {r.below(self.npipes)} {0 if r.chance(9, 10) else r.choice([7, 19])}")
            elif k == "pipe_add":
                self.ops.append(f"pipe_add {'0063' if r.chance(9, 10) else r.choice(['0062', '0031'])}"); self.npipes += 1
            elif k == "near":
                self.near_deadline()
            elif k == "setopt":
                c = self.ctx()
                v = r.choice([20, 50, 100, 300, 1000, 0, -1, -2])
                if r.chance(1, 10):
                    self.ops.append(f"setopt - ttl-max int {r.choice([0, 1, 8, 15, 16])}")
                else:
                    self.ops.append(f"setopt {c} surveyor:survey-time ms {v}")
                    if v >= -1 and (c == "-" or int(c) in self.ctxs):
                        self.stime[c] = v
            elif k == "getopt":
                self.ops.append(f"getopt {self.ctx()} surveyor:survey-time ms")
            elif k == "ctx_open":
                free = [c for c in range(4) if c not in self.ctxs]
                if free:
                    c = r.choice(free)
                    self.ops.append(f"ctx_open {c}"); self.ctxs.add(c)
                    self.stime[str(c)] = self.stime["-"]
            elif k == "ctx_close":
                before = set(self.ctxs)
                self.common(k)
                for c in before - self.ctxs:
                    self.cur.pop(str(c), None); self.hist.pop(str(c), None)
            elif k == "close":
                self.ops.append("close"); break
            else:
                self.common(k)
        return self.ops

    def flood(self, extra):
        """receive buffer depth: more responses than the queue holds, then drain"""
        self.ops += ["open surveyor", "pipe_add 0063", RESEED, f"send - 0 - {self.body()} inf"]
        n = 128 + extra
        for _ in range(n):
            self.ops.append(f"recv_done 0 @0.{self.body()}")
        self.ops.append("poll")
        for i in range(n + 1):
            self.ops.append(f"recv - {i % 16} nb")
        self.ops += ["poll", "close"]
        return self.ops


class RespGen(Base):
    def survey_bytes(self):
        r = self.r
        k = r.below(100)
        hops = r.choice([0, 0, 0, 1, 1, 2, 3, 7, 8, 9])
        bt = b"".join((r.below(1 << 31)).to_bytes(4, "big") for _ in range(hops))
        last = (0x80000000 | r.below(1 << 31)).to_bytes(4, "big")
        if k < 80:
            return bt.hex() + last.hex() + self.body()
        if k < 86:
            return (bt.hex() + r.bytes(r.choice([0, 1, 3])).hex()) or "-"   # runs out before the end marker
        if k < 92 and not getattr(self, "had_empty", False):
            self.had_empty = True                                           # (once: the judge tells surveys apart by body)
            return bt.hex() + last.hex()                                    # empty body
        if k < 96:
            return (b"\x00\x00\x00\x01" * r.choice([8, 9, 15, 16])).hex() + last.hex() + self.body()
        return "-"

    def gen(self, n):
        r = self.r
        self.ops.append("open respondent")
        for _ in range(r.range(0, 2)):
            self.ops.append("pipe_add 0062"); self.npipes += 1
        while len(self.ops) < n:
            k = r.weighted([("survey", 24 if self.npipes else 0), ("recv", 20), ("send", 20), ("send_done", 10 if self.npipes else 0),
                            ("pipe_add", 5 if self.npipes < 3 else 0), ("pipe_drop", 3), ("advance", 6), ("setopt", 3), ("poll", 6),
                            ("cancel", 3), ("abort", 1), ("ctx_open", 5 if len(self.ctxs) < 3 else 0), ("ctx_close", 2), ("close", 1)])
            if k == "survey":
                p = r.below(self.npipes)
                if r.chance(1, 25):
                    self.ops.append(f"recv_done {p} !{r.choice([7, 19, 31])}")
                else:
                    self.ops.append(f"recv_done {p} {self.survey_bytes()}")
                self.busy_aio.clear()
            elif k in ("recv", "send"):
                a = self.aio()
                if a is None:
                    self.advance(); continue
                m = self.mode()
                if k == "recv":
                    self.ops.append(f"recv {self.ctx()} {a} {m}")
                else:
                    self.ops.append(f"send {self.ctx()} {a} {'-' if r.chance(3, 4) else '0badf00d'} {self.body()} {m}")
                if m != "nb":
                    self.busy_aio.add(a)
            elif k == "send_done":
                self.ops.append(f"send_done {r.below(self.npipes)} {0 if r.chance(9, 10) else r.choice([7, 19])}")
                self.busy_aio.clear()
            elif k == "pipe_add":
                self.ops.append(f"pipe_add {'0062' if r.chance(9, 10) else r.choice(['0063', '0031'])}"); self.npipes += 1
            elif k == "setopt":
                self.ops.append(f"setopt - ttl-max int {r.choice([1, 2, 3, 8, 15, 0, 16])}")
            elif k == "close":
                self.ops.append("close"); break
            else:
                self.common(k)
        return self.ops


class RawGen(Base):
    """raw SURVEYOR (`resp=False`) / raw RESPONDENT (`resp=True`)"""

    def __init__(self, r, resp):
        super().__init__(r)
        self.resp = resp
        self.had_empty = False

    def word(self, end):
        v = self.r.below(1 << 31)
        return ((0x80000000 | v) if end else v).to_bytes(4, "big")

    def backtrace(self, hops=None):
        if hops is None:
            hops = self.r.choice([0, 0, 0, 1, 2, 3])
        return b"".join(self.word(False) for _ in range(hops)) + self.word(True)

    def add_pipe(self):
        ok = "0062" if self.resp else "0063"
        self.ops.append(f"pipe_add {ok if self.r.chance(9, 10) else self.r.choice(['0062', '0063', '0031'])}")
        self.ops.append(f"pipe_id {self.npipes}")
        self.npipes += 1

    def arrival(self):
        """bytes a peer puts on the wire towards the socket under test"""
        r = self.r
        k = r.below(100)
        if k < 70:
            return (self.backtrace() + bytes.fromhex(self.body())).hex()
        if k < 82:
            hops = r.choice([6, 7, 8, 9, 14, 15, 16, 17])       # around the default ttl and the header capacity
            return (self.backtrace(hops) + bytes.fromhex(self.body())).hex()
        if k < 92:
            return (b"".join(self.word(False) for _ in range(r.below(3))) + bytes(x & 0x7F for x in r.bytes(r.below(4)))).hex() or "-"
        if k < 96 and not self.had_empty:
            self.had_empty = True                                 # (once: the judge tells messages apart by body)
            return self.backtrace().hex()
        return "-"

    def send(self):
        r = self.r
        a = self.aio()
        if a is None:
            return self.advance()
        m = self.mode()
        b = self.body()
        if not self.resp:
            k = r.below(100)
            hdr = self.backtrace(0).hex() if k < 70 else self.backtrace().hex() if k < 88 else "-" if k < 95 else r.choice(["00", "000001"])
            self.ops.append(f"send - {a} {hdr} {b} {m}")
        else:
            k = r.below(100)
            p = r.below(max(1, self.npipes))
            if k < 74:
                self.ops.append(f"sendp - {a} {p} {self.backtrace().hex()} {b} {m}")
            elif k < 79:
                self.ops.append(f"sendp - {a} {p} - {b} {m}")                       # only the pipe id
            elif k < 85:
                self.ops.append(f"send - {a} {r.choice(['-', '00', '000001'])} {b} {m}")      # fewer than 4 bytes: freed by the router
            elif k < 93:
                self.ops.append(f"send - {a} 7ffffff0{self.backtrace().hex()} {b} {m}")        # nobody's id
            else:
                self.ops.append(f"sendp - {a} {r.below(4)} {self.backtrace().hex()} {b} {m}")  # possibly a pipe that never existed
        if m != "nb":
            self.busy_aio.add(a)

    def gen(self, n):
        r = self.r
        self.ops.append("open respondent raw" if self.resp else "open surveyor raw")
        if r.chance(1, 3):
            self.ops.append(f"setopt - ttl-max int {r.range(1, 15)}")
        for _ in range(r.choice([0, 1, 1, 2, 2])):
            self.add_pipe()
        while len(self.ops) < n:
            k = r.weighted([("send", 24), ("send_done", 13 if self.npipes else 0), ("arrival", 20 if self.npipes else 0), ("recv", 17),
                            ("pipe_add", 5 if self.npipes < 3 else 0), ("pipe_drop", 3), ("advance", 5), ("poll", 7), ("cancel", 3),
                            ("abort", 1), ("setopt", 2), ("getopt", 1), ("close", 1)])
            if k == "send":
                self.send()
            elif k == "send_done":
                self.ops.append(f"send_done {r.below(self.npipes)} {0 if r.chance(9, 10) else r.choice([7, 19, 31])}")
                self.busy_aio.clear()
            elif k == "arrival":
                p = r.below(self.npipes)
                if r.chance(19, 20):
                    self.ops.append(f"recv_done {p} {self.arrival()}")
                else:
                    self.ops.append(f"recv_done {p} !{r.choice([7, 19, 31])}")
                self.busy_aio.clear()
            elif k == "recv":
                a = self.aio()
                if a is None:
                    self.advance(); continue
                m = self.mode()
                self.ops.append(f"recv - {a} {m}")
                if m != "nb":
                    self.busy_aio.add(a)
            elif k == "pipe_add":
                self.add_pipe()
            elif k == "setopt":
                self.ops.append(f"setopt - ttl-max int {r.choice([1, 2, 3, 4, 8, 15, 0, 16])}")
            elif k == "getopt":
                self.ops.append("getopt - ttl-max int")
            elif k == "close":
                self.ops.append("close"); break
            else:
                self.common(k)
        return self.ops

    def probe_send(self, a):
        if self.resp and self.npipes:
            self.ops.append(f"sendp - {a} {self.r.below(self.npipes)} {self.backtrace().hex()} {self.body()} nb")
        else:
            self.ops.append(f"send - {a} {self.backtrace(0).hex()} {self.body()} nb")

    def flood(self, extra):
        """per-pipe send queue depth: more sends than a busy pipe's queue holds, then drain"""
        depth = 2 if self.resp else 16
        self.ops.append("open respondent raw" if self.resp else "open surveyor raw")
        self.add_pipe(); self.add_pipe()
        n = depth + 1 + extra
        for i in range(n):
            if self.resp:
                self.ops.append(f"sendp - {i % 16} {i % 2 if extra == 0 else 0} {self.backtrace().hex()} {self.body()} {self.r.choice(['nb', 'inf'])}")
            else:
                self.ops.append(f"send - {i % 16} {self.backtrace(0).hex()} {self.body()} {self.r.choice(['nb', 'inf'])}")
            if i == depth // 2 and self.r.chance(1, 2):
                self.ops.append("send_done 1 0")
        self.ops.append("poll")
        for i in range(n + 1):
            self.ops.append(f"send_done {self.r.below(2)} 0")
        for i in range(n):
            self.ops.append(f"send_done {i % 2} 0")
        self.ops += ["poll", "close"]
        return self.ops


RAW_BASE = 10_000_000      # own index range: the cooked case streams are what they were before raw mode was added


def gen_raw_case(seed, tier, i):
    r = core.Rng(seed, PROP, tier, RAW_BASE + i)
    resp = i % 2 == 1
    if i % 100 in (50, 51):
        return ("xrespondent" if resp else "xsurveyor"), RawGen(r, resp).flood(r.choice([0, 1, 3]))
    return ("xrespondent" if resp else "xsurveyor"), RawGen(r, resp).gen(r.range(8, 60))


def gen_case(seed, tier, i):
    r = core.Rng(seed, PROP, tier, i)
    if i % 2 == 0:
        if i % 500 == 250:
            return "surveyor", SurvGen(r).flood(r.choice([0, 1, 3]))
        return "surveyor", SurvGen(r).gen(r.range(8, 60))
    return "respondent", RespGen(r).gen(r.range(8, 60))


def kind_of(ops):
    for o in ops[:3]:
        w = o.split()
        if w and w[0] == "open" and len(w) > 1:
            k = "respondent" if w[1] == "respondent" else "surveyor"
            return ("x" + k) if len(w) > 2 and w[2] == "raw" else k
    return "surveyor"


def corpus_cases():
    out = []
    for d in (os.path.join(core.HERE, "corpus", PROP),):
        if os.path.isdir(d):
            for f in sorted(os.listdir(d)):
                ops = [l.strip() for l in open(os.path.join(d, f)) if l.strip() and not l.startswith("#")]
                if ops and ops[0].startswith("sched"):
                    ops = ops[1:]
                out.append((kind_of(ops), ops))
    return out


# ----------------------------------------------------------------------------- execution
class Res:
    def __init__(self):
        self.cases = self.runs = self.ops = 0
        self.judge_viol, self.model_mismatch, self.crashes = [], [], []
        self.op_hist, self.ev_hist = {}, {}


def run_cases(cases, exe, xf, model_comp, judge_comp, scheds, timeout=900):
    res = Res()
    res.cases = len(cases)
    jobs = []
    for ci, ops in enumerate(cases):
        for k in scheds:
            jobs.append((ci, k, [f"sched {k}"] + ops))
        for l in ops:
            w = l.split()[0]
            res.op_hist[w] = res.op_hist.get(w, 0) + 1
    res.runs = len(jobs)
    res.ops = sum(len(j[2]) for j in jobs)
    env = build.env()

    def work(part):
        itext = core.cases_to_text([xf.impl_ops(j[2]) for j in part])
        mcases = [xf.model_ops(j[2]) for j in part]
        impl = core.run_stream([exe], itext, env=env, timeout=timeout)
        icases, partial = core.split_cases(impl.lines)
        icases = [xf.canon(j[2], c) for c, j in zip(icases, part)]
        out = {"impl": impl, "icases": icases, "partial": partial}
        if model_comp:
            out["model"] = core.split_cases(core.run_stream(lean.driver_cmd(model_comp), core.cases_to_text(mcases)).lines)[0]
        if judge_comp:
            jl = []
            for j, ops in enumerate(mcases):
                if j >= len(icases):
                    break
                for op, o in zip(ops, icases[j]):
                    jl.append(f"{op} => {o}")
                jl.append("reset")
            out["judge"] = core.split_cases(core.run_stream(lean.driver_cmd(judge_comp), "\n".join(jl) + "\n").lines)[0]
        return part, out

    # small chunks (<= ~120 runs per harness process): simplat.c's mutex-owner table never forgets a
    # mutex, so a process that has run many cases slows down and finally spins in mowner()
    for part, out in core.parallel_map(work, core.chunked(jobs, max(core.NCPU * 2, len(jobs) // 120))):
        icases = out["icases"]
        if out["impl"].rc != 0 or len(icases) != len(part):
            k = len(icases)
            ci, sk, ops = part[k] if k < len(part) else part[-1]
            res.crashes.append({"case": ci, "sched": sk, "ops": ops, "done_ops": len(out["partial"]), "rc": out["impl"].rc,
                                "last": out["partial"][-3:], "stderr": out["impl"].err[-3000:]})
        for j, (ci, sk, ops) in enumerate(part):
            if j >= len(icases):
                break
            il = icases[j]
            for l in il:
                for e in l.split(" ; "):
                    w = " ".join(e.split()[:1])
                    res.ev_hist[w] = res.ev_hist.get(w, 0) + 1
            if judge_comp and j < len(out.get("judge", [])):
                for t, v in enumerate(out["judge"][j]):
                    if v.startswith("VIOLATION"):
                        res.judge_viol.append({"case": ci, "sched": sk, "ops": ops, "clause": v[10:], "op_index": t,
                                               "impl": il[t] if t < len(il) else None})
                        break
            if model_comp and j < len(out.get("model", [])):
                for t, (a, b) in enumerate(zip(il, out["model"][j])):
                    if sim.canon(a) != sim.canon(b):
                        res.model_mismatch.append({"case": ci, "sched": sk, "ops": ops, "op_index": t, "impl": a, "model": b})
                        break
    return res


def run_one(exe, xf, comp, ops, judge=False, timeout=30):
    impl = core.run_stream([exe], core.cases_to_text([xf.impl_ops(ops)]), env=build.env(), timeout=timeout)
    ic = core.split_cases(impl.lines)
    il = xf.canon(ops, ic[0][0] if ic[0] else ic[1])
    complete = bool(ic[0])
    if comp is None:
        return impl, il, None, complete
    mops = xf.model_ops(ops)
    if judge:
        jl = [f"{op} => {o}" for op, o in zip(mops, il)] + ["reset"]
        other = core.split_cases(core.run_stream(lean.driver_cmd(comp), "\n".join(jl) + "\n").lines)[0]
    else:
        other = core.split_cases(core.run_stream(lean.driver_cmd(comp), core.cases_to_text([mops])).lines)[0]
    return impl, il, (other[0] if other else []), complete


def minimise(exe, xf, comp, ops, judge, budget_s=40):
    def fails(o):
        impl, il, other, complete = run_one(exe, xf, comp, o, judge)
        if impl.rc != 0 or not complete:
            return True
        if other is None:
            return False
        if judge:
            return any(v.startswith("VIOLATION") for v in other)
        return any(sim.canon(a) != sim.canon(b) for a, b in zip(il, other))
    if not fails(ops):
        return ops
    return core.ddmin(ops, fails, budget_s, keep_prefix=2)


def run(tier, seed, replay=None):
    t0 = time.time()
    v = core.Verdict(PROP, seed)
    core.clear_replays(PROP)
    st = lean.prepare(MODULES)
    core.log(PROP, f"lean: {len(st.discharged)}/{len(st.theorems)} theorems re-checked; extract {st.extract_count} constants "
                   f"(changed: {st.extract_changed}); {st.build_s:.1f}s")
    try:
        exe = sim.build_sim("s_proto", ["s_proto.c"])
        S = probe_start(exe)
    except (build.BuildError, RuntimeError) as e:
        v.violation("build", {"kind": "build", "error": str(e), "log": getattr(e, "log", "")[-4000:]}, no_input=True)
        core.write_evidence(PROP, tier, seed, "proof", {"obligations": max(1, len(st.theorems)), "discharged": 0, "checker_cmd": "lake build",
                            "trusted_base": [], "explanation": "implementation or harness does not build"}, [], time.time() - t0, 1)
        return v.finish()
    n = 2000 if tier == "quick" else 40000
    scheds = (1, 2, 3) if tier == "quick" else tuple(range(1, 11))
    if replay:
        rp = json.load(open(replay))
        ops = rp["ops"]
        if ops and ops[0].startswith("sched"):
            scheds = (int(ops[0].split()[1]),)
            ops = ops[1:]
        allc = [(kind_of(ops), ops)]
    else:
        nraw = 600 if tier == "quick" else 12000
        allc = corpus_cases() + [gen_case(seed, tier, i) for i in range(n)] + [gen_raw_case(seed, tier, i) for i in range(nraw)]
    results = {}
    xfs = {"surveyor": CookedXf(S), "respondent": CookedXf(S), "xsurveyor": RawXf(), "xrespondent": RawXf()}
    for kind in KINDS:
        cs = [ops for k, ops in allc if k == kind]
        if cs:
            results[kind] = (cs, run_cases(cs, exe, xfs[kind], f"{kind}-model" if st.driver_ok else None,
                                           f"{kind}-judge" if st.driver_ok else None, scheds))
    found_input = False
    tot = {"cases": 0, "runs": 0, "ops": 0, "judge": 0, "model": 0, "crash": 0}
    op_hist, ev_hist = {}, {}
    for kind, (cs, res) in results.items():
        tot["cases"] += res.cases; tot["runs"] += res.runs; tot["ops"] += res.ops
        tot["judge"] += len(res.judge_viol); tot["model"] += len(res.model_mismatch); tot["crash"] += len(res.crashes)
        for k, x in res.op_hist.items(): op_hist[k] = op_hist.get(k, 0) + x
        for k, x in res.ev_hist.items(): ev_hist[k] = ev_hist.get(k, 0) + x
        for c in res.crashes[:2]:
            ops = minimise(exe, xfs[kind], None, c["ops"], False)
            v.violation(f"crash-{kind}-{c['case']}", {"kind": "crash / sanitizer report / deadlock of the implementation under the simulated platform",
                        "ops": ops, "rc": c["rc"], "last_output": c["last"], "stderr": c["stderr"]})
            found_input = True
        seen = set()
        for jv in res.judge_viol:
            key = jv["clause"].split(":")[0][:40]
            if key in seen or len(seen) >= 3:
                continue
            seen.add(key)
            ops = minimise(exe, xfs[kind], f"{kind}-judge", jv["ops"], True)
            impl, il, verdicts, _ = run_one(exe, xfs[kind], f"{kind}-judge", ops, True)
            v.violation(f"judge-{kind}-{jv['case']}", {"kind": "implementation trace violates the C07 trace predicate "
                        f"({'Spec/RawSurvey.lean' if kind.startswith('x') else 'Spec/Survey.lean'})",
                        "clause": jv["clause"], "ops": ops, "impl": il, "judge": verdicts})
            found_input = True
    core.log(PROP, f"id starts {S['aio']:08x}/{S['nb']:08x}; cases {tot['cases']} runs {tot['runs']} ops {tot['ops']}; judge violations {tot['judge']}, "
                   f"model mismatches {tot['model']}, crashes {tot['crash']}")
    if not found_input:
        for kind, (cs, res) in results.items():
            if res.model_mismatch:
                mm = res.model_mismatch[0]
                ops = minimise(exe, xfs[kind], f"{kind}-model", mm["ops"], False)
                impl, il, ml, _ = run_one(exe, xfs[kind], f"{kind}-model", ops)
                v.violation(f"corr-{kind}", {"kind": "correspondence broken: implementation differs from the Lean model the C07 theorems are about "
                            "(no trace violating the property predicate was found)", "correspondence": f"{kind}-model vs s_proto",
                            "ops": ops, "impl": il, "model": ml, "mismatching_runs": len(res.model_mismatch)}, no_input=True)
                break
        if not st.ok:
            v.violation("proof", {"kind": "proof obligation no longer checks", "broken": st.broken, "log": st.log[-3000:]}, no_input=True)
    allops = [ops for _, ops in allc]
    cov = {"obligations": len(st.theorems), "discharged": len(st.discharged),
           "checker_cmd": "lake build NngModel.Props.C07 && lake env lean <#print axioms for each theorem>",
           "trusted_base": ["Lean 4.33.0 kernel", "axioms: " + ", ".join(sorted({a for x in st.axioms.values() if x for a in x})),
                            "vlib/extract.py + extract_c07.py + extract_c07x.py (constants, shape anchors)", "harness/simplat.c (scheduler, virtual clock), mocktran.c (transport contract), s_proto.c",
                            "vlib/props/c07.py (diff, renaming of survey ids and — raw mode — pipe ids to canonical ones, canonical event order within a quiescent batch)", "gcc ASan/UBSan"],
           "theorems": st.discharged, "axioms": st.axioms, "broken": st.broken,
           "evaluations": tot["runs"], "distinct_nontrivial": len({tuple(o) for o in allops if len(o) > 4}),
           "rule": "event histories for one SURVEYOR or RESPONDENT socket (8-60 events; surveyor: surveys and receives in all modes on the socket and "
                   "1-3 contexts, responses with current/stale/foreign/future/unknown/high-bit-less/short ids and duplicates, arrivals 1 ms before/after "
                   "the survey deadline, survey-time changes, cancel/abort, pipe add/drop, context open/close, poll, close, plus receive-buffer floods; "
                   "respondent: surveys with 1-16 backtrace hops, malformed ones, ttl changes, receives and sends in all modes, transport completions, "
                   "pipe loss; raw SURVEYOR / raw RESPONDENT (own index range): sends with id / backtrace / empty / short headers resp. headers naming a "
                   "live, closed, never-existing or nobody's pipe, arrivals with 0-17 hop words, truncated ones, ttl changes, receives in all modes, "
                   "transport completions and failures, pipe add/drop, cancel/abort, poll-then-nonblocking probes, send-queue floods around depth 16 / 2) "
                   "from splitmix64(seed,C07,tier,i), each run under "
                   f"{len(scheds)} schedule seeds; distinct = distinct op lists longer than 4",
           "schedules_per_case": len(scheds), "ops": tot["ops"], "op_histogram": op_hist, "event_histogram": ev_hist,
           "samples": [allops[0][:40], allops[-1][:40]], "judge_violations": tot["judge"], "model_mismatches": tot["model"], "crashes": tot["crash"],
           "id_start": {k: "%08x" % x for k, x in S.items()}, "extract_changed": st.extract_changed}
    core.write_evidence(PROP, tier, seed, "proof", cov,
                        ["protocol callbacks are atomic under the protocol mutex (SIM still interleaves their unlocked tails)",
                         "the mock transport honours the transport contract of the real transports",
                         "virtual time never lands exactly on a deadline (the expiry thread would spin); the models do cover that instant",
                         "bodies are pairwise distinct within a case except for deliberate duplicates, so the judges can identify messages by content",
                         "the random start of the survey id map is pinned by re-seeding nni_random before the first survey of a case",
                         "raw mode: the core's random pipe ids are renamed to index+1 (learnt from `pipe_id` right after `pipe_add`); a header word written "
                         "literally in a case (7ffffff0) is nobody's id",
                         "respondent: a zero-timeout send that gives up (NNG_EAGAIN/NNG_ETIMEDOUT) is mirrored by the model but not judged "
                         "(F8 is an open finding of C15: corpus/C15/f8-respondent-nonblocking-send.txt)"],
                        time.time() - t0, len(v.violations))
    return v.finish()
