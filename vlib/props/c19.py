"""C19 — URL parsing.  UNIT executor over nng_url_parse / nng_url_sprintf / nng_url_clone /
nng_url_free + accessors (and nni_url_canonify_uri), ASan/UBSan on.

Every case is one line: `url <hex>` or `canon <hex>`.  The implementation's output line is
 * judged by the specification (`url-spec`: exact scheme + "://", authority/port well formed,
   escapes valid, UTF-8 well formed by the Unicode table, components canonical, printed URL parses
   to the same components, clone equal)        -> mismatch = VIOLATION with a minimised input
 * compared with the model (`url-model`)       -> mismatch = correspondence broken."""
import os, re, time, json
from .. import core, build, lean, unit, extract

PROP = "C19"
MODULES = ["NngModel.Props.C19"]

UNRES = b"abcdefghijklmnopqrstuvwxyzABCDEFGHIJKLMNOPQRSTUVWXYZ0123456789-._~"
HOSTCH = b"abcdefghijklmnopqrstuvwxyzABCDEFXYZ0123456789-."
SPECIALS = b":/?#@[]%. +-"
UTF8_GOOD = [b"\xc2\xa2", b"\xc3\xa9", b"\xdf\xbf", b"\xe0\xa0\x80", b"\xe2\x82\xac", b"\xed\x9f\xbf", b"\xee\x80\x80",
             b"\xef\xbf\xbf", b"\xf0\x90\x80\x80", b"\xf0\x9f\x98\x80", b"\xf4\x8f\xbf\xbf", b"\xe1\x80\x80", b"\xec\xbf\xbf",
             b"\xf1\x80\x80\x80", b"\xf3\xbf\xbf\xbf"]


def tables():
    c, _ = extract.generate()
    sch = [bytes(t[0]) for t in c["urlSchemes"][0]]
    spc = [bytes(t[0]) for t in c["urlSpecialSchemes"][0]]
    dfl = {bytes(s): p for s, p in c["urlDefaultPorts"][0]}
    return sch, spc, dfl, c["urlInlineSize"][0], c["urlHostMax"][0]


def pct(b, r=None):
    out = bytearray()
    for x in b:
        h = "%%%02x" % x
        if r is not None and r.chance(1, 2):
            h = h.upper()
        out += h.encode()
    return bytes(out)


def word(r, alphabet, lo, hi):
    return bytes(r.choice(alphabet) for _ in range(r.range(lo, hi)))


# ---------------------------------------------------------------- grammar-based valid(ish) URLs
def gen_host(r):
    k = r.below(10)
    if k < 5:
        return b".".join(word(r, HOSTCH[:-1], 1, 8) for _ in range(r.range(1, 4)))
    if k < 6:
        return b""
    if k < 7:
        return b"%d.%d.%d.%d" % tuple(r.below(256) for _ in range(4))
    if k < 9:
        return b"[" + r.choice([b"::1", b"::", b"fe80::1", b"2001:DB8::A:1", b"1:2:3:4:5:6:7:8", b"::ffff:1.2.3.4", b"abc", b""]) + b"]"
    return b"*"


def gen_port(r, exotic):
    k = r.below(20)
    if not exotic or k < 12:
        return b":%d" % r.choice([0, 1, 22, 80, 443, 8080, 65535, r.below(65536), r.below(65536)])
    return b":" + r.choice([b"", b"65536", b"99999", b"080", b"00000000080", b"4294967376", b"18446744073709551696",
                            b"99999999999999999999999", b" 80", b"+80", b"-0", b"-1", b"\t80", b"+", b"-", b" ", b"80 ", b"8 0",
                            b"0x50", b"80a", b"1e3", b"0", b"00", b"65535", b"065535", b"--1", b"+-1", b"\x0b9", b"\xa080"])


def gen_segment(r):
    k = r.below(20)
    if k < 8:
        return word(r, UNRES, 1, 8)
    if k < 9:
        return b"."
    if k < 10:
        return b".."
    if k < 11:
        return b""
    if k < 12:
        return r.choice([b"...", b".a", b"a.", b"..a", b".%2e", b"%2E%2e", b"%2e", b".%2E.", b"%2e%2e%2e"])
    if k < 14:
        return word(r, UNRES, 0, 3) + pct(bytes([r.choice(UNRES)]), r) + word(r, UNRES, 0, 3)
    if k < 16:
        return word(r, UNRES, 0, 3) + pct(bytes([r.choice(b" /?#%[]@:&=+\"<>\x00\x01\x7f")]), r) + word(r, UNRES, 0, 2)
    if k < 18:
        g = r.choice(UTF8_GOOD)
        return word(r, UNRES, 0, 3) + (g if r.chance(1, 2) else pct(g, r))
    if k < 19:
        return word(r, b"!$&'()*+,;=:@ ", 1, 4)
    return word(r, UNRES + b"%", 1, 5)


def gen_path(r):
    if r.chance(1, 8):
        return b""
    n = r.range(1, 6)
    p = b"".join(b"/" + gen_segment(r) for _ in range(n))
    if r.chance(1, 5):
        p += b"/"
    return p


def gen_url(r, schemes, exotic=True):
    s = r.choice(schemes)
    u = s + b"://"
    if r.chance(1, 5):
        u += word(r, UNRES + b":%", 0, 6) + b"@"
        if exotic and r.chance(1, 10):
            u += word(r, UNRES, 0, 3) + b"@"
    u += gen_host(r)
    if r.chance(1, 2):
        u += gen_port(r, exotic)
    u += gen_path(r)
    if r.chance(1, 4):
        u += b"?" + b"&".join(word(r, UNRES, 1, 4) + b"=" + gen_segment(r) for _ in range(r.range(0, 3)))
        if r.chance(1, 4):
            u += r.choice([b"?x", b"/../y", b"//z", b"/./"])
    if r.chance(1, 4):
        u += b"#" + gen_segment(r) + r.choice([b"", b"", b"?q", b"#g", b"/../h"])
    return u


def mutate(r, u):
    u = bytearray(u)
    for _ in range(r.range(1, 3)):
        k = r.below(6)
        pos = r.below(len(u) + 1)
        c = r.choice(SPECIALS) if r.chance(1, 2) else r.range(1, 255)
        if k == 0 and u:
            u[pos % len(u)] = c
        elif k == 1:
            u.insert(pos, c)
        elif k == 2 and u:
            del u[pos % len(u)]
        elif k == 3:
            del u[pos:]
        elif k == 4 and u:
            u[pos % len(u)] ^= 1 << r.below(8)
            if u[pos % len(u)] == 0:
                u[pos % len(u)] = 1
        else:
            seg = r.choice([b"/..", b"/.", b"//", b"%", b"%4", b"%zz", b"@", b"[", b"]", b":", b"?", b"#", b"\xc0\x80", b"\xed\xa0\x80"])
            u[pos:pos] = seg
    return bytes(u)


# ---------------------------------------------------------------- systematic families
def utf8_patterns():
    """every lead byte 80..FF x second/third/fourth byte from range-boundary palettes"""
    second = [None, 0x2f, 0x61, 0x7f, 0x80, 0x8f, 0x90, 0x9f, 0xa0, 0xaf, 0xb0, 0xbf, 0xc0, 0xff]
    third = [None, 0x7f, 0x80, 0xbf, 0xc0]
    fourth = [None, 0x7f, 0x80, 0xbf, 0xc0]
    out = []
    for lead in range(0x80, 0x100):
        for b in second:
            if b is None:
                out.append(bytes([lead]))
                continue
            for c in third:
                if c is None:
                    out.append(bytes([lead, b]))
                    continue
                for d in fourth:
                    out.append(bytes([lead, b, c]) if d is None else bytes([lead, b, c, d]))
    return out


def scheme_edits(schemes):
    out = set()
    alphabet = b"abcdefghijklmnopqrstuvwxyz0123456789+-.:/"
    for s in schemes:
        for i in range(len(s)):
            out.add(s[:i])                                   # proper prefixes (with the empty one)
            out.add(s[:i] + s[i + 1:])                        # deletions
            out.add(s[:i] + bytes([s[i] ^ 0x20]) + s[i + 1:])  # case flip
            out.add(s[:i] + bytes([s[i] + 1]) + s[i + 1:])
            for c in (alphabet[(i * 7 + len(s)) % len(alphabet)], 0x34, 0x73):
                out.add(s[:i] + bytes([c]) + s[i:])           # insertions
                out.add(s[:i] + bytes([c]) + s[i + 1:])       # substitutions
        for c in b"s46x+/ \x80":
            out.add(s + bytes([c]))                           # extensions
        out.add(s.upper())
        out.add(s)
    return sorted(out)


def scheme_cases(schemes):
    cs = []
    for e in scheme_edits(schemes):
        cs.append(e + b"://host/p")
    for s in schemes:
        for sep in [b":", b":/", b"//", b":///", b"::/", b":/:/", b"", b"/://", b"://", b":// ", b"://:", b"://@", b"://#", b"://?"]:
            cs.append(s + sep + b"x")
        cs.append(s + b"://")
        cs.append(s + b"://h:1/a?b#c")
    return cs


def length_cases(r_of, schemes, inline, hostmax, nlong):
    cs = []
    k = 0
    for total in range(inline - 10, inline + 13):
        for shape in range(7):
            r = r_of(k); k += 1
            s = r.choice([b"http", b"tcp", b"tls+tcp6", b"ws", b"ipc", b"inproc", b"abstract"]) if shape < 6 else r.choice(schemes)
            fixed = {0: (s + b"://h", b""), 1: (s + b"://", b"/p"), 2: (s + b"://h/p?", b"#f"), 3: (s + b"://h/p#", b""),
                     4: (s + b"://", b"@h/p"), 5: (s + b"://h:80/", b"/../x"), 6: (s + b"://h/", b"")}[shape]
            # the inline/heap decision is on strlen("://...")
            fill = total - (len(fixed[0]) - len(s)) - len(fixed[1])
            if fill < 0:
                continue
            body = (b"/" if shape == 0 else b"") + bytes(r.choice(b"abcxyz09-._~") for _ in range(fill))
            cs.append(fixed[0] + body[:fill] + fixed[1])
    for hl in [hostmax - 2, hostmax - 1, hostmax, hostmax + 1]:
        cs.append(b"tcp://" + b"A" * hl + b":80/x")
        cs.append(b"http://[" + b"a" * hl + b"]/x")
        cs.append(b"http://u@" + b"b" * hl)
    for j in range(nlong):
        r = r_of(10000 + j)
        n = r.range(1024, 4096)
        s = r.choice(schemes)
        shape = r.below(5)
        if shape == 0:
            u = s + b"://example.com/" + bytes(r.choice(UNRES) for _ in range(n))
        elif shape == 1:
            u = s + b"://example.com/path?" + bytes(r.choice(UNRES) for _ in range(n)) + b"#frag"
        elif shape == 2:
            u = s + b"://h" + b"".join(b"/" + gen_segment(r) for _ in range(n // 5))
        elif shape == 3:
            u = s + b"://" + bytes(r.choice(HOSTCH) for _ in range(n)) + b":99/"
        else:
            u = s + b"://h/" + b"".join(r.choice(UTF8_GOOD) for _ in range(n // 3))
        cs.append(u)
    return cs


def canon_string(r):
    k = r.below(10)
    if k < 7:
        toks = [b"/", b"/", b"/", b".", b".", b"..", b"a", b"b", b"%41", b"%2e", b"%2E", b"%2f", b"%2F", b"%7e", b"%c3%a9", b"%C3", b"%a9",
                b"?", b"#", b"%", b"%4", b"\xc3\xa9", b"\xc3", b"~", b"%00", b"%25", b"%ed%a0%80", b"%e0%9f%bf", b" ", b"%zz", b"%3f", b"%23"]
        return b"".join(r.choice(toks) for _ in range(r.range(0, 12)))
    if k < 9:
        return gen_path(r) + (b"?" + gen_segment(r) if r.chance(1, 3) else b"")
    return bytes(r.range(1, 255) for _ in range(r.range(0, 24)))


def directed(schemes):
    u = [b"http://www.EXAMPLE.com/bogus/.%2e/%7egarrett", b"http://www.x.com//abc/def/./x/..///./../y",
         b"http://www.x.com/?/abc/def/./x/.././../y", b"http://x.com/x%80x", b"http://x.com/x%c0%81",
         b"http://www.x.com/%c2%a2_cents", b"http://www.x.com:/something", b"http://user@@user@www.x.com",
         b"http://[::1", b"http://[::1]bogus", b"http://[::1]:80/x", b"http://[::1]", b"www.google.com", b"http:www.google.com",
         b"nosuch://bogus", b"", b":", b"://", b"://x", b"ht://x", b"t://x", b"h://", b"http://", b"http:///", b"http://h/..",
         b"http://h/a/..", b"http://h/.", b"http://h/./", b"http://h/a/../..", b"http://h/a/b/../../../c", b"http://h/%2e%2e/x",
         b"http://h/a%2f..%2fb", b"http://h/...", b"http://h/..a/.b/c./d..", b"http://h/a?/../b#/./c", b"http://h#/../x",
         b"http://h?#", b"http://h#?", b"http://h/#", b"http://h/?", b"http://h/a#b#c", b"http://h/a?b?c", b"http://H:80", b"http://h:0",
         b"http://h:65535", b"http://h:65536", b"tcp://h", b"tcp://:5555", b"tcp://*:5555", b"tls+tcp4://h:1", b"ws6://h/x", b"wss4://h",
         b"ssh://u:p@h", b"git://h/x", b"gopher://h", b"telnet://h", b"ipc:///tmp/x%zz\xff", b"inproc://a//b/../c?d#e", b"unix://",
         b"abstract://%00x", b"socket://5", b"http://h/\xed\xa0\x80z", b"http://h/\xe0\x9f\xbfz", b"http://h/%ed%a0%80z",
         b"http://h/%E0%9F%BFz", b"http://h/\xf4\x90\x80\x80", b"http://h/\xf0\x8f\xbf\xbf", b"http://h/\xc1\xbf", b"http://h/\xc2",
         b"http://h/\xe2\x82", b"http://h/%", b"http://h/%4", b"http://h/%4g", b"http://h/%g4", b"http://h/%%34", b"http://h/%25",
         b"http://h/%2525", b"http://h/%41%5a%61%7A%30%39%2d%2e%5f%7e", b"http://h/a%2Fb", b"http://u@h", b"http://@h", b"http://u@",
         b"http://u@:80", b"http://A@B", b"http://h: 80", b"http://h:+80", b"http://h:-0", b"http://h:\t80", b"http://h:080",
         b"http://[::1]:", b"http://[]", b"http://[]:1", b"http://[[::1]", b"http://[a]b]", b"http://a]b", b"http://a[b", b"http://[::1]x:1"]
    cs = [[f"url {core.hexs(x)}"] for x in u]
    for x in [b"", b"/", b"//", b"/.", b"/..", b"a/..", b"a/b/..", b"x/../y", b"../x", b"./x", b"/a/./b/../c//d", b"%41%2f%2F", b"/%2e%2e/a",
              b"/a/..?/b/..", b"?/a/..//b", b"/a//b#//c/./", b"%", b"%1", b"/%ff", b"/%c3%a9", b"/\xc3", b"/.../", b"/a/.b/..c/d./e..",
              b"/..../", b"/%2E/", b"/%2e%2E", b"/a/%2e%2e/%2E"]:
        cs.append([f"canon {core.hexs(x)}"])
    return cs


def gen_cases(tier, seed, schemes, inline, hostmax):
    quick = tier == "quick"
    cases, kinds = [], {}

    def add(kind, op, b):
        if 0 in b:
            b = bytes(x or 1 for x in b)
        cases.append([f"{op} {core.hexs(b)}"])
        kinds[kind] = kinds.get(kind, 0) + 1

    for x in scheme_cases(schemes):
        add("scheme-edit", "url", x)
    pats = utf8_patterns()
    step = 7 if quick else 1
    off = seed % step
    # lead bytes at which the validity of the second byte changes (overlong / surrogate / out-of-range boundaries) are never
    # thinned out in the quick tier (seeded fault C19-7A: low surrogates ED B0..BF accepted, missed by the 1-in-7 sample)
    critical = {0x80, 0xbf, 0xc0, 0xc1, 0xc2, 0xdf, 0xe0, 0xe1, 0xec, 0xed, 0xee, 0xef, 0xf0, 0xf1, 0xf3, 0xf4, 0xf5, 0xf7, 0xf8, 0xff}
    for j, p in enumerate(pats):
        if j % step != off and not (p[0] in critical and len(p) <= 3):
            continue
        r = core.Rng(seed, PROP, tier, "utf8", j)
        pre = r.choice([b"", b"a", b"/", b"x/", b"\xc3\xa9"])
        post = r.choice([b"", b"z", b"/z", b"\x80", b"?q", b"\xc2\xa2"])
        add("utf8-raw", "url", b"http://h/" + pre + p + post)
        add("utf8-pct", "url", b"ws://h/" + pre + pct(p, r) + post)
        if j % (step * 4) == off:
            add("utf8-canon", "canon", pre + (p if j % 8 < 4 else pct(p, r)) + post)
            add("utf8-query", "url", b"http://h/p?" + pre + pct(p, r) + b"#" + p)
    for x in length_cases(lambda k: core.Rng(seed, PROP, tier, "len", k), schemes, inline, hostmax, 100 if quick else 3000):
        add("length", "url", x)
    n_valid, n_mut, n_arb, n_canon = (8000, 3200, 1500, 2000) if quick else (255000, 100000, 50000, 60000)
    for i in range(n_valid):
        r = core.Rng(seed, PROP, tier, "valid", i)
        add("grammar", "url", gen_url(r, schemes))
    for i in range(n_mut):
        r = core.Rng(seed, PROP, tier, "mut", i)
        add("mutated", "url", mutate(r, gen_url(r, schemes, exotic=False)))
    for i in range(n_arb):
        r = core.Rng(seed, PROP, tier, "arb", i)
        k = r.below(4)
        if k == 0:
            b = bytes(r.range(1, 255) for _ in range(r.range(0, 48)))
        elif k == 1:
            b = r.choice(schemes) + b"://" + bytes(r.range(1, 255) for _ in range(r.range(0, 40)))
        elif k == 2:
            b = r.choice(schemes) + b"://" + bytes(r.choice(SPECIALS + b"ab1%2eE\xc3\xa9\xed\xa0") for _ in range(r.range(0, 40)))
        else:
            b = bytes(r.choice(SPECIALS + b"htpcws") for _ in range(r.range(0, 30)))
        add("arbitrary", "url", b)
    for i in range(n_canon):
        r = core.Rng(seed, PROP, tier, "canon", i)
        add("canon", "canon", canon_string(r))
    return cases, kinds


# ---------------------------------------------------------------- verdict plumbing
def proj_spec(l):
    return l if l.startswith("bad") else "ok"


def spec_rewrite(ops, impl_lines):
    out = []
    for op, l in zip(ops, impl_lines):
        w = op.split()
        out.append(("judge " if w[0] == "url" else "judgecanon ") + w[1] + " " + l)
    out.extend(ops[len(impl_lines):])
    return out


class Result:
    def __init__(self):
        self.cases = self.ops = 0
        self.spec_mismatch, self.model_mismatch, self.crashes = [], [], []
        self.op_hist, self.rv_hist = {}, {}


def run_impl(exe, ops, env):
    """one output line per op; a sanitizer abort / crash yields the line "CRASH <rc>" for that op and the
    rest of the chunk is resumed in a fresh process"""
    out, errs = [], {}
    i = 0
    while i < len(ops):
        r = core.run_stream([exe], "\n".join(ops[i:]) + "\n", env=env)
        # every complete line of the harness ends with " $"; anything else is the torso of the crashing op
        lines = []
        for l in r.lines:
            if not l.endswith(" $"):
                break
            lines.append(l[:-2])
        if r.rc == 0 and len(lines) == len(ops) - i:
            out += lines
            break
        k = min(len(lines), len(ops) - i - 1)
        out += lines[:k]
        out.append(f"CRASH {r.rc}")
        errs[i + k] = r.err[-3000:]
        i += k + 1
    return out, errs


def run_all(cases, exe, have_driver, chunks):
    res = Result()
    res.cases = res.ops = len(cases)
    ops = [c[0] for c in cases]
    for o in ops:
        k = o.split()[0]
        res.op_hist[k] = res.op_hist.get(k, 0) + 1
    env = build.env()
    parts = core.chunked(list(enumerate(ops)), chunks)

    def work(part):
        po = [o for _, o in part]
        il, errs = run_impl(exe, po, env)
        sl = ml = None
        if have_driver:
            jt = "\n".join(spec_rewrite([o], [l])[0] if not l.startswith("CRASH") else "verbose" for o, l in zip(po, il)) + "\n"
            sl = core.run_stream(lean.driver_cmd("url-spec"), jt).lines
            ml = core.run_stream(lean.driver_cmd("url-model"), "\n".join(po) + "\n").lines
        return part, il, errs, sl, ml

    for part, il, errs, sl, ml in core.parallel_map(work, parts):
        for j, (idx, op) in enumerate(part):
            l = il[j] if j < len(il) else "CRASH missing"
            k = l.split()[0] if l else ""
            res.rv_hist[k] = res.rv_hist.get(k, 0) + 1
            if l.startswith("CRASH"):
                res.crashes.append({"case": idx, "ops": [op], "rc": l.split()[1], "stderr": errs.get(j, "")})
                continue
            if sl is not None:
                s_ = sl[j] if j < len(sl) else "bad spec-driver-died"
                if s_ != "ok":
                    res.spec_mismatch.append({"case": idx, "ops": [op], "impl": l, "spec": s_})
            if ml is not None:
                m_ = ml[j] if j < len(ml) else "model-driver-died"
                if m_ != l:
                    res.model_mismatch.append({"case": idx, "ops": [op], "impl": l, "model": m_})
    return res


def _run3(exe, op, want_model=True):
    env = build.env()
    il, errs = run_impl(exe, [op], env)
    l = il[0]
    if l.startswith("CRASH"):
        return 1, None, None, None, errs.get(0, "")
    sl = core.run_stream(lean.driver_cmd("url-spec"), spec_rewrite([op], [l])[0] + "\n").lines
    ml = core.run_stream(lean.driver_cmd("url-model"), op + "\n").lines if want_model else [None]
    return 0, l, (sl[0] if sl else None), (ml[0] if ml else None), ""


def minimise_bytes(exe, op, mode, budget_s=40, reason=None):
    """ddmin over the bytes of the input; mode: crash | spec | model"""
    w = op.split()
    data = list(bytes.fromhex(w[1]) if w[1] != "-" else b"")

    def fails(bs):
        o = f"{w[0]} {core.hexs(bytes(bs))}"
        rc, il, sl, ml, _ = _run3(exe, o, want_model=(mode == "model"))
        if mode == "crash":
            return rc != 0
        if rc != 0 or il is None:
            return False
        if mode == "spec":
            return sl is not None and sl.startswith("bad ") and (reason is None or sl == reason)
        return il != ml

    if not fails(data):
        return op
    data = core.ddmin(data, fails, budget_s)
    # single-byte simplification towards 'a'
    t0 = time.time()
    for i in range(len(data)):
        if time.time() - t0 > 10:
            break
        if data[i] not in b"a:/":
            for c in b"a":
                t = data[:i] + [c] + data[i + 1:]
                if fails(t):
                    data = t
    return f"{w[0]} {core.hexs(bytes(data))}"


def readable(op):
    w = op.split()
    b = bytes.fromhex(w[1]) if w[1] != "-" else b""
    return w[0] + " " + "".join(chr(x) if 0x20 <= x < 0x7f and x != 0x5c else "\\x%02x" % x for x in b)


def run(tier, seed, replay=None):
    t0 = time.time()
    v = core.Verdict(PROP, seed)
    core.clear_replays(PROP)
    st = lean.prepare(MODULES)
    core.log(PROP, f"lean: {len(st.discharged)}/{len(st.theorems)} theorems re-checked; extract {st.extract_count} constants "
                   f"(changed: {st.extract_changed}); {st.build_s:.1f}s")
    try:
        exe = build.harness("u_url", ["u_url.c"])
    except build.BuildError as e:
        v.violation("build", {"kind": "build", "error": str(e), "log": e.log[-4000:]}, no_input=True)
        core.write_evidence(PROP, tier, seed, "proof", {"obligations": len(st.theorems), "discharged": 0,
                            "checker_cmd": "lake build", "trusted_base": [], "explanation": "implementation or harness does not build"},
                            [], time.time() - t0, 1)
        return v.finish()
    try:
        schemes, specials, dflt, inline, hostmax = tables()
    except extract.ExtractError as e:
        v.violation("extract", {"kind": "extraction anchor missing", "error": str(e)}, no_input=True)
        return v.finish()
    kinds = {}
    if replay:
        rp = json.load(open(replay))
        cases = [rp["ops"]] if "ops" in rp else []
    else:
        cases = directed(schemes)
        kinds["directed"] = len(cases)
        corpus = os.path.join(core.HERE, "corpus", PROP)
        if os.path.isdir(corpus):
            for f in sorted(os.listdir(corpus)):
                for l in open(os.path.join(corpus, f)):
                    if l.strip() and not l.startswith("#"):
                        cases.append([l.strip()]); kinds["corpus"] = kinds.get("corpus", 0) + 1
        gc, gk = gen_cases(tier, seed, schemes, inline, hostmax)
        cases += gc
        kinds.update(gk)
    ok = st.driver_ok
    res = run_all(cases, exe, ok, core.NCPU * (1 if tier == "quick" else 4))
    accepted = res.rv_hist.get("0", 0)
    core.log(PROP, f"cases {res.cases} (accepted {accepted}); spec mismatches {len(res.spec_mismatch)}, model mismatches "
                   f"{len(res.model_mismatch)}, crashes {len(res.crashes)}")
    # ---- verdict
    found_input = False
    for c in res.crashes[:2]:
        op = minimise_bytes(exe, c["ops"][0], "crash")
        v.violation(f"crash-{c['case']}", {"kind": "sanitizer report / crash in the implementation", "ops": [op], "readable": readable(op),
                                           "rc": c["rc"], "stderr": c["stderr"]})
        found_input = True
    # group spec mismatches by reason so that each distinct defect gets a replay
    seen = {}
    for mm in res.spec_mismatch:
        seen.setdefault(mm["spec"], mm)
    for why, mm in list(seen.items())[:6]:
        op = minimise_bytes(exe, mm["ops"][0], "spec", reason=why)
        rc, il, sl, ml, _ = _run3(exe, op)
        v.violation(f"spec-{mm['case']}", {"kind": "accepted URL violates the C19 specification: " + (sl or why), "ops": [op],
                                           "readable": readable(op), "impl": il, "spec": sl, "model": ml,
                                           "same_reason_cases": sum(1 for m in res.spec_mismatch if m["spec"] == why)})
        found_input = True
    if not found_input:
        if res.model_mismatch:
            mm = res.model_mismatch[0]
            op = minimise_bytes(exe, mm["ops"][0], "model")
            rc, il, sl, ml, _ = _run3(exe, op)
            v.violation("corr", {"kind": "correspondence broken: implementation differs from the Lean model the C19 theorems are about "
                                         "(no input violating the specification was found)",
                                 "correspondence": "url-model vs u_url", "ops": [op], "readable": readable(op), "impl": il, "model": ml,
                                 "mismatching_cases": len(res.model_mismatch)}, no_input=True)
        if not st.ok:
            v.violation("proof", {"kind": "proof obligation no longer checks", "broken": st.broken,
                                  "log": st.log[-3000:]}, no_input=True)
    distinct = len({c[0] for c in cases if len(c[0]) > 12})
    cov = {
        "obligations": len(st.theorems), "discharged": len(st.discharged),
        "checker_cmd": "lake build NngModel.Props.C19 && lake env lean <#print axioms for each theorem>",
        "trusted_base": ["Lean 4.33.0 kernel", "axioms: " + ", ".join(sorted({a for x in st.axioms.values() if x for a in x})),
                         "vlib/extract_c19.py (scheme/port tables, sizes)", "harness/u_url.c + vlib/unit.py (correspondence)",
                         "gcc ASan/UBSan as the out-of-bounds detector on the implementation",
                         "getservbyname replaced by an empty service database in the harness", "snprintf, strtol, ctype.h (C locale)"],
        "theorems": st.discharged, "axioms": st.axioms, "broken": st.broken,
        "evaluations": res.cases, "distinct_nontrivial": distinct,
        "rule": "one string per case from splitmix64(seed,C19,tier,family,i): grammar URLs over every table scheme, all one-edit/prefix "
                "variants of every scheme, lead x continuation UTF-8 palette raw and %-encoded, tail lengths inline-10..inline+12 and "
                "1-4 KiB, mutated and arbitrary NUL-free bytes, canonify strings; distinct = distinct inputs longer than 5 bytes",
        "ops": res.ops, "op_histogram": res.op_hist, "rv_histogram": res.rv_hist, "family_histogram": kinds,
        "accepted": accepted,
        "samples": [readable(cases[0][0])[:200], readable(cases[len(cases) // 2][0])[:200], readable(cases[-1][0])[:200]],
        "spec_mismatches": len(res.spec_mismatch), "model_mismatches": len(res.model_mismatch), "crashes": len(res.crashes),
        "extract_changed": st.extract_changed,
    }
    core.write_evidence(PROP, tier, seed, "proof", cov,
                        ["the Lean model Model/Url.lean mirrors url.c; tie = differential execution on the cases above",
                         "port service names are outside the model (empty service database in the harness)",
                         "host-less schemes (ipc, unix, abstract, inproc, socket) keep their path verbatim by documented design"],
                        time.time() - t0, len(v.violations))
    return v.finish()
