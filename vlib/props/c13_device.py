"""C13 (and the order clauses of C09/C08/C06), device half — nng_device itself (src/core/device.c).

Lean: NngModel.Props.C13Device — device_init's decisions (= the documented rule, exact error codes, one forwarder per
direction), the forwarder machine over abstract sockets for ALL event sequences (exactly once, unchanged, in order, one in
flight, ownership, exactly one completion, both sockets closed), FIFO sockets around it for ALL schedules (per-origin order end
to end when no two forwarders share a source; a two-forwarder schedule that reorders).

Tie to the code, two executors:
 UNIT  harness/u_device.c #includes the real device.c with nni_sock_* / nni_aio_* / nni_msg_free / nni_reap interposed and
       FIFO fake sockets; every call device.c makes is printed.  Same lines through the Lean model (`dev-model`, line-exact
       incl. device_data's fields) and the implementation's lines are judged by the specification (`dev-unit-judge`,
       Spec/Device.lean).  Deterministic, includes every device_init input combination and callback orders that a scheduler
       would have to be lucky to produce.
 SIM   harness/s_device.c runs the real nng_device_aio between real raw sockets under the simulated platform with mock
       pipes (bursts before and after the start, sends completed in chosen orders, several schedules per case); the mock-pipe
       trace is judged by Spec/DeviceSim.lean (`dev-sim-judge`: exactly once / unchanged / header as the raw protocol
       prescribes / per-origin order / nothing lost / stop behaviour / allocator balance) and compared with the model between
       FIFO sockets (`dev-sim-model`).

 judge rejects an implementation trace  -> VIOLATION with the minimised ops as replay
 only impl != model                     -> VIOLATION ... no-failing-input-found

Used by vlib/props/c13.py through `run_part`; `run` is the stand-alone entry (./check c13_device quick)."""
import os, re, json, time
from .. import core, build, lean, sim

PROP = "C13"
SUB = "device"
CORPUS = os.path.join(core.HERE, "corpus", "C13DEV")
MODULES = ["NngModel.Props.C13Device"]
RULE = ("UNIT (u_device.c, deterministic): (1) every device_init input: ordered pairs over {absent, 11 protocols x raw/cooked} incl. the same socket "
        "twice, plus allocation failure / stopped user aio / hold failure; (2) for every accepted pair a burst probe (two arrivals per source "
        "before and after the start, callbacks in both orders) and a stop probe (cancel / receive error / send error in each forwarder state, "
        "late completions); (3) random event sequences from splitmix64(seed,C13,tier,device,unit,i): arrivals, callbacks, send completions "
        "(6% errors), receive errors, cancels, 25% pre-start arrivals.  SIM (s_device.c): topologies pair1/pair0/bus reflector and two-way, "
        "rep<->req, respondent<->surveyor, pull->push (both argument orders), 1-4 pipes per socket, optional buffers and TTL, pre-start bursts, "
        "bursts of 2-8 arrivals before any send completes, sends completed in random pipe order, hop counts / backtraces up to and beyond the "
        "TTL, replies naming live and unknown pipes; then drain, `end`, cancel/abort/stop, probes, allocator balance; refused pairs; each under "
        "4 (quick) / 6 (thorough) schedules.  distinct = distinct op lists")

P = {"pair0": 0x10, "pair1": 0x11, "pub": 0x20, "sub": 0x21, "req": 0x30, "rep": 0x31, "push": 0x50, "pull": 0x51,
     "surveyor": 0x62, "respondent": 0x63, "bus": 0x70}
PEER = {"pair0": "pair0", "pair1": "pair1", "pub": "sub", "sub": "pub", "req": "rep", "rep": "req", "push": "pull", "pull": "push",
        "surveyor": "respondent", "respondent": "surveyor", "bus": "bus"}
FLAGS = {"pair0": 3, "pair1": 3, "pub": 2, "sub": 1, "req": 3, "rep": 3, "push": 2, "pull": 1, "surveyor": 3, "respondent": 3, "bus": 3}
RAW = 4
ANYONE = ("req", "push")


# ======================================================================================================== UNIT
def u_sock(k, proto, raw=True):
    return f"sock {k} {P[proto]:x} {P[PEER[proto]]:x} {FLAGS[proto] | (RAW if raw else 0)}"


def u_init_cases():
    """every device_init input combination (two sockets, each absent or any protocol raw/cooked; also the same socket twice)"""
    cases = []
    kinds = [None] + [(p, r) for p in P for r in (True, False)]
    for a in kinds:
        for b in kinds:
            ops = []
            if a:
                ops.append(u_sock(0, *a))
            if b:
                ops.append(u_sock(1, *b))
            ops.append(f"device {'0' if a else '-'} {'1' if b else '-'}")
            ops += ["arrive 0 - a0", "arrive 1 - b0", "run 0", "run 1", "senddone 0 0", "senddone 1 0", "cancel 20", "recvfail 0 20", "recvfail 1 20",
                    "senddone 0 20", "senddone 1 20"]
            cases.append(ops)
    for p in P:
        for r in (True, False):
            cases.append([u_sock(0, p, r), "device 0 0", "arrive 0 - a0", "run 0", "run 1", "cancel 20", "recvfail 0 20", "recvfail 1 20", "senddone 0 20"])
    for opt in ("noalloc", "nostart", "hold=7", "hold=4"):
        for pr in (("pair1", "pair1"), ("rep", "req"), ("push", "pull"), ("bus", None)):
            ops = [u_sock(0, pr[0])] + ([u_sock(1, pr[1])] if pr[1] else [])
            ops += [f"device 0 {'1' if pr[1] else '-'} {opt}", "arrive 0 - a0", "run 0", "cancel 20"]
            cases.append(ops)
    return cases


ACCEPTED = [("pair1", None), ("pair0", None), ("bus", None), ("pair1", "pair1"), ("pair0", "pair0"), ("bus", "bus"), ("rep", "req"), ("req", "rep"),
            ("respondent", "surveyor"), ("surveyor", "respondent"), ("pull", "push"), ("push", "pull"), ("sub", "pub"), ("pub", "sub")]


def u_setup(pr, args=None):
    ops = [u_sock(0, pr[0])] + ([u_sock(1, pr[1])] if pr[1] else [])
    dev = args or (f"device 0 {'1' if pr[1] else '-'}")
    return ops, dev


def u_probe_cases():
    cases = []
    for pr in ACCEPTED:
        for args in ([None] if pr[1] else ["device 0 -", "device - 0", "device 0 0"]):
            ops, dev = u_setup(pr, args)
            both = [0, 1] if pr[1] else [0]
            # bursts: before the start, after the start; callbacks in both orders
            for order in ((0, 1), (1, 0)):
                c = list(ops)
                for s in both:
                    c += [f"arrive {s} 0000000{s + 1} a{s}01", f"arrive {s} - a{s}02"]
                c.append(dev)
                c += [f"run {order[0]}", f"run {order[1]}", f"run {order[0]}", f"run {order[1]}"]
                for s in both:
                    c += [f"arrive {s} - b{s}01", f"arrive {s} - b{s}02", f"arrive {s} - b{s}03"]
                c += [f"senddone {order[1]} 0", f"senddone {order[0]} 0", f"run {order[1]}", f"run {order[0]}", f"senddone {order[0]} 0",
                      f"senddone {order[1]} 0", f"run {order[0]}", f"run {order[1]}", "senddone 0 0", "senddone 1 0", "run 1", "run 0",
                      "senddone 1 0", "senddone 0 0", "run 0", "run 1", "cancel 20", "recvfail 0 20", "recvfail 1 20", "senddone 0 20", "senddone 1 20"]
                cases.append(c)
            # stops: each kind of first failure in each forwarder state, then late completions of every kind
            for fail in ("cancel 20", "cancel 999", "recvfail 0 7", "recvfail 1 7", "senddone 0 13", "senddone 1 7"):
                for pre in ([], ["arrive 0 - c1", "run 0"], ["arrive 0 - c1", "arrive 1 - d1", "run 1", "run 0"], ["arrive 0 - c1", "arrive 1 - d1"]):
                    for late in (["run 0", "run 1", "senddone 0 0", "senddone 1 0", "recvfail 0 20", "recvfail 1 20"],
                                 ["senddone 1 7", "senddone 0 7", "recvfail 1 20", "recvfail 0 20", "run 1", "run 0"],
                                 ["arrive 0 - e1", "arrive 1 - e2", "run 0", "run 1", "cancel 20", "senddone 0 0", "senddone 1 0", "recvfail 0 20", "recvfail 1 20"]):
                        cases.append(ops + [dev] + pre + [fail] + late + ["cancel 20", "senddone 0 0", "senddone 1 0"])
    return cases


def u_random(r):
    pr = r.choice(ACCEPTED) if r.chance(9, 10) else (r.choice(list(P)), r.choice([None] + list(P)))
    ops = [u_sock(0, pr[0], r.chance(19, 20))] + ([u_sock(1, pr[1], r.chance(19, 20))] if pr[1] else [])
    ns = 2 if pr[1] else 1
    n = 0

    def msg():
        nonlocal n
        n += 1
        return f"{r.choice(['-', '00000001', '0000000180000001'])} {n:04x}{r.bytes(r.range(0, 3)).hex()}"
    if r.chance(1, 4):
        for _ in range(r.range(1, 4)):
            ops.append(f"arrive {r.below(ns)} {msg()}")
    a = r.choice(["0", "0", "-"]) if not pr[1] else "0"
    b = "1" if pr[1] else r.choice(["-", "-", "0"])
    if a == "-" and b == "-":
        b = "0"
    if r.chance(1, 2) and pr[1]:
        a, b = b, a
    opt = r.weighted([("", 90), (" noalloc", 3), (" nostart", 3), (" hold=7", 2), (" hold=4", 2)])
    ops.append(f"device {a} {b}{opt}")
    for _ in range(r.range(4, 40)):
        k = r.below(100)
        if k < 34:
            ops.append(f"arrive {r.below(ns)} {msg()}")
        elif k < 62:
            ops.append(f"run {r.below(2)}")
        elif k < 90:
            ops.append(f"senddone {r.below(2)} {r.weighted([(0, 94), (7, 3), (13, 3)])}")
        elif k < 95:
            ops.append(f"recvfail {r.below(2)} {r.choice([7, 20, 0])}")
        else:
            ops.append(f"cancel {r.choice([20, 999, 20, 0])}")
    if r.chance(1, 2):
        ops += ["cancel 20", "run 0", "run 1", "senddone 0 0", "senddone 1 0", "recvfail 0 20", "recvfail 1 20"]
    return ops


def u_run(cases, exe, with_lean):
    parts = core.chunked(list(enumerate(cases)), core.NCPU * 2)
    env = build.env()

    def work(part):
        text = core.cases_to_text([c for _, c in part])
        a = core.run_stream([exe], text, env=env, timeout=1800)
        ic, partial = core.split_cases(a.lines)
        if partial and len(ic) < len(part):
            ic.append(partial)
        jc = mc = None
        if with_lean:
            jl = []
            for (idx, ops), il in zip(part, ic):
                jl += [f"{op} => {o}" for op, o in zip(ops, il)] + ["reset"]
            jc = core.split_cases(core.run_stream(lean.driver_cmd("dev-unit-judge"), "\n".join(jl) + "\n", timeout=1800).lines)[0]
            mc = core.split_cases(core.run_stream(lean.driver_cmd("dev-model"), text, timeout=1800).lines)[0]
        return part, a, ic, partial, jc, mc

    res, crashes = {}, []
    for part, a, ic, partial, jc, mc in core.parallel_map(work, parts):
        if a.rc != 0 or len(ic) != len(part):
            k = max(0, len(ic) - 1) if partial else len(ic)
            idx, ops = part[k] if k < len(part) else part[-1]
            crashes.append({"case": idx, "ops": ops, "rc": a.rc, "stderr": a.err[-3000:], "done_ops": len(partial)})
        for j, (idx, ops) in enumerate(part):
            res[idx] = (ic[j] if j < len(ic) else None, jc[j] if jc is not None and j < len(jc) else None,
                        mc[j] if mc is not None and j < len(mc) else None)
    return res, crashes


def u_one(exe, ops):
    res, crashes = u_run([ops], exe, True)
    il, jl, ml = res.get(0, (None, None, None))
    clause = next((l.split(None, 1)[1] for l in (jl or []) if l.startswith("VIOLATION")), None)
    return il, jl, ml, clause, crashes


def u_minimise(exe, ops, pred, budget_s=40):
    keep = next((i for i, o in enumerate(ops) if o.startswith("device")), 0)

    def fails(o):
        return pred(u_one(exe, o))
    if not fails(ops):
        return ops
    # the sockets are needed; arrivals before the device and everything after are candidates
    socks = [o for o in ops[:keep] if o.startswith("sock")]
    rest = [o for o in ops if not o.startswith("sock")]
    return core.ddmin(socks + rest, fails, budget_s, keep_prefix=len(socks))


# ========================================================================================================= SIM
def tag(p, n, r, extra=None):
    return bytes([0xd0 | (p & 15), (n >> 8) & 0xff, n & 0xff]) + r.bytes(r.range(0, 5) if extra is None else extra)


class SimGen:
    """one s_device case.  The generator keeps an upper bound of what may be queued per destination pipe so that the
    best-effort protocols (BUS, raw REP / RESPONDENT / SURVEYOR sends) are never driven beyond their queue depths."""

    def __init__(self, r, topo, quick):
        self.r, self.topo, self.quick = r, topo, quick
        self.ops = []
        self.n = 0
        self.pipes = []        # socket of pipe i
        self.ub = {}           # pipe -> upper bound of messages queued for it

    def lim(self, proto):
        return {"bus": 10, "rep": 16, "respondent": 2, "surveyor": 10}.get(proto, 1000)

    def gen(self):
        r, t = self.r, self.topo
        socks = t["socks"]
        for k, (proto, raw) in enumerate(socks):
            self.ops.append(f"open {k} {proto}" + (" raw" if raw else ""))
        for k, (proto, raw) in enumerate(socks):
            if proto in ("pair0", "pair1") and r.chance(2, 3):
                self.ops.append(f"setopt {k} recv-buffer int {r.choice([1, 2, 4, 8])}")
                if r.chance(1, 2):
                    self.ops.append(f"setopt {k} send-buffer int {r.choice([1, 2, 4, 8])}")
            if proto in ("pair1", "rep", "respondent") and r.chance(1, 3):
                self.ops.append(f"setopt {k} ttl-max int {r.range(1, 6)}")
        # finite receive / send time-outs on the device's sockets (the forwarders must ignore them: a device never times out)
        self.tmo = r.chance(1, 3)
        if self.tmo:
            for k, (proto, raw) in enumerate(socks):
                self.ops.append(f"setopt {k} recv-timeout ms {r.choice([20, 50, 200])}")
                self.ops.append(f"setopt {k} send-timeout ms {r.choice([20, 50, 200])}")
        self.ttl = {}
        for o in self.ops:
            w = o.split()
            if w[0] == "setopt" and w[2] == "ttl-max":
                self.ttl[int(w[1])] = int(w[4])
        for k, (proto, raw) in enumerate(socks):
            np = 1 if proto in ("pair0", "pair1") else (1 if proto in ANYONE and r.chance(2, 3) else r.range(1, t.get("maxpipes", 3)))
            for _ in range(np):
                self.ops.append(f"pipe_add {k} {P[PEER[proto]]:04x}")
                self.pipes.append(k)
        if not t.get("ok", True):
            self.ops += [t["dev"], "end", "cancel", "probe 0", "fini"]
            return self
        self.src = t["src"]       # sockets the device reads from
        self.dst = t["dst"]       # src socket -> dst socket
        pre = r.range(2, 6) if r.chance(2, 5) else 0
        for _ in range(pre):
            self.arrive(burst=True)
        self.ops.append(t["dev"])
        rounds = r.range(2, 5) if self.quick else r.range(3, 9)
        for _ in range(rounds):
            if self.tmo and r.chance(1, 2):
                self.ops.append(f"advance {r.choice([30, 80, 300])}")     # an idle gap longer than the time-outs
            for _ in range(r.range(2, 8)):
                self.arrive()
            for _ in range(r.range(0, 6)):
                self.complete()
        self.drain()
        self.ops.append("end")
        self.ops.append(r.weighted([("cancel", 6), ("abort 7", 2), ("abort 5", 1), ("stop", 2)]))
        self.ops += [f"probe {k}" for k in range(len(socks))]
        if r.chance(1, 3):
            self.ops.append("cancel")
        self.ops.append("fini")
        return self

    def pipes_of(self, s):
        return [p for p, k in enumerate(self.pipes) if k == s]

    def wire(self, p):
        """bytes a peer of pipe p sends"""
        r = self.r
        s = self.pipes[p]
        proto = self.topo["socks"][s][0]
        self.n += 1
        body = tag(p, self.n, r).hex()
        ttl = self.ttl.get(s, 8)
        if proto == "pair1":
            hops = r.weighted([(r.range(1, max(1, ttl)), 8), (ttl, 2), (ttl + 1, 1), (0, 1)])
            return f"{hops:08x}{body}", hops <= ttl
        if proto in ("rep", "respondent"):
            k = r.weighted([(0, 4), (1, 3), (2, 2), (r.range(0, ttl), 2), (ttl, 1), (ttl + 1, 1)])
            words = "".join(f"{r.below(0x7f):02x}{r.bytes(3).hex()}" for _ in range(k))
            rid = f"{0x80 | r.below(0x7f):02x}{r.bytes(3).hex()}"
            return words + rid + body, k + 1 <= ttl
        if proto in ("req", "surveyor"):
            other = self.pipes_of(self.dst[s])
            if other and r.chance(9, 10):
                first = f"@{r.choice(other):02x}"
            else:
                first = "7a" + r.bytes(3).hex()      # nobody's pipe id (ids are random 31-bit numbers): dropped by the raw REP send
            k = r.weighted([(0, 5), (1, 3), (2, 1)])
            words = "".join(f"{r.below(0x7f):02x}{r.bytes(3).hex()}" for _ in range(k))
            rid = f"{0x80 | r.below(0x7f):02x}{r.bytes(3).hex()}"
            return first + words + rid + body, True
        return body, True

    def targets(self, p, w):
        """destination pipes the message may be queued for (upper bound bookkeeping only)"""
        s = self.pipes[p]
        d = self.dst[s]
        dp = self.pipes_of(d)
        proto = self.topo["socks"][d][0]
        if proto in ("rep", "respondent"):
            m = re.match(r"@([0-9a-f]{2})", w)
            return [int(m.group(1), 16)] if m else []
        if proto == "bus":
            return [q for q in dp if q != p]
        return dp

    def arrive(self, burst=False):
        r = self.r
        srcp = [p for p, k in enumerate(self.pipes) if k in self.src]
        if not srcp:
            return
        p = r.choice(srcp)
        w, ok = self.wire(p)
        d = self.dst[self.pipes[p]]
        dproto = self.topo["socks"][d][0]
        tg = self.targets(p, w) if ok else []
        if any(self.ub.get(q, 0) >= self.lim(dproto) for q in tg):
            self.n -= 1
            if not burst:          # before the start nothing is parked yet: a completion would not free a slot
                self.complete()
            return
        for q in tg:
            self.ub[q] = self.ub.get(q, 0) + 1
        self.ops.append(f"recv_done {p} {w}")

    def complete(self):
        r = self.r
        cand = [q for q, k in enumerate(self.pipes) if k in self.dst.values()]
        if not cand:
            return
        busy = [q for q in cand if self.ub.get(q, 0) > 0]
        q = r.choice(busy) if busy and r.chance(4, 5) else r.choice(cand)
        if self.ub.get(q, 0) > 0:
            self.ub[q] -= 1
        self.ops.append(f"send_done {q} 0")

    def drain(self):
        cand = [q for q, k in enumerate(self.pipes) if k in self.dst.values()]
        narr = sum(1 for o in self.ops if o.startswith("recv_done"))
        for _ in range(narr + 2):
            for q in cand:
                self.ops.append(f"send_done {q} 0")
        self.ub = {}


def topologies():
    T = []

    def two(a, b, args, src, dst, **kw):
        T.append(dict(socks=[(a, True), (b, True)], dev=f"device {args}", src=src, dst=dst, **kw))
    for p in ("pair1", "pair0", "bus"):
        for args in ("0 -", "- 0", "0 0"):
            T.append(dict(socks=[(p, True)], dev=f"device {args}", src=[0], dst={0: 0}, maxpipes=4, name=f"{p}-reflector"))
        two(p, p, "0 1", [0, 1], {0: 1, 1: 0}, name=f"{p}-twoway")
    for a, b in (("rep", "req"), ("respondent", "surveyor")):
        two(a, b, "0 1", [0, 1], {0: 1, 1: 0}, name=f"{a}-{b}")
        two(a, b, "1 0", [0, 1], {0: 1, 1: 0}, name=f"{b}-{a}")
    two("pull", "push", "0 1", [0], {0: 1}, name="pull-push")
    two("pull", "push", "1 0", [0], {0: 1}, name="push-pull")
    # refused pairs
    for socks, args in (([("pair1", False)], "0 -"), ([("pair1", True), ("bus", True)], "0 1"), ([("rep", True), ("req", False)], "0 1"),
                        ([("rep", True)], "0 -"), ([("bus", True)], "- -"), ([("req", True), ("req", True)], "0 1"), ([("push", True)], "0 0")):
        T.append(dict(socks=socks, dev=f"device {args}", ok=False, name="refused"))
    return T


def sim_cases(seed, tier, n):
    T = topologies()
    out = []
    for i in range(n):
        r = core.Rng(seed, PROP, tier, SUB, "sim", i)
        t = T[i % len(T)]
        out.append((t.get("name", "?"), SimGen(r, t, tier == "quick").gen().ops))
    return out


def events(line):
    return [e.split() for e in line.split(" ; ")] if line != "-" else []


def model_ops(ops, il):
    """the harness ops with the environment's answers appended (see Driver/Device.lean dev-sim-model)"""
    out = []
    for op, o in zip(ops, il):
        w = op.split()
        ev = events(o)
        if w[0] == "open":
            rv = next((e for e in ev if e[0] == "rv"), None)
            if rv and rv[1] == "0" and len(rv) >= 5:
                kv = dict(x.split("=") for x in rv[2:])
                out.append(f"{op} {kv['proto']} {kv['peer']} {kv['flags']}")
            else:
                out.append("skip")
        elif w[0] == "setopt":
            out.append(f"{op} {1 if ['rv', '0'] in ev else 0}")
        elif w[0] == "pipe_add":
            pe = next((e for e in ev if e[0] == "pipe"), None)
            closed = pe is None or ["pclosed", pe[1]] in ev
            out.append(f"{op} {0 if closed else pe[2]}")
        elif w[0] == "recv_done":
            out.append(f"{op} {1 if ['rv', '0'] in ev else 0}")
        else:
            out.append(op)
    return out


def impl_summary(ops, il):
    """what `dev-sim-model` prints, computed from the implementation's trace: done events per line; per-pipe byte strings at `end`"""
    res = []
    pipes = {}
    sockproto = {}
    pout, sout = {}, {}
    for op, o in zip(ops, il):
        w = op.split()
        ev = events(o)
        if w[0] == "open":
            sockproto[int(w[1])] = w[2]
        if w[0] == "pipe_add":
            pe = next((e for e in ev if e[0] == "pipe"), None)
            if pe:
                pipes[int(pe[1])] = int(w[1])
        for e in ev:
            if e[0] == "psend":
                q = int(e[1])
                wire = ("" if e[2] == "-" else e[2]) + ("" if e[3] == "-" else e[3])
                wire = wire or "-"
                s = pipes.get(q)
                if sockproto.get(s) in ANYONE:
                    sout.setdefault(s, []).append(wire)
                else:
                    pout.setdefault(q, []).append(wire)
        if w[0] in ("device", "cancel", "abort", "stop") or (w[0] == "recv_done"):
            d = [e for e in ev if e[0] == "done"]
            res.append(" ; ".join(" ".join(e) for e in d) if d else "-")
        elif w[0] == "end":
            res.append(" ".join(["end"] + [f"p{q}={','.join(pout[q])}" for q in sorted(pout)] + [f"s{s}~{','.join(sorted(sout[s]))}" for s in sorted(sout)]))
        else:
            res.append(None)     # not compared
    return res


def sim_run(cases, exe, scheds, with_lean):
    jobs = [(ci, k, [f"sched {k}"] + ops) for ci, (_, ops) in enumerate(cases) for k in scheds]
    parts = core.chunked(jobs, core.NCPU * 4)
    env = build.env()

    def work(part):
        # one harness process per run: the simulated scheduler numbers its threads in creation order, so a run
        # replays exactly only when it does not inherit thread slots from earlier cases of the same process
        ic, bad = [], []
        for (ci, k, ops) in part:
            a = core.run_stream([exe], core.cases_to_text([ops]), env=env, timeout=300)
            done, partial = core.split_cases(a.lines)
            if a.rc != 0 or len(done) != 1:
                bad.append({"case": ci, "sched": k, "ops": ops, "rc": a.rc, "last": (done[0] if done else partial)[-3:], "stderr": a.err[-3000:]})
            ic.append(done[0] if done else partial)
        jc = mc = None
        if with_lean:
            jl, ml = [], []
            for (ci, k, ops), il in zip(part, ic):
                jl += [f"{op} => {o}" for op, o in zip(ops, il)] + ["reset"]
                ml += model_ops(ops, il) + ["reset"]
            jc = core.split_cases(core.run_stream(lean.driver_cmd("dev-sim-judge"), "\n".join(jl) + "\n", timeout=900).lines)[0]
            mc = core.split_cases(core.run_stream(lean.driver_cmd("dev-sim-model"), "\n".join(ml) + "\n", timeout=900).lines)[0]
        return part, bad, ic, jc, mc

    out = {"judge": [], "model": [], "crashes": [], "runs": len(jobs), "ops": sum(len(j[2]) for j in jobs), "ev": {}, "psend": 0, "accepted": 0}
    for part, bad, ic, jc, mc in core.parallel_map(work, parts):
        out["crashes"] += bad
        for j, (ci, sk, ops) in enumerate(part):
            if j >= len(ic):
                break
            il = ic[j]
            for op, l in zip(ops, il):
                for e in events(l):
                    out["ev"][e[0]] = out["ev"].get(e[0], 0) + 1
                if op.startswith("recv_done") and "rv 0" in l:
                    out["accepted"] += 1
            if jc is not None and j < len(jc):
                for t, v in enumerate(jc[j]):
                    if v.startswith("VIOLATION"):
                        out["judge"].append({"case": ci, "sched": sk, "clause": v[10:], "op_index": t, "impl": il[t] if t < len(il) else None})
                        break
            if mc is not None and j < len(mc):
                want = impl_summary(ops, il)
                for t, (x, y) in enumerate(zip(want, mc[j])):
                    if x is not None and x != y:
                        out["model"].append({"case": ci, "sched": sk, "op_index": t, "op": ops[t], "impl": x, "model": y})
                        break
    out["psend"] = out["ev"].get("psend", 0)
    return out


def sim_minimise(exe, ops, sched, key, budget_s=45):
    """ddmin keeping the socket/pipe set-up; failure = same kind of problem (judge clause family / crash)"""
    setup = [o for o in ops if o.split()[0] in ("open", "setopt", "pipe_add")]
    rest = [o for o in ops if o.split()[0] not in ("open", "setopt", "pipe_add")]

    def fails(o):
        res = sim_run([("min", o)], exe, (sched,), True)
        if key == "crash":
            return bool(res["crashes"])
        if key == "model":
            return bool(res["model"]) and not res["judge"]
        return any(v["clause"].split(":")[0] == key for v in res["judge"])
    full = setup + rest
    if not fails(full):
        return ops
    return core.ddmin(full, fails, budget_s, keep_prefix=len(setup))


# ======================================================================================================== part
def load_corpus():
    out = []
    if os.path.isdir(CORPUS):
        for f in sorted(os.listdir(CORPUS)):
            if f.endswith(".json"):
                try:
                    out.append((f, json.load(open(os.path.join(CORPUS, f)))))
                except (OSError, ValueError):
                    pass
    return out


def run_part(tier, seed, st, replay=None):
    """-> (counts dict, [(tag, payload, no_input)])"""
    t0 = time.time()
    quick = tier == "quick"
    counts = {"unit_cases": 0, "unit_steps": 0, "unit_init": 0, "unit_probe": 0, "unit_random": 0, "unit_judge": 0, "unit_model": 0, "unit_crash": 0,
              "sim_cases": 0, "sim_runs": 0, "sim_ops": 0, "sim_accepted_arrivals": 0, "sim_psend": 0, "sim_judge": 0, "sim_model": 0, "sim_crash": 0,
              "corpus": 0, "distinct": 0, "clauses": {}, "unit_states": {}, "sim_events": {}, "sim_topologies": {}, "samples": [], "wall_s": 0.0}
    viol = []
    try:
        uexe = build.harness("u_device", ["u_device.c"])
        sexe = sim.build_sim("s_device", ["s_device.c"])
    except build.BuildError as e:
        viol.append(("device-build", {"kind": "build", "sub": SUB, "error": str(e), "log": e.log[-4000:]}, True))
        return counts, viol
    with_lean = bool(st.driver_ok)
    ucases, scases = [], []
    scheds = (1, 2, 3, 4) if quick else (1, 2, 3, 4, 5, 6)
    if replay:
        rp = json.load(open(replay))
        if rp.get("sub") != SUB or "ops" not in rp:
            return counts, viol
        if rp.get("part") == "sim":
            scases = [("replay", rp["ops"])]
            scheds = (rp.get("sched", 1),)
        else:
            ucases = [rp["ops"]]
    else:
        for f, c in load_corpus():
            if c.get("part") == "sim":
                scases.append((f, c["ops"]))
            else:
                ucases.append(c["ops"])
            counts["corpus"] += 1
        ic = u_init_cases()
        pc = u_probe_cases()
        nrand = 6000 if quick else 100000
        counts["unit_init"], counts["unit_probe"], counts["unit_random"] = len(ic), len(pc), nrand
        ucases += ic + pc + [u_random(core.Rng(seed, PROP, tier, SUB, "unit", i)) for i in range(nrand)]
        scases += sim_cases(seed, tier, 420 if quick else 6000)
    counts["unit_cases"], counts["unit_steps"] = len(ucases), sum(len(c) for c in ucases)
    counts["sim_cases"] = len(scases)
    counts["distinct"] = len({tuple(c) for c in ucases}) + len({tuple(c) for _, c in scases})
    for n, _ in scases:
        counts["sim_topologies"][n] = counts["sim_topologies"].get(n, 0) + 1
    if ucases:
        counts["samples"].append({"sub": SUB, "part": "unit", "ops": ucases[len(ucases) // 2][:30]})
    if scases:
        counts["samples"].append({"sub": SUB, "part": "sim", "ops": scases[len(scases) // 2][1][:30]})
    found_input = False

    # ---- UNIT
    if ucases:
        res, crashes = u_run(ucases, uexe, with_lean)
        counts["unit_crash"] = len(crashes)
        jv, mv = [], []
        for idx in range(len(ucases)):
            il, jl, ml = res.get(idx, (None, None, None))
            if il is None:
                continue
            for l in il:
                s = l.split(" | ")[1].split()[0] if " | " in l else l
                counts["unit_states"][s] = counts["unit_states"].get(s, 0) + 1
            if jl is not None:
                bad = next((l for l in jl if l.startswith("VIOLATION")), None)
                if bad:
                    clause = bad.split(None, 1)[1]
                    fam = "unit " + clause.split(":")[0]
                    counts["clauses"][fam] = counts["clauses"].get(fam, 0) + 1
                    jv.append((idx, clause))
            if ml is not None and ml[:len(il)] != il:
                t = next((k for k, (x, y) in enumerate(zip(il, ml)) if x != y), min(len(il), len(ml)))
                mv.append((idx, t))
        counts["unit_judge"], counts["unit_model"] = len(jv), len(mv)
        for c in crashes[:2]:
            viol.append((f"device-unit-crash-{c['case']}", {"kind": "crash / sanitizer report (double free, use after free, leak) of the real device.c under the event sequence",
                                                           "sub": SUB, "part": "unit", "ops": c["ops"], "rc": c["rc"], "stderr": c["stderr"]}, False))
            found_input = True
        seen = set()
        for idx, clause in sorted(jv, key=lambda x: len(ucases[x[0]])):
            fam = clause.split(":")[0]
            if fam in seen:
                continue
            seen.add(fam)
            ops = u_minimise(uexe, ucases[idx], lambda o, fam=fam: bool(o[3]) and o[3].split(":")[0] == fam) if with_lean else ucases[idx]
            il, jl, ml, cl, _ = u_one(uexe, ops)
            viol.append((f"device-unit-judge-{idx}", {
                "kind": "the real device.c violates the device specification (Spec/Device.lean, clause family `" + fam + "`)",
                "clause": cl or clause, "sub": SUB, "part": "unit", "ops": ops, "impl": il, "judge": jl, "model": ml,
                "how_to_read": "ops: `sock k proto peer flags` fake sockets, `device a b` = nni_device, `arrive s hdr body` a message reaches socket s, "
                               "`run i` the callback of forwarder i's completed receive, `senddone i rv`, `recvfail i e`, `cancel rv`; impl lines = the calls "
                               "device.c made (recv/send/free/abort/close/finish/reap) | device_data",
                "violating_cases_of_this_family": counts["clauses"].get("unit " + fam, 0)}, False))
            found_input = True
            if len(seen) >= 3:
                break

    # ---- SIM
    S = None
    if scases:
        S = sim_run(scases, sexe, scheds, with_lean)
        counts["sim_runs"], counts["sim_ops"], counts["sim_events"] = S["runs"], S["ops"], S["ev"]
        counts["sim_accepted_arrivals"], counts["sim_psend"] = S["accepted"], S["psend"]
        counts["sim_judge"], counts["sim_model"], counts["sim_crash"] = len(S["judge"]), len(S["model"]), len(S["crashes"])
        for c in S["crashes"][:1]:
            viol.append((f"device-sim-crash-{c['case']}", {"kind": "crash / sanitizer report / deadlock / hang of the library running nng_device under the simulated platform",
                                                          "sub": SUB, "part": "sim", "sched": c["sched"], "ops": c["ops"][1:], "rc": c["rc"], "last_output": c["last"],
                                                          "stderr": c["stderr"]}, False))
            found_input = True
        seen = set()
        for v in S["judge"]:
            fam = v["clause"].split(":")[0]
            counts["clauses"]["sim " + fam] = counts["clauses"].get("sim " + fam, 0) + 1
        for v in sorted(S["judge"], key=lambda v: len(scases[v["case"]][1])):
            fam = v["clause"].split(":")[0]
            if fam in seen:
                continue
            seen.add(fam)
            ops = sim_minimise(sexe, scases[v["case"]][1], v["sched"], fam) if with_lean else scases[v["case"]][1]
            r1 = sim_run([("min", ops)], sexe, (v["sched"],), with_lean)
            viol.append((f"device-sim-judge-{v['case']}", {
                "kind": "nng_device between real sockets violates the end-to-end device specification (Spec/DeviceSim.lean, clause family `" + fam + "`)",
                "clause": (r1["judge"][0]["clause"] if r1["judge"] else v["clause"]), "sub": SUB, "part": "sim", "sched": v["sched"], "ops": ops,
                "topology": scases[v["case"]][0], "violating_runs_of_this_family": counts["clauses"].get("sim " + fam, 0)}, False))
            found_input = True
            if len(seen) >= 3:
                break

    # ---- correspondence (only when no failing input was found)
    if not found_input:
        if ucases and mv:
            idx, t = mv[0]
            il, jl, ml, _, _ = u_one(uexe, ucases[idx])
            viol.append(("device-unit-corr", {"kind": "correspondence broken: the real device.c differs step-for-step from the Lean model the C13Device theorems "
                                                      "are about (no event sequence violating the specification was found)",
                                              "sub": SUB, "part": "unit", "correspondence": "dev-model vs harness/u_device.c", "ops": ucases[idx],
                                              "first": {"op_index": t, "impl": il[t] if il and t < len(il) else None, "model": ml[t] if ml and t < len(ml) else None},
                                              "mismatching_cases": len(mv)}, True))
        if S and S["model"]:
            m = S["model"][0]
            viol.append(("device-sim-corr", {"kind": "correspondence broken: nng_device between real sockets differs from the Lean model between FIFO sockets "
                                                     "(no trace violating the specification was found)", "sub": SUB, "part": "sim",
                                             "correspondence": "dev-sim-model vs harness/s_device.c", "sched": m["sched"], "ops": scases[m["case"]][1],
                                             "first": {k: m[k] for k in ("op_index", "op", "impl", "model")}, "mismatching_runs": len(S["model"])}, True))
    counts["wall_s"] = round(time.time() - t0, 1)
    core.log(PROP, f"device: UNIT cases {counts['unit_cases']} (init {counts['unit_init']}, probes {counts['unit_probe']}, random {counts['unit_random']}) steps "
                   f"{counts['unit_steps']}: judge violations {counts['unit_judge']}, model mismatches {counts['unit_model']}, crashes {counts['unit_crash']}; "
                   f"SIM cases {counts['sim_cases']} x {len(scheds)} schedules, ops {counts['sim_ops']}, accepted arrivals {counts['sim_accepted_arrivals']}, "
                   f"psend {counts['sim_psend']}: judge violations {counts['sim_judge']} {counts['clauses'] or ''}, model mismatches {counts['sim_model']}, "
                   f"crashes {counts['sim_crash']}; {counts['wall_s']}s")
    return counts, viol


def run(tier, seed, replay=None):
    """stand-alone entry: Lean build + axiom audit of Props/C13Device, then both executors"""
    t0 = time.time()
    v = core.Verdict(PROP, seed)
    if os.path.isdir(core.REPLAYS):
        for f in os.listdir(core.REPLAYS):
            if f.startswith(f"{PROP}-") and "-device-" in f:
                os.unlink(os.path.join(core.REPLAYS, f))
    st = lean.prepare(MODULES)
    core.log(PROP, f"lean: {len(st.discharged)}/{len(st.theorems)} theorems re-checked; {st.build_s:.1f}s")
    counts, viol = run_part(tier, seed, st, replay)
    found_input = False
    for tag_, payload, no_input in viol:
        v.violation(tag_, payload, no_input=no_input)
        found_input = found_input or not no_input
    if not found_input and not st.ok:
        v.violation("device-proof", {"kind": "proof obligation no longer checks", "broken": st.broken, "log": st.log[-3000:]}, no_input=True)
    cov = {"obligations": len(st.theorems), "discharged": len(st.discharged),
           "checker_cmd": "lake build NngModel.Props.C13Device && lake env lean <#print axioms for each theorem>",
           "trusted_base": ["Lean 4.33.0 kernel", "axioms: " + ", ".join(sorted({a for x in st.axioms.values() if x for a in x})),
                            "vlib/extract_c13dev.py (flag bits, state numbers, order of device_init's decisions, shapes of device_cb/cancel/close/start)",
                            "harness/u_device.c (hooks around the real device.c, FIFO fake sockets)", "harness/s_device.c, simplat.c, mocktran.c (SIM)",
                            "vlib/props/c13_device.py", "gcc ASan/UBSan/LSan"],
           "theorems": st.discharged, "axioms": st.axioms, "broken": st.broken,
           "evaluations": counts["unit_cases"] + counts["sim_runs"], "distinct_nontrivial": counts["distinct"], "rule": RULE, "samples": counts["samples"],
           "device_part": {k: counts[k] for k in counts if k != "samples"}}
    ev = core.write_evidence(PROP + "-device", tier, seed, "proof", cov,
                             ["a socket completes a successful send with the aio's message slot cleared (every protocol's send path and msgqueue.c do)",
                              "callbacks of one device are serialised by device_mtx (each callback is one atomic step of the model)",
                              "SIM: best-effort protocols are kept below their queue depths so that `nothing lost` is owed"],
                             time.time() - t0, len(v.violations))
    ev["property_id"] = PROP
    json.dump(ev, open(os.path.join(core.EVIDENCE, f"{PROP}-device.json"), "w"), indent=1)
    return v.finish()
