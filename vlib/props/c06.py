"""C06 — PUSH/PULL: each message to at most one puller, none lost while connected, back-pressure."""
import os, time, json
from .. import core, build, lean, sim

PROP = "C06"
MODULES = ["NngModel.Props.C06"]
TIMEOUTS = [20, 50, 100]
ADV = [7, 13, 31, 61, 127]


class Gen:
    """generates one op list for a PUSH or PULL socket; keeps enough shadow state to pick
    meaningful operations (which pipes exist, which aios are free) and distinct bodies."""

    def __init__(self, r, kind):
        self.r, self.kind = r, kind
        self.ops = []
        self.npipes = 0
        self.nbody = 0
        self.busy_aio = set()
        self.now = 0
        self.deadlines = set()

    def body(self):
        self.nbody += 1
        extra = self.r.bytes(self.r.choice([0, 0, 1, 3, 8]))
        return (self.nbody.to_bytes(2, "big") + extra).hex()

    def aio(self):
        free = [a for a in range(16) if a not in self.busy_aio]
        return self.r.choice(free) if free else None

    def mode(self):
        k = self.r.below(10)
        if k < 4:
            return "nb"
        if k < 7:
            return "inf"
        t = self.r.choice(TIMEOUTS)
        self.deadlines.add(self.now + t)
        return str(t)

    def advance(self):
        d = self.r.choice(ADV)
        while self.now + d in self.deadlines:
            d += 1
        self.now += d
        self.ops.append(f"advance {d}")
        # any timed aio may have expired; the generator does not track which: free all timed ones lazily
        self.busy_aio.clear()

    def gen(self, n):
        r = self.r
        peer_ok = "0051" if self.kind == "push" else "0050"
        self.ops.append(f"open {self.kind}" + (" raw" if r.chance(1, 5) else ""))
        if self.kind == "push" and r.chance(1, 2):
            self.ops.append(f"setopt - send-buffer int {r.choice([0, 1, 2, 3, 4])}")
        while len(self.ops) < n:
            k = r.below(100)
            if k < 10 and self.npipes < 4:
                self.ops.append(f"pipe_add {peer_ok if r.chance(9, 10) else r.choice(['0050', '0051', '0010', '0031'])}")
                self.npipes += 1
            elif k < 14 and self.npipes:
                if self.kind == "pull" and self.npipes >= 2 and r.chance(1, 2):
                    # messages parked on several pipes, then one of them goes away: the others' messages stay receivable
                    # (seeded C15-7A: readable flag cleared when the head of the pending list closes)
                    for q in range(self.npipes):
                        if r.chance(2, 3):
                            self.ops.append(f"recv_done {q} {self.body()}")
                    self.ops.append(f"pipe_drop {r.below(self.npipes)}")
                    self.ops.append("poll")
                    continue
                self.ops.append(f"pipe_drop {r.below(self.npipes)}")
            elif k < 40:
                a = self.aio()
                if a is None:
                    self.advance(); continue
                if self.kind == "push":
                    m = self.mode()
                    self.ops.append(f"send - {a} - {self.body()} {m}")
                else:
                    m = self.mode()
                    self.ops.append(f"recv - {a} {m}")
                if m != "nb":
                    self.busy_aio.add(a)
            elif k < 62 and self.npipes:
                p = r.below(self.npipes)
                if self.kind == "push":
                    self.ops.append(f"send_done {p} {0 if r.chance(9, 10) else r.choice([7, 19, 31])}")
                    self.busy_aio.clear()
                else:
                    if r.chance(9, 10):
                        self.ops.append(f"recv_done {p} {self.body()}")
                    else:
                        self.ops.append(f"recv_done {p} !{r.choice([7, 19, 31])}")
                    self.busy_aio.clear()
            elif k < 68 and self.npipes and self.kind == "push":
                self.ops.append(f"recv_done {r.below(self.npipes)} {self.body() if r.chance(1, 2) else '!7'}")
            elif k < 74:
                self.ops.append(f"cancel {r.below(16)}")
                self.busy_aio.clear()
            elif k < 84:
                self.advance()
            elif k < 90 and self.kind == "push":
                self.ops.append(f"setopt - send-buffer int {r.choice([0, 0, 1, 2, 3, 4, 8, -1, 8193])}")
            elif k < 97:
                self.ops.append("poll")
            elif k < 98:
                self.ops.append(f"abort {r.below(16)} {r.choice([5, 20, 7])}")
                self.busy_aio.clear()
            elif k < 99:
                self.ops.append(f"ctx_open 0")
            else:
                self.ops.append("close")
                break
        return self.ops


def gen_case(seed, tier, i):
    r = core.Rng(seed, PROP, tier, i)
    kind = "push" if i % 2 == 0 else "pull"
    return kind, Gen(r, kind).gen(r.range(8, 60))


def history(seed, tier, i):
    """provider for the protocol-independent checks (vlib/protos.py)"""
    return gen_case(seed, tier, i)[1]


def corpus_cases():
    out = []
    d = os.path.join(core.HERE, "corpus", PROP)
    if os.path.isdir(d):
        for f in sorted(os.listdir(d)):
            ops = [l.strip() for l in open(os.path.join(d, f)) if l.strip() and not l.startswith("#")]
            kind = "pull" if ops and ops[0].startswith("open pull") else "push"
            out.append((kind, ops))
    return out


def run(tier, seed, replay=None):
    t0 = time.time()
    v = core.Verdict(PROP, seed)
    core.clear_replays(PROP)
    st = lean.prepare(MODULES)
    core.log(PROP, f"lean: {len(st.discharged)}/{len(st.theorems)} theorems re-checked; extract {st.extract_count} constants "
                   f"(changed: {st.extract_changed}); {st.build_s:.1f}s")
    try:
        exe = sim.build_sim("s_proto", ["s_proto.c"])
    except build.BuildError as e:
        v.violation("build", {"kind": "build", "error": str(e), "log": e.log[-4000:]}, no_input=True)
        core.write_evidence(PROP, tier, seed, "proof", {"obligations": max(1, len(st.theorems)), "discharged": 0, "checker_cmd": "lake build",
                            "trusted_base": [], "explanation": "implementation or harness does not build"}, [], time.time() - t0, 1)
        return v.finish()
    n = 2000 if tier == "quick" else 40000
    scheds = (1, 2, 3) if tier == "quick" else tuple(range(1, 11))
    if replay:
        rp = json.load(open(replay))
        ops = rp["ops"]
        if ops and ops[0].startswith("sched"):
            scheds = (int(ops[0].split()[1]),)
            ops = ops[1:]
        allc = [("pull" if any(o.startswith("open pull") for o in ops[:2]) else "push", ops)]
    else:
        allc = corpus_cases() + [gen_case(seed, tier, i) for i in range(n)]
    results = {}
    for kind in ("push", "pull"):
        cs = [ops for k, ops in allc if k == kind]
        if cs:
            results[kind] = (cs, sim.run_sim(PROP, cs, exe, f"{kind}-model" if st.driver_ok else None,
                                             f"{kind}-judge" if st.driver_ok else None, scheds))
    found_input = False
    tot = {"cases": 0, "runs": 0, "ops": 0, "judge": 0, "model": 0, "crash": 0}
    op_hist, ev_hist = {}, {}
    for kind, (cs, res) in results.items():
        tot["cases"] += res.cases; tot["runs"] += res.runs; tot["ops"] += res.ops
        tot["judge"] += len(res.judge_viol); tot["model"] += len(res.model_mismatch); tot["crash"] += len(res.crashes)
        for k, x in res.op_hist.items(): op_hist[k] = op_hist.get(k, 0) + x
        for k, x in res.ev_hist.items(): ev_hist[k] = ev_hist.get(k, 0) + x
        for c in res.crashes[:2]:
            ops = sim.minimise(exe, None, c["ops"], False)
            v.violation(f"crash-{kind}-{c['case']}", {"kind": "crash / sanitizer report / deadlock of the implementation under the simulated platform",
                        "ops": ops, "rc": c["rc"], "last_output": c["last"], "stderr": c["stderr"]})
            found_input = True
        for jv in res.judge_viol[:2]:
            ops = sim.minimise(exe, f"{kind}-judge", jv["ops"], True)
            impl, il, verdicts = sim.run_one(exe, f"{kind}-judge", ops, True)
            v.violation(f"judge-{kind}-{jv['case']}", {"kind": "implementation trace violates the C06 trace predicate (Spec/Pipeline.lean)",
                        "clause": jv["clause"], "ops": ops, "impl": il, "judge": verdicts})
            found_input = True
    core.log(PROP, f"cases {tot['cases']} runs {tot['runs']} ops {tot['ops']}; judge violations {tot['judge']}, model mismatches {tot['model']}, crashes {tot['crash']}")
    if not found_input:
        for kind, (cs, res) in results.items():
            if res.model_mismatch:
                mm = res.model_mismatch[0]
                ops = sim.minimise(exe, f"{kind}-model", mm["ops"], False)
                impl, il, ml = sim.run_one(exe, f"{kind}-model", ops)
                v.violation(f"corr-{kind}", {"kind": "correspondence broken: implementation differs from the Lean model the C06 theorems are about "
                            "(no trace violating the property predicate was found)", "correspondence": f"{kind}-model vs s_proto",
                            "ops": ops, "impl": il, "model": ml, "mismatching_runs": len(res.model_mismatch)}, no_input=True)
                break
        if not st.ok:
            v.violation("proof", {"kind": "proof obligation no longer checks", "broken": st.broken, "log": st.log[-3000:]}, no_input=True)
    allops = [ops for _, ops in allc]
    cov = {"obligations": len(st.theorems), "discharged": len(st.discharged),
           "checker_cmd": "lake build NngModel.Props.C06 && lake env lean <#print axioms for each theorem>",
           "trusted_base": ["Lean 4.33.0 kernel", "axioms: " + ", ".join(sorted({a for x in st.axioms.values() if x for a in x})),
                            "vlib/extract.py + extract_c06.py (constants)", "harness/simplat.c (scheduler, virtual clock), mocktran.c (transport contract), s_proto.c",
                            "vlib/sim.py (diff, canonicalisation of event order within a quiescent batch)", "gcc ASan/UBSan"],
           "theorems": st.discharged, "axioms": st.axioms, "broken": st.broken,
           "evaluations": tot["runs"], "distinct_nontrivial": len({tuple(o) for o in allops if len(o) > 4}),
           "rule": "event histories for one PUSH or PULL socket (8-60 events: sends/receives in all modes, pipe add/drop, transport completions ok/err, "
                   "cancel/abort, virtual-time advance, send-buffer resizes, poll, close) from splitmix64(seed,C06,tier,i), each run under "
                   f"{len(scheds)} schedule seeds; distinct = distinct op lists longer than 4",
           "schedules_per_case": len(scheds), "ops": tot["ops"], "op_histogram": op_hist, "event_histogram": ev_hist,
           "samples": [allops[0], allops[-1]], "judge_violations": tot["judge"], "model_mismatches": tot["model"], "crashes": tot["crash"],
           "extract_changed": st.extract_changed}
    core.write_evidence(PROP, tier, seed, "proof", cov,
                        ["protocol callbacks are atomic under the protocol mutex (SIM still interleaves their unlocked tails)",
                         "the mock transport honours the transport contract of the real transports",
                         "bodies are pairwise distinct within a case, so the judge can identify messages by content"],
                        time.time() - t0, len(v.violations))
    return v.finish()
