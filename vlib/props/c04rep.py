"""C04 (replier half) — REP sends its reply only to the connection, and with the backtrace, of the
request that context most recently received; ESTATE rules; malformed requests never delivered.
Also the raw XREP / XREQ sockets (header handling used by devices).

`run_rep_part` is the entry for a merged c04.py (REQ half built separately); `run` makes this file a
check of its own (`./check C04REP quick`)."""
import os, time, json
from .. import core, build, lean, sim

PROP = "C04"
ID = "C04REP"
MODULES = ["NngModel.Props.C04Rep"]
TIMEOUTS = [20, 50, 100]
ADV = [7, 13, 31, 61, 127]
KINDS = ("rep", "xrep", "xreq")
KIND_CYCLE = ("rep", "rep", "xrep", "xreq")
OPEN = {"rep": "open rep", "xrep": "open rep raw", "xreq": "open req raw"}


class Gen:
    """one op list for a REP socket with contexts; shadow state only to pick meaningful operations"""

    def __init__(self, r, kind):
        self.r, self.kind = r, kind
        self.ops = []
        self.npipes = 0
        self.nbody = 0
        self.busy_aio = set()
        self.now = 0
        self.deadlines = set()
        self.slots = set()

    def tag(self):
        self.nbody += 1
        return self.nbody.to_bytes(2, "big")

    def body(self):
        return self.tag() + self.r.bytes(self.r.choice([0, 0, 1, 3, 8]))

    def empty_body(self):
        if getattr(self, "had_empty", False):
            return self.tag()
        self.had_empty = True
        return b""

    def word(self, end):
        b = bytearray(self.r.bytes(4))
        b[0] = (b[0] | 0x80) if end else (b[0] & 0x7F)
        return bytes(b)

    def request(self):
        """bytes a REQ peer (possibly behind devices) puts on the wire"""
        r = self.r
        k = r.below(100)
        if k < 70:      # well formed, 0-3 hops
            hops = r.choice([0, 0, 0, 1, 1, 2, 3])
            return b"".join(self.word(False) for _ in range(hops)) + self.word(True) + self.body()
        if k < 80:      # many hops: more than some TTLs allow
            hops = r.range(4, 17)
            return b"".join(self.word(False) for _ in range(hops)) + self.word(True) + self.body()
        if k < 90:      # no terminator: only hop words, then fewer than 4 bytes
            hops = r.range(0, 4)
            return b"".join(self.word(False) for _ in range(hops)) + bytes(x & 0x7F for x in r.bytes(r.below(4)))
        if k < 95:      # terminator cut short / empty message
            return bytes([0x80 | r.below(128)]) * r.below(4)
        # terminator and empty body (once per case: the judges identify messages by their bodies)
        return self.word(True) + self.empty_body()

    def aio(self):
        free = [a for a in range(16) if a not in self.busy_aio]
        return self.r.choice(free) if free else None

    def mode(self):
        k = self.r.below(20)
        if k < 8:
            return "nb"
        if k < 14:
            return "inf"
        if k < 15:
            return "0"
        if k < 16:
            return "def"
        t = self.r.choice(TIMEOUTS)
        self.deadlines.add(self.now + t)
        return str(t)

    def advance(self):
        d = self.r.choice(ADV)
        while self.now + d in self.deadlines:
            d += 1
        self.now += d
        self.ops.append(f"advance {d}")
        self.busy_aio.clear()

    def ctx(self):
        c = ["-"] + [str(x) for x in sorted(self.slots)]
        if self.r.chance(1, 40):
            return str(self.r.below(4))     # possibly a closed slot
        return self.r.choice(c)

    def gen(self, n):
        r = self.r
        self.ops.append("open rep")
        for c in range(r.choice([0, 1, 1, 2, 2, 3, 4])):
            self.ops.append(f"ctx_open {c}")
            self.slots.add(c)
        if r.chance(1, 3):
            self.ops.append(f"setopt - ttl-max int {r.range(1, 15)}")
        for _ in range(r.choice([0, 1, 1, 2])):
            self.ops.append("pipe_add 0030")
            self.npipes += 1
        while len(self.ops) < n:
            k = r.below(100)
            if k < 6 and self.npipes < 3:
                self.ops.append(f"pipe_add {'0030' if r.chance(9, 10) else r.choice(['0031', '0050', '0010'])}")
                self.npipes += 1
            elif k < 10 and self.npipes:
                self.ops.append(f"pipe_drop {r.below(self.npipes)}")
            elif k < 30 and self.npipes:
                p = r.below(self.npipes)
                if r.chance(19, 20):
                    self.ops.append(f"recv_done {p} {self.request().hex() or '-'}")
                else:
                    self.ops.append(f"recv_done {p} !{r.choice([7, 19, 31])}")
                self.busy_aio.clear()
            elif k < 48:
                a = self.aio()
                if a is None:
                    self.advance(); continue
                m = self.mode()
                self.ops.append(f"recv {self.ctx()} {a} {m}")
                if m != "nb":
                    self.busy_aio.add(a)
            elif k < 66:
                a = self.aio()
                if a is None:
                    self.advance(); continue
                m = self.mode()
                hdr = "-" if r.chance(3, 4) else r.bytes(4).hex()
                self.ops.append(f"send {self.ctx()} {a} {hdr} {self.body().hex()} {m}")
                if m != "nb":
                    self.busy_aio.add(a)
            elif k < 78 and self.npipes:
                self.ops.append(f"send_done {r.below(self.npipes)} {0 if r.chance(9, 10) else r.choice([7, 19, 31])}")
                self.busy_aio.clear()
            elif k < 82:
                self.ops.append(f"cancel {r.below(16)}")
                self.busy_aio.clear()
            elif k < 88:
                self.advance()
            elif k < 94:
                self.ops.append("poll")
            elif k < 95:
                self.ops.append(f"abort {r.below(16)} {r.choice([5, 20, 7])}")
                self.busy_aio.clear()
            elif k < 96:
                free = [c for c in range(4) if c not in self.slots]
                if free:
                    c = r.choice(free)
                    self.ops.append(f"ctx_open {c}")
                    self.slots.add(c)
            elif k < 97:
                if self.slots:
                    c = r.choice(sorted(self.slots))
                    self.ops.append(f"ctx_close {c}")
                    self.slots.discard(c)
                    self.busy_aio.clear()
            elif k < 99:
                if r.chance(1, 2):
                    self.ops.append(f"setopt - ttl-max int {r.choice([1, 2, 3, 4, 8, 15, 0, 16, -1])}")
                else:
                    self.ops.append("getopt - ttl-max int")
            else:
                self.ops.append("close")
                break
        return self.ops


class GenRaw(Gen):
    """op list for a raw REP (xrep) or raw REQ (xreq) socket"""

    def backtrace(self):
        hops = self.r.choice([0, 0, 1, 2, 3])
        return b"".join(self.word(False) for _ in range(hops)) + self.word(True)

    def reply_hdr(self):
        """header an application (device) puts on a reply it sends through raw REP"""
        r = self.r
        k = r.below(100)
        p = r.below(max(1, self.npipes))
        if k < 75:
            return f"P{p}+{self.backtrace().hex()}"
        if k < 80:
            return f"P{p}+-"                         # only the pipe id
        if k < 85:
            return r.choice(["-", "00", "000001"])    # fewer than 4 bytes: freed by the router
        if k < 92:
            return "7ffffff0" + self.backtrace().hex()   # unknown pipe
        return f"P{r.below(4)}+{self.backtrace().hex()}"  # possibly a pipe that never existed

    def reply_wire(self):
        """bytes a REP peer puts on the wire towards raw REQ"""
        r = self.r
        k = r.below(100)
        if k < 75:
            return self.backtrace() + self.body()
        if k < 85:
            hops = r.range(14, 18)                    # around the header capacity (16 words)
            return b"".join(self.word(False) for _ in range(hops)) + self.word(True) + self.body()
        if k < 95:
            return b"".join(self.word(False) for _ in range(r.below(3))) + bytes(x & 0x7F for x in r.bytes(r.below(4)))
        return self.word(True) + self.empty_body()

    def gen(self, n):
        r = self.r
        xrep = self.kind == "xrep"
        peer_ok = "0030" if xrep else "0031"
        self.ops.append(OPEN[self.kind])
        if r.chance(1, 3):
            self.ops.append(f"setopt - ttl-max int {r.range(1, 15)}")

        def add_pipe():
            ok = r.chance(9, 10)
            self.ops.append(f"pipe_add {peer_ok if ok else r.choice(['0030', '0031', '0050'])}")
            self.npipes += 1
        for _ in range(r.choice([0, 1, 1, 2])):
            add_pipe()
        while len(self.ops) < n:
            k = r.below(100)
            if k < 6 and self.npipes < 3:
                add_pipe()
            elif k < 10 and self.npipes:
                self.ops.append(f"pipe_drop {r.below(self.npipes)}")
            elif k < 32 and self.npipes:
                p = r.below(self.npipes)
                if r.chance(19, 20):
                    data = self.request() if xrep else self.reply_wire()
                    self.ops.append(f"recv_done {p} {data.hex() or '-'}")
                else:
                    self.ops.append(f"recv_done {p} !{r.choice([7, 19, 31])}")
                self.busy_aio.clear()
            elif k < 50:
                a = self.aio()
                if a is None:
                    self.advance(); continue
                m = self.mode()
                self.ops.append(f"recv - {a} {m}")
                if m != "nb":
                    self.busy_aio.add(a)
            elif k < 68:
                a = self.aio()
                if a is None:
                    self.advance(); continue
                m = self.mode()
                hdr = self.reply_hdr() if xrep else (self.backtrace().hex() if r.chance(9, 10) else "-")
                self.ops.append(f"send - {a} {hdr} {self.body().hex()} {m}")
                if m != "nb":
                    self.busy_aio.add(a)
            elif k < 80 and self.npipes:
                self.ops.append(f"send_done {r.below(self.npipes)} {0 if r.chance(9, 10) else r.choice([7, 19, 31])}")
                self.busy_aio.clear()
            elif k < 84:
                self.ops.append(f"cancel {r.below(16)}")
                self.busy_aio.clear()
            elif k < 90:
                self.advance()
            elif k < 96:
                self.ops.append("poll")
            elif k < 97:
                self.ops.append(f"abort {r.below(16)} {r.choice([5, 20, 7])}")
                self.busy_aio.clear()
            elif k < 99:
                if r.chance(1, 2):
                    self.ops.append(f"setopt - ttl-max int {r.choice([1, 2, 3, 4, 8, 15, 0, 16])}")
                else:
                    self.ops.append("getopt - ttl-max int")
            else:
                self.ops.append("close")
                break
        return self.ops


def gen_case(seed, tier, i):
    r = core.Rng(seed, ID, tier, i)
    kind = KIND_CYCLE[i % len(KIND_CYCLE)]
    if kind not in KINDS:
        kind = KINDS[0]
    g = Gen(r, kind) if kind == "rep" else GenRaw(r, kind)
    return kind, g.gen(r.range(8, 60))


def exe_for(kind, exe):
    """raw REP runs behind the pipe-id canonicalising proxy (c04rep_filter.py)"""
    if kind != "xrep":
        return exe
    flt = os.path.join(os.path.dirname(os.path.abspath(__file__)), "c04rep_filter.py")
    d = os.path.dirname(exe)
    wrap = os.path.join(d, "xrep-canon.sh")
    txt = f"#!/bin/sh\nexec python3 {flt} {exe}\n"
    if not os.path.exists(wrap) or open(wrap).read() != txt:
        tmp = wrap + f".{os.getpid()}"
        with open(tmp, "w") as f:
            f.write(txt)
        os.chmod(tmp, 0o755)
        os.replace(tmp, wrap)
    return wrap


JUDGES = {"rep": "rep-judge", "xrep": "xrep-judge", "xreq": "xreq-judge"}


def kind_of(ops):
    for o in ops[:3]:
        w = o.split()
        if w and w[0] == "open":
            if len(w) > 2 and w[2] == "raw":
                return "x" + w[1]
            return w[1]
    return "rep"


def corpus_cases():
    out = []
    for sub in ("C04", "C15"):
        d = os.path.join(core.HERE, "corpus", sub)
        if os.path.isdir(d):
            for f in sorted(os.listdir(d)):
                if not f.startswith("rep") and not f.startswith("xre"):     # rep-*, xrep-*, xreq-* are ours
                    continue
                ops = [l.strip() for l in open(os.path.join(d, f)) if l.strip() and not l.startswith("#")]
                if ops and ops[0].startswith("sched"):
                    ops = ops[1:]
                if kind_of(ops) in KINDS:
                    out.append((kind_of(ops), ops))
    return out


BATCH = 400   # cases per sim.run_sim call: harness/simplat.c's mutex side table (8192 slots, never emptied)
              # fills up when one s_proto process runs more than ~200 REP cases


def run_batched(cs, exe, model, judge, scheds):
    """sim.run_sim in batches, results merged (case numbers made global)"""
    tot = sim.SimResult()
    for b in range(0, len(cs), BATCH):
        r = sim.run_sim(PROP, cs[b:b + BATCH], exe, model, judge, scheds)
        tot.cases += r.cases; tot.runs += r.runs; tot.ops += r.ops
        for lst, dst in ((r.judge_viol, tot.judge_viol), (r.model_mismatch, tot.model_mismatch), (r.crashes, tot.crashes)):
            for x in lst:
                x["case"] += b
                dst.append(x)
        for k, x in r.op_hist.items(): tot.op_hist[k] = tot.op_hist.get(k, 0) + x
        for k, x in r.ev_hist.items(): tot.ev_hist[k] = tot.ev_hist.get(k, 0) + x
    return tot


def run_rep_part(tier, seed, st, exe, replay_ops=None, scheds=None, n=None):
    """runs the replier-side cases; returns dict(tot, violations=[(tag, payload, no_input)], op_hist, ev_hist, allops)"""
    n = n if n is not None else (2000 if tier == "quick" else 40000)
    scheds = scheds or ((1, 2, 3) if tier == "quick" else tuple(range(1, 11)))
    if replay_ops is not None:
        allc = [(kind_of(replay_ops), replay_ops)]
    else:
        allc = corpus_cases() + [gen_case(seed, tier, i) for i in range(n)]
    results = {}
    for kind in KINDS:
        cs = [ops for k, ops in allc if k == kind]
        if cs:
            results[kind] = (cs, run_batched(cs, exe_for(kind, exe), f"{kind}-model" if st.driver_ok else None,
                                             JUDGES.get(kind) if st.driver_ok else None, scheds))
    viol = []
    found_input = False
    tot = {"cases": 0, "runs": 0, "ops": 0, "judge": 0, "model": 0, "crash": 0}
    op_hist, ev_hist = {}, {}
    for kind, (cs, res) in results.items():
        tot["cases"] += res.cases; tot["runs"] += res.runs; tot["ops"] += res.ops
        tot["judge"] += len(res.judge_viol); tot["model"] += len(res.model_mismatch); tot["crash"] += len(res.crashes)
        for k, x in res.op_hist.items(): op_hist[k] = op_hist.get(k, 0) + x
        for k, x in res.ev_hist.items(): ev_hist[k] = ev_hist.get(k, 0) + x
        for c in res.crashes[:2]:
            ops = sim.minimise(exe_for(kind, exe), None, c["ops"], False)
            viol.append((f"crash-{kind}-{c['case']}", {"kind": "crash / panic / sanitizer report / deadlock of the implementation under the simulated platform",
                         "ops": ops, "rc": c["rc"], "last_output": c["last"], "stderr": c["stderr"]}, False))
            found_input = True
        seen_clause = set()
        for jv in res.judge_viol:
            key = jv["clause"].split(":")[0][:40]
            if key in seen_clause or len(seen_clause) >= 3:
                continue
            seen_clause.add(key)
            ops = sim.minimise(exe_for(kind, exe), JUDGES[kind], jv["ops"], True)
            impl, il, verdicts = sim.run_one(exe_for(kind, exe), JUDGES[kind], ops, True)
            viol.append((f"judge-{kind}-{jv['case']}", {"kind": "implementation trace violates the C04 (replier) trace predicate (Spec/Rep.lean)",
                         "clause": jv["clause"], "ops": ops, "impl": il, "judge": verdicts}, False))
            found_input = True
    if not found_input:
        for kind, (cs, res) in results.items():
            if res.model_mismatch:
                mm = res.model_mismatch[0]
                ops = sim.minimise(exe_for(kind, exe), f"{kind}-model", mm["ops"], False)
                impl, il, ml = sim.run_one(exe_for(kind, exe), f"{kind}-model", ops)
                viol.append((f"corr-{kind}", {"kind": "correspondence broken: implementation differs from the Lean model the C04 (replier) theorems are about "
                             "(no trace violating the property predicate was found)", "correspondence": f"{kind}-model vs s_proto",
                             "ops": ops, "impl": il, "model": ml, "mismatching_runs": len(res.model_mismatch)}, True))
                break
    return {"tot": tot, "violations": viol, "op_hist": op_hist, "ev_hist": ev_hist, "allops": [ops for _, ops in allc],
            "scheds": len(scheds), "found_input": found_input}


def run(tier, seed, replay=None):
    t0 = time.time()
    v = core.Verdict(ID, seed)
    core.clear_replays(ID)
    st = lean.prepare(MODULES)
    core.log(ID, f"lean: {len(st.discharged)}/{len(st.theorems)} theorems re-checked; extract {st.extract_count} constants "
                 f"(changed: {st.extract_changed}); {st.build_s:.1f}s")
    try:
        exe = sim.build_sim("s_proto", ["s_proto.c"])
    except build.BuildError as e:
        v.violation("build", {"kind": "build", "error": str(e), "log": e.log[-4000:]}, no_input=True)
        core.write_evidence(ID, tier, seed, "proof", {"obligations": max(1, len(st.theorems)), "discharged": 0, "checker_cmd": "lake build",
                            "trusted_base": [], "explanation": "implementation or harness does not build"}, [], time.time() - t0, 1)
        return v.finish()
    rops = None
    scheds = None
    if replay:
        rp = json.load(open(replay))
        rops = rp["ops"]
        if rops and rops[0].startswith("sched"):
            scheds = (int(rops[0].split()[1]),)
            rops = rops[1:]
    part = run_rep_part(tier, seed, st, exe, rops, scheds)
    tot = part["tot"]
    for tag, payload, no_input in part["violations"]:
        v.violation(tag, payload, no_input=no_input)
    core.log(ID, f"cases {tot['cases']} runs {tot['runs']} ops {tot['ops']}; judge violations {tot['judge']}, model mismatches {tot['model']}, crashes {tot['crash']}")
    if not part["found_input"] and not st.ok:
        v.violation("proof", {"kind": "proof obligation no longer checks", "broken": st.broken, "log": st.log[-3000:]}, no_input=True)
    allops = part["allops"]
    cov = {"obligations": len(st.theorems), "discharged": len(st.discharged),
           "checker_cmd": "lake build NngModel.Props.C04Rep && lake env lean <#print axioms for each theorem>",
           "trusted_base": ["Lean 4.33.0 kernel", "axioms: " + ", ".join(sorted({a for x in st.axioms.values() if x for a in x})),
                            "vlib/extract.py + extract_c04rep.py (constants, loop-shape anchors)",
                            "harness/simplat.c (scheduler, virtual clock), mocktran.c (transport contract), s_proto.c",
                            "vlib/props/c04rep_filter.py (renames the core's random pipe ids in raw-REP headers to index+1)",
                            "vlib/sim.py (diff, canonicalisation of event order within a quiescent batch)", "gcc ASan/UBSan"],
           "theorems": st.discharged, "axioms": st.axioms, "broken": st.broken,
           "evaluations": tot["runs"], "distinct_nontrivial": len({tuple(o) for o in allops if len(o) > 4}),
           "rule": "event histories (8-60 events) for one socket, kinds cycling REP, REP, raw REP, raw REQ: REP with 0-4 contexts and 0-3 "
                   "pipes (requests with 0-17 hop words, missing/short terminators, TTL 1-15; recv/send in all modes on contexts and the "
                   "socket, send without request, concurrent receives, pipe add/drop, transport completions ok/err, cancel/abort, "
                   "virtual-time advance, context open/close, poll, close); raw sockets likewise with replies addressed by pipe id "
                   "(valid, short, unknown, closed pipe) resp. reply streams with 0-18 header words; "
                   f"from splitmix64(seed,{ID},tier,i), each run under {part['scheds']} schedule seeds; plus the corpus replays; "
                   "distinct = distinct op lists longer than 4",
           "schedules_per_case": part["scheds"], "ops": tot["ops"], "op_histogram": part["op_hist"], "event_histogram": part["ev_hist"],
           "samples": [allops[0], allops[-1]], "judge_violations": tot["judge"], "model_mismatches": tot["model"], "crashes": tot["crash"],
           "extract_changed": st.extract_changed}
    core.write_evidence(ID, tier, seed, "proof", cov,
                        ["protocol callbacks are atomic under the protocol mutex (SIM still interleaves their unlocked tails)",
                         "the mock transport honours the transport contract of the real transports",
                         "request and reply bodies are pairwise distinct within a case, so the judge can identify messages by content"],
                        time.time() - t0, len(v.violations))
    return v.finish()
