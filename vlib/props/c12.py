"""C12 — REQ keeps retrying until answered; no hang when retry is disabled.  Same machinery as
the requester half of C04 (vlib/props/c04req.py), judged by the C12 trace predicate."""
from . import c04req


def run(tier, seed, replay=None):
    return c04req.run_prop("C12", ["NngModel.Props.C12"], ("C12",), tier, seed, replay)
