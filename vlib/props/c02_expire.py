"""C02, timer clause for MANY aios: more than one batch (NNI_EXPIRE_BATCH) of operations whose deadlines fall into the
same pass of one expire thread.  Theorems: Props/C02Expire.lean (the scan of nni_aio_expire_loop takes the first `batch`
due entries, keeps every other entry, sets eq_next to the earliest a_expire LEFT on the list - so the thread does not
sleep while something is due - and the passes it makes without sleeping expire every due aio exactly once).  The shape
of the loop is anchored by vlib/extract_c02x.py; this part runs the REAL loop (harness/r_expire.c, one expire thread)."""
import re, time
from .. import core, build

SUB = "expire"
MODULE = "NngModel.Props.C02Expire"   # + NngModel.Props.C02Completions
RULE = ("expire part: n = 1..4 batches of aios (nng_sleep_aio and receives with a timeout on a socket without peers) started back "
        "to back with one or two deadlines on ONE expire thread; every operation must complete exactly once, with result 0 / "
        "NNG_ETIMEDOUT, not before its time and within 3 s of it")


def configs(tier, seed, batch):
    r = core.Rng(seed, "C02", tier, SUB)
    out = [[str(batch - 1), "30", "sleep"], [str(batch), "30", "recv"], [str(batch + 1), "30", "sleep"], [str(batch + 1), "30", "recv"],
           [str(2 * batch + 30), "40", "mixed"], [str(3 * batch + 50), "50", "recv"], [str(2 * batch + 1), "40", "twodl"]]
    for _ in range(3 if tier == "quick" else 20):
        out.append([str(r.range(1, 4 * batch)), str(r.choice([5, 20, 35, 60])), r.choice(["sleep", "recv", "mixed", "twodl"])])
    return out


def judge(args, line):
    m = re.match(r"expire n=(\d+) done=(\d+) dup=(\d+) wrong=(\d+) maxlate=(-?\d+) waited=(\d+)$", line or "")
    if not m:
        return f"the probe did not report: {line!r}"
    n, done, dup, wrong, late, _ = map(int, m.groups())
    if done != n:
        return f"{n - done} of {n} operations never completed (deadline passed more than 3 s ago)"
    if dup:
        return f"{dup} operations completed more than once"
    if wrong:
        return f"{wrong} operations completed with the wrong result or before their time"
    if late > 2000:
        return f"an operation completed {late} ms after its deadline"
    return None


def complq_part(tier, cov, viol, replay=None):
    """completion batches (Props/C02Completions.lean): n SUB contexts completed by ONE published message, every
    callback reaps its own aio (reuses the reap node the batch is threaded through)"""
    try:
        exe = build.harness("r_complq", ["r_complq.c"])
    except build.BuildError as e:
        viol.append(("complq-build", {"kind": "build", "sub": SUB, "error": str(e), "log": e.log[-3000:]}, True))
        return
    cfgs = [replay["complq_args"]] if replay else ([["2", "3"], ["3", "5"], ["16", "4"]] + ([["64", "10"], ["5", "50"]] if tier != "quick" else []))
    cov["complq"] = []
    for a in cfgs:
        r = core.run_stream([exe] + a, "", env=build.env(), timeout=120)
        line = next((l for l in r.lines if l.startswith("complq ")), None)
        m = re.match(r"complq n=(\d+) rounds=(\d+) callbacks=(\d+) expected=(\d+) dup=(\d+)$", line or "")
        why = None
        if r.rc != 0:
            why = f"exit code {r.rc}: {r.err[-1200:]}"
        elif not m:
            why = f"the probe did not report: {line!r}"
        elif int(m.group(3)) != int(m.group(4)) or int(m.group(5)):
            why = (f"{m.group(3)} callbacks for {m.group(4)} completed operations ({m.group(5)} ran twice): a batch of completions was not "
                   "run to its end although the callbacks only reused their own aio (nng_aio_reap)")
        cov["complq"].append(" ".join(a) + (" BAD" if why else " ok"))
        cov["cases"] += 1
        if why:
            cov["bad"] += 1
            viol.append((f"complq-{len(viol)}", {"kind": "completion batch (REAL): " + why, "sub": SUB, "complq_args": a, "probe_output": line,
                                                 "how": "harness/r_complq.c <contexts> <rounds>"}, False))


def run_part(tier, seed, st, replay=None, batch=100):
    t0 = time.time()
    cov = {"cases": 0, "aios": 0, "bad": 0, "max_late_ms": 0, "configs": []}
    viol = []
    if replay and "complq_args" in replay:
        complq_part(tier, cov, viol, replay)
        return cov, viol
    if not replay:
        complq_part(tier, cov, viol)
    try:
        exe = build.harness("r_expire", ["r_expire.c"])
    except build.BuildError as e:
        viol.append(("expire-build", {"kind": "build", "sub": SUB, "error": str(e), "log": e.log[-3000:]}, True))
        return cov, viol
    cfgs = [replay["real_args"]] if replay else configs(tier, seed, batch)

    def work(a):
        r = core.run_stream([exe] + a, "", env=build.env(), timeout=120)
        line = next((l for l in r.lines if l.startswith("expire ")), None)
        if r.rc != 0:
            return a, f"exit code {r.rc}: {r.err[-1200:]}", line
        return a, judge(a, line), line
    # one at a time: the probe measures lateness
    for a in cfgs:
        a, why, line = work(a)
        if why and "never completed" not in why and "completed" in why and "ms after" in why:
            a, why, line = work(a)          # lateness on a loaded machine: once more
        cov["cases"] += 1
        cov["aios"] += int(a[0])
        cov["configs"].append(" ".join(a))
        m = re.search(r"maxlate=(-?\d+)", line or "")
        if m:
            cov["max_late_ms"] = max(cov["max_late_ms"], int(m.group(1)))
        if why:
            cov["bad"] += 1
            if len(viol) < 2:
                viol.append((f"expire-{len(viol)}", {"kind": "timers of many simultaneous operations (REAL, one expire thread): " + why, "sub": SUB,
                                                     "real_args": a, "probe_output": line, "how": "harness/r_expire.c <n> <ms> <kind>"}, False))
    cov["wall_s"] = round(time.time() - t0, 1)
    return cov, viol
