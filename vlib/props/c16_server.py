"""C16 part S — the HTTP SERVER layer (src/supplemental/http/http_server.c on top of http_conn.c / http_msg.c).

UNIT executor harness/u_httpsrv.c: #includes the real http_msg.c, http_conn.c and http_server.c; a real nni_http_server with
handlers registered through the real API; connections attached the way http_server_acccb does; ONLY the byte stream under
the connection is replaced (a receive takes min(available, iov_len) bytes of what the op lines made available; a send is
recorded).  All callbacks run on nng's task threads; an op is answered at quiescence.
Three-way differential per op line:
  impl  : the events (generic handler ran with this method/uri/body; these response bytes were written; stream closed)
  model : Lean `httpsrv-model` (Model/HttpServer.lean: what Props/C16Server.lean is about; follows the extracted repair flags)
  spec  : Lean `httpsrv-spec`  (Spec/HttpServer.lean: routing by most specific handler, framing, persistence, answers;
          compared with the header lines of every written response SORTED: the specification does not fix their order)
plus an implementation-only judge: the same stream under two segmentations on two connections gives the same events.
Client side (same harness, ops `cli` / `txn`): nni_http_transact_conn over a client connection object on the fake stream; events
`W` (request written) and `T rv=<n> [st= b=]`; model Model/HttpClient.lean (Props/C16Client.lean), spec Spec/HttpClient.lean.
  impl != spec -> VIOLATION with a minimised replay; impl != model only / theorem or audit failure -> ... no-failing-input-found
Entry points: run(tier, seed, replay) (stand-alone: `./check c16_server quick`) and run_part(tier, seed, st, replay).
"""
import os, json, time
from .. import core, build, lean, unit

PROP = "C16"
SUB = "server"
MODULES = ["NngModel.Props.C16Server", "NngModel.Props.C16ServerSrc", "NngModel.Props.C16Client"]
RULE = ("server: per case i (splitmix64(seed,C16,tier,server,i)): 2..7 handlers over paths with shared prefixes {/,/a,/a/b,/a/b/c,/ab,"
        "/a/,/api,/api/v1,/apix,/x.y}, methods {default GET,POST,PUT,HEAD,OPTIONS,any,get}, hosts {any,example.com,EXAMPLE.com,h,"
        "example.com:8080}, tree flag, body collection off/on with limits {0,1,3,5,10,default}, kinds echo / error(403,404,500,503) / "
        "static / redirect(0,301,302,307; sometimes tree), sometimes a duplicate or a path without '/' (EADDRINUSE / EINVAL), "
        "sometimes a custom 404/413/405 page; then `tbl`; then 1..2 connections of 1..4 pipelined requests: method {GET x4,HEAD x2,"
        "POST x2,PUT,OPTIONS,DELETE,get,BREW}, 3/4 of the requests are aimed at one of the handlers (its method, host variants); target = the path (1/2) or a variant (+/, +/x, +x, +?q=1, +/x/y, dot segments, "
        "%-escapes, *, absolute form), version {1.1 x20,1.0 x4,2,0.9,1.2,garbage}, Host variants (exact, other case, :port, trailing "
        "dot, longer name, absent), Connection {absent x5, close, Close, keep-alive, 'keep-alive, close', closed}, Content-Length = "
        "body length with bodies at a limit -1/0/+1 or malformed {3x, abc, -1, +3, empty, 0x3, '3 3', 03, 24 digits, twice}, "
        "Transfer-Encoding: chunked (p=1/25), malformed heads (p=1/10: no separators, double blank, control character, bare LF line "
        "ends, line without colon, 8200-byte target p=1/60), bodies that look like requests (p=1/6); the stream is cut whole / at "
        "CRLFs / at 1..6 random points / bytewise (p=1/8, streams up to 160 bytes); 1/3 of the cases replay the stream on a second "
        "connection under another segmentation (segmentation judge); 1/6 end with `eof`; plus directed cases and corpus/C16/server-*.txt. "
        "client: n/3 cases of 1..3 transactions (GET x4, HEAD, POST, PUT; uri {/,/a/b,/x?q=1,empty}) on one client connection, each "
        "answered by a generated response: version {1.1 x8,1.0,2,garbage}, status {200 x6,204,404,500,301,99,abc,1000}, framing = "
        "Content-Length exact (sometimes with extra bytes behind) / Transfer-Encoding {chunked, 'gzip, chunked', Chunked} with chunks "
        "of 1..20 bytes, upper/lower-case and zero-padded sizes, extensions, trailers, 1/5 malformed (bad hex, bare LF, missing CRLF, "
        "truncated), sometimes with Content-Length too / malformed Content-Length {5x, empty, +2, 0, 00, -0, '2 ', 0x2, abc} / none; "
        "malformed heads p=1/12; truncated p=1/8; cut like the requests; `eof` p=1/6 per transaction; half of the cases KEEP the request "
        "object between their 1..4 transactions (no nng_http_reset); directed: every ordered pair (+ a third) of the framings {chunked, "
        "Content-Length, Content-Length 0, Content-Type+Content-Length, none} on one connection with and without reset, HEAD then GET, a "
        "1.0 response then a kept request, kept bodies; writer: request heads (long uri, with/without body) and response heads (redirect "
        "with a long Location; with and without unread pipelined input; HEAD) of rendered length bufsz-4 .. bufsz+4")


def hx(b):
    return core.hexs(bytes(b)) if b else "-"


PATHS = [b"/", b"/a", b"/a/b", b"/a/b/c", b"/ab", b"/a/", b"/api", b"/api/v1", b"/apix", b"/x.y"]
HOSTS = [None, None, None, b"example.com", b"EXAMPLE.com", b"h", b"example.com:8080"]
METHODS = ["-", "-", "-", b"POST", b"PUT", b"HEAD", b"OPTIONS", "~", b"get", "-"]


def hline(i, kind, uri, meth="-", host=None, tree=0, gb="-", mb="-", args=()):
    m = meth if meth in ("-", "~") else hx(meth)
    return " ".join(["h", str(i), kind, hx(uri), m, hx(host) if host else "-", str(tree), str(gb), str(mb)] + [str(a) for a in args])


def gen_table(r):
    ops, paths = [], []
    n = r.range(2, 7)
    for i in range(n):
        uri = r.choice(PATHS)
        if r.chance(1, 30):
            uri = b"noslash"
        if paths and r.chance(1, 8):
            uri = r.choice(paths)[0]       # same path again: conflict unless host or method differs
        meth = r.choice(METHODS)
        host = r.choice(HOSTS)
        tree = 1 if r.chance(2, 5) else 0
        k = r.below(10)
        gb, mb = "-", "-"
        if r.chance(1, 2):
            gb = 1 if r.chance(3, 4) else 0
            mb = r.choice([0, 1, 3, 5, 10, 1048576])
        if k < 6:
            ops.append(hline(i, "echo", uri, meth, host, tree, gb, mb))
        elif k == 6:
            ops.append(hline(i, "err", uri, meth, host, tree, gb, mb, (r.choice([403, 404, 500, 503]),)))
        elif k == 7:
            data = r.choice([b"DATA", b"d", b"<html></html>", b"x" * 40])   # empty content: corpus/C16/server-static-empty.txt
            ct = r.choice(["~", hx(b"text/html"), hx(b"application/json")])
            ops.append(hline(i, "static", uri, meth, host, tree, gb, mb, (hx(data), ct)))
        else:
            wh = r.choice([b"http://o/t", b"/new", b"https://other.example/base"])
            ops.append(hline(i, "redir", uri, meth if r.chance(1, 3) else "-", host, tree, gb, mb, (r.choice([0, 301, 302, 307]), hx(wh))))
        paths.append((uri, meth, host, tree))
    if r.chance(1, 5):
        ops.append(f"errpage {r.choice([404, 413, 405, 400])} {hx(r.choice([b'<p>custom</p>', b'no', b'x' * 70]))}")
    ops.append("tbl")
    return ops, paths


BADCL = [b"3x", b"abc", b"-1", b"+3", b"", b"0x3", b"3 3", b"03", b"9" * 24, b"18446744073709551616"]


def gen_request(r, paths, limits):
    meth = r.choice([b"GET"] * 4 + [b"HEAD"] * 2 + [b"POST"] * 2 + [b"PUT", b"OPTIONS", b"DELETE", b"get", b"BREW"])
    aim = r.choice(paths) if paths and r.chance(3, 4) else None     # a request aimed at one of the handlers
    p = aim[0] if aim else r.choice(PATHS)
    if not p.startswith(b"/"):
        p = b"/" + p
    if aim and r.chance(2, 3):
        meth = b"GET" if aim[1] == "-" else (r.choice([b"GET", b"POST", b"HEAD"]) if aim[1] == "~" else aim[1])
        if meth == b"GET" and r.chance(1, 5):
            meth = b"HEAD"
    v = r.below(22) if not (aim and aim[3]) else r.choice([0, 0, 11, 12, 12, 15, 15, 16, 13, 14, 21])
    base = p if p != b"/" else b""
    target = ([p] * 11 + [base + b"/", base + b"/x", p + b"x", p + b"?q=1", base + b"/x/y", base + b"/./x", base + b"/x/..",
                          p.replace(b"a", b"%61"), b"*", b"http://example.com" + p, base + b"/x?y=/z"])[v]
    vers = r.choice([b"HTTP/1.1"] * 20 + [b"HTTP/1.0"] * 4 + [b"HTTP/2", b"HTTP/0.9", b"HTTP/1.2", b"HTTX/1.1"])
    hdrs = []
    hv = r.below(12)
    if aim and aim[2] and r.chance(2, 3):
        hh = aim[2]
        hdrs.append((b"Host", r.choice([hh, hh, hh.lower(), hh + b":81", hh + b".", hh.upper()])))
    elif hv < 11:
        hdrs.append((r.choice([b"Host", b"Host", b"host", b"HOST"]),
                     [b"example.com", b"example.com", b"Example.COM", b"example.com:8080", b"example.com.", b"example.comx", b"h", b"exam",
                      b"example.com", b"h", b"h:1"][hv]))
    cv = r.below(10)
    if cv >= 5:
        hdrs.append((b"Connection", [b"close", b"Close", b"keep-alive", b"keep-alive, close", b"closed"][cv - 5]))
    body = b""
    if meth in (b"POST", b"PUT") or r.chance(1, 6):
        lim = r.choice(limits) if limits else 3
        n = max(0, lim + r.choice([-1, 0, 0, 1, 2])) if lim < 100 else r.choice([0, 1, 7])
        if r.chance(1, 6):
            body = (b"GET /a HTTP/1.1\r\nHost: h\r\n\r\n" * 3)[:max(n, 28)]
        else:
            body = bytes(97 + (j % 26) for j in range(n))
        if r.chance(1, 7):
            hdrs.append((b"Content-Length", r.choice(BADCL)))
        else:
            hdrs.append((r.choice([b"Content-Length", b"content-length"]), str(len(body)).encode()))
            if r.chance(1, 20):
                hdrs.append((b"Content-Length", str(len(body) + 1).encode()))
    if r.chance(1, 25):
        hdrs.append((b"Transfer-Encoding", b"chunked"))
    if r.chance(1, 4):
        hdrs.insert(r.below(len(hdrs) + 1), (b"X-A", b"b c"))
    eol = b"\r\n"
    head = meth + b" " + target + b" " + vers + eol + b"".join(k + b": " + val + eol for k, val in hdrs) + eol
    if r.chance(1, 10):
        k = r.below(7)
        if k == 0:
            head = b"BAD" + eol + head[head.index(eol) + 2:]
        elif k == 1:
            head = meth + b" " + target + eol + head[head.index(eol) + 2:]
        elif k == 2:
            head = eol + head
        elif k == 3:
            head = head.replace(b"Host", b"Ho\x01st", 1)
        elif k == 4:
            head = head.replace(eol, b"\n")
        elif k == 5:
            head = head[:-2] + b"no colon here" + eol + eol
        elif r.chance(1, 8):
            head = meth + b" /" + b"u" * 8200 + b" " + vers + eol + head[head.index(eol) + 2:]
    return head + body


def cut(r, s, how=None):
    how = r.below(8) if how is None else how
    if how == 0 or len(s) < 2:
        return [s]
    if how == 1 and len(s) <= 160:
        return [s[i:i + 1] for i in range(len(s))]
    if how == 2:
        out, i = [], 0
        while i < len(s):
            j = s.find(b"\r\n", i)
            j = len(s) if j < 0 else j + 2
            out.append(s[i:j])
            i = j
        return out
    k = r.range(1, 6)
    pts = sorted({r.range(1, len(s) - 1) for _ in range(k)})
    return [s[a:b] for a, b in zip([0] + pts, pts + [len(s)])]


def gen_case(r, idx):
    ops, paths = gen_table(r)
    ops = ["srv"] + ops
    limits = [0, 1, 3, 5, 10]
    for c in range(r.range(1, 2)):
        stream = b"".join(gen_request(r, paths, limits) for _ in range(r.range(1, 4)))
        ops.append("conn")
        ops += ["rx " + hx(x) for x in cut(r, stream)]
        if r.chance(1, 3):
            ops.append("conn")
            ops += ["rx " + hx(x) for x in cut(r, stream)]
        if r.chance(1, 6):
            ops.append("eof")
    return ops


def chunked(r, data, bad=None):
    out, i = b"", 0
    while i < len(data):
        k = r.range(1, min(20, len(data) - i))
        sz = ("%x" % k) if r.chance(2, 3) else ("%X" % k).rjust(r.range(1, 3), "0")
        ext = b";x=y" if r.chance(1, 6) else b""
        out += sz.encode() + ext + b"\r\n" + data[i:i + k] + b"\r\n"
        i += k
    out += b"0" + (b";e" if r.chance(1, 8) else b"") + b"\r\n" + (b"X-T: v\r\n" if r.chance(1, 5) else b"") + b"\r\n"
    if bad == 0:
        out = b"g" + out
    elif bad == 1:
        out = out.replace(b"\r\n", b"\n", 1)
    elif bad == 2 and data:
        j = out.index(b"\r\n") + 2
        out = out[:j] + out[j:].replace(b"\r\n", b"xx", 1)
    elif bad == 3:
        out = out[:-2]
    return out


def gen_response(r, meth):
    vers = r.choice([b"HTTP/1.1"] * 8 + [b"HTTP/1.0", b"HTTP/2", b"HTTX/1.1"])
    code = r.choice([b"200"] * 6 + [b"204", b"404", b"500", b"301", b"99", b"abc", b"1000"])
    reason = r.choice([b"OK", b"Not Found", b"", b"weird reason  x"])
    data = bytes(65 + (j % 26) for j in range(r.choice([0, 1, 2, 5, 17, 40, 90])))
    hdrs, body = [], b""
    k = r.below(12)
    if k < 5:
        hdrs.append((r.choice([b"Content-Length", b"content-length"]), str(len(data)).encode()))
        body = data + (b"EXTRA" if r.chance(1, 10) else b"")
    elif k < 8:
        hdrs.append((b"Transfer-Encoding", r.choice([b"chunked", b"chunked", b"gzip, chunked", b"Chunked"])))
        body = chunked(r, data, r.below(4) if r.chance(1, 5) else None)
        if r.chance(1, 6):
            hdrs.append((b"Content-Length", str(len(data)).encode()))
    elif k < 10:
        hdrs.append((b"Content-Length", r.choice([b"5x", b"", b"+2", b"0", b"00", b"-0", b"2 ", b"0x2", b"abc"])))
        body = data
    else:
        body = data if r.chance(1, 2) else b""
    if r.chance(1, 3):
        hdrs.insert(r.below(len(hdrs) + 1), (b"X-H", b"v w"))
    head = vers + b" " + code + b" " + reason + b"\r\n" + b"".join(a + b": " + v + b"\r\n" for a, v in hdrs) + b"\r\n"
    if r.chance(1, 12):
        head = [b"\r\n" + head, head.replace(b"\r\n", b"\n"), head.replace(b": ", b" ", 1), head.replace(b" ", b"", 1)][r.below(4)]
    return head + body


def gen_client_case(r, idx):
    ops = ["cli"]
    keep = r.chance(1, 2)      # the application reuses its request object: no nng_http_reset between the transactions
    for t in range(r.range(1, 4) if keep else r.range(1, 3)):
        meth = r.choice([b"GET"] * 4 + [b"HEAD", b"POST", b"PUT"])
        uri = r.choice([b"/", b"/a/b", b"/x?q=1", b""])
        body = b"req-body" if meth in (b"POST", b"PUT") and r.chance(2, 3) else b""
        ops.append(f"txn {hx(meth)} {hx(uri)} {hx(body)}" + (" 1" if keep else ""))
        resp = gen_response(r, meth)
        if r.chance(1, 8):
            resp = resp[:r.range(0, len(resp))]
        ops += ["rx " + hx(x) for x in cut(r, resp)]
        if r.chance(1, 6):
            ops.append("eof")
    return ops


def framed(kind, data, vers=b"HTTP/1.1", status=b"200 OK"):
    head = vers + b" " + status + b"\r\n"
    if kind == "chunked":
        return head + b"Transfer-Encoding: chunked\r\n\r\n" + (b"%x\r\n" % len(data) + data + b"\r\n" if data else b"") + b"0\r\n\r\n"
    if kind == "length":
        return head + b"Content-Length: " + str(len(data)).encode() + b"\r\n\r\n" + data
    if kind == "zero":
        return head + b"Content-Length: 0\r\nX-Other: 1\r\n\r\n"
    if kind == "ctype":
        return head + b"Content-Type: text/plain\r\nContent-Length: " + str(len(data)).encode() + b"\r\n\r\n" + data
    return head + b"\r\n"                      # "none": no framing header, no body


def client_sequences():
    """every ordered pair (and some triples) of framings on ONE connection, with and without nng_http_reset in between"""
    cs = []
    kinds = ["chunked", "length", "zero", "ctype", "none"]
    for keep in (" 1", ""):
        for a in kinds:
            for b in kinds:
                ops = ["cli", f"txn {hx(b'GET')} {hx(b'/1')} -{keep}", "rx " + hx(framed(a, b"AAAA")),
                       f"txn {hx(b'GET')} {hx(b'/2')} -{keep}", "rx " + hx(framed(b, b"BBBBBB")),
                       f"txn {hx(b'GET')} {hx(b'/3')} -{keep}", "rx " + hx(framed(a, b"CC"))]
                cs.append(ops)
        # HEAD first (Content-Length without body), then GET; a 1.0 response, then a kept request; a kept body
        cs.append(["cli", f"txn {hx(b'HEAD')} {hx(b'/h')} -{keep}", "rx " + hx(framed("length", b"")[:-0 or None].replace(b": 0", b": 5")),
                   f"txn {hx(b'GET')} {hx(b'/g')} -{keep}", "rx " + hx(framed("none", b""))])
        cs.append(["cli", f"txn {hx(b'GET')} {hx(b'/a')} -{keep}", "rx " + hx(framed("length", b"old", vers=b"HTTP/1.0")),
                   f"txn {hx(b'GET')} {hx(b'/b')} -{keep}", "rx " + hx(framed("chunked", b"new"))])
        cs.append(["cli", f"txn {hx(b'POST')} {hx(b'/p')} {hx(b'body-1')}{keep}", "rx " + hx(framed("length", b"r1")),
                   f"txn {hx(b'POST')} {hx(b'/p')} -{keep}", "rx " + hx(framed("length", b"r2")),
                   f"txn {hx(b'PUT')} {hx(b'/p')} {hx(b'b3')}{keep}", "rx " + hx(framed("none", b""))])
        cs.append(["cli", f"txn {hx(b'GET')} {hx(b'/s')} -{keep}", "rx " + hx(framed("length", b"x", status=b"404 Not Found")),
                   f"txn {hx(b'GET')} {hx(b'/s')} -{keep}", "rx " + hx(b"HTTP/1.1 204 \r\n\r\n")])
    return cs


def bufsz():
    from .. import extract
    extract._load_hooks()
    return extract.consts()["httpBufSize"][0]


def long_head_cases():
    """heads whose rendered length is around the size of the connection buffer (http_prepare: fixed buffer vs heap copy),
    written through the real nni_http_write_req (client request with a long uri, without and with a body) and
    nni_http_write_res (redirect answer with a long Location; answers with and without unread input behind the request)"""
    cs, B = [], bufsz()
    for d in range(-4, 5):
        # "GET <uri> HTTP/1.1\r\nHost: h\r\n\r\n" = len(uri) + 26
        uri = b"/" + b"u" * (B + d - 26 - 1)
        cs.append(["cli", f"txn {hx(b'GET')} {hx(uri)} -", "rx " + hx(framed("length", b"ok"))])
        # with "Content-Length: 4\r\n" (19 more)
        uri2 = b"/" + b"v" * (B + d - 26 - 19 - 1)
        cs.append(["cli", f"txn {hx(b'POST')} {hx(uri2)} {hx(b'BODY')}", "rx " + hx(framed("none", b""))])
        # "HTTP/1.1 301 Moved Permanently\r\nLocation: <w>\r\nConnection: close\r\nContent-Type: text/html; charset=UTF-8\r\n
        #  Content-Length: 385\r\n\r\n" = len(w) + 126
        w = b"http://o/" + b"w" * (B + d - 126 - 9)
        tbl = ["srv", hline(0, "redir", b"/old", args=(301, hx(w))), hline(1, "echo", b"/ok"), "conn"]
        cs.append(tbl + ["rx " + hx(rq(b"GET", b"/old"))])
        cs.append(tbl + ["rx " + hx(rq(b"GET", b"/old") + rq(b"GET", b"/ok"))])     # unread input: the heap path
        cs.append(tbl + ["rx " + hx(rq(b"HEAD", b"/old"))])
    return cs


def client_directed():
    cs = []
    one = lambda m, resp: cs.append(["cli", f"txn {hx(m)} {hx(b'/d')} -", "rx " + hx(resp), "eof"])
    ok = b"HTTP/1.1 200 OK\r\n"
    for cl in [b"3", b"03", b"+3", b"3x", b"", b"0", b"abc"]:
        one(b"GET", ok + b"Content-Length: " + cl + b"\r\n\r\nabcdef")
    one(b"HEAD", ok + b"Content-Length: 3\r\n\r\n")
    one(b"GET", ok + b"Transfer-Encoding: chunked\r\n\r\n3\r\nabc\r\n0\r\n\r\nNEXT")
    one(b"HEAD", ok + b"Transfer-Encoding: chunked\r\n\r\n")
    one(b"GET", ok + b"Transfer-Encoding: Chunked\r\n\r\n3\r\nabc\r\n0\r\n\r\n")
    one(b"GET", ok + b"Transfer-Encoding: chunked\r\nContent-Length: 2\r\n\r\n3\r\nabc\r\n0\r\n\r\n")
    one(b"GET", ok + b"Transfer-Encoding: chunked\r\n\r\n3\r\nabcXX0\r\n\r\n")
    one(b"GET", b"HTTP/1.1 200\r\n\r\n")
    one(b"GET", b"\r\n" + ok + b"\r\n")
    s = ok + b"Content-Length: 4\r\n\r\nbodyHTTP/1.1 404 Not Found\r\nContent-Length: 0\r\n\r\n"
    for i in range(1, len(s)):
        cs.append(["cli", f"txn {hx(b'GET')} {hx(b'/p')} -", "rx " + hx(s[:i]), "rx " + hx(s[i:]), f"txn {hx(b'GET')} {hx(b'/q')} -"])
    return cs


def rq(meth, target, vers=b"HTTP/1.1", hdrs=((b"Host", b"example.com"),), body=b""):
    return meth + b" " + target + b" " + vers + b"\r\n" + b"".join(k + b": " + v + b"\r\n" for k, v in hdrs) + b"\r\n" + body


def directed():
    cs = []
    tbl = ["srv", hline(0, "echo", b"/api", tree=1), hline(1, "echo", b"/api/v1", b"POST", gb=1, mb=5), hline(2, "echo", b"/"),
           hline(3, "echo", b"/api/v1"), hline(4, "err", b"/gone", args=(404,)), hline(5, "redir", b"/old", tree=1, args=(301, hx(b"http://o/new"))),
           hline(6, "static", b"/s", host=b"example.com", args=(hx(b"DATA"), "~")), hline(7, "echo", b"/any", "~", gb=0, mb=0), "tbl", "conn"]
    one = lambda *reqs: cs.append(tbl + ["rx " + hx(b"".join(reqs))])
    # routing: sibling path, exact vs tree, trailing slash, query
    for t in [b"/api", b"/api/", b"/apix", b"/api/v1", b"/api/v1/", b"/api/v1/x", b"/api/v2", b"/api?x=1", b"/api/v1?x=1", b"/", b"/zz", b"//", b"/s", b"/s/"]:
        one(rq(b"GET", t))
        one(rq(b"HEAD", t))
    one(rq(b"POST", b"/api/v1", hdrs=((b"Host", b"h"), (b"Content-Length", b"5")), body=b"12345"))
    one(rq(b"POST", b"/api/v1", hdrs=((b"Host", b"h"), (b"Content-Length", b"6")), body=b"123456"), rq(b"GET", b"/api"))
    one(rq(b"POST", b"/api/v1", hdrs=((b"Host", b"h"), (b"Content-Length", b"4")), body=b"1234"), rq(b"GET", b"/api"))
    one(rq(b"DELETE", b"/api/v1"), rq(b"OPTIONS", b"/zz"))
    # hosts
    for h in [b"example.com", b"EXAMPLE.COM", b"example.com:1", b"example.com.", b"example.com.:1", b"example.comx", b"example.co", b"a"]:
        one(rq(b"GET", b"/s", hdrs=((b"Host", h),)))
    one(rq(b"GET", b"/s", vers=b"HTTP/1.0", hdrs=()))
    one(rq(b"GET", b"/s", hdrs=()))
    one(rq(b"GET", b"/s"), rq(b"GET", b"/s", hdrs=()))          # the connection remembers the Host value
    # persistence
    for c in [b"close", b"CLOSE", b"keep-alive", b"x-close-y", b"clos"]:
        one(rq(b"GET", b"/api", hdrs=((b"Host", b"h"), (b"Connection", c))), rq(b"GET", b"/"))
    one(rq(b"GET", b"/api", vers=b"HTTP/1.0"), rq(b"GET", b"/"))
    one(rq(b"GET", b"/old/x/y"), rq(b"GET", b"/"))
    one(rq(b"HEAD", b"/old"), rq(b"GET", b"/"))
    one(rq(b"GET", b"/gone"), rq(b"GET", b"/api"), rq(b"HEAD", b"/gone"), rq(b"GET", b"/api"))
    # framing
    for cl in BADCL:
        one(rq(b"POST", b"/api/v1", hdrs=((b"Host", b"h"), (b"Content-Length", cl)), body=b"abcGET / HTTP/1.1\r\nHost: h\r\n\r\n"))
    one(b"BAD\r\nContent-Length: 28\r\n\r\n" + rq(b"GET", b"/", hdrs=((b"Host", b"h"),)) + rq(b"GET", b"/api"))
    one(rq(b"GET", b"/api", vers=b"HTTP/3") + rq(b"GET", b"/api"))
    one(rq(b"POST", b"/any", hdrs=((b"Host", b"h"), (b"Content-Length", b"3")), body=b"abc"), rq(b"GET", b"/api"))
    one(rq(b"POST", b"/api", hdrs=((b"Host", b"h"), (b"Transfer-Encoding", b"chunked")), body=b"3\r\nabc\r\n0\r\n\r\n"), rq(b"GET", b"/api"))
    one(rq(b"GET", b"*"), rq(b"GET", b"/"))
    one(rq(b"GET", b"/" + b"u" * 8200), rq(b"GET", b"/"))
    # custom page
    cs.append(tbl[:-1] + ["errpage 404 " + hx(b"<p>nope</p>"), "conn", "rx " + hx(rq(b"GET", b"/zz") + rq(b"HEAD", b"/zz") + rq(b"GET", b"/gone"))])
    # every cut of a pipelined pair with a body
    s = rq(b"POST", b"/api/v1", hdrs=((b"Host", b"h"), (b"Content-Length", b"3")), body=b"abc") + rq(b"GET", b"/api/q")
    for i in range(1, len(s)):
        cs.append(tbl + ["rx " + hx(s[:i]), "rx " + hx(s[i:])])
    return cs


def norm_events(line):
    """for the comparison with the specification: header lines of every written response sorted"""
    out = []
    for e in line.split(" ; "):
        ws = e.split(" ")
        if "W" in ws[:2] and len(ws[-1]) > 1:
            try:
                b = bytes.fromhex(ws[-1])
                i = b.find(b"\r\n\r\n")
                if i >= 0:
                    ls = b[:i].split(b"\r\n")
                    b = b"\r\n".join([ls[0]] + sorted(ls[1:])) + b[i:]
                e = " ".join(ws[:-1] + [b.hex()])
            except ValueError:
                pass
        out.append(e)
    return " ; ".join(out)


def events_of(lines):
    evs = []
    for l in lines:
        body = l.split(" ", 1)[1] if " " in l else "-"
        if body != "-":
            evs += body.split(" ; ")
    return evs


def seg_judge(ops, il):
    """the same stream on two connections of one case: same events"""
    conns, cur = [], None
    for o, l in zip(ops, il):
        if o == "conn":
            cur = {"bytes": "", "lines": []}
            conns.append(cur)
        elif cur is not None and o.startswith("rx "):
            h = o[3:]
            cur["bytes"] += "" if h == "-" else h
            cur["lines"].append(l)
    for a, b in zip(conns, conns[1:]):
        if a["bytes"] == b["bytes"]:
            ea, eb = events_of(a["lines"]), events_of(b["lines"])
            if "TIMEOUT" in " ".join(ea + eb):
                return "the implementation did not come to rest within 10 s"
            if ea != eb:
                k = next((i for i, (x, y) in enumerate(zip(ea, eb)) if x != y), min(len(ea), len(eb)))
                return (f"segmentation dependence: the same {len(a['bytes']) // 2} bytes in two segmentations give different events "
                        f"(event {k}: {(ea + ['<none>'])[k][:200]} vs {(eb + ['<none>'])[k][:200]})")
    return None


def readable(op):
    if op.startswith("rx ") and op != "rx -":
        try:
            return "rx " + repr(bytes.fromhex(op[3:]))[1:][:300]
        except ValueError:
            return op
    ws = op.split()
    if ws and ws[0] == "h" and len(ws) >= 9:
        d = lambda w: w if w in ("-", "~") else repr(bytes.fromhex(w))[1:]
        return " ".join(ws[:3] + [d(ws[3]), d(ws[4]), d(ws[5])] + ws[6:9] + [w[:60] for w in ws[9:]])
    return op[:200]


def readable_out(l):
    out = []
    for e in l.split(" ; "):
        ws = e.split(" ")
        r = []
        for w in ws:
            k, _, v = w.rpartition("=")
            try:
                r.append((k + "=" if k else "") + (repr(bytes.fromhex(v))[1:] if len(v) > 3 else v))
            except ValueError:
                r.append(w)
        out.append(" ".join(r))
    return " ; ".join(out)[:900]


def run_part(tier, seed, st, replay=None):
    t0 = time.time()
    counts = {"cases": 0, "ops": 0, "spec": 0, "seg": 0, "model": 0, "crash": 0, "op_hist": {}, "rv_hist": {}, "samples": [], "distinct": 0,
              "wall_s": 0.0, "bytes": 0, "responses": 0, "handler_runs": 0, "closes": 0, "status_hist": {}}
    viol = []
    try:
        exe = build.harness("u_httpsrv", ["u_httpsrv.c"])
    except build.BuildError as e:
        viol.append(("server-build", {"kind": "build", "sub": SUB, "error": str(e), "log": e.log[-4000:]}, True))
        return counts, viol
    if replay:
        rp = json.load(open(replay))
        if rp.get("sub") != SUB:
            return counts, viol
        cases = [rp["ops"]]
    else:
        n = int(os.environ.get("VERIF_SRV_CASES", 4000 if tier == "quick" else 40000))
        cases = directed() + [gen_case(core.Rng(seed, PROP, tier, SUB, i), i) for i in range(n)]
        cases += client_directed() + client_sequences() + long_head_cases() + [gen_client_case(core.Rng(seed, PROP, tier, SUB, "cli", i), i) for i in range(n // 3)]
        corpus = os.path.join(core.HERE, "corpus", PROP)
        if os.path.isdir(corpus):
            for f in sorted(os.listdir(corpus)):
                if f.startswith("server-"):
                    cases.append([l.strip() for l in open(os.path.join(corpus, f)) if l.strip() and not l.startswith("#")])
    with_lean = bool(st.driver_ok)
    ident = lambda l: l
    stat = counts["status_hist"]

    def judge(ops, il):
        for l in il:
            for e in events_of([l]):
                if e.startswith("T "):
                    counts["transactions"] = counts.get("transactions", 0) + 1
                    k = e.split()[1]
                    counts.setdefault("txn_hist", {})[k] = counts.setdefault("txn_hist", {}).get(k, 0) + 1
                elif e.startswith("W ") and ops and ops[0] != "cli":
                    counts["responses"] += 1
                    try:
                        code = bytes.fromhex(e[2:40]).split(b" ")[1].decode()
                    except (ValueError, IndexError):
                        code = "?"
                    stat[code] = stat.get(code, 0) + 1
                elif e.startswith("H"):
                    counts["handler_runs"] += 1
                elif e == "C":
                    counts["closes"] += 1
        return seg_judge(ops, il)

    res = unit.run_unit(PROP, cases, exe, "httpsrv-spec" if with_lean else None, "httpsrv-model" if with_lean else None, norm_events,
                        proj_model=ident, judge=judge, opkey=lambda l: l.split()[0] + ("-" + l.split()[2] if l.startswith("h ") else ""))
    counts["cases"], counts["ops"] = res.cases, res.ops
    counts["bytes"] = sum((len(o) - 3) // 2 for c in cases for o in c if o.startswith("rx ") and o != "rx -")
    counts["op_hist"], counts["rv_hist"] = res.op_hist, res.rv_hist
    counts["distinct"] = len({tuple(c) for c in cases if len(c) > 3})
    counts["samples"] = [{"sub": SUB, "ops": [o[:200] for o in c]} for c in (cases[0], cases[len(cases) // 2], cases[-1])]
    segs = [m for m in res.spec_mismatch if m["spec"] == "judge"]
    specs = [m for m in res.spec_mismatch if m["spec"] != "judge"]
    counts["spec"], counts["seg"], counts["model"], counts["crash"] = len(specs), len(segs), len(res.model_mismatch), len(res.crashes)
    core.log(PROP, f"server: cases {res.cases} ops {res.ops} bytes {counts['bytes']}; responses {counts['responses']}, handler runs "
                   f"{counts['handler_runs']}, client transactions {counts.get('transactions', 0)} {counts.get('txn_hist', {})}; spec mismatches {len(specs)}, segmentation {len(segs)}, model mismatches "
                   f"{len(res.model_mismatch)}, crashes {len(res.crashes)}")
    found_input = False
    for c in res.crashes[:2]:
        ops = unit.minimise(exe, "httpsrv-spec", c["ops"], norm_events)
        viol.append((f"server-crash-{c['case']}", {"kind": "sanitizer/crash on the implementation", "sub": SUB, "ops": ops, "rc": c["rc"],
                                                   "stderr": c["stderr"], "readable": [readable(o) for o in ops][:12]}, False))
        found_input = True
    for mm in segs[:1]:
        viol.append((f"server-seg-{mm['case']}", {"kind": "the HTTP server's behaviour depends on how the byte stream was split across reads",
                                                  "sub": SUB, "ops": mm["ops"], "why": mm["impl"],
                                                  "readable": [readable(o) for o in mm["ops"]][:20]}, False))
        found_input = True
    seen = set()
    for mm in specs:
        if len(seen) >= 6:
            break
        ops = unit.minimise(exe, "httpsrv-spec", mm["ops"], norm_events)
        r1 = unit.single(exe, "httpsrv-spec", None, ops, prelude=())
        k = next((i for i, (a, b) in enumerate(zip(r1["impl"].lines, r1["spec"].lines)) if norm_events(a) != norm_events(b)), 0)
        ia = readable_out(r1["impl"].lines[k]).split(" ; ") if k < len(r1["impl"].lines) else []
        sa = readable_out(r1["spec"].lines[k]).split(" ; ") if k < len(r1["spec"].lines) else []
        j = next((i for i, (a, b) in enumerate(zip(ia, sa)) if a != b), min(len(ia), len(sa)))
        ea, eb = (ia + ["<nothing>"])[j], (sa + ["<nothing>"])[j]
        d = next((i for i, (x, y) in enumerate(zip(ea, eb)) if x != y), min(len(ea), len(eb)))
        sig = (ea[max(0, d - 12):d + 40], eb[max(0, d - 12):d + 40])
        if sig in seen:
            continue
        seen.add(sig)
        viol.append((f"server-spec-{mm['case']}",
                     {"kind": ("the HTTP client transaction differs from its specification (the request written is ONE well-formed head "
                               "+ body; the result depends on this response's bytes alone; Spec/HttpClient.lean)" if ops and ops[0] == "cli"
                               else "the HTTP server layer differs from its specification (routing to the most specific handler / request "
                                    "framing / persistence / well-formed answers that parse back; Spec/HttpServer.lean)"), "sub": SUB, "ops": ops,
                      "readable": [readable(o) for o in ops][:20],
                      "impl": [readable_out(l) for l in r1["impl"].lines][-4:], "spec": [readable_out(l) for l in r1["spec"].lines][-4:],
                      "first_difference": {"impl": sig[0], "spec": sig[1]}}, False))
        found_input = True
    if res.model_mismatch and not found_input:
        mm = res.model_mismatch[0]
        ops = unit.minimise(exe, "httpsrv-model", mm["ops"], ident)
        r1 = unit.single(exe, None, "httpsrv-model", ops, prelude=())
        viol.append(("server-corr", {"kind": "correspondence broken: implementation differs from the Lean model the C16 (part S) theorems are "
                                             "about (no input violating the specification was found)", "sub": SUB,
                                     "correspondence": "httpsrv-model vs u_httpsrv", "ops": ops, "readable": [readable(o) for o in ops][:20],
                                     "impl": [readable_out(l) for l in r1["impl"].lines][-4:],
                                     "model": [readable_out(l) for l in r1["model"].lines][-4:],
                                     "mismatching_cases": len(res.model_mismatch)}, True))
    counts["wall_s"] = round(time.time() - t0, 1)
    return counts, viol


def run(tier, seed, replay=None):
    """stand-alone entry (./check c16_server quick): Lean build + axiom audit + the differential run + evidence"""
    t0 = time.time()
    me = "C16S"
    v = core.Verdict(me, seed)
    core.clear_replays(me)
    st = lean.prepare(MODULES)
    core.log(PROP, f"lean: {len(st.discharged)}/{len(st.theorems)} theorems re-checked; extract {st.extract_count} constants "
                   f"(changed: {st.extract_changed}); {st.build_s:.1f}s")
    c, vs = run_part(tier, seed, st, replay)
    found = False
    for tag, payload, no_input in vs:
        v.violation(tag, payload, no_input=no_input)
        found = found or not no_input
    if not st.ok and not found:
        v.violation("proof", {"kind": "proof obligation no longer checks", "broken": st.broken, "log": st.log[-3000:]}, no_input=True)
    cov = {
        "obligations": len(st.theorems), "discharged": len(st.discharged),
        "checker_cmd": "lake build NngModel.Props.C16Server NngModel.Props.C16ServerSrc NngModel.Props.C16Client && lake env lean <#print axioms for each theorem>",
        "trusted_base": ["Lean 4.33.0 kernel", "axioms: " + ", ".join(sorted({a for x in st.axioms.values() if x for a in x})),
                         "vlib/extract.py + vlib/extract_c16s.py (status codes, handler defaults, reason table, error page template, order of "
                         "the checks and text of the handler loop in http_sconn_rxdone, repair flags)",
                         "harness/u_httpsrv.c (includes the real http_msg.c, http_conn.c, http_server.c; replaces only the byte stream under "
                         "the connection); vlib/unit.py (correspondence)", "C locale for strncasecmp/tolower; LP64 for strtoull",
                         "gcc ASan/UBSan as the out-of-bounds detector on the implementation"],
        "theorems": st.discharged, "axioms": st.axioms, "broken": st.broken,
        "evaluations": c["cases"], "distinct_nontrivial": c["distinct"], "rule": RULE, "ops": c["ops"],
        "op_histogram": c["op_hist"], "rv_histogram": c["rv_hist"], "status_histogram": c["status_hist"], "samples": c["samples"],
        "stream_bytes": c["bytes"], "responses": c["responses"], "handler_runs": c["handler_runs"], "closes": c["closes"],
        "client_transactions": c.get("transactions", 0), "client_result_histogram": c.get("txn_hist", {}),
        "spec_mismatches": c["spec"], "segmentation_mismatches": c["seg"], "model_mismatches": c["model"], "crashes": c["crash"],
        "extract_changed": st.extract_changed,
    }
    core.write_evidence(me, tier, seed, "proof", cov,
                        ["Model/HttpServer.lean mirrors http_server.c (handler table, host/path/method matching, the checks of http_sconn_rxdone "
                         "in source order, error pages, built-in static/redirect handlers, cbdone, txdone); tie = three-way differential execution",
                         "IP-literal handler hosts, file/directory handlers, hijacking, handlers that send the response themselves and ENOMEM are "
                         "not modelled; handler hosts in the generated cases are names",
                         "the specification fixes the set of header lines of an answer, not their order"],
                        time.time() - t0, len(v.violations))
    return v.finish()
