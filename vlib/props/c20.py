"""C20 — a failed allocation yields a clean error, never a crash, hang or leak.

Proof part: the component models take an allocation oracle and the theorems (C17 `enomem_changes_nothing`,
C18 lmq/idmap ENOMEM no-op, ...) hold for every oracle; Props/C20.lean collects them.
Support (fault enumeration, NOT the proof): every allocation made while running protocol histories under the
simulated platform is failed once (k-th allocation for sampled/all k); each run is judged generically:
no sanitizer report, no deadlock, ownership discipline (own-judge), allocator balance after close + nng_fini."""
import os, time, json
from .. import core, build, lean, sim, protos

PROP = "C20"
MODULES = ["NngModel.Props.C20"]


def count_allocs(exe, programs):
    """run each program once with `allocstat` before `fini`; returns the allocation count per program"""
    cases = [["sched 1"] + ops + ["allocstat", "fini"] for ops in programs]
    env = build.env()
    counts = []
    parts = core.chunked(list(range(len(cases))), core.NCPU)

    def work(idx):
        text = core.cases_to_text([cases[i] for i in idx])
        r = core.run_stream([exe], text, env=env, timeout=600)
        ic = core.split_cases(r.lines)[0]
        out = []
        for j, i in enumerate(idx):
            n = 0
            if j < len(ic):
                for l in ic[j]:
                    if l.startswith("allocs total="):
                        n = int(l.split()[1].split("=")[1])
            out.append((i, n))
        return out

    res = {}
    for part in core.parallel_map(work, parts):
        for i, n in part:
            res[i] = n
    return [res.get(i, 0) for i in range(len(cases))]


def url_part(tier, seed, v):
    """UNIT support: URL parse/sprintf/clone with the k-th allocation failing (k = 1..6) for URLs from the
    C19 generator: every call returns 0 or NNG_ENOMEM, nothing is leaked, no free with a wrong size."""
    import re
    try:
        from . import c19
        exe = build.harness("u_urlfail", ["u_urlfail.c", "valloc.c"])
    except Exception as e:  # generator or harness missing: nothing to add
        return {"skipped": str(e)[:200]}
    n = 150 if tier == "quick" else 3000
    urls = []
    r = core.Rng(seed, PROP, tier, "urls")
    base = ["http://example.com/a/b?q#f", "tcp://127.0.0.1:5555", "ipc:///tmp/x", "inproc://name", "ws://[::1]:80/p", "tls+tcp://h:1/"]
    for i in range(n):
        u = r.choice(base)
        if r.chance(1, 3):
            u += "/" + "a" * r.range(100, 400)      # beyond the 128-byte inline buffer
        if r.chance(1, 4):
            u += "%41%7e/../x//y"
        urls.append(u)
    lines = []
    for u in urls:
        for k in range(0, 7):   # k = 0: no failure (the baseline result for this URL)
            lines.append(f"urlfail {k} {u.encode().hex()}")
    res = core.run_stream([exe], "\n".join(lines) + "\n", env=build.env(), timeout=600)
    bad = []
    base = None
    for l, o in zip(lines, res.lines):
        m = re.match(r"p=(\d+)(?: c=(\d+))? live=(\d+) badfree=(\d+) allocs=(\d+) \$", o)
        if m and l.split()[1] == "0":
            base = (int(m.group(1)), int(m.group(2)) if m.group(2) else None)
        # with a failure injected every call returns what it returns without one, or NNG_ENOMEM
        if not m or int(m.group(1)) not in (base[0] if base else 0, 2) or \
                (m.group(2) and int(m.group(2)) not in (base[1] if base and base[1] is not None else 0, 2)) or \
                int(m.group(3)) != 0 or int(m.group(4)) != 0:
            bad.append((l, o))
    if res.rc != 0 or len(res.lines) != len(lines):
        k = len(res.lines)
        v.violation("url-crash", {"kind": "crash / sanitizer report in URL handling after an injected allocation failure",
                                  "ops": [lines[k] if k < len(lines) else lines[-1]], "rc": res.rc, "stderr": res.err[-2500:]})
    for l, o in bad[:3]:
        v.violation(f"url-{abs(hash(l)) % 10000}", {"kind": "URL handling after an injected allocation failure: result is not 0/NNG_ENOMEM, or memory leaked / freed with a wrong size",
                                                     "ops": [l], "impl": o})
    return {"cases": len(lines), "bad": len(bad), "enomem": sum(1 for o in res.lines if "p=2" in o or "c=2" in o)}


def run(tier, seed, replay=None):
    t0 = time.time()
    v = core.Verdict(PROP, seed)
    core.clear_replays(PROP)
    st = lean.prepare(MODULES)
    core.log(PROP, f"lean: {len(st.discharged)}/{len(st.theorems)} theorems re-checked; {st.build_s:.1f}s")
    try:
        exe = sim.build_sim("s_proto", ["s_proto.c"])
    except build.BuildError as e:
        v.violation("build", {"kind": "build", "error": str(e), "log": e.log[-4000:]}, no_input=True)
        core.write_evidence(PROP, tier, seed, "proof", {"obligations": max(1, len(st.theorems)), "discharged": 0, "checker_cmd": "lake build",
                            "trusted_base": [], "explanation": "implementation or harness does not build"}, [], time.time() - t0, 1)
        return v.finish()
    nprog = 32 if tier == "quick" else 400
    per = 16 if tier == "quick" else 10 ** 9
    if replay:
        rp = json.load(open(replay))
        cases = [rp["ops"][1:] if rp["ops"][0].startswith("sched") else rp["ops"]]
        programs, counts = [], []
    else:
        programs = [ops[:40] for _, ops in protos.histories(seed, tier, nprog, PROP)]
        # the socket must be open before failures are injected: `open` stays first, failalloc follows it
        counts = count_allocs(exe, programs)
        cases = []
        for pi, (ops, n) in enumerate(zip(programs, counts)):
            ks = list(range(1, n + 1))
            if len(ks) > per:
                r = core.Rng(seed, PROP, tier, "k", pi)
                ks = sorted(set([1, 2, 3, n] + [r.range(1, n) for _ in range(per)]))
            for k in ks:
                cases.append([ops[0], f"failalloc {k}"] + ops[1:] + ["failalloc 0", "fini"])
    res = sim.run_sim(PROP, cases, exe, None, "own-judge" if st.driver_ok else None, (1,))
    core.log(PROP, f"programs {len(programs)} allocation points {sum(counts)} runs {res.runs} ops {res.ops}; judge violations {len(res.judge_viol)}, crashes {len(res.crashes)}")
    seen = set()
    for c in res.crashes[:4]:
        ops = sim.minimise(exe, None, c["ops"], False)
        v.violation(f"crash-{c['case']}", {"kind": "crash / sanitizer report / deadlock after an injected allocation failure",
                    "ops": ops, "rc": c["rc"], "last_output": c["last"], "stderr": c["stderr"]})
    for jv in res.judge_viol:
        key = jv["clause"][:60]
        if key in seen or len(v.violations) >= 6:
            continue
        seen.add(key)
        ops = sim.minimise(exe, "own-judge", jv["ops"], True)
        impl, il, verdicts = sim.run_one(exe, "own-judge", ops, True)
        v.violation(f"judge-{jv['case']}", {"kind": "after an injected allocation failure the trace violates the ownership / balance predicate",
                    "clause": jv["clause"], "ops": ops, "impl": il, "judge": verdicts})
    urlcov = url_part(tier, seed, v) if not replay else {}
    core.log(PROP, f"URL allocation-failure cases: {urlcov}")
    if not v.violations and not st.ok:
        v.violation("proof", {"kind": "proof obligation no longer checks", "broken": st.broken, "log": st.log[-3000:]}, no_input=True)
    cov = {"obligations": len(st.theorems), "discharged": len(st.discharged),
           "checker_cmd": "lake build NngModel.Props.C20 && lake env lean <#print axioms for each theorem>",
           "trusted_base": ["Lean 4.33.0 kernel", "axioms: " + ", ".join(sorted({a for x in st.axioms.values() if x for a in x})),
                            "harness/valloc.c (failure injection + accounting), simplat.c, mocktran.c, s_proto.c", "gcc ASan/UBSan/LSan"],
           "theorems": st.discharged, "axioms": st.axioms, "broken": st.broken,
           "evaluations": res.runs, "distinct_nontrivial": len({tuple(c) for c in cases}),
           "rule": "fault enumeration in support of the proof: for each of the protocol histories (vlib/protos.py providers, first 40 events) the number N of "
                   "allocations is measured, then the k-th allocation is failed for " + ("a sample of k (1,2,3,N and 16 random)" if tier == "quick" else "every k in 1..N") +
                   "; each run ends with close + nng_fini and the allocator balance; distinct = distinct (program,k) pairs",
           "programs": len(programs), "allocation_points_total": sum(counts), "ops": res.ops, "event_histogram": res.ev_hist,
           "samples": [cases[0], cases[-1]] if cases else [], "judge_violations": len(res.judge_viol), "crashes": len(res.crashes), "url_unit_part": urlcov}
    core.write_evidence(PROP, tier, seed, "proof", cov,
                        ["single allocation failure per run", "allocation order is deterministic under the simulated platform with a fixed schedule seed",
                         "only allocations through nni_alloc/nni_zalloc are injectable (not libc internals)"], time.time() - t0, len(v.violations))
    return v.finish()
