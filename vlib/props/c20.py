"""C20 — a failed allocation yields a clean error, never a crash, hang or leak.

Proof part: the component models take an allocation oracle and the theorems (C17 `enomem_changes_nothing`,
C18 lmq/idmap ENOMEM no-op, ...) hold for every oracle; Props/C20.lean collects them.
Support (fault enumeration, NOT the proof): every allocation made while running protocol histories under the
simulated platform is failed once (k-th allocation for sampled/all k); each run is judged generically:
no sanitizer report, no deadlock, ownership discipline (own-judge), allocator balance after close + nng_fini.
The histories get statistics snapshots inserted (`stats` op of s_proto.c: nng_stats_get + walk + nng_stats_free).
UNIT parts (same idea, component level, the real source text included by the harness): URL (u_urlfail.c),
WebSocket frame layer (u_wsfail.c = u_ws.c + valloc), HTTP connection / message layer (u_httpfail.c = u_http.c +
valloc).  REAL part: harness/r_allocfail.c (open + listen + dial + one REQ/REP exchange + close over inproc, ipc,
tcp, udp with real threads; search only, the allocation order is not deterministic)."""
import os, time, json, re, hashlib, subprocess
from .. import core, build, lean, sim, protos

PROP = "C20"
MODULES = ["NngModel.Props.C20"]


def count_allocs(exe, programs):
    """run each program once with `allocstat` before `fini`; returns the allocation count per program"""
    cases = [["sched 1"] + ops + ["allocstat", "fini"] for ops in programs]
    env = build.env()
    counts = []
    parts = core.chunked(list(range(len(cases))), core.NCPU)

    def work(idx):
        text = core.cases_to_text([cases[i] for i in idx])
        r = core.run_stream([exe], text, env=env, timeout=600)
        ic = core.split_cases(r.lines)[0]
        out = []
        for j, i in enumerate(idx):
            n = 0
            if j < len(ic):
                for l in ic[j]:
                    if l.startswith("allocs total="):
                        n = int(l.split()[1].split("=")[1])
            out.append((i, n))
        return out

    res = {}
    for part in core.parallel_map(work, parts):
        for i, n in part:
            res[i] = n
    return [res.get(i, 0) for i in range(len(cases))]


def url_part(tier, seed, v):
    """UNIT support: URL parse/sprintf/clone with the k-th allocation failing (k = 1..6) for URLs from the
    C19 generator: every call returns 0 or NNG_ENOMEM, nothing is leaked, no free with a wrong size."""
    import re
    try:
        from . import c19
        exe = build.harness("u_urlfail", ["u_urlfail.c", "valloc.c"])
    except Exception as e:  # generator or harness missing: nothing to add
        return {"skipped": str(e)[:200]}
    n = 150 if tier == "quick" else 3000
    urls = []
    r = core.Rng(seed, PROP, tier, "urls")
    base = ["http://example.com/a/b?q#f", "tcp://127.0.0.1:5555", "ipc:///tmp/x", "inproc://name", "ws://[::1]:80/p", "tls+tcp://h:1/"]
    for i in range(n):
        u = r.choice(base)
        if r.chance(1, 3):
            u += "/" + "a" * r.range(100, 400)      # beyond the 128-byte inline buffer
        if r.chance(1, 4):
            u += "%41%7e/../x//y"
        urls.append(u)
    lines = []
    for u in urls:
        for k in range(0, 7):   # k = 0: no failure (the baseline result for this URL)
            lines.append(f"urlfail {k} {u.encode().hex()}")
    res = core.run_stream([exe], "\n".join(lines) + "\n", env=build.env(), timeout=600)
    bad = []
    base = None
    for l, o in zip(lines, res.lines):
        m = re.match(r"p=(\d+)(?: c=(\d+))? live=(\d+) badfree=(\d+) allocs=(\d+) \$", o)
        if m and l.split()[1] == "0":
            base = (int(m.group(1)), int(m.group(2)) if m.group(2) else None)
        # with a failure injected every call returns what it returns without one, or NNG_ENOMEM
        if not m or int(m.group(1)) not in (base[0] if base else 0, 2) or \
                (m.group(2) and int(m.group(2)) not in (base[1] if base and base[1] is not None else 0, 2)) or \
                int(m.group(3)) != 0 or int(m.group(4)) != 0:
            bad.append((l, o))
    if res.rc != 0 or len(res.lines) != len(lines):
        k = len(res.lines)
        v.violation("url-crash", {"kind": "crash / sanitizer report in URL handling after an injected allocation failure",
                                  "ops": [lines[k] if k < len(lines) else lines[-1]], "rc": res.rc, "stderr": res.err[-2500:]})
    for l, o in bad[:3]:
        v.violation(f"url-{abs(hash(l)) % 10000}", {"kind": "URL handling after an injected allocation failure: result is not 0/NNG_ENOMEM, or memory leaked / freed with a wrong size",
                                                     "ops": [l], "impl": o})
    return {"cases": len(lines), "bad": len(bad), "enomem": sum(1 for o in res.lines if "p=2" in o or "c=2" in o)}


# ------------------------------------------------------------------------------------------------------------
# UNIT sweeps shared machinery (WebSocket, HTTP): a scenario is a list of op lines; it is run once with
# `failat 0` (the baseline: allocation count N and the outputs) and then once per k with `failat k`.
def _dep_hash(*files):
    h = hashlib.sha256()
    for f in files:
        h.update(open(os.path.join(build.HARNESS, f), "rb").read())
    return h.hexdigest()[:12]


def run_unit_cases(exe, cases, timeout=300):
    """cases: op-line lists.  Returns (results, exits): results[i] = output lines, or a dict describing the
    crash/hang of that case (the remaining cases of the chunk are run in a fresh process); exits = problems
    seen at process exit (sanitizer leak report, allocator balance after nng_fini)."""
    env = build.env()
    parts = core.chunked(list(range(len(cases))), core.NCPU * 2)

    def work(idx):
        out, exits, todo = {}, [], list(idx)
        while todo:
            r = core.run_stream([exe], core.cases_to_text([cases[i] for i in todo]), env=env, timeout=timeout)
            done, partial = core.split_cases(r.lines)
            for i, l in zip(todo, done):
                out[i] = l
            if len(done) >= len(todo):
                fin = [l for l in partial if l.startswith("fini ")]
                if r.rc != 0 or not fin or fin[-1] != "fini live=0 badfree=0":
                    exits.append({"cases": [cases[i] for i in todo[:3]], "rc": r.rc, "fini": fin[-1:] or None, "stderr": r.err[-2500:]})
                break
            bad = todo[len(done)]
            sig = [l for l in partial if l.startswith("panic:") or l == "HANG"] + re.findall(r"SUMMARY: \w+: (\S+) \S+ in (\S+)", r.err) + \
                re.findall(r"runtime error: ([a-z ]{0,40})", r.err)
            out[bad] = {"crash": True, "rc": r.rc, "signature": str(sig[0]) if sig else "", "stderr": r.err[-2500:],
                        "partial": [l for l in partial if not re.search(r"\[0x[0-9a-f]+\]$", l)][-6:]}
            todo = todo[len(done) + 1:]
        return out, exits

    results, exits = {}, []
    for o, e in core.parallel_map(work, parts):
        results.update(o)
        exits += e
    return [results.get(i) for i in range(len(cases))], exits


def corpus_scenarios(sub):
    """directed scenarios: corpus/C20/<sub>-*.txt (op lines without failat/end; `#` comments); swept over every k"""
    d = os.path.join(core.HERE, "corpus", PROP)
    out = []
    for f in sorted(os.listdir(d)) if os.path.isdir(d) else []:
        if f.startswith(sub + "-") and f.endswith(".txt"):
            ops = [l.strip() for l in open(os.path.join(d, f)) if l.strip() and not l.startswith("#")]
            out.append(([l for l in ops if not l.startswith("failat ") and l != "end"], False))
    return out


END_RE = re.compile(r"end live=(-?\d+) badfree=(\d+) allocs=(\d+) fired=(\d+)$")


def unit_sweep(sub, exe, scenarios, judge, tier, seed, v, per, what):
    """scenarios: list of (ops, lenient).  judge(base_lines, lines, lenient) -> None | reason."""
    base, exits = run_unit_cases(exe, [["failat 0"] + ops + ["end"] for ops, _ in scenarios])
    jobs = []
    points = 0
    for si, ((ops, lenient), b) in enumerate(zip(scenarios, base)):
        m = END_RE.match(b[-1]) if isinstance(b, list) and b else None
        if not m or m.group(1) != "0" or m.group(2) != "0":
            v.violation(f"{sub}-base-{si}", {"kind": f"{what}: the scenario misbehaves without any injected failure", "sub": sub,
                                            "ops": ["failat 0"] + ops + ["end"], "impl": b})
            continue
        n = int(m.group(3))
        points += n
        ks = list(range(1, n + 1))
        if len(ks) > per:
            r = core.Rng(seed, PROP, tier, sub, "k", si)
            ks = sorted(set([1, 2, n] + [r.range(1, n) for _ in range(per)]))
        jobs += [(si, k) for k in ks]
    res, ex2 = run_unit_cases(exe, [[f"failat {k}"] + scenarios[si][0] + ["end"] for si, k in jobs])
    exits += ex2
    cnt = {"scenarios": len(scenarios), "allocation_points": points, "runs": len(jobs) + len(scenarios), "crashes": 0, "bad": 0,
           "fired": 0, "absorbed": 0, "outcomes": {}}
    reported = set()
    for (si, k), r in zip(jobs, res):
        ops, lenient = scenarios[si]
        case = [f"failat {k}"] + ops + ["end"]
        if not isinstance(r, list):
            cnt["crashes"] += 1
            key = ("crash", (r or {}).get("rc"), (r or {}).get("signature"))
            if key not in reported and len(reported) < 4:
                reported.add(key)
                mini = unit_minimise(exe, case)
                v.violation(f"{sub}-crash-{si}-{k}", {"kind": f"{what}: crash / sanitizer report / panic / hang after an injected allocation failure",
                                                      "sub": sub, "ops": mini, "rc": (r or {}).get("rc"), "signature": (r or {}).get("signature"), "last_output": (r or {}).get("partial"),
                                                      "stderr": (r or {}).get("stderr")})
            continue
        m = END_RE.match(r[-1]) if r else None
        if m and m.group(4) != "0":
            cnt["fired"] += 1
            if r[:-1] == base[si][:-1]:
                cnt["absorbed"] += 1   # the failure had no visible effect (e.g. a PONG that is not sent)
        why = judge(base[si], r, lenient)
        oc = "ok" if why is None else why.split(":")[0]
        cnt["outcomes"][oc] = cnt["outcomes"].get(oc, 0) + 1
        if why is not None:
            cnt["bad"] += 1
            key = ("bad", oc)
            if key not in reported and len(reported) < 4:
                reported.add(key)
                v.violation(f"{sub}-{si}-{k}", {"kind": f"{what}: after an injected allocation failure: " + why, "sub": sub, "ops": case,
                                                "impl": r, "baseline": base[si]})
    for e in exits[:2]:
        cnt["bad"] += 1
        v.violation(f"{sub}-exit-{abs(hash(json.dumps(e['cases']))) % 10000}",
                    {"kind": f"{what}: problem at process exit (leak report / allocator balance after nng_fini / exit status)", "sub": sub,
                     "ops": [l for c in e["cases"] for l in c + ["reset"]], "rc": e["rc"], "fini": e["fini"], "stderr": e["stderr"]})
    return cnt


def unit_minimise(exe, case, budget_s=30):
    """drop ops between `failat k` and `end` while the process still dies (k is kept: fewer ops before the
    failing allocation change which allocation fails, so only ops that keep the crash are removed)"""
    def fails(ops):
        r = core.run_stream([exe], "\n".join(ops) + "\n", env=build.env(), timeout=60)
        return r.rc != 0
    try:
        if not fails(case):
            return case
        return core.ddmin(case[:-1], lambda o: fails(o + ["end"]), budget_s, keep_prefix=2) + ["end"]
    except Exception:
        return case


# ---------------------------------------------------------------------------------------------- WebSocket part
def ws_frame(op, fin, payload, key=None):
    b = bytearray([(0x80 if fin else 0) | op])
    n = len(payload)
    mk = 0x80 if key is not None else 0
    if n < 126:
        b.append(mk | n)
    elif n < 65536:
        b += bytes([mk | 126, n >> 8, n & 255])
    else:
        b += bytes([mk | 127]) + n.to_bytes(8, "big")
    if key is not None:
        b += key
        payload = bytes(c ^ key[i & 3] for i, c in enumerate(payload))
    return bytes(b) + payload


def ws_scenarios(seed, tier, n):
    out = []
    for i in range(n):
        r = core.Rng(seed, PROP, tier, "ws", i)
        server = r.below(2)
        stream = 1 if r.chance(1, 4) else 0
        frag = r.choice([0, 64, 128, 1 << 20])
        recvmax = r.choice([0, 1 << 20])
        key = (lambda: r.bytes(4)) if server else (lambda: None)
        ops = [f"cfg {server} {stream} 0 0 1048576 {recvmax} {frag}"]
        for _ in range(r.range(3, 7)):
            w = r.below(10)
            if w < 5:      # a message from the peer: 1..3 fragments, control frames in between, fed in 1..2 pieces
                size = r.choice([0, 5, 125, 126, 300, 2000, 70000 if tier != "quick" or r.chance(1, 6) else 200])
                data = r.bytes(size) if size else b""
                nfr = r.range(1, 3)
                cuts = sorted(r.range(0, size) for _ in range(nfr - 1))
                pieces = [data[a:b] for a, b in zip([0] + cuts, cuts + [size])]
                wire = b""
                for fi, pc in enumerate(pieces):
                    wire += ws_frame(2 if fi == 0 else 0, fi == len(pieces) - 1, pc, key())
                    if fi < len(pieces) - 1 and r.chance(1, 2):
                        wire += ws_frame(r.choice([9, 10]), True, r.bytes(r.choice([0, 4, 125])), key())
                if r.chance(1, 3) and len(wire) > 3:
                    c = r.range(1, len(wire) - 1)
                    ops += ["rx " + wire[:c].hex(), "rx " + wire[c:].hex()]
                else:
                    ops.append("rx " + wire.hex())
            elif w < 8:    # a message to the peer (fragmented by fragsize)
                hl = r.choice([0, 4, 8])
                ops.append(f"send {core.hexs(r.bytes(hl))} {core.hexs(r.bytes(r.choice([0, 10, 126, 500, 3000])))} {r.range(1, 99999)}")
            elif w < 9:    # PING from the peer
                ops.append("rx " + ws_frame(9, True, r.bytes(r.choice([0, 10, 125])), key()).hex())
            else:          # close handshake (from the peer or local)
                ops.append(r.choice(["close", "rx " + ws_frame(8, True, b"\x03\xe8", key()).hex()]))
        out.append((ops, False))
    return out


def _ws_parse(lines):
    """-> (deliveries, data frames per op index, signals, problems)"""
    deliv, frames, signal, prob = [], {}, False, []
    for i, l in enumerate(lines):
        if l.startswith("send-kept-msg"):
            prob.append("send-kept-msg: a successful send left the message with the caller (double ownership)")
        if l in ("cfg rv=2", "harness-enomem") or " closed=1" in l:
            signal = True
        m = re.search(r"send rv=(\d+)", l)
        if m:
            if m.group(1) not in ("0", "2", "7"):
                prob.append(f"send-rv: send completed with {m.group(1)} (expected 0, NNG_ENOMEM or NNG_ECLOSED)")
            if m.group(1) != "0":
                signal = True
        ev = l.split(" ev=", 1)[1] if " ev=" in l else "-"
        for e in ([] if ev == "-" else ev.split(",")):
            if e[:2] in ("m:", "d:"):
                deliv.append(e)
            elif e.startswith("e:"):
                signal = True
                if e[2:] not in ("2", "7"):
                    prob.append(f"recv-rv: receive completed with {e[2:]} (expected NNG_ENOMEM or NNG_ECLOSED)")
            elif e.startswith("t:") and len(e) >= 4 and int(e[3], 16) < 8:     # a data frame (opcode 0..2)
                if m and m.group(1) == "0":
                    frames.setdefault(i, []).append(e)
    return deliv, frames, signal, prob


def ws_judge(base, lines, lenient=False):
    m = END_RE.match(lines[-1]) if lines else None
    if not m:
        return "incomplete: no end line"
    if m.group(1) != "0" or m.group(2) != "0":
        return f"leak: allocator balance after teardown: live={m.group(1)} badfree={m.group(2)}"
    bd, bf, _, _ = _ws_parse(base)
    d, f, signal, prob = _ws_parse(lines)
    if prob:
        return prob[0]
    if d != bd[:len(d)]:
        return "corrupt-delivery: the messages delivered are not a prefix of the messages delivered without the failure"
    for i, fr in f.items():
        if fr != bf.get(i, fr):
            return "corrupt-send: a send reported success but the frames written differ from the run without the failure"
    if len(d) < len(bd) and not signal:
        return "silent-loss: fewer messages delivered, but no operation failed and the connection was not closed"
    return None


def ws_part(tier, seed, v):
    """UNIT support: the real websocket.c (ws_init, ws_str_recv/ws_read_cb/ws_read_frame_cb/ws_read_finish_*, ws_str_send/
    ws_frame_prep_tx/ws_write_cb, ws_send_control, ws_close/ws_send_close, ws_fini) with the k-th allocation failing."""
    try:
        exe = build.harness("u_wsfail", ["u_wsfail.c", "valloc.c"], extra=["-DDEP_HASH=" + _dep_hash("u_ws.c")])
    except build.BuildError as e:
        v.violation("ws-build", {"kind": "build", "error": str(e), "log": e.log[-3000:]}, no_input=True)
        return {"skipped": "build"}
    n, per = (48, 10 ** 9) if tier == "quick" else (1500, 10 ** 9)
    return unit_sweep("ws", exe, corpus_scenarios("ws") + ws_scenarios(seed, tier, n), ws_judge, tier, seed, v, per, "WebSocket frame layer")


# --------------------------------------------------------------------------------------------------- HTTP part
def http_scenarios(seed, tier, n):
    hx = lambda t: (t if isinstance(t, bytes) else t.encode()).hex() or "-"
    out = []
    for i in range(n):
        r = core.Rng(seed, PROP, tier, "http", i)
        uri = lambda: "/" + "".join(r.choice("abcdefgh/") for _ in range(r.choice([3, 20, 199, 200, 201, 450])))
        name = lambda: r.choice(["X-A", "X-B", "Accept", "x-a", "Cookie", "Sec-WebSocket-Key", "Content-Type", "Content-Length", "Host"])
        val = lambda: "".join(r.choice("abc123 ,;") for _ in range(r.choice([1, 8, 40, 300]))).strip() or "v"
        lenient = False
        ops = []
        if r.below(2) == 0:     # server connection: read a request (or two), answer it
            ops.append("conn 0")
            for _ in range(r.range(1, 2)):
                hdrs = [("Host", "h.example")] + [(name(), val()) for _ in range(r.range(0, 5))]
                body = r.bytes(r.choice([0, 3, 50]))
                req = f"{r.choice(['GET', 'POST', 'PUT'])} {uri()} HTTP/1.1\r\n" + "".join(f"{a}: {b}\r\n" for a, b in hdrs) + "\r\n"
                wire = req.encode() + body
                ops.append("req")
                if r.chance(1, 3):
                    c = r.range(1, len(wire) - 1)
                    ops += ["rx " + wire[:c].hex(), "rx " + wire[c:].hex()]
                else:
                    ops.append("rx " + wire.hex())
                if body:
                    ops.append(f"full {len(body)}")
                w = r.below(6)
                if w == 0:
                    ops.append(f"redir 301 - {hx('http://h.example' + uri())}")
                    lenient = True      # documented best effort: the explanatory body may be missing
                elif w == 1:
                    ops.append(f"seterr {r.choice([404, 500])} - {r.choice(['-', hx('<html>custom body</html>')])}")
                    lenient = True
                else:
                    if r.chance(1, 4):
                        ops.append(f"sets {r.choice([200, 404])} {hx('Custom reason')}")
                        lenient = True  # documented: a reason that cannot be copied is replaced by the standard one
                    else:
                        ops.append(f"sets 200 {hx('OK')}")
                    for _ in range(r.range(0, 4)):
                        ops.append(f"{r.choice(['seth', 'addh'])} {hx(name())} {hx(val())}")
                    if r.chance(2, 3):
                        ops.append("body " + hx(r.bytes(r.choice([1, 10, 9000]))))
                if r.chance(1, 5):
                    for j in range(30):  # a head beyond the 8 KB connection buffer: http_prepare has to allocate
                        ops.append(f"addh {hx('X-Pad-%d' % j)} {hx('p' * 300)}")
                ops.append("emit")
        else:                   # client connection: build and write a request, read the response
            ops.append("conn 1")
            for _ in range(r.range(1, 2)):
                ops.append("setm " + hx(r.choice(["GET", "POST"])))
                for _ in range(r.range(1, 3)):
                    ops.append("seturi " + hx(uri()))
                for _ in range(r.range(0, 4)):
                    ops.append(f"{r.choice(['seth', 'addh'])} {hx(name())} {hx(val())}")
                if r.chance(1, 2):
                    ops.append("body " + hx(r.bytes(r.choice([1, 10, 9000]))))
                if r.chance(1, 5):
                    for j in range(30):
                        ops.append(f"addh {hx('X-Pad-%d' % j)} {hx('p' * 300)}")
                ops.append("emit")
                reason = r.choice(["OK", "OK", "Weird Reason"])
                lenient = lenient or reason != "OK"
                hdrs = [(name(), val()) for _ in range(r.range(0, 5))]
                body = r.bytes(r.choice([0, 7]))
                wire = (f"HTTP/1.1 200 {reason}\r\n" + "".join(f"{a}: {b}\r\n" for a, b in hdrs if a != "Host") + "\r\n").encode() + body
                ops += ["res", "rx " + wire.hex()]
                if body:
                    ops.append(f"full {len(body)}")
        out.append((ops, lenient))
    return out


HTTP_ERR = re.compile(r"(^conn enomem$)|( rv=2\b)|(^no-conn$)")


def http_judge(base, lines, lenient=False):
    m = END_RE.match(lines[-1]) if lines else None
    if not m:
        return "incomplete: no end line"
    if m.group(1) != "0" or m.group(2) != "0":
        return f"leak: allocator balance after teardown: live={m.group(1)} badfree={m.group(2)}"
    failed = False
    for i, (b, l) in enumerate(zip(base[:-1], lines[:-1])):
        if l == b:
            continue
        if HTTP_ERR.search(l):
            failed = True       # the failure was reported (NNG_ENOMEM); what follows may legitimately differ
            continue
        if failed or lenient:
            continue
        # nothing has reported a failure so far, but the observable result differs: the failure was swallowed
        return (f"silent-deviation: line {i}: no operation has failed, yet the result differs from the run without the failure: "
                f"`{l[:160]}` instead of `{b[:160]}`")
    return None


def http_part(tier, seed, v):
    """UNIT support: the real http_conn.c / http_msg.c (http_init, request / response / header parsing into the connection,
    nni_http_set_uri/set_header/add_header/set_status/copy_body/set_redirect/set_error, http_prepare + write) with the k-th
    allocation failing."""
    try:
        exe = build.harness("u_httpfail", ["u_httpfail.c", "valloc.c"], extra=["-DDEP_HASH=" + _dep_hash("u_http.c")])
    except build.BuildError as e:
        v.violation("http-build", {"kind": "build", "error": str(e), "log": e.log[-3000:]}, no_input=True)
        return {"skipped": "build"}
    n, per = (64, 10 ** 9) if tier == "quick" else (2000, 10 ** 9)
    return unit_sweep("http", exe, corpus_scenarios("http") + http_scenarios(seed, tier, n), http_judge, tier, seed, v, per, "HTTP connection / message layer")


# --------------------------------------------------------------------------------------------------- REAL part
REAL_OK = {"init": {0, 2}, "rep_open": {0, 2}, "req_open": {0, 2}, "rep_recvtimeo": {0}, "rep_sendtimeo": {0}, "req_recvtimeo": {0},
           "req_sendtimeo": {0}, "listen": {0, 2}, "bound_port": {0},
           # a connection attempt that hit the failure on either side: refused / reset / shut / protocol error / closed
           "dial": {0, 2, 6, 7, 13, 18, 19, 31},
           # after a failure inside the exchange a message may be lost (documented best effort): time-outs, wrong state
           "req_send": {0, 2, 5, 7}, "rep_recv": {0, 2, 5, 7}, "rep_send": {0, 2, 5, 7, 11}, "req_recv": {0, 2, 5, 7, 11, 19, 31},
           "stats": {0, 2}, "req_close": {0}, "rep_close": {0},
           # "-crowd": five more sockets opened first (id maps grow during the swept calls), queried and closed at the end
           "extra_open": {0, 2}, "extra_get": {0}, "extra_close": {0},
           # with the failure over, later calls on the same listener and REP socket must work
           "after_open": {0}, "after_dial": {0}, "after_req_send": {0}, "after_rep_recv": {0}, "after_rep_send": {0},
           "after_req_recv": {0}, "after_close": {0}}


def real_judge(rc, lines, err, nb=False):
    if nb and rc == 0 and lines:
        # background dial: the dialer redials by itself and REQ resends every 200 ms, so the exchange must get through within
        # its 3 s time-outs unless one of the calls itself reported NNG_ENOMEM
        vals = {l.split()[0]: l.split()[1] for l in lines[:-1] if len(l.split()) == 2}
        if "2" not in vals.values():
            # (the REPLY may be lost with its connection - one message, documented best effort - and this single-threaded
            # program answers only once, so only the request's way is demanded)
            for stp in ("req_send", "rep_recv"):
                if vals.get(stp, "0") != "0":
                    return f"wrong-error: {stp} returned {vals[stp]} although no call reported NNG_ENOMEM: the background dialer did not recover"
    if rc != 0:
        return f"crash: exit status {rc} (sanitizer report / panic / watchdog)"
    if not lines or not lines[-1].startswith("fini live=0 badfree=0 "):
        return "leak: allocator balance after nng_fini: " + (lines[-1] if lines else "no output")
    for l in lines[:-1]:
        w = l.split()
        if len(w) != 2 or w[0] not in REAL_OK or not w[1].lstrip("-").isdigit():
            return "output: " + l
        if int(w[1]) not in REAL_OK[w[0]]:
            return f"wrong-error: {w[0]} returned {w[1]}"
    return None


def real_part(tier, seed, v, only=None):
    """REAL support (search): harness/r_allocfail.c — nng_init, open REP+REQ, listen, dial, one exchange, statistics snapshot, close,
    nng_fini over real transports with the k-th allocation failing (armed before nng_init: library start-up is part of it)."""
    try:
        exe = build.harness("r_allocfail", ["r_allocfail.c", "valloc.c"])
    except build.BuildError as e:
        v.violation("real-build", {"kind": "build", "error": str(e), "log": e.log[-3000:]}, no_input=True)
        return {"skipped": "build"}
    env = build.env()

    def one(job):
        t, k = job
        try:
            p = subprocess.run([exe, t, str(k)], env=env, capture_output=True, text=True, timeout=90)
            return job, p.returncode, p.stdout.splitlines(), p.stderr
        except subprocess.TimeoutExpired:
            return job, -999, [], "TIMEOUT"

    if only is not None:
        jobs = [(only["transport"], only["k"])] * 8
        trans, counts = [only["transport"]], {}
    else:
        # udp (SP/UDP, a datagram transport with its own connection handshake CREQ/CACK/DISC): no step needs a result beyond
        # REAL_OK.  A listener that cannot create the pipe for a CREQ answers DISC(NOBUF) and the synchronous dial fails
        # with NNG_ECONNREFUSED (6, already allowed for every transport); a message hit by the failure is dropped and the
        # exchange step times out (5, already allowed); a pipe the REP socket could not start is disconnected (DISC) and the
        # request times out.  The after_* steps use a fresh requester and a fresh dialer, so they must all be 0.
        trans = ["inproc", "ipc", "tcp", "udp", "ipc-nb", "tcp-nb", "udp-nb", "inproc-crowd"] + (["ws"] if os.environ.get("VERIF_C20_REAL_WS") else [])
        counts = {}
        for (t, _), rc, lines, err in core.parallel_map(one, [(t, 0) for t in trans]):
            m = re.search(r"allocs=(\d+)", lines[-1]) if lines else None
            why = real_judge(rc, lines, err)
            if why or not m or any(not l.endswith(" 0") for l in lines[:-1]):
                v.violation(f"real-base-{t}", {"kind": "REAL program misbehaves without any injected failure: " + str(why), "sub": "real",
                                               "transport": t, "k": 0, "ops": [f"r_allocfail {t} 0"], "impl": lines, "stderr": err[-2000:]})
                continue
            counts[t] = int(m.group(1))
        reps = 1 if tier == "quick" else 4
        # background threads allocate too, so the count varies a little from run to run: sweep a margin beyond it
        jobs = [(t, k) for t in counts for k in range(1, counts[t] + 9) for _ in range(reps)]
    res = core.parallel_map(one, jobs)
    cnt = {"transports": trans, "allocation_points": counts, "runs": len(jobs) + len(trans), "bad": 0, "fired": 0, "outcomes": {}}
    seen = set()
    for (t, k), rc, lines, err in res:
        if lines and "fired=1" in lines[-1]:
            cnt["fired"] += 1
        why = real_judge(rc, lines, err, nb=t.endswith('-nb'))
        oc = "ok" if why is None else why.split(":")[0]
        cnt["outcomes"][oc] = cnt["outcomes"].get(oc, 0) + 1
        if why is None:
            continue
        cnt["bad"] += 1
        m = re.search(r"#0 \S+ in (\S+)", err)
        key = (oc, m.group(1) if m else (why if oc != "leak" else t))
        if key in seen or len(seen) >= 8:
            continue
        seen.add(key)
        again = [real_judge(*r[1:]) for r in core.parallel_map(one, [(t, k)] * 6)] if only is None else []
        v.violation(f"real-{t}-{k}", {"kind": "REAL program (real threads and transports) after an injected allocation failure: " + why, "sub": "real",
                                      "transport": t, "k": k, "ops": [f"r_allocfail {t} {k}"], "impl": lines, "stderr": err[-3000:],
                                      "reproduced": f"{sum(1 for a in again if a)}/{len(again)} repetitions of the same (transport, k) also fail "
                                                    "(the allocation order is not deterministic with real threads)"})
    return cnt


def unit_replay(rp, v):
    """--replay of a ws/http/real replay file: run the stored ops, judge them against the same ops with `failat 0`"""
    sub, ops = rp["sub"], rp["ops"]
    if sub == "real":
        return real_part("quick", 1, v, only=rp) 
    exe = build.harness("u_wsfail", ["u_wsfail.c", "valloc.c"], extra=["-DDEP_HASH=" + _dep_hash("u_ws.c")]) if sub == "ws" else \
        build.harness("u_httpfail", ["u_httpfail.c", "valloc.c"], extra=["-DDEP_HASH=" + _dep_hash("u_http.c")])
    case = [l for l in ops if l != "reset"]
    basecase = [re.sub(r"^failat \d+$", "failat 0", l) for l in case]
    (b, r), exits = run_unit_cases(exe, [basecase, case])
    why = "crash / sanitizer report / panic / hang" if not isinstance(r, list) else (ws_judge if sub == "ws" else http_judge)(b, r, False)
    if why or exits:
        v.violation(f"{sub}-replay", {"kind": why or "problem at process exit", "sub": sub, "ops": case, "impl": r, "exits": exits})
    return {"replayed": sub, "verdict": why}


def run(tier, seed, replay=None):
    t0 = time.time()
    v = core.Verdict(PROP, seed)
    core.clear_replays(PROP)
    st = lean.prepare(MODULES)
    core.log(PROP, f"lean: {len(st.discharged)}/{len(st.theorems)} theorems re-checked; {st.build_s:.1f}s")
    try:
        exe = sim.build_sim("s_proto", ["s_proto.c"])
    except build.BuildError as e:
        v.violation("build", {"kind": "build", "error": str(e), "log": e.log[-4000:]}, no_input=True)
        core.write_evidence(PROP, tier, seed, "proof", {"obligations": max(1, len(st.theorems)), "discharged": 0, "checker_cmd": "lake build",
                            "trusted_base": [], "explanation": "implementation or harness does not build"}, [], time.time() - t0, 1)
        return v.finish()
    nprog = 32 if tier == "quick" else 400
    per = 24 if tier == "quick" else 10 ** 9
    rp = json.load(open(replay)) if replay else None
    if rp and rp.get("sub") in ("ws", "http", "real"):
        # replay of a UNIT / REAL finding: no SIM run needed
        sub = unit_replay(rp, v)
        core.log(PROP, f"replay: {sub if not isinstance(sub, dict) else {k: sub[k] for k in list(sub)[:6]}}")
        core.write_evidence(PROP, tier, seed, "proof", {"obligations": len(st.theorems), "discharged": len(st.discharged), "checker_cmd": "lake build",
                            "trusted_base": [], "replay": replay}, [], time.time() - t0, len(v.violations))
        return v.finish()
    if replay:
        cases = [rp["ops"][1:] if rp["ops"][0].startswith("sched") else rp["ops"]]
        programs, counts = [], []
    else:
        programs = []
        for pi, (_, ops) in enumerate(protos.histories(seed, tier, nprog, PROP)):
            ops = ops[:40]
            # statistics snapshots (nng_stats_get + walk + nng_stats_free) at one or two places of every history
            r = core.Rng(seed, PROP, tier, "stats", pi)
            for _ in range(r.range(1, 2)):
                ops.insert(r.range(1, len(ops)), "stats")
            programs.append(ops)
        # directed: object creation in EVERY protocol, cooked and raw (pipes, a context where the protocol has them, a second
        # pipe, one message in each direction): the allocation points of pipe_init / ctx_init and the unwinding of each
        for proto, peer, ctx in (("pair0", "0010", False), ("pair1", "0011", False), ("bus", "0070", False), ("pub", "0021", False),
                                 ("sub", "0020", True), ("push", "0051", False), ("pull", "0050", False), ("req", "0031", True),
                                 ("rep", "0030", True), ("surveyor", "0063", True), ("respondent", "0062", True), ("pair1poly", "0011", False)):
            for raw in (("",) if proto == "pair1poly" else ("", " raw")):
                ops = [f"open {proto}{raw}", f"pipe_add {peer}"] + (["ctx_open 0"] if ctx and not raw else []) + [f"pipe_add {peer}", "poll", "close"]
                programs.append(ops)
        # the socket must be open before failures are injected: `open` stays first, failalloc follows it
        counts = count_allocs(exe, programs)
        cases = []
        for pi, (ops, n) in enumerate(zip(programs, counts)):
            ks = list(range(1, n + 1))
            if len(ks) > per:
                r = core.Rng(seed, PROP, tier, "k", pi)
                ks = sorted(set([1, 2, 3, n] + [r.range(1, n) for _ in range(per)]))
            for k in ks:
                cases.append([ops[0], f"failalloc {k}"] + ops[1:] + ["failalloc 0", "fini"])
    res = sim.run_sim(PROP, cases, exe, None, "own-judge" if st.driver_ok else None, (1,))
    core.log(PROP, f"programs {len(programs)} allocation points {sum(counts)} runs {res.runs} ops {res.ops}; judge violations {len(res.judge_viol)}, crashes {len(res.crashes)}")
    seen = set()
    for c in res.crashes[:4]:
        ops = sim.minimise(exe, None, c["ops"], False)
        v.violation(f"crash-{c['case']}", {"kind": "crash / sanitizer report / deadlock after an injected allocation failure",
                    "ops": ops, "rc": c["rc"], "last_output": c["last"], "stderr": c["stderr"]})
    for jv in res.judge_viol:
        key = jv["clause"][:60]
        if key in seen or len(v.violations) >= 6:
            continue
        seen.add(key)
        ops = sim.minimise(exe, "own-judge", jv["ops"], True)
        impl, il, verdicts = sim.run_one(exe, "own-judge", ops, True)
        v.violation(f"judge-{jv['case']}", {"kind": "after an injected allocation failure the trace violates the ownership / balance predicate",
                    "clause": jv["clause"], "ops": ops, "impl": il, "judge": verdicts})
    urlcov = url_part(tier, seed, v) if not replay else {}
    core.log(PROP, f"URL allocation-failure cases: {urlcov}")
    parts = {}
    if not replay:
        for name, fn in (("ws", ws_part), ("http", http_part), ("real", real_part)):
            t1 = time.time()
            try:
                parts[name] = fn(tier, seed, v)
            except Exception as e:      # a broken part must not pass silently
                v.violation(f"{name}-part", {"kind": f"the {name} part of the check failed to run", "error": repr(e)[:500]}, no_input=True)
                parts[name] = {"error": repr(e)[:200]}
            parts[name]["wall_s"] = round(time.time() - t1, 1)
            core.log(PROP, f"{name} part: " + json.dumps({k: x for k, x in parts[name].items() if k != "allocation_points" or name != "real"})[:400])
    nstats = sum(1 for c in cases for l in c if l == "stats")
    if nstats and not any(k.startswith("stats") for k in res.ev_hist):
        core.log(PROP, "NOTE: harness/s_proto.c has no `stats` op (integration/C20X-s_proto.c.diff not applied): statistics snapshots are NOT covered by this run")
    if not v.violations and not st.ok:
        v.violation("proof", {"kind": "proof obligation no longer checks", "broken": st.broken, "log": st.log[-3000:]}, no_input=True)
    cov = {"obligations": len(st.theorems), "discharged": len(st.discharged),
           "checker_cmd": "lake build NngModel.Props.C20 && lake env lean <#print axioms for each theorem>",
           "trusted_base": ["Lean 4.33.0 kernel", "axioms: " + ", ".join(sorted({a for x in st.axioms.values() if x for a in x})),
                            "harness/valloc.c (failure injection + accounting), simplat.c, mocktran.c, s_proto.c",
                            "u_wsfail.c + u_ws.c (fake HTTP byte transport under the real websocket.c), u_httpfail.c + u_http.c (fake byte stream under "
                            "the real http_conn.c / http_msg.c), u_urlfail.c, r_allocfail.c", "gcc ASan/UBSan/LSan"],
           "theorems": st.discharged, "axioms": st.axioms, "broken": st.broken,
           "evaluations": res.runs + sum((parts.get(n) or {}).get("runs", 0) for n in ("ws", "http", "real")) + urlcov.get("cases", 0), "distinct_nontrivial": len({tuple(c) for c in cases}),
           "rule": "fault enumeration in support of the proof: for each of the protocol histories (vlib/protos.py providers, first 40 events) the number N of "
                   "allocations is measured, then the k-th allocation is failed for " + ("a sample of k (1,2,3,N and 24 random)" if tier == "quick" else "every k in 1..N") +
                   "; each run ends with close + nng_fini and the allocator balance; distinct = distinct (program,k) pairs",
           "programs": len(programs), "allocation_points_total": sum(counts), "ops": res.ops, "event_histogram": res.ev_hist,
           "samples": [cases[0], cases[-1]] if cases else [], "judge_violations": len(res.judge_viol), "crashes": len(res.crashes), "url_unit_part": urlcov,
           "stats_ops_in_sim_runs": nstats, "stats_results": {k: n for k, n in res.ev_hist.items() if k.startswith("stats")},
           "websocket_unit_part": parts.get("ws"), "http_unit_part": parts.get("http"), "real_part": parts.get("real"),
           "parts_rule": "ws/http: every generated scenario (and corpus/C20/<part>-*.txt) is run once without failure (allocation count N, "
                         "reference outputs) and once per k in 1..N with the k-th allocation failing; verdict per run: process survives (sanitizers, "
                         "panic, 20 s watchdog), allocator balance zero after teardown and after nng_fini, results are the reference results or "
                         "NNG_ENOMEM / NNG_ECLOSED, no corrupted or silently lost delivery (ws), no silently different result (http). "
                         "real: r_allocfail <transport> <k> for every k of the measured range (+8), return codes in the allowed sets, "
                         "balance zero after nng_fini"}
    core.write_evidence(PROP, tier, seed, "proof", cov,
                        ["single allocation failure per run", "allocation order is deterministic under the simulated platform with a fixed schedule seed",
                         "only allocations through nni_alloc/nni_zalloc are injectable (not libc internals)",
                         "ws/http UNIT parts: the byte transport under the component is the harness's (its allocations are not the component's)",
                         "REAL part: allocation order depends on thread timing (a search, not an enumeration); the ws transport is swept only with "
                         "VERIF_C20_REAL_WS=1 (open finding, see integration/C20X.md)"], time.time() - t0, len(v.violations))
    return v.finish()
