"""C20 — a failed allocation yields a clean error, never a crash, hang or leak.

Proof part: the component models take an allocation oracle and the theorems (C17 `enomem_changes_nothing`,
C18 lmq/idmap ENOMEM no-op, ...) hold for every oracle; Props/C20.lean collects them.
Support (fault enumeration, NOT the proof): every allocation made while running protocol histories under the
simulated platform is failed once (k-th allocation for sampled/all k); each run is judged generically:
no sanitizer report, no deadlock, ownership discipline (own-judge), allocator balance after close + nng_fini."""
import os, time, json
from .. import core, build, lean, sim, protos

PROP = "C20"
MODULES = ["NngModel.Props.C20"]


def count_allocs(exe, programs):
    """run each program once with `allocstat` before `fini`; returns the allocation count per program"""
    cases = [["sched 1"] + ops + ["allocstat", "fini"] for ops in programs]
    env = build.env()
    counts = []
    parts = core.chunked(list(range(len(cases))), core.NCPU)

    def work(idx):
        text = core.cases_to_text([cases[i] for i in idx])
        r = core.run_stream([exe], text, env=env, timeout=600)
        ic = core.split_cases(r.lines)[0]
        out = []
        for j, i in enumerate(idx):
            n = 0
            if j < len(ic):
                for l in ic[j]:
                    if l.startswith("allocs total="):
                        n = int(l.split()[1].split("=")[1])
            out.append((i, n))
        return out

    res = {}
    for part in core.parallel_map(work, parts):
        for i, n in part:
            res[i] = n
    return [res.get(i, 0) for i in range(len(cases))]


def run(tier, seed, replay=None):
    t0 = time.time()
    v = core.Verdict(PROP, seed)
    core.clear_replays(PROP)
    st = lean.prepare(MODULES)
    core.log(PROP, f"lean: {len(st.discharged)}/{len(st.theorems)} theorems re-checked; {st.build_s:.1f}s")
    try:
        exe = sim.build_sim("s_proto", ["s_proto.c"])
    except build.BuildError as e:
        v.violation("build", {"kind": "build", "error": str(e), "log": e.log[-4000:]}, no_input=True)
        core.write_evidence(PROP, tier, seed, "proof", {"obligations": max(1, len(st.theorems)), "discharged": 0, "checker_cmd": "lake build",
                            "trusted_base": [], "explanation": "implementation or harness does not build"}, [], time.time() - t0, 1)
        return v.finish()
    nprog = 32 if tier == "quick" else 400
    per = 16 if tier == "quick" else 10 ** 9
    if replay:
        rp = json.load(open(replay))
        cases = [rp["ops"][1:] if rp["ops"][0].startswith("sched") else rp["ops"]]
        programs, counts = [], []
    else:
        programs = [ops[:40] for _, ops in protos.histories(seed, tier, nprog, PROP)]
        # the socket must be open before failures are injected: `open` stays first, failalloc follows it
        counts = count_allocs(exe, programs)
        cases = []
        for pi, (ops, n) in enumerate(zip(programs, counts)):
            ks = list(range(1, n + 1))
            if len(ks) > per:
                r = core.Rng(seed, PROP, tier, "k", pi)
                ks = sorted(set([1, 2, 3, n] + [r.range(1, n) for _ in range(per)]))
            for k in ks:
                cases.append([ops[0], f"failalloc {k}"] + ops[1:] + ["failalloc 0", "fini"])
    res = sim.run_sim(PROP, cases, exe, None, "own-judge" if st.driver_ok else None, (1,))
    core.log(PROP, f"programs {len(programs)} allocation points {sum(counts)} runs {res.runs} ops {res.ops}; judge violations {len(res.judge_viol)}, crashes {len(res.crashes)}")
    seen = set()
    for c in res.crashes[:4]:
        ops = sim.minimise(exe, None, c["ops"], False)
        v.violation(f"crash-{c['case']}", {"kind": "crash / sanitizer report / deadlock after an injected allocation failure",
                    "ops": ops, "rc": c["rc"], "last_output": c["last"], "stderr": c["stderr"]})
    for jv in res.judge_viol:
        key = jv["clause"][:60]
        if key in seen or len(v.violations) >= 6:
            continue
        seen.add(key)
        ops = sim.minimise(exe, "own-judge", jv["ops"], True)
        impl, il, verdicts = sim.run_one(exe, "own-judge", ops, True)
        v.violation(f"judge-{jv['case']}", {"kind": "after an injected allocation failure the trace violates the ownership / balance predicate",
                    "clause": jv["clause"], "ops": ops, "impl": il, "judge": verdicts})
    if not v.violations and not st.ok:
        v.violation("proof", {"kind": "proof obligation no longer checks", "broken": st.broken, "log": st.log[-3000:]}, no_input=True)
    cov = {"obligations": len(st.theorems), "discharged": len(st.discharged),
           "checker_cmd": "lake build NngModel.Props.C20 && lake env lean <#print axioms for each theorem>",
           "trusted_base": ["Lean 4.33.0 kernel", "axioms: " + ", ".join(sorted({a for x in st.axioms.values() if x for a in x})),
                            "harness/valloc.c (failure injection + accounting), simplat.c, mocktran.c, s_proto.c", "gcc ASan/UBSan/LSan"],
           "theorems": st.discharged, "axioms": st.axioms, "broken": st.broken,
           "evaluations": res.runs, "distinct_nontrivial": len({tuple(c) for c in cases}),
           "rule": "fault enumeration in support of the proof: for each of the protocol histories (vlib/protos.py providers, first 40 events) the number N of "
                   "allocations is measured, then the k-th allocation is failed for " + ("a sample of k (1,2,3,N and 16 random)" if tier == "quick" else "every k in 1..N") +
                   "; each run ends with close + nng_fini and the allocator balance; distinct = distinct (program,k) pairs",
           "programs": len(programs), "allocation_points_total": sum(counts), "ops": res.ops, "event_histogram": res.ev_hist,
           "samples": [cases[0], cases[-1]] if cases else [], "judge_violations": len(res.judge_viol), "crashes": len(res.crashes)}
    core.write_evidence(PROP, tier, seed, "proof", cov,
                        ["single allocation failure per run", "allocation order is deterministic under the simulated platform with a fixed schedule seed",
                         "only allocations through nni_alloc/nni_zalloc are injectable (not libc internals)"], time.time() - t0, len(v.violations))
    return v.finish()
