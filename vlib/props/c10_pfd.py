"""C10 / C02, the poller layer — src/platform/posix/posix_pollq_epoll.c (one nni_posix_pfd, the poller thread, client
threads, the callback) under thread schedules.

Lean: NngModel.Props.C10Pfd (all schedules, all K, all client programs / callback scripts within the contract K1-K5).
Tie to the code: harness/u_pfd.c replays a schedule on the REAL posix_pollq_epoll.c one interposed point at a time (hooks on
nni_mtx_lock/unlock, nni_cv_wait/wake, the creation of nni_epoll_thr, nni_atomic_or/and, nni_atomic_flag_test_and_set,
epoll_ctl / epoll_wait / read / write / shutdown / close with a scripted kernel; the callback parks at its begin and its return) and
prints one observation per step.  The same schedules go through the Lean model (`pfd-model`, line-exact comparison incl.
pfd->events, pfd->added, the flags, the reap list, the mutex owner, the eventfd counter and the point each thread is parked at) and
the implementation's observations are judged by the Lean specification (`pfd-judge`, Spec/Pfd.lean clauses a-e; a schedule that
leaves the contract is recognised by the judge and not judged from there on).

 judge rejects an implementation trace  -> VIOLATION with the minimised schedule as replay
 only impl != model                     -> VIOLATION ... no-failing-input-found

Used by vlib/props/c10.py through `run_part`; `run` is the stand-alone entry (./check c10_pfd quick)."""
import os, re, json, time
from .. import core, build, lean

PROP = "C10"
SUB = "pfd"
SUB_CALLERS = "pfd-callers"
CORPUS = "C10P"
MODULES = ["NngModel.Props.C10Pfd"]
RULE = ("schedules for harness/u_pfd.c: (1) corpus/C10P/pfd-*; (2) ALL maximal contract-respecting interleavings (every batch epoll_wait "
        "can return for readiness in {none, IN, OUT, IN|OUT, HUP}, both orders of wake / pfd entry) of the configurations in EXHAUSTIVE "
        "(one to three clients: arm / close / stop / fini / free programs as the transports issue them, callback scripts that re-arm, "
        "close or do nothing), capped per configuration at 1200 (quick) / 25000 (thorough) leaves of a depth-first enumeration with "
        "seeded child order, plus a third as many with a (no-op) step of every blocked thread inserted after every step; (3) random schedules from splitmix64(seed,C10,tier,pfd,i): 1-4 clients, programs of 1-7 calls built from "
        "transport patterns, 0-4 callback scripts, bursty choice among the threads that can move within the contract, 10% choices of "
        "blocked / finished threads and a tail of such steps on every schedule (must be no-ops), 8% of the cases allowed to leave the contract (then only impl = model is "
        "compared); distinct = distinct op lists")

IN, OUT, ERR, HUP = 1, 4, 8, 16
ARM = {"i": IN, "o": OUT, "b": IN | OUT}
READY = {"-": 0, "i": IN, "o": OUT, "io": IN | OUT, "h": HUP, "ih": IN | HUP, "e": ERR}
SECTION = ("armCtl", "closeShut", "closeDel", "stopClose")

EXHAUSTIVE = [
    # (client programs, callback scripts)
    (["isfx"], ["-"]), (["isfx"], ["i"]), (["bsfx"], ["o", "-"]), (["icsfx"], ["i"]), (["sfx"], []), (["csfx"], []),
    (["i", "sfx"], ["-"]), (["i", "csfx"], ["i"]), (["io", "sf"], ["b"]), (["i", "c", "sfx"], ["-"]), (["b", "sfx"], ["c"]),
    (["i", "cs", "s"], ["i"]), (["ic", "c", "sf"], ["-"]), (["i", "sf"], ["i", "i"]), (["ii", "sfx"], ["o"]),
    (["i", "o", "sf"], ["-", "-"]), (["is", "sfx"], ["-"]), (["isfx", "c"], ["c"]),
    (["isfx", "k"], ["-"]), (["i", "k", "sf"], ["i"]), (["bk", "csf"], ["o"]), (["kk", "isf"], ["-"]),
]


# ---------------------------------------------------------------- schedule generator's own little interpreter
# (used ONLY to know which threads can move / stay within the contract, so that schedules are maximal and mostly
#  inside the contract; nothing is judged with it)
class Gen:
    def __init__(self, progs, scripts):
        self.events = 0; self.added = self.closing = self.stopped = self.onReap = False
        self.mtx = None; self.evfd = 0
        self.reg = False; self.mask = 0; self.en = False; self.fdOpen = True; self.freed = False
        self.sect = None; self.closeStarted = self.closeDone = self.synced = self.finiDone = False
        self.cs = [["idle", list(p)] for p in progs]          # frame, prog
        self.pc = "wait"; self.batch = []; self.reap = False; self.rem = []; self.pframe = "idle"
        self.scripts = [list(x) for x in scripts]

    def clone(self):
        c = Gen.__new__(Gen)
        c.__dict__.update(self.__dict__)
        c.cs = [[f, list(p)] for f, p in self.cs]
        c.batch = list(self.batch); c.rem = list(self.rem); c.scripts = [list(x) for x in self.scripts]
        return c

    def names(self):
        return ["p"] + [f"c{i}" for i in range(len(self.cs))]

    def harvest(self, ready, wf=True):
        pe = ready & (self.mask | ERR | HUP) if self.reg and self.en else 0
        w = ["wake"] if self.evfd > 0 else []
        f = [("pfd", pe)] if pe else []
        return w + f if wf else f + w

    def blocked(self, frame):
        if frame in ("stopLock", "stopChk"):
            return self.mtx is not None
        return frame == "stopSleep"

    def can_move(self, t, ready=0):
        if t == "p":
            if self.pc == "wait":
                return bool(self.harvest(ready))
            if self.pc == "inCb":
                return not self.rem or not self.blocked(self.pframe)
            if self.pc == "reapLock":
                return self.mtx is None
            return True
        k = int(t[1:])
        if k >= len(self.cs):
            return False
        f, pr = self.cs[k]
        return bool(pr) and not self.blocked(f)

    def quiet(self):
        return all(f == "idle" for f, _ in self.cs) and self.pframe == "idle"

    def op_allowed(self, t, op):
        if op == "k":
            return True
        if self.freed:
            return False
        if op in ARM:
            return self.sect is None and not self.closeStarted
        if op == "c":
            return self.sect is None
        if op == "s":
            return self.sect is None and t != "p"
        if op == "f":
            return t != "p" and self.synced and not self.finiDone and self.quiet()
        return t != "p" and self.finiDone and self.quiet()

    def allowed(self, t):
        if t == "p":
            if self.pc == "inCb" and self.pframe == "idle" and self.rem:
                return self.op_allowed("p", self.rem[0])
            return True
        k = int(t[1:])
        if k >= len(self.cs):
            return True
        f, pr = self.cs[k]
        if f == "idle" and pr:
            return self.op_allowed(t, pr[0])
        return True

    def enabled(self, contract=True, ready=IN | OUT | HUP):
        return [t for t in self.names() if self.can_move(t, ready) and (not contract or self.allowed(t))]

    def _call(self, t, f, op):
        """-> (frame, fin)"""
        if f == "idle":
            if op in ARM:
                self.events |= ARM[op]
                self.sect = t
                return ("armCtl", self.events, self.added), False
            if op == "c":
                self.closeStarted = True
                if self.closing:
                    return "idle", True
                self.closing = True; self.sect = t
                return "closeShut", False
            if op == "s":
                self.closeStarted = True
                if self.stopped:
                    return "idle", True
                self.stopped = True; self.sect = t
                return "stopClose", False
            if op == "f":
                self.fdOpen = False; self.reg = False; self.finiDone = True
                return "idle", True
            if op == "k":
                self.evfd += 1
                return "idle", True
            self.freed = True
            return "idle", True
        if isinstance(f, tuple):
            _, e, was = f
            self.sect = None
            if self.fdOpen:
                if not was:
                    if not self.reg:
                        self.reg, self.mask, self.en, self.added = True, e, True, True
                elif self.reg:
                    self.mask, self.en = e, True
            return "idle", True
        if f == "closeShut":
            return "closeDel", False
        if f == "closeDel":
            if self.fdOpen:
                self.reg = False
            self.closeDone = True; self.sect = None
            return ("stopLock", False) if op == "s" else ("idle", True)
        if f == "stopClose":
            if self.closing:
                self.sect = None
                return "stopLock", False
            self.closing = True
            return "closeShut", False
        if f == "stopLock":
            self.onReap = True; self.mtx = t
            return "stopWrite", False
        if f == "stopWrite":
            self.evfd += 1; self.mtx = None
            if self.onReap:
                return "stopSleep", False
            self.synced = True
            return "idle", True
        if f == "stopChk":
            if self.onReap:
                return "stopSleep", False
            self.synced = True
            return "idle", True
        return f, False

    def step(self, t, ready=0, wf=True):
        if not self.can_move(t, ready):
            return
        if t != "p":
            c = self.cs[int(t[1:])]
            fr, fin = self._call(t, c[0], c[1][0])
            c[0] = fr
            if fin:
                c[1].pop(0)
            return
        if self.pc == "wait":
            self.batch = self.harvest(ready, wf)
            if any(b != "wake" for b in self.batch):
                self.en = False
            self.reap = False; self.pc = "disp"
        elif self.pc == "disp":
            b = self.batch.pop(0)
            if b == "wake":
                self.evfd = 0; self.reap = True
                self.pc = self._after()
            else:
                self.events &= ~b[1]
                self.pc = "cbBegin"
        elif self.pc == "cbBegin":
            self.rem = self.scripts.pop(0) if self.scripts else []
            self.pc = "inCb"; self.pframe = "idle"
        elif self.pc == "inCb":
            if not self.rem:
                self.pc = self._after(); self.pframe = "idle"
            else:
                fr, fin = self._call("p", self.pframe, self.rem[0])
                self.pframe = fr
                if fin:
                    self.rem.pop(0)
        elif self.pc == "reapLock":
            self.onReap = False
            for c in self.cs:
                if c[0] == "stopSleep":
                    c[0] = "stopChk"
            self.pc = "wait"; self.reap = False

    def _after(self):
        return "disp" if self.batch else ("reapLock" if self.reap else "wait")

    def wait_choices(self):
        """distinct things epoll_wait can return now: [(ready word, wf flag)]"""
        seen, out = set(), []
        for w, r in READY.items():
            for wf in (True, False):
                b = tuple(self.harvest(r, wf))
                if b and b not in seen:
                    seen.add(b)
                    out.append((w, wf))
        return out


def init_line(progs, scripts):
    return "init " + (",".join(p or "-" for p in progs) if progs else "none") + " " + (",".join(s or "-" for s in scripts) if scripts else "none")


def step_line(t, rw=None, wf=True):
    if t == "p" and rw is not None:
        return f"step p {rw}" + ("" if wf else " f")
    return f"step {t}"


def all_interleavings(progs, scripts, limit=None, rng=None, probe=False):
    """every maximal contract-respecting schedule (no stutter), with every distinct result of epoll_wait"""
    out = []
    scripts = [("" if s == "-" else s) for s in scripts]
    head = init_line(progs, scripts)

    def rec(st, acc):
        if limit is not None and len(out) >= limit:
            return
        en = st.enabled()
        if not en:
            out.append([head] + acc + drain(st))
            return
        if rng is not None and len(en) > 1:
            k = rng.below(len(en))
            en = en[k:] + en[:k]
            if rng.chance(1, 2):
                en.reverse()
        for t in en:
            if t == "p" and st.pc == "wait":
                ch = st.wait_choices()
                if rng is not None and len(ch) > 1:
                    k = rng.below(len(ch))
                    ch = ch[k:] + ch[:k]
                for rw, wf in ch:
                    c = st.clone()
                    c.step("p", READY[rw], wf)
                    rec(c, acc + [step_line("p", rw, wf)] + (probes(c) if probe else []))
            else:
                c = st.clone()
                c.step(t)
                rec(c, acc + [step_line(t)] + (probes(c) if probe else []))

    rec(Gen(progs, scripts), [])
    return out


PATTERNS = [("k", 3), ("i", 6), ("o", 5), ("b", 3), ("ii", 2), ("io", 2), ("c", 4), ("s", 3), ("sf", 4), ("sfx", 4), ("csfx", 3), ("cs", 2)]
LOOSE = [("f", 2), ("x", 2), ("fs", 1), ("ci", 2), ("si", 1), ("fi", 1), ("xs", 1)]
CBS = [("", 4), ("i", 5), ("o", 3), ("b", 2), ("c", 3), ("ic", 1)]
CBS_LOOSE = [("s", 2), ("ci", 1), ("f", 1)]


def gen_random(r):
    loose = r.chance(8, 100)                   # may leave the contract
    nc = r.weighted([(1, 3), (2, 6), (3, 4), (4, 1)])
    progs = []
    for _ in range(nc):
        w = ""
        for _ in range(r.range(1, 3)):
            w += r.weighted(PATTERNS + (LOOSE if loose else []))
        progs.append(w[:7])
    scripts = [r.weighted(CBS + (CBS_LOOSE if loose else [])) for _ in range(r.range(0, 4))]
    st = Gen(progs, scripts)
    ops = [init_line(progs, scripts)]
    names = st.names()
    weights = {t: r.range(1, 6) for t in names}
    cur = None
    rwords = list(READY)
    for _ in range(r.range(5, 120)):
        en = st.enabled(contract=not loose)
        if not en:
            break
        if r.chance(1, 10):
            # a thread the model says is blocked / finished / non-existent: must be a no-op on the real code too
            stuck = [x for x in names if not st.can_move(x, 0)] or names + [f"c{nc}"]
            t = r.choice(stuck + [f"c{nc}"]) if r.chance(9, 10) else r.choice(names)
            if not st.allowed(t) and not loose:
                continue
            if t == "p" and st.pc == "wait":
                ops.append("step p -")
                continue
        elif cur in en and r.chance(2, 3):
            t = cur
        else:
            t = r.weighted([(t, weights[t]) for t in en])
        cur = t
        rw, wf = None, True
        if t == "p":
            rw = r.choice(rwords) if r.chance(3, 4) else "io"
            wf = r.chance(1, 2)
            if not st.can_move("p", READY[rw]) and st.pc == "wait" and st.can_move("p", IN | OUT | HUP) and r.chance(4, 5):
                rw = "io" if st.can_move("p", IN | OUT) else "ih"
        st.step(t, READY[rw] if rw else 0, wf)
        ops.append(step_line(t, rw, wf))
    return ops + drain(st)


def probes(st):
    """a step of every thread the model says is blocked (asleep on the cv, waiting for the mutex, in epoll_wait with nothing
    to report): a no-op on the real code too, unless it was woken / unblocked too early"""
    out = []
    for t in st.names():
        if st.can_move(t, 0):
            continue
        if t == "p":
            out.append("step p -")
        elif st.cs[int(t[1:])][1]:
            out.append(f"step {t}")
    return out


def drain(st):
    """steps of every thread the model says cannot move (no-ops there): lets the real code run on if it thinks otherwise"""
    out = []
    for _ in range(2):
        for t in st.names():
            if not st.can_move(t, 0) and st.allowed(t):
                out.append("step p -" if t == "p" else f"step {t}")
    return out


# ---------------------------------------------------------------- running
def run_three(cases, exe, with_lean):
    parts = core.chunked(list(enumerate(cases)), core.NCPU * 2)
    env = build.env()

    def work(part):
        text = core.cases_to_text([c for _, c in part])
        a = core.run_stream([exe], text, env=env, timeout=1800)
        ic, partial = core.split_cases(a.lines)
        if partial and len(ic) < len(part):
            ic.append(partial)
        jc = mc = None
        if with_lean:
            jc = core.split_cases(core.run_stream(lean.driver_cmd("pfd-judge"), "\n".join(a.lines) + "\nreset\n", timeout=1800).lines)[0]
            mc = core.split_cases(core.run_stream(lean.driver_cmd("pfd-model"), text, timeout=1800).lines)[0]
        return part, a, ic, partial, jc, mc

    res, crashes = {}, []
    for part, a, ic, partial, jc, mc in core.parallel_map(work, parts):
        if a.rc != 0 or len(ic) != len(part):
            k = max(0, len(ic) - 1) if partial else len(ic)
            idx, ops = part[k] if k < len(part) else part[-1]
            crashes.append({"case": idx, "ops": ops, "rc": a.rc, "stderr": a.err[-3000:], "done_ops": len(partial)})
        for j, (idx, ops) in enumerate(part):
            res[idx] = (ic[j] if j < len(ic) else None, jc[j] if jc is not None and j < len(jc) else None,
                        mc[j] if mc is not None and j < len(mc) else None)
    return res, crashes


def judge_one(exe, ops):
    """-> (impl lines, judge lines, model lines, first violated clause or None)"""
    text = core.cases_to_text([ops])
    a = core.run_stream([exe], text, env=build.env(), timeout=120)
    il = core.split_cases(a.lines)[0]
    il = il[0] if il else a.lines
    j = core.run_stream(lean.driver_cmd("pfd-judge"), "\n".join(il) + "\nreset\n", timeout=120)
    jl = core.split_cases(j.lines)[0]
    jl = jl[0] if jl else j.lines
    m = core.run_stream(lean.driver_cmd("pfd-model"), text, timeout=120)
    ml = core.split_cases(m.lines)[0]
    ml = ml[0] if ml else m.lines
    clause = next((l.split(None, 1)[1] for l in jl if l.startswith("VIOLATION")), None)
    if a.rc != 0:
        clause = clause or f"crash rc={a.rc}"
    return il, jl, ml, clause


def minimise(exe, ops, clause, budget_s=40):
    head, steps = ops[:1], ops[1:]

    def fails(o):
        return judge_one(exe, head + o)[3] == clause

    if not fails(steps):
        return ops
    return head + core.ddmin(steps, fails, budget_s)


def load_corpus():
    out = []
    d = os.path.join(core.HERE, "corpus", CORPUS)
    if os.path.isdir(d):
        for f in sorted(os.listdir(d)):
            if f.startswith("pfd-"):
                out.append((f, [l.strip() for l in open(os.path.join(d, f)) if l.strip() and not l.startswith("#")]))
    return out


CLAUSE_TEXT = {
    "a:callback-overlaps-itself": "two invocations of the pfd callback overlap",
    "a:callback-active-after-stop-or-fini-returned": "nni_posix_pfd_stop / _fini returned while the callback was still running",
    "a:callback-begins-after-stop-or-fini-returned": "the callback was invoked after nni_posix_pfd_stop / _fini had returned",
    "d:pfd-memory-used-after-release": "a field of the pfd was accessed (atomic op, epoll_ctl, list operation, callback) after the owner released its memory",
    "d:descriptor-used-after-close": "a system call on / a callback for the descriptor after close(fd)",
    "d:descriptor-closed-while-in-epoll-set": "close(fd) while the descriptor was still registered in the epoll set",
    "c:callbacks-do-not-match-reported-events": "an event reported by epoll_wait for the pfd was dispatched not exactly once",
    "c:callback-events-differ-from-reported-events": "the callback received other events than epoll_wait reported",
    "c:armed-events-not-watched": "after a successful nni_posix_pfd_arm the requested events are not enabled in the epoll set (lost wake-up)",
    "c:reported-event-never-delivered": "nothing can move any more and a reported event has not been delivered to the callback",
    "e:more-than-one-callback-after-close": "more than one callback invocation began after nni_posix_pfd_close had removed the descriptor from the epoll set",
    "e:registered-after-close": "the descriptor is in the epoll set after the EPOLL_CTL_DEL of nni_posix_pfd_close",
    "b:deadlock": "nothing can move and a client has not finished (a stop that never returns)",
}

# what breaks when a clause of the contract is dropped, run on the real code for the record (never a violation):
DEMO_K1_ARMS = ["init i,o none", "step c0", "step c1", "step c1", "step c0"]                       # two first arms race on pfd->added: EEXIST, OUT not watched
DEMO_K1_CLOSE = ["init i,sfx -", "step c0", "step c1", "step c1", "step c1", "step c1", "step c0", "step c1", "step c1", "step p -",
                 "step p", "step p", "step c1", "step p io", "step c1", "step c1", "step p", "step p"]          # arm straddles close: registered after DEL, callback after fini / free
DEMO_K3 = ["init i s", "step c0", "step c0", "step p i", "step p", "step p"] + ["step p"] * 7                  # stop from the callback: the poller waits for itself
DEMO_K4 = ["init i,f -", "step c0", "step c0", "step p i", "step p", "step p", "step c1", "step p"]           # fini without stop: callback still running / fd closed under it
DEMO_ARM_AFTER_CLOSE = ["init ci none", "step c0", "step c0", "step c0", "step c0", "step c0"]                   # what tcp_send after tcp_close does on a never-armed pfd: registered after close


CALLERS = [(tr, op, stt) for tr in ("tcp", "ipc") for op in ("recv", "send") for stt in ("armed", "fresh")]


def callers_probe(counts, viol, only=None):
    """REAL execution (real sockets, the real poller thread): clause K2 of the contract on the users' side - an operation issued on a
    posix stream after nng_stream_close must complete with NNG_ECLOSED (harness/r_pfd_callers.c)"""
    import subprocess, tempfile, shutil
    try:
        exe = build.harness("r_pfd_callers", ["r_pfd_callers.c"])
    except build.BuildError as e:
        viol.append(("pfd-callers-build", {"kind": "build", "sub": SUB_CALLERS, "error": str(e), "log": e.log[-4000:]}, True))
        return
    d = tempfile.mkdtemp(prefix="pfdc-")
    bad, outs = [], {}
    try:
        for tr, op, stt in (only or CALLERS):
            try:
                p = subprocess.run([exe, tr, op, stt, d], capture_output=True, text=True, env=build.env(), timeout=60)
                rc, out = p.returncode, (p.stdout.strip() + (" | " + p.stderr.strip()[-1500:] if p.stderr.strip() else ""))
            except subprocess.TimeoutExpired:
                rc, out = 124, "time-limit (the operation never completed)"
            outs[f"{tr} {op} {stt}"] = out
            if rc != 0:
                bad.append([tr, op, stt])
    finally:
        shutil.rmtree(d, ignore_errors=True)
    counts["callers"] = {"scenarios": len(only or CALLERS), "failing": len(bad), "results": outs}
    if bad:
        viol.append(("pfd-callers", {
            "kind": "an operation issued on a posix stream after nng_stream_close does not complete with NNG_ECLOSED: *_send / *_recv of "
                    "posix_tcpconn.c / posix_ipcconn.c / posix_sockfd.c do not test c->closed and call nni_posix_pfd_arm after "
                    "nni_posix_pfd_close (contract clause K2 of Model/Pfd.lean; EPOLL_CTL_MOD fails with ENOENT and is ignored): the aio "
                    "stays queued for ever, nng_stream_stop does not complete it and nng_stream_free releases the connection under it "
                    "(its timeout / cancel then runs tcp_cancel on released memory)",
            "sub": SUB_CALLERS, "ops": [" ".join(["callers"] + b) for b in bad], "results": outs,
            "how_to_read": "`callers <tcp|ipc> <recv|send> <armed|fresh>`: connect two streams over loopback, (armed: leave a receive pending,) "
                           "nng_stream_close, then issue <op> with a 300 ms timeout: expected NNG_ECLOSED at once; run "
                           "harness/r_pfd_callers <transport> <op> <armed|fresh> <tmpdir>",
            "fix": "integration/fixes/PFD-stream-io-after-close.patch"}, False))


def run_part(tier, seed, st, replay=None):
    """-> (counts dict, [(tag, payload, no_input)])"""
    t0 = time.time()
    counts = {"cases": 0, "steps": 0, "exhaustive": 0, "exhaustive_complete": 0, "probed": 0, "random": 0, "corpus": 0, "judge": 0, "model": 0, "crash": 0,
              "distinct": 0, "callers": {}, "off_contract": 0, "complete_runs": 0, "callbacks": 0, "clauses": {}, "next_hist": {}, "samples": [], "demos": {},
              "wall_s": 0.0}
    viol = []
    try:
        exe = build.harness("u_pfd", ["u_pfd.c"])
    except build.BuildError as e:
        viol.append(("pfd-build", {"kind": "build", "sub": SUB, "error": str(e), "log": e.log[-4000:]}, True))
        return counts, viol
    with_lean = bool(st.driver_ok)
    cases = []
    if replay:
        rp = json.load(open(replay)) if isinstance(replay, str) else replay
        if rp.get("sub") == SUB_CALLERS and "ops" in rp:
            callers_probe(counts, viol, only=[tuple(o.split()[1:4]) for o in rp["ops"]])
            return counts, viol
        if rp.get("sub") != SUB or "ops" not in rp:
            return counts, viol
        cases.append(list(rp["ops"]))
    else:
        for _, ops in load_corpus():
            cases.append(ops); counts["corpus"] += 1
        lim = 1200 if tier == "quick" else 25000
        for k, (progs, scripts) in enumerate(EXHAUSTIVE):
            cs = all_interleavings(progs, scripts, limit=lim, rng=core.Rng(seed, PROP, tier, SUB, "dfs", k))
            cases += cs; counts["exhaustive"] += len(cs)
            counts["exhaustive_complete"] += 1 if len(cs) < lim else 0
            if any("s" in p for p in progs):
                # the same enumeration (other child order) with a probe of every blocked thread after every step
                cs = all_interleavings(progs, scripts, limit=lim // 3, rng=core.Rng(seed, PROP, tier, SUB, "dfs-probe", k), probe=True)
                cases += cs; counts["exhaustive"] += len(cs); counts["probed"] += len(cs)
        nrand = 3000 if tier == "quick" else 50000
        for i in range(nrand):
            cases.append(gen_random(core.Rng(seed, PROP, tier, SUB, i)))
        counts["random"] = nrand
    counts["cases"] = len(cases)
    counts["steps"] = sum(len(c) - 1 for c in cases)
    counts["distinct"] = len({tuple(c) for c in cases})
    if cases:
        counts["samples"] = [{"sub": SUB, "ops": c[:40]} for c in (cases[0], cases[len(cases) // 2], cases[-1])]
    res, crashes = run_three(cases, exe, with_lean)
    counts["crash"] = len(crashes)
    jv, mv = [], []
    for idx in range(len(cases)):
        il, jl, ml = res.get(idx, (None, None, None))
        if il is None:
            continue
        if il:
            m = re.search(r"next=(\S+)", il[-1])
            if m:
                for w in re.split(r"[,|]", m.group(1)):
                    if w:
                        counts["next_hist"][w] = counts["next_hist"].get(w, 0) + 1
            m = re.search(r"cbB=(\d+)", il[-1])
            if m:
                counts["callbacks"] += int(m.group(1))
            if " live=0 fin=1 " in il[-1]:
                counts["complete_runs"] += 1
        if jl is not None:
            if any(l.startswith("CONTRACT") for l in jl):
                counts["off_contract"] += 1
            bad = next((l for l in jl if l.startswith("VIOLATION") or l == "bad-obs"), None)
            if bad:
                clause = bad.split(None, 1)[1] if " " in bad else bad
                counts["clauses"][clause] = counts["clauses"].get(clause, 0) + 1
                jv.append((idx, clause))
        if ml is not None and ml[:len(il)] != il:
            t = next((k for k, (x, y) in enumerate(zip(il, ml)) if x != y), min(len(il), len(ml)))
            mv.append((idx, t))
    counts["judge"], counts["model"] = len(jv), len(mv)
    found_input = False
    for c in crashes[:2]:
        viol.append((f"pfd-crash-{c['case']}", {"kind": "crash / sanitizer report of the implementation under the schedule",
                                                "sub": SUB, "ops": c["ops"], "rc": c["rc"], "stderr": c["stderr"]}, False))
        found_input = True
    seen = set()
    for idx, clause in jv:
        if clause in seen:
            continue
        seen.add(clause)
        ops = minimise(exe, cases[idx], clause) if with_lean else cases[idx]
        il, jl, ml, cl = judge_one(exe, ops)
        viol.append((f"pfd-judge-{idx}", {
            "kind": "implementation observations violate the poller-layer specification (Spec/Pfd.lean): " + CLAUSE_TEXT.get(clause, clause),
            "clause": clause, "sub": SUB, "ops": ops, "impl": il, "judge": jl, "model": ml,
            "how_to_read": "ops: `init <client programs: i o b arm IN/OUT/both, c close, s stop, f fini, x free> <callback scripts, one per invocation>`, "
                           "`step <p|c<i>> [ready [f]]` = that thread performs the atomic access / system call / lock acquisition / callback boundary "
                           "it is parked at (see next=); for the poller's epoll_wait `ready` is what the descriptor is ready for",
            "violating_cases_with_this_clause": counts["clauses"].get(clause, 0)}, False))
        found_input = True
        if len(seen) >= 3:
            break
    if not found_input and mv:
        idx, t = mv[0]
        il, jl, ml, _ = judge_one(exe, cases[idx])
        viol.append(("pfd-corr", {"kind": "correspondence broken: the real posix_pollq_epoll.c differs step-for-step from the Lean model the "
                                          "C10Pfd theorems are about (no schedule violating the specification was found)",
                                  "sub": SUB, "correspondence": "pfd-model vs harness/u_pfd.c",
                                  "ops": cases[idx], "first": {"op_index": t, "impl": il[t] if t < len(il) else None,
                                                               "model": ml[t] if t < len(ml) else None},
                                  "mismatching_cases": len(mv)}, True))
    if not replay:
        callers_probe(counts, viol)
    if not replay and with_lean:
        for name, ops in (("K1 dropped (two arms overlap)", DEMO_K1_ARMS), ("K1 dropped (arm straddles close)", DEMO_K1_CLOSE),
                          ("K3 dropped (stop from the callback)", DEMO_K3), ("K4 dropped (fini without stop)", DEMO_K4),
                          ("K2 dropped (arm after close on a never-armed pfd, as tcp_send after tcp_close)", DEMO_ARM_AFTER_CLOSE)):
            il, jl, _, cl = judge_one(exe, ops)
            counts["demos"][name] = {"ops": ops, "judge": next((l for l in jl if l.startswith("CONTRACT")), cl or "ok"), "last": il[-1] if il else None}
    counts["wall_s"] = round(time.time() - t0, 1)
    core.log(PROP, f"pfd: cases {counts['cases']} (exhaustive {counts['exhaustive']}, random {counts['random']}, corpus {counts['corpus']}; "
                   f"{counts['complete_runs']} run to completion, {counts['off_contract']} leave the contract, {counts['callbacks']} callbacks) "
                   f"steps {counts['steps']}; judge violations {counts['judge']} {counts['clauses'] or ''}, model mismatches {counts['model']}, "
                   f"crashes {counts['crash']}; callers probe {counts.get('callers', {}).get('failing', '-')} of "
                   f"{counts.get('callers', {}).get('scenarios', '-')} scenarios failing; {counts['wall_s']}s")
    return counts, viol


def run(tier, seed, replay=None):
    """stand-alone entry: Lean build + axiom audit of Props/C10Pfd, then the differential run"""
    t0 = time.time()
    v = core.Verdict(PROP, seed)
    if os.path.isdir(core.REPLAYS):
        for f in os.listdir(core.REPLAYS):
            if f.startswith(f"{PROP}-") and "-pfd-" in f:
                os.unlink(os.path.join(core.REPLAYS, f))
    st = lean.prepare(MODULES)
    core.log(PROP, f"lean: {len(st.discharged)}/{len(st.theorems)} theorems re-checked; {st.build_s:.1f}s")
    counts, viol = run_part(tier, seed, st, replay)
    found_input = False
    for tag, payload, no_input in viol:
        v.violation(tag, payload, no_input=no_input)
        found_input = found_input or not no_input
    if not found_input and not st.ok:
        v.violation("pfd-proof", {"kind": "proof obligation no longer checks", "broken": st.broken, "log": st.log[-3000:]}, no_input=True)
    cov = {"obligations": len(st.theorems), "discharged": len(st.discharged),
           "checker_cmd": "lake build NngModel.Props.C10Pfd && lake env lean <#print axioms for each theorem>",
           "trusted_base": ["Lean 4.33.0 kernel", "axioms: " + ", ".join(sorted({a for x in st.axioms.values() if x for a in x})),
                            "harness/u_pfd.c (hooks on the mutex / condition-variable / thread-creation / atomic / system calls of the real "
                            "posix_pollq_epoll.c; tracked lock; scripted epoll set, eventfd and descriptor)",
                            "vlib/props/c10_pfd.py, vlib/extract_c10p.py (shape anchors)",
                            "kernel rules of Model/Pfd.lean: epoll_wait reports every enabled ready entry, EPOLLONESHOT disables on report, "
                            "ERR/HUP always reported, close(fd) removes the entry; no spurious wake-ups of nni_cv_wait"],
           "theorems": st.discharged, "axioms": st.axioms, "broken": st.broken,
           "evaluations": counts["cases"], "distinct_nontrivial": counts["distinct"], "rule": RULE, "samples": counts["samples"],
           "pfd_part": {k: counts[k] for k in counts if k != "samples"}}
    ev = core.write_evidence(PROP + "-pfd", tier, seed, "proof", cov,
                             ["one pfd per poller (other pfds only delay the poller thread and add wake events)",
                              "nni_posix_pollq_sysfini (pq->close) is not called while the pfd is in use",
                              "descriptor numbers are not reused (a use after close(fd) is flagged instead)"],
                             time.time() - t0, len(v.violations))
    ev["property_id"] = PROP
    json.dump(ev, open(os.path.join(core.EVIDENCE, f"{PROP}-pfd.json"), "w"), indent=1)
    return v.finish()
