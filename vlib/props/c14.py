"""C14 — pipe events are ordered; dialers redial; listeners keep accepting."""
from .. import core, life_common

PROP = "C14"


def run(tier, seed, replay=None):
    return life_common.check(PROP, tier, seed, replay)
