"""C14 — pipe events are ordered; dialers redial; listeners keep accepting."""
import json, os, re, subprocess, time
from .. import core, build, life_common

PROP = "C14"
SUB = "accept"


def scenarios(tier):
    pid = os.getpid()
    sc = [("burst", "tcp://127.0.0.1:0", "3"), ("burst", f"ipc:///tmp/verif-accept-{pid}.ipc", "3"), ("burst", "ws://127.0.0.1:0/x", "2"),
          ("burst", "inproc://verif-accept", "4"), ("garbage", "tcp://127.0.0.1:0")]
    if tier == "thorough":
        sc += [("burst", "tcp://127.0.0.1:0", "8"), ("burst", f"ipc:///tmp/verif-accept-{pid}-b.ipc", "8"), ("burst", "ws://127.0.0.1:0/y", "6"),
               ("burst", "tcp://[::1]:0", "3")]
    return sc


def run_one(exe, args):
    try:
        p = subprocess.run([exe] + list(args), capture_output=True, text=True, env=build.env(), timeout=150)
        line, rc, err = (p.stdout.strip().splitlines() or [""])[-1], p.returncode, p.stderr
    except subprocess.TimeoutExpired:
        line, rc, err = "", -999, "timeout"
    m = re.search(r"k=(\d+) dialed=(\d+) pre=(\d+) post=(\d+) got=(\d+)", line)
    if "listen-failed" in line and "[::1]" in " ".join(args):
        return True, line + " (skipped: no IPv6 loopback here)", rc, err
    ok = rc == 0 and m is not None and int(m.group(3)) == int(m.group(1)) and int(m.group(4)) == int(m.group(1)) and int(m.group(5)) == int(m.group(1))
    return ok, line, rc, err


def accept_part(tier, seed, st, replay=None):
    """REAL transports (harness/r_accept.c): a burst of simultaneous connections while the listener's ADD_PRE callback holds
    the first pipe, and a connection right after a failed handshake: every connection must surface on the listening socket
    (ADD_PRE, ADD_POST) and carry its message.  A failing scenario is repeated twice; it is a violation only if it fails
    every time (the faults this exists for are deterministic; load only delays)."""
    t0 = time.time()
    counts = {"cases": 0, "scenarios": {}, "retried": 0, "wall_s": 0.0}
    viol = []
    try:
        exe = build.harness("r_accept", ["r_accept.c"])
    except build.BuildError as e:
        viol.append(("accept-build", {"kind": "build", "sub": SUB, "error": str(e), "log": e.log[-3000:]}, True))
        return counts, viol
    if replay:
        rp = json.load(open(replay)) if isinstance(replay, str) else replay
        if rp.get("sub") != SUB:
            return counts, viol
        sc = [tuple(rp["ops"][0].split()[1:])]
    else:
        sc = scenarios(tier)
    for args in sc:
        key = " ".join(args)
        tries = []
        for attempt in range(3):
            ok, line, rc, err = run_one(exe, args)
            tries.append(line or f"rc={rc} {err[-200:]}")
            counts["cases"] += 1
            if ok:
                break
            counts["retried"] += 1
        counts["scenarios"][key] = tries[-1]
        if not ok:
            viol.append((f"accept-{args[0]}-{re.sub(r'[^a-z0-9]+', '', args[1])[:12]}", {
                "kind": "a listener on a real transport does not surface every connection: after accepting a connection (its ADD_PRE "
                        "callback still running) or after a failed handshake it is not ready for the next one (REAL, harness/r_accept.c)",
                "sub": SUB, "ops": ["r_accept " + key], "observed": tries,
                "expected": "pre = post = got = k on every attempt (every connection reaches ADD_POST and delivers its message)"}, False))
    counts["wall_s"] = round(time.time() - t0, 1)
    core.log(PROP, f"accept: {len(sc)} scenarios on real transports, {counts['retried']} retried; " + "; ".join(f"{k}: {v.split('k=')[-1] if 'k=' in v else v}" for k, v in counts["scenarios"].items()))
    return counts, viol


def run(tier, seed, replay=None):
    if replay and json.load(open(replay)).get("sub") == SUB:
        return life_common.check(PROP, tier, seed, None, parts=[("accept", lambda t, s, st, r: accept_part(t, s, st, replay))])
    return life_common.check(PROP, tier, seed, replay, parts=[("accept", accept_part)])
