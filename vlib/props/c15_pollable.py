"""C15, poll-descriptor half — the lock-free pollable (src/core/pollable.c + posix pipe) under thread schedules.

Lean: NngModel.Props.C15Pollable (all schedules, all caller counts, all raise/clear programs).
Tie to the code: harness/u_pollable.c replays a schedule on the REAL pollable.c one atomic step at a time
(hooks on the four atomics and the four pipe calls it uses; real kernel pipe) and prints one observation per
step.  The same schedules go through the Lean model (`pollable-model`, line-exact comparison incl. the
call each thread is parked at) and the implementation's observations are judged by the Lean specification
(`pollable-judge`, Spec/Pollable.lean clauses a-d).

 judge rejects an implementation trace  -> VIOLATION with the minimised schedule as replay
 only impl != model                     -> VIOLATION ... no-failing-input-found

Used by vlib/props/c15.py through `run_part`; `run` is the stand-alone entry (./check c15_pollable quick)."""
import os, re, json, time
from .. import core, build, lean

PROP = "C15"
SUB = "pollable"
CORPUS = "C15POLL"   # not corpus/C15: vlib/generic.py feeds every file there to s_proto
MODULES = ["NngModel.Props.C15Pollable"]
RULE = ("schedules for harness/u_pollable.c: (1) corpus/C15POLL/pollable-*; (2) ALL maximal interleavings of one getfd caller with "
        "the mutator for every raise/clear program up to length L (quick 2, thorough 3) and both initial flag values; (3) "
        "maximal interleavings of two getfd callers with a mutator program of one or two calls, the first 600 (quick) / 40000 (thorough) leaves "
        "per configuration of a depth-first enumeration with seeded child order; (4) random schedules from "
        "splitmix64(seed,C15,tier,pollable,i): 0-4 callers, programs of 0-8 calls, bursty thread choice, 5% failing "
        "pipe_open, 5% choices of finished threads; distinct = distinct op lists")


# ---------------------------------------------------------------- which getfd is in the tree
def variant():
    """1 = repaired getfd (re-check loop), 0 = single test of the flag (pinned tree), None = unknown shape"""
    try:
        src = open(os.path.join(build.REPO, "src", "core", "pollable.c")).read()
    except OSError:
        return None
    src = re.sub(r"//[^\n]*", "", src)
    if re.search(r"if \(nni_atomic_get_bool\(&p->p_raised\)\) \{\s*nni_plat_pipe_raise\(wfd\);\s*\}", src):
        return 0
    if (re.search(r"for \(;;\) \{\s*bool raised = nni_atomic_get_bool\(&p->p_raised\);", src)
            and "nni_plat_pipe_clear(rfd);" in src
            and re.search(r"if \(nni_atomic_get_bool\(&p->p_raised\) == raised\) \{", src)):
        return 1
    return None


# ---------------------------------------------------------------- schedule generator's own little interpreter
# (used ONLY to know which threads can still move, so that schedules are maximal / not mostly stutter;
#  nothing is judged with it)
class Gen:
    def __init__(self, fixed, r0, n, p1, p2=""):
        self.fixed, self.raised, self.fds, self.npipes = fixed, bool(r0), None, 0
        self.m = [["idle", list(p1)], ["idle", list(p2)]]
        self.g = [("idle",) for _ in range(n)]

    def clone(self):
        c = Gen.__new__(Gen)
        c.fixed, c.raised, c.fds, c.npipes = self.fixed, self.raised, self.fds, self.npipes
        c.m = [[pc, list(pr)] for pc, pr in self.m]
        c.g = list(self.g)
        return c

    def enabled(self):
        out = []
        for k, name in ((0, "m"), (1, "n")):
            if self.m[k][0] != "idle" or self.m[k][1]:
                out.append(name)
        for i, g in enumerate(self.g):
            if g[0] != "done":
                out.append(str(i))
        return out

    def at_open(self, t):
        return t not in ("m", "n") and int(t) < len(self.g) and self.g[int(t)][0] == "open"

    def step(self, t, fail=False):
        if t in ("m", "n"):
            m = self.m[0 if t == "m" else 1]
            pc = m[0]
            if pc == "idle":
                if m[1]:
                    op = m[1].pop(0)
                    if op == "r":
                        m[0] = "idle" if self.raised else "rl"
                        self.raised = True
                    else:
                        m[0] = "cl" if self.raised else "idle"
                        self.raised = False
            elif pc == "rl":
                m[0] = "idle" if self.fds is None else "rw"
            elif pc == "cl":
                m[0] = "idle" if self.fds is None else "cd"
            else:
                m[0] = "idle"
            return
        i = int(t)
        if i >= len(self.g):
            return
        g = self.g[i]
        k = g[0]
        if k in ("idle", "top"):
            self.g[i] = ("done",) if self.fds is not None else ("open",)
        elif k == "open":
            if fail:
                self.g[i] = ("done",)
            else:
                self.g[i] = ("cas",)
                self.npipes += 1
        elif k == "cas":
            if self.fds is None:
                self.fds = i
                self.g[i] = ("ld",)
            else:
                self.g[i] = ("close",)
        elif k == "close":
            self.g[i] = ("top",)
        elif k == "ld":
            if self.raised or self.fixed:
                self.g[i] = ("act", self.raised)
            else:
                self.g[i] = ("done",)
        elif k == "act":
            self.g[i] = ("chk", g[1]) if self.fixed else ("done",)
        elif k == "chk":
            self.g[i] = ("done",) if self.raised == g[1] else ("ld",)


def init_line(fixed, n, r0, p1, p2="-"):
    return f"init {fixed} {n} {r0} {p1 or '-'} {p2 or '-'}"


def all_interleavings(fixed, n, r0, p1, limit=None, rng=None):
    """every maximal schedule (no stutter, no failing open), as lists of op lines; with `limit`, the first
    `limit` leaves of the depth-first enumeration whose child order is shuffled by `rng` (a spread-out sample)"""
    out = []
    head = init_line(fixed, n, r0, p1)

    def rec(st, acc):
        if limit is not None and len(out) >= limit:
            return
        en = st.enabled()
        if not en:
            out.append([head] + acc)
            return
        if rng is not None and len(en) > 1:
            k = rng.below(len(en))
            en = en[k:] + en[:k]
            if rng.chance(1, 2):
                en.reverse()
        for t in en:
            c = st.clone()
            c.step(t)
            rec(c, acc + [f"step {t}"])

    rec(Gen(fixed, r0, n, "" if p1 == "-" else p1), [])
    return out


def progs(maxlen):
    ps = [""]
    for L in range(1, maxlen + 1):
        ps += ["".join(("rc"[(k >> j) & 1]) for j in range(L)) for k in range(1 << L)]
    return ps


def gen_random(r, fixed):
    n = r.weighted([(0, 1), (1, 5), (2, 6), (3, 3), (4, 2)])
    p1 = "".join(r.choice("rc") for _ in range(r.range(0, 8)))
    r0 = r.below(2)
    st = Gen(fixed, r0, n, p1)
    ops = [init_line(fixed, n, r0, p1)]
    names = ["m"] + [str(i) for i in range(n)]
    weights = {t: r.range(1, 6) for t in names}
    cur = None
    for _ in range(r.range(0, 90)):
        en = st.enabled()
        if not en:
            break
        if r.chance(1, 20):
            t = r.choice(names + ["n", str(n)])       # possibly a finished / non-existent thread: must be a no-op
        elif cur in en and r.chance(2, 3):
            t = cur                                   # bursts
        else:
            t = r.weighted([(t, weights.get(t, 1)) for t in en])
        cur = t
        fail = st.at_open(t) and t in en and r.chance(1, 20)
        st.step(t, fail) if t in names else None
        ops.append(f"step {t}" + (" fail" if fail else ""))
    return ops


# ---------------------------------------------------------------- running
def run_three(cases, exe, with_lean):
    parts = core.chunked(list(enumerate(cases)), core.NCPU * 2)
    env = build.env()

    def work(part):
        text = core.cases_to_text([c for _, c in part])
        a = core.run_stream([exe], text, env=env, timeout=1800)
        ic, partial = core.split_cases(a.lines)
        if partial and len(ic) < len(part):
            ic.append(partial)      # the case during which the harness died: its observations so far are judged too
        jc = mc = None
        if with_lean:
            jc = core.split_cases(core.run_stream(lean.driver_cmd("pollable-judge"), "\n".join(a.lines) + "\nreset\n", timeout=1800).lines)[0]
            mc = core.split_cases(core.run_stream(lean.driver_cmd("pollable-model"), text, timeout=1800).lines)[0]
        return part, a, ic, partial, jc, mc

    res, crashes = {}, []
    for part, a, ic, partial, jc, mc in core.parallel_map(work, parts):
        if a.rc != 0 or len(ic) != len(part):
            k = max(0, len(ic) - 1) if partial else len(ic)
            idx, ops = part[k] if k < len(part) else part[-1]
            crashes.append({"case": idx, "ops": ops, "rc": a.rc, "stderr": a.err[-3000:], "done_ops": len(partial)})
        for j, (idx, ops) in enumerate(part):
            res[idx] = (ic[j] if j < len(ic) else None, jc[j] if jc is not None and j < len(jc) else None,
                        mc[j] if mc is not None and j < len(mc) else None)
    return res, crashes


def judge_one(exe, ops):
    """-> (impl lines, judge lines, model lines, first violated clause or None)"""
    text = core.cases_to_text([ops])
    a = core.run_stream([exe], text, env=build.env(), timeout=120)
    il = core.split_cases(a.lines)[0]
    il = il[0] if il else a.lines
    j = core.run_stream(lean.driver_cmd("pollable-judge"), "\n".join(il) + "\nreset\n", timeout=120)
    jl = core.split_cases(j.lines)[0]
    jl = jl[0] if jl else j.lines
    m = core.run_stream(lean.driver_cmd("pollable-model"), text, timeout=120)
    ml = core.split_cases(m.lines)[0]
    ml = ml[0] if ml else m.lines
    clause = next((l.split(None, 1)[1] for l in jl if l.startswith("VIOLATION")), None)
    if a.rc != 0:
        clause = clause or f"crash rc={a.rc}"
    return il, jl, ml, clause


def minimise(exe, ops, clause, budget_s=40):
    head, steps = ops[:1], ops[1:]

    def fails(o):
        return judge_one(exe, head + o)[3] == clause

    if not fails(steps):
        return ops
    return head + core.ddmin(steps, fails, budget_s)


def load_corpus():
    out = []
    d = os.path.join(core.HERE, "corpus", CORPUS)
    if os.path.isdir(d):
        for f in sorted(os.listdir(d)):
            if f.startswith("pollable-"):
                out.append((f, [l.strip() for l in open(os.path.join(d, f)) if l.strip() and not l.startswith("#")]))
    return out


def retarget(ops, fixed):
    """the <fixed> field of `init` only selects the Lean model variant: set it to the tree's variant"""
    w = ops[0].split()
    if w and w[0] == "init" and len(w) >= 6:
        w[1] = str(fixed)
        return [" ".join(w)] + list(ops[1:])
    return list(ops)


# the hypothesis of the theorems made visible: a raise and a clear that are NOT serialised (two mutator threads, as
# survey0/respond.c resp0_ctx_send does by clearing `writable` before taking the socket mutex) defeat even the repaired
# getfd.  Run on the real code for the record; expected verdict a:stale-readable; never counted as a violation.
DEMO_UNSERIALISED = ["init 1 1 0 r c"] + ["step 0"] * 7 + ["step m", "step n", "step n", "step n", "step m", "step m"]


def run_part(tier, seed, st, replay=None):
    """-> (counts dict, [(tag, payload, no_input)])"""
    t0 = time.time()
    counts = {"cases": 0, "steps": 0, "exhaustive": 0, "sampled_dfs": 0, "random": 0, "corpus": 0, "judge": 0, "model": 0, "crash": 0, "distinct": 0,
              "variant": None, "clauses": {}, "next_hist": {}, "samples": [], "quiescent_points": 0, "demo_unserialised": None, "wall_s": 0.0}
    viol = []
    try:
        exe = build.harness("u_pollable", ["u_pollable.c"])
    except build.BuildError as e:
        viol.append(("pollable-build", {"kind": "build", "sub": SUB, "error": str(e), "log": e.log[-4000:]}, True))
        return counts, viol
    var = variant()
    counts["variant"] = {1: "repaired getfd (re-check loop)", 0: "pinned getfd (single test of p_raised)", None: "unknown shape"}[var]
    fixed = 1 if var is None else var
    with_lean = bool(st.driver_ok)
    cases = []
    if replay:
        rp = json.load(open(replay))
        if rp.get("sub") != SUB or "ops" not in rp:
            return counts, viol
        cases.append(retarget(rp["ops"], fixed))
    else:
        for _, ops in load_corpus():
            cases.append(retarget(ops, fixed)); counts["corpus"] += 1
        L = 2 if tier == "quick" else 3
        for p1 in progs(L):
            for r0 in (0, 1):
                cs = all_interleavings(fixed, 1, r0, p1)
                cases += cs; counts["exhaustive"] += len(cs)
        for p1 in ("r", "c", "rc", "cr"):
            for r0 in (0, 1):
                cs = all_interleavings(fixed, 2, r0, p1, limit=600 if tier == "quick" else 40000,
                                       rng=core.Rng(seed, PROP, tier, SUB, "dfs", p1, r0))
                cases += cs; counts["sampled_dfs"] += len(cs)
        nrand = 2500 if tier == "quick" else 60000
        for i in range(nrand):
            cases.append(gen_random(core.Rng(seed, PROP, tier, SUB, i), fixed))
        counts["random"] = nrand
    counts["cases"] = len(cases)
    counts["steps"] = sum(len(c) - 1 for c in cases)
    counts["distinct"] = len({tuple(c) for c in cases})
    if cases:
        counts["samples"] = [{"sub": SUB, "ops": c[:40]} for c in (cases[0], cases[len(cases) // 2], cases[-1])]
    res, crashes = run_three(cases, exe, with_lean)
    counts["crash"] = len(crashes)
    jv, mv = [], []
    for idx in range(len(cases)):
        il, jl, ml = res.get(idx, (None, None, None))
        if il is None:
            continue
        for l in il:
            m = re.search(r" q=1 ", l)
            if m:
                counts["quiescent_points"] += 1
            m = re.search(r"next=(\S+)", l)
            if m:
                for w in m.group(1).split(","):
                    counts["next_hist"][w] = counts["next_hist"].get(w, 0) + 1
        if jl is not None:
            bad = next((l for l in jl if l.startswith("VIOLATION") or l == "bad-obs"), None)
            if bad:
                clause = bad.split(None, 1)[1] if " " in bad else bad
                counts["clauses"][clause] = counts["clauses"].get(clause, 0) + 1
                jv.append((idx, clause))
        if ml is not None and ml[:len(il)] != il:
            t = next((k for k, (x, y) in enumerate(zip(il, ml)) if x != y), min(len(il), len(ml)))
            mv.append((idx, t))
    counts["judge"], counts["model"] = len(jv), len(mv)
    found_input = False
    for c in crashes[:2]:
        viol.append((f"pollable-crash-{c['case']}", {"kind": "crash / sanitizer report / descriptor leak of the implementation under the schedule",
                                                     "sub": SUB, "ops": c["ops"], "rc": c["rc"], "stderr": c["stderr"]}, False))
        found_input = True
    seen = set()
    for idx, clause in jv:
        if clause in seen:
            continue
        seen.add(clause)
        ops = minimise(exe, cases[idx], clause) if with_lean else cases[idx]
        il, jl, ml, cl = judge_one(exe, ops)
        viol.append((f"pollable-judge-{idx}", {
            "kind": "implementation observations violate the pollable specification (Spec/Pollable.lean): "
                    + {"a:stale-readable": "at rest the poll descriptor is readable although the readiness flag is false (a non-blocking "
                                           "receive/send returns NNG_EAGAIN while poll(2) keeps reporting the socket ready)",
                       "a:missed-wakeup": "at rest the readiness flag is true but the poll descriptor is not readable"}.get(clause, clause),
            "clause": clause, "sub": SUB, "tree_variant": counts["variant"], "ops": ops, "impl": il, "judge": jl, "model": ml,
            "how_to_read": "ops: `init <model variant> <getfd callers> <flag raised before> <mutator program r=raise c=clear> <2nd mutator>`, "
                           "`step <m|n|caller>` = that thread performs the atomic/platform call it is parked at (see next=)",
            "violating_cases_with_this_clause": counts["clauses"].get(clause, 0)}, False))
        found_input = True
        if len(seen) >= 3:
            break
    if not found_input and mv:
        idx, t = mv[0]
        il, jl, ml, _ = judge_one(exe, cases[idx])
        viol.append(("pollable-corr", {"kind": "correspondence broken: the real pollable.c differs step-for-step from the Lean model the "
                                               "C15Pollable theorems are about (no schedule violating the specification was found)",
                                       "sub": SUB, "correspondence": "pollable-model vs harness/u_pollable.c", "tree_variant": counts["variant"],
                                       "ops": cases[idx], "first": {"op_index": t, "impl": il[t] if t < len(il) else None,
                                                                    "model": ml[t] if t < len(ml) else None},
                                       "mismatching_cases": len(mv)}, True))
    if not found_input and var is None:
        viol.append(("pollable-shape", {"kind": "nni_pollable_getfd has neither the pinned nor the repaired shape: the model variant could "
                                                "not be selected from the source", "sub": SUB}, True))
    if not replay and with_lean:
        _, _, _, cl = judge_one(exe, DEMO_UNSERIALISED)
        counts["demo_unserialised"] = {"ops": DEMO_UNSERIALISED, "judge": cl,
                                       "note": "two unserialised mutators (not a violation of C15's hypothesis-respecting part; see respond.c finding)"}
    counts["wall_s"] = round(time.time() - t0, 1)
    core.log(PROP, f"pollable: tree has the {counts['variant']}; cases {counts['cases']} (exhaustive {counts['exhaustive']}, dfs-sample {counts['sampled_dfs']}, random "
                   f"{counts['random']}, corpus {counts['corpus']}) steps {counts['steps']}; judge violations {counts['judge']} "
                   f"{counts['clauses'] or ''}, model mismatches {counts['model']}, crashes {counts['crash']}; {counts['wall_s']}s")
    return counts, viol


def run(tier, seed, replay=None):
    """stand-alone entry: Lean build + axiom audit of Props/C15Pollable, then the differential run"""
    t0 = time.time()
    v = core.Verdict(PROP, seed)
    if os.path.isdir(core.REPLAYS):
        for f in os.listdir(core.REPLAYS):
            if f.startswith(f"{PROP}-") and "-pollable-" in f:
                os.unlink(os.path.join(core.REPLAYS, f))
    st = lean.prepare(MODULES)
    core.log(PROP, f"lean: {len(st.discharged)}/{len(st.theorems)} theorems re-checked; {st.build_s:.1f}s")
    counts, viol = run_part(tier, seed, st, replay)
    found_input = False
    for tag, payload, no_input in viol:
        v.violation(tag, payload, no_input=no_input)
        found_input = found_input or not no_input
    if not found_input and not st.ok:
        v.violation("pollable-proof", {"kind": "proof obligation no longer checks", "broken": st.broken, "log": st.log[-3000:]}, no_input=True)
    cov = {"obligations": len(st.theorems), "discharged": len(st.discharged),
           "checker_cmd": "lake build NngModel.Props.C15Pollable && lake env lean <#print axioms for each theorem>",
           "trusted_base": ["Lean 4.33.0 kernel", "axioms: " + ", ".join(sorted({a for x in st.axioms.values() if x for a in x})),
                            "harness/u_pollable.c (hooks on the atomics/pipe calls of the real pollable.c; real kernel pipe; poll(2)/FIONREAD)",
                            "vlib/props/c15_pollable.py", "sequential consistency of the posix_atomic.c atomics"],
           "theorems": st.discharged, "axioms": st.axioms, "broken": st.broken,
           "evaluations": counts["cases"], "distinct_nontrivial": counts["distinct"], "rule": RULE, "samples": counts["samples"],
           "pollable_part": {k: counts[k] for k in counts if k != "samples"}}
    ev = core.write_evidence(PROP + "-pollable", tier, seed, "proof", cov,
                             ["raise/clear of one pollable are serialised by the protocol's socket mutex (audited call sites; exceptions listed "
                              "in integration/POLLB.md)", "nni_plat_pipe_clear's read loop is linearised at its last read"],
                             time.time() - t0, len(v.violations))
    ev["property_id"] = PROP
    json.dump(ev, open(os.path.join(core.EVIDENCE, f"{PROP}-pollable.json"), "w"), indent=1)
    return v.finish()
