"""C10 / C03, reaper layer — src/core/reap.c (one reaper thread, client threads calling nni_reap / nni_reap_sys_drain /
nni_reap_sys_fini, reap functions that reap a further object) under thread schedules.

Lean: NngModel.Props.C10Reap (all schedules, all numbers of lists, all client programs; K1 each object handed over once,
K2 fini last).  Tie to the code: harness/u_reap.c replays a schedule on the REAL reap.c one critical section at a time
(hooks on nni_mtx_lock/unlock, nni_cv_wait/wake/wake1, the creation and the join of reap_worker; the reap function parks
at its entry) and prints one observation per step.  The same schedules go through the Lean model (`reap-model`,
line-exact comparison incl. reap_empty, reap_exit, rl_nodes of every list, the global list and the call each thread is
parked at) and the implementation's observations are judged by the Lean predicate (`reap-judge`, Model/ReapObs.lean).

 judge rejects an implementation trace  -> VIOLATION with the minimised schedule as replay
 only impl != model                     -> VIOLATION ... no-failing-input-found

Used by vlib/props/c10.py through `run_part`."""
import os, re, json, time
from .. import core, build, lean

PROP = "C10"
SUB = "reap"
CORPUS = "C10R"
MODULES = ["NngModel.Props.C10Reap"]
RULE = ("schedules for harness/u_reap.c: (1) corpus/C10R/reap-*; (2) ALL maximal interleavings of the configurations in "
        "EXHAUSTIVE (1-3 lists, 1-3 clients, nested reaps, drains, fini), capped per configuration at 1500 (quick) / 30000 "
        "(thorough) leaves of a depth-first enumeration with seeded child order; (3) random schedules from "
        "splitmix64(seed,C10,tier,reap,i): 1-4 lists, 1-4 clients, programs of 1-6 calls (reap 60% - a third of them with a "
        "child -, drain 40%), nni_reap_sys_fini as the last call of client 0 in half of the cases (issued only when the "
        "other clients have finished: contract K2), bursty choice among the threads that can move, 4% choices of "
        "parked / finished / non-existent threads (must be no-ops); every schedule runs until nothing can move; "
        "distinct = distinct op lists")

EXHAUSTIVE = [
    (1, ["r0:1"]), (1, ["r0:1.d"]), (1, ["r0:1", "d"]), (2, ["r0:1.r1:2", "d"]), (2, ["r0:1:1:2.d"]), (2, ["r0:1:1:2", "d"]),
    (1, ["r0:1.d.f"]), (1, ["r0:1.f"]), (2, ["r0:1:0:2.f"]), (1, ["r0:1.r0:2", "d.d"]), (2, ["r1:1", "r0:2", "d"]),
    (1, ["d.r0:1.d"]), (2, ["r0:1.d.f", "r1:2"]), (2, ["r0:1:1:2", "r1:3.d"]), (1, ["d", "d", "r0:1"]), (3, ["r2:1:0:2.r1:3", "d"]),
]

# larger configurations, thorough tier only (three clients, nested reaps on both lists, drains racing the worker, fini)
EXHAUSTIVE_THOROUGH = [
    (2, ["r0:1:1:2.d", "r1:3.d", "d"]), (2, ["r0:1.r1:2.d.f", "r0:3:1:4"]), (3, ["r0:1:1:2", "r1:3:2:4", "d.d"]),
    (2, ["r0:1.d.r0:2.d", "r1:3.d"]),
]


# ---------------------------------------------------------------- schedule generator's own little interpreter
# (used ONLY to know which threads can move / stay within the contract; nothing is judged with it)
class Gen:
    def __init__(self, nl, progs):
        self.nodes = [[] for _ in range(nl)]
        self.inited = [False] * nl
        self.order = []
        self.empty = self.exit = False
        self.w = ("top",)
        self.cs = [["ready", [self._op(w) for w in p.split(".")] if p != "-" else []] for p in progs]

    @staticmethod
    def _op(w):
        if w in ("d", "f"):
            return (w,)
        f = [int(x) for x in w[1:].split(":")]
        return ("r", f[0], f[1], (f[2], f[3]) if len(f) == 4 else None)

    def clone(self):
        c = Gen.__new__(Gen)
        c.__dict__.update(self.__dict__)
        c.nodes = [list(n) for n in self.nodes]
        c.inited = list(self.inited)
        c.order = list(self.order)
        c.cs = [[pc, list(pr)] for pc, pr in self.cs]
        return c

    def names(self):
        return ["w"] + [f"c{i}" for i in range(len(self.cs))]

    def can_move(self, t):
        if t == "w":
            return self.w not in (("asleep", False), ("fin",))
        k = int(t[1:])
        if k >= len(self.cs):
            return False
        pc, pr = self.cs[k]
        if pc == "ready":
            return bool(pr)
        if pc == "drainSleep":
            return False
        if pc == "drainWoken":
            return True
        return self.w == ("fin",)          # joining

    def allowed(self, t):
        if t == "w":
            return True
        k = int(t[1:])
        if k >= len(self.cs):
            return True
        pc, pr = self.cs[k]
        if pc == "ready" and pr and pr[0] == ("f",):
            return len(pr) == 1 and all(j == k or (c[0] == "ready" and not c[1]) for j, c in enumerate(self.cs))
        return True

    def enabled(self):
        return [t for t in self.names() if self.can_move(t) and self.allowed(t)]

    def _reap(self, l, node):
        if l >= len(self.nodes):
            return
        if not self.inited[l]:
            self.inited[l] = True
            self.order.insert(0, l)
        self.empty = False
        self.nodes[l].insert(0, node)
        if self.w[0] == "asleep":
            self.w = ("asleep", True)

    def _find(self, pos):
        for k, l in enumerate(pos):
            if self.nodes[l]:
                b = self.nodes[l]
                self.nodes[l] = []
                return b, pos[k + 1:]
        return None

    def _pass_empty(self):
        self.empty = True
        for c in self.cs:
            if c[0] == "drainSleep":
                c[0] = "drainWoken"
        self.w = ("fin",) if self.exit else ("asleep", False)

    def _scan(self, pos, reaped):
        f = self._find(pos)
        if f is None and reaped:
            f = self._find(list(self.order))
        if f is None:
            self._pass_empty()
        else:
            self.w = ("run", f[0], f[1])

    def _after(self, rest, pos):
        self.w = ("run", rest, pos) if rest else ("relock", pos)

    def step(self, t):
        if not self.can_move(t):
            return
        if t == "w":
            w = self.w
            if w[0] in ("top", "asleep"):
                self._scan(list(self.order), False)
            elif w[0] == "relock":
                self._scan(w[1], True)
            elif w[0] == "run":
                n, rest = w[1][0], w[1][1:]
                if n[1] is None:
                    self._after(rest, w[2])
                else:
                    self.w = ("nest", n[1], rest, w[2])
            elif w[0] == "nest":
                self._after(w[2], w[3])
                self._reap(w[1][0], (w[1][1], None))
            return
        c = self.cs[int(t[1:])]
        if c[0] == "ready":
            op = c[1].pop(0)
            if op[0] == "r":
                self._reap(op[1], (op[2], op[3]))
            elif op[0] == "d":
                if not self.empty:
                    c[0] = "drainSleep"
            else:
                self.exit = True
                if self.w[0] == "asleep":
                    self.w = ("asleep", True)
                c[0] = "joining"
        elif c[0] == "drainWoken":
            c[0] = "ready" if self.empty else "drainSleep"
        elif c[0] == "joining":
            c[0] = "ready"


def all_interleavings(nl, progs, limit, rng):
    out = []
    head = f"init {nl} {','.join(progs)}"

    def dfs(st, ops):
        if len(out) >= limit:
            return
        en = st.enabled()
        if not en or len(ops) > 80:
            out.append([head] + ops)
            return
        en = [x for _, x in sorted((rng.below(1 << 20), x) for x in en)]
        for t in en:
            s2 = st.clone()
            s2.step(t)
            dfs(s2, ops + [f"step {t}"])
            if len(out) >= limit:
                return
    dfs(Gen(nl, progs), [])
    return out


def gen_random(r):
    nl = 1 + r.below(4)
    nc = 1 + r.below(4)
    nid = [0]

    def fresh():
        nid[0] += 1
        return nid[0]
    progs = []
    for i in range(nc):
        p = []
        for _ in range(1 + r.below(6)):
            if r.chance(3, 5):
                l, i1 = r.below(nl), fresh()
                p.append(f"r{l}:{i1}:{r.below(nl)}:{fresh()}" if r.chance(1, 3) else f"r{l}:{i1}")
            else:
                p.append("d")
        progs.append(p)
    if r.chance(1, 2):
        progs[0].append("f")
    ptxt = [".".join(p) for p in progs]
    st = Gen(nl, ptxt)
    ops = [f"init {nl} {','.join(ptxt)}"]
    cur = None
    for _ in range(400):
        en = st.enabled()
        if not en:
            break
        if r.chance(1, 25):
            t = r.choice(st.names() + [f"c{nc}"])
            if not st.allowed(t):
                continue
        elif cur in en and r.chance(2, 3):
            t = cur
        else:
            t = r.choice(en)
        cur = t
        st.step(t)
        ops.append(f"step {t}")
    return ops


# ---------------------------------------------------------------- running
def run_three(cases, exe, with_lean):
    parts = core.chunked(list(enumerate(cases)), core.NCPU * 2)
    env = build.env()

    def work(part):
        text = core.cases_to_text([c for _, c in part])
        a = core.run_stream([exe], text, env=env, timeout=1800)
        ic, partial = core.split_cases(a.lines)
        if partial and len(ic) < len(part):
            ic.append(partial)
        jc = mc = None
        if with_lean:
            jc = core.split_cases(core.run_stream(lean.driver_cmd("reap-judge"), "\n".join(a.lines) + "\nreset\n", timeout=1800).lines)[0]
            mc = core.split_cases(core.run_stream(lean.driver_cmd("reap-model"), text, timeout=1800).lines)[0]
        return part, a, ic, partial, jc, mc

    res, crashes = {}, []
    for part, a, ic, partial, jc, mc in core.parallel_map(work, parts):
        if a.rc != 0 or len(ic) != len(part):
            k = max(0, len(ic) - 1) if partial else len(ic)
            idx, ops = part[k] if k < len(part) else part[-1]
            crashes.append({"case": idx, "ops": ops, "rc": a.rc, "stderr": a.err[-3000:], "done_ops": len(partial)})
        for j, (idx, ops) in enumerate(part):
            res[idx] = (ic[j] if j < len(ic) else None, jc[j] if jc is not None and j < len(jc) else None,
                        mc[j] if mc is not None and j < len(mc) else None)
    return res, crashes


def judge_one(exe, ops):
    text = core.cases_to_text([ops])
    a = core.run_stream([exe], text, env=build.env(), timeout=120)
    il = core.split_cases(a.lines)[0]
    il = il[0] if il else a.lines
    j = core.run_stream(lean.driver_cmd("reap-judge"), "\n".join(il) + "\nreset\n", timeout=120)
    jl = core.split_cases(j.lines)[0]
    jl = jl[0] if jl else j.lines
    m = core.run_stream(lean.driver_cmd("reap-model"), text, timeout=120)
    ml = core.split_cases(m.lines)[0]
    ml = ml[0] if ml else m.lines
    clause = next((l.split(None, 1)[1] for l in jl if l.startswith("VIOLATION")), None)
    if a.rc != 0:
        clause = clause or f"crash rc={a.rc}"
    return il, jl, ml, clause


def minimise(exe, ops, clause, budget_s=40):
    head, steps = ops[:1], ops[1:]

    def fails(o):
        return judge_one(exe, head + o)[3] == clause

    if not fails(steps):
        return ops
    return head + core.ddmin(steps, fails, budget_s)


def load_corpus():
    out = []
    d = os.path.join(core.HERE, "corpus", CORPUS)
    if os.path.isdir(d):
        for f in sorted(os.listdir(d)):
            if f.startswith("reap-"):
                out.append((f, [l.strip() for l in open(os.path.join(d, f)) if l.strip() and not l.startswith("#")]))
    return out


CLAUSE_TEXT = {
    "reaped-twice": "the reap function was entered twice for one object (double free)",
    "reaped-unsubmitted": "the reap function ran on an object nni_reap was never called with",
    "drain-returned-early": "nni_reap_sys_drain returned while an object handed to the reaper had not been finalised",
    "stuck": "nothing can move and a client is still inside nni_reap_sys_drain / nni_reap_sys_fini, or an object was left behind",
}


def run_part(tier, seed, st, replay=None):
    """-> (counts dict, [(tag, payload, no_input)])"""
    t0 = time.time()
    counts = {"cases": 0, "steps": 0, "exhaustive": 0, "random": 0, "corpus": 0, "judge": 0, "model": 0, "crash": 0, "distinct": 0,
              "complete_runs": 0, "objects_reaped": 0, "drains_true": 0, "drains_false": 0, "fini_runs": 0, "clauses": {}, "next_hist": {},
              "samples": [], "wall_s": 0.0}
    viol = []
    try:
        exe = build.harness("u_reap", ["u_reap.c"])
    except build.BuildError as e:
        viol.append(("reap-build", {"kind": "build", "sub": SUB, "error": str(e), "log": e.log[-4000:]}, True))
        return counts, viol
    with_lean = bool(st.driver_ok)
    cases = []
    if replay:
        rp = json.load(open(replay)) if isinstance(replay, str) else replay
        if rp.get("sub") != SUB or "ops" not in rp:
            return counts, viol
        cases.append(list(rp["ops"]))
    else:
        for _, ops in load_corpus():
            cases.append(ops); counts["corpus"] += 1
        lim = 1500 if tier == "quick" else 30000
        for k, (nl, progs) in enumerate(EXHAUSTIVE + (EXHAUSTIVE_THOROUGH if tier != "quick" else [])):
            cs = all_interleavings(nl, progs, limit=lim, rng=core.Rng(seed, PROP, tier, SUB, "dfs", k))
            cases += cs; counts["exhaustive"] += len(cs)
        nrand = 2500 if tier == "quick" else 50000
        for i in range(nrand):
            cases.append(gen_random(core.Rng(seed, PROP, tier, SUB, i)))
        counts["random"] = nrand
    counts["cases"] = len(cases)
    counts["steps"] = sum(len(c) - 1 for c in cases)
    counts["distinct"] = len({tuple(c) for c in cases})
    if cases:
        counts["samples"] = [{"sub": SUB, "ops": c[:40]} for c in (cases[0], cases[len(cases) // 2], cases[-1])]
    res, crashes = run_three(cases, exe, with_lean)
    counts["crash"] = len(crashes)
    jv, mv = [], []
    for idx in range(len(cases)):
        il, jl, ml = res.get(idx, (None, None, None))
        if il is None:
            continue
        for l in il[-1:]:
            m = re.search(r"next=(\S+)", l)
            if m:
                for w in re.split(r"[,|]", m.group(1)):
                    if w:
                        counts["next_hist"][w] = counts["next_hist"].get(w, 0) + 1
            m = re.search(r" fin=(\S+) res=(\S+) live=(\d) allfin=(\d) empty=\d exit=(\d)", l)
            if m:
                counts["objects_reaped"] += 0 if m.group(1) == "-" else len(m.group(1).split("."))
                counts["drains_true"] += m.group(2).count("t")
                counts["drains_false"] += m.group(2).count("f")
                if m.group(3) == "0" and m.group(4) == "1":
                    counts["complete_runs"] += 1
                if m.group(5) == "1":
                    counts["fini_runs"] += 1
        if jl is not None:
            bad = next((l for l in jl if l.startswith("VIOLATION") or l == "bad-obs"), None)
            if bad:
                clause = bad.split(None, 1)[1] if " " in bad else bad
                counts["clauses"][clause] = counts["clauses"].get(clause, 0) + 1
                jv.append((idx, clause))
        if ml is not None and ml[:len(il)] != il:
            t = next((k for k, (x, y) in enumerate(zip(il, ml)) if x != y), min(len(il), len(ml)))
            mv.append((idx, t))
    counts["judge"], counts["model"] = len(jv), len(mv)
    found_input = False
    for c in crashes[:2]:
        viol.append((f"reap-crash-{c['case']}", {"kind": "crash / hang / sanitizer report of the real reap.c under the schedule",
                                                 "sub": SUB, "ops": c["ops"], "rc": c["rc"], "stderr": c["stderr"]}, False))
        found_input = True
    seen = set()
    for idx, clause in jv:
        if clause in seen:
            continue
        seen.add(clause)
        ops = minimise(exe, cases[idx], clause) if with_lean else cases[idx]
        il, jl, ml, cl = judge_one(exe, ops)
        viol.append((f"reap-judge-{idx}", {
            "kind": "implementation observations violate the reaper specification (Model/ReapObs.lean): " + CLAUSE_TEXT.get(clause, clause),
            "clause": clause, "sub": SUB, "ops": ops, "impl": il, "judge": jl, "model": ml,
            "how_to_read": "ops: `init <reap lists> <client programs: r<list>:<object>[:<child list>:<child object>] nni_reap, d nni_reap_sys_drain, "
                           "f nni_reap_sys_fini>`, `step <w|c<i>>` = that thread performs the critical section / reap function it is parked at (see next=)",
            "violating_cases_with_this_clause": counts["clauses"].get(clause, 0)}, False))
        found_input = True
        if len(seen) >= 3:
            break
    if not found_input and mv:
        idx, t = mv[0]
        il, jl, ml, _ = judge_one(exe, cases[idx])
        viol.append(("reap-corr", {"kind": "correspondence broken: the real reap.c differs step-for-step from the Lean model the "
                                           "C10Reap theorems are about (no schedule violating the specification was found)",
                                   "sub": SUB, "correspondence": "reap-model vs harness/u_reap.c",
                                   "ops": cases[idx], "first": {"op_index": t, "impl": il[t] if t < len(il) else None,
                                                                "model": ml[t] if t < len(ml) else None},
                                   "mismatching_cases": len(mv)}, True))
    counts["wall_s"] = round(time.time() - t0, 1)
    core.log(PROP, f"reap: cases {counts['cases']} (exhaustive {counts['exhaustive']}, random {counts['random']}, corpus {counts['corpus']}; "
                   f"{counts['complete_runs']} run to completion, {counts['fini_runs']} with fini) steps {counts['steps']}; objects reaped "
                   f"{counts['objects_reaped']}, drains t/f {counts['drains_true']}/{counts['drains_false']}; judge violations "
                   f"{counts['judge']} {counts['clauses'] or ''}, model mismatches {counts['model']}, crashes {counts['crash']}; {counts['wall_s']}s")
    return counts, viol
