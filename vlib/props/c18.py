"""C18 — bounded FIFO queues (nni_lmq, nni_msgq) and identifier maps (nni_id_map).
UNIT executor: the real nni_lmq_* / nni_msgq_* / nng_id_* functions against the Lean
specification (bounded FIFO, FIFO channel, finite map with id cursor) and the Lean models."""
import re, time, os, json
from .. import core, build, lean, unit
from . import c18_notify

PROP = "C18"
MODULES = ["NngModel.Props.C18"] + c18_notify.MODULES
COMPONENTS = [  # (name, harness, spec component, model component)
    ("lmq", "u_lmq", "lmq-spec", "lmq-model"),
    ("msgq", "u_msgq", "msgq-spec", "msgq-model"),
    ("idmap", "u_idmap", "idmap-spec", "idmap-model"),
]
MODEL_ONLY = ("g=", "p=", "al=", "snd=", "rcv=", "tcap=", "load=", "dyn=")
MAXOPS = 80
U64 = (1 << 64) - 1


def proj_spec(l):
    return " ".join(w for w in l.split() if not (w.startswith(MODEL_ONLY) or w == "UNSAFE"))


# ------------------------------------------------------------------ lmq
LMQ_CAPS = [0, 1, 2, 3, 4, 5, 7, 8, 9, 15, 16, 17, 24, 31, 32]


def ceil_pow2(c):
    a = 2
    while a < c:
        a *= 2
    return a


def gen_lmq(r):
    """init; rotate the ring to a chosen offset; fill to a chosen level; resize so that the
    surviving window crosses the array end / fills the new array exactly; then a random mix."""
    ops = []
    tag = [0]

    def put():
        tag[0] += 1
        ops.append(f"put {tag[0]}")

    cap = r.choice(LMQ_CAPS)
    ops.append(f"init {cap}")
    length = 0
    alloc = 2 if cap <= 2 else ceil_pow2(cap)
    if cap > 0:
        off = r.range(0, alloc - 1) if r.chance(3, 4) else 0
        off = min(off, 20)
        for _ in range(off):
            put(); ops.append("get")
        fill = r.choice([0, 1, cap, cap, max(cap - 1, 0), r.range(0, cap)])
        fill = min(fill, 34)
        for _ in range(fill):
            put()
        length = fill
    budget = r.range(len(ops) + 4, MAXOPS)
    while len(ops) < budget:
        k = r.below(100)
        if k < 16:
            # resize target: exact power of two at or below the fill level, the fill level itself,
            # one off, or anything from the palette
            cands = [c for c in (1, 2, 4, 8, 16, 32) if c <= max(length, 1)]
            nc = r.choice([r.choice(cands), length, length + 1, max(length - 1, 0), r.choice(LMQ_CAPS), r.choice(LMQ_CAPS)])
            if r.chance(1, 12):
                ops.append("fail")
            ops.append(f"resize {nc}")
            cap = nc; length = min(length, nc)
        elif k < 19:
            ops.append("flush"); length = 0
        elif k < 60:
            put(); length = min(length + 1, cap)
        else:
            ops.append("get"); length = max(length - 1, 0)
    # drain: everything that is left comes out in order
    for _ in range(min(length + 1, 40)):
        ops.append("get")
    return ops


# ------------------------------------------------------------------ msgq
class ChanSim:
    """generator-side bookkeeping only (which aios are parked, rough fill level); never used for a verdict"""

    def __init__(self, cap):
        self.cap, self.items, self.putq, self.getq, self.closed = cap, 0, [], [], False

    def busy(self):
        return set(self.putq) | set(self.getq)

    def tryput(self):
        if self.closed:
            return
        if self.getq:
            self.getq.pop(0)
        elif self.items < self.cap:
            self.items += 1

    def aput(self, a):
        self.putq.append(a)
        while self.putq:
            if self.getq:
                self.getq.pop(0); self.putq.pop(0)
            elif self.items < self.cap:
                self.items += 1; self.putq.pop(0)
            else:
                break

    def aget(self, a):
        self.getq.append(a)
        while self.getq:
            if self.items:
                self.items -= 1; self.getq.pop(0)
            elif self.putq:
                self.putq.pop(0); self.getq.pop(0)
            else:
                break

    def cancel(self, a):
        self.putq = [x for x in self.putq if x != a]
        self.getq = [x for x in self.getq if x != a]

    def close(self):
        self.closed = True; self.items = 0; self.putq = []; self.getq = []

    def resize(self, c):
        self.items = min(self.items, c + 1); self.cap = c


MSGQ_CAPS = [0, 1, 2, 3, 4, 5, 6, 7, 8, 10, 14, 16]


def gen_msgq(r):
    ops = []
    tag = [0]

    def t():
        tag[0] += 1
        return tag[0]

    cap = r.choice(MSGQ_CAPS)
    sim = ChanSim(cap)
    ops.append(f"init {cap}")
    # ring offset: pass `off` messages through (each tryput lands in the ring when cap > 0)
    if cap > 0:
        off = min(r.range(0, cap + 1), 18) if r.chance(3, 4) else 0
        for _ in range(off):
            ops.append(f"tryput {t()}"); ops.append("aget 7")
        fill = min(r.choice([0, cap, cap, max(cap - 1, 0), r.range(0, cap)]), 18)
        for _ in range(fill):
            ops.append(f"tryput {t()}"); sim.tryput()
    budget = r.range(len(ops) + 4, MAXOPS - 12)
    while len(ops) < budget:
        k = r.below(100)
        free = [a for a in range(8) if a not in sim.busy()]
        if k < 14:
            nc = r.choice([0, 0, 1, max(sim.items - 2, 0), max(sim.items - 1, 0), sim.items, r.choice(MSGQ_CAPS), r.choice(MSGQ_CAPS)])
            if r.chance(1, 12):
                ops.append("fail")
            ops.append(f"resize {nc}"); sim.resize(nc)
        elif k < 40:
            ops.append(f"tryput {t()}"); sim.tryput()
        elif k < 58 and free:
            a = r.choice(free); ops.append(f"aput {a} {t()}"); sim.aput(a)
        elif k < 88 and free:
            a = r.choice(free); ops.append(f"aget {a}"); sim.aget(a)
        elif k < 94:
            a = r.choice(sorted(sim.busy())) if sim.busy() and r.chance(4, 5) else r.below(8)
            ops.append(f"cancel {a}"); sim.cancel(a)
        elif k < 96 and len(ops) > 30:
            ops.append("close"); sim.close()
        elif k < 97 and not free:
            ops.append(f"aget {r.below(8)}")  # a busy aio: all three must say `busy`
        else:
            ops.append(f"tryput {t()}"); sim.tryput()
    # drain
    for _ in range(12):
        free = [a for a in range(8) if a not in sim.busy()]
        if not free or (sim.items == 0 and not sim.putq):
            break
        a = free[0]; ops.append(f"aget {a}"); sim.aget(a)
    return ops


# ------------------------------------------------------------------ idmap
ID_RANGES = [(0, 0), (1, 2), (1, 3), (3, 5), (7, 10), (100, 107), (1, 16), (9, 40), (0, 3), (5, 0),
             ((1 << 32) - 4, (1 << 32) + 3), ((1 << 31), (1 << 31) + 5), (U64 - 9, U64 - 1), (U64 - 3, U64)]


def gen_idmap(r):
    ops = []
    lo, hi = r.choice(ID_RANGES)
    rnd = 1 if r.chance(1, 3) and hi != U64 else 0
    ops.append(f"init {lo} {hi} {rnd}")
    elo = lo or 1
    ehi = hi or 0xffffffff
    stride = r.choice([8, 8, 16, 32, 64, 1])
    base = r.choice([0, 1, 5, elo, elo & ~7, r.range(0, 40)])
    keys = set()

    def key():
        return key0() & U64

    def key0():
        k = r.below(10)
        if k < 5:
            return base + stride * r.range(0, 12)         # collide modulo 8/16/32
        if k < 7:
            return min(elo + r.range(0, 12), ehi)          # inside the allocation range
        if k < 8 and keys:
            return r.choice(sorted(keys))
        if k < 9:
            return r.choice([0, 1, 7, 8, 9, 1 << 32, (1 << 32) + 8, U64, U64 - 7])
        return r.range(0, 70)

    mode = r.below(5)  # 0: bulk grow then shrink; else mixed
    n = r.range(8, MAXOPS - 2)
    while len(ops) < n:
        k = r.below(100)
        if mode == 0:
            phase = len(ops) * 2 // n
            k = (k % 45) if phase == 0 else 45 + (k % 55)
        if r.chance(1, 40):
            ops.append("fini")          # the library finalises its registered maps at nng_fini and uses them again
            keys.clear()
            continue
        if r.chance(1, 30):
            ops.append("fail")
            ops.append(r.choice([f"set {key()} {r.range(1, 255)}", f"alloc {r.range(1, 255)} {r.next() % (1 << 32)}",
                                 f"remove {r.choice(sorted(keys)) if keys else 1}"]))
            continue
        if k < 22:
            kk = key(); keys.add(kk); ops.append(f"set {kk} {r.range(1, 255)}")
        elif k < 45:
            ops.append(f"alloc {r.range(1, 255)} {r.next() % (1 << 32)}")
            for j in range(0, 3):
                keys.add(min(elo + len(ops) % 17 + j, ehi))
        elif k < 72:
            kk = r.choice(sorted(keys)) if keys and r.chance(5, 6) else key()
            ops.append(f"remove {kk}")
        elif k < 92:
            kk = r.choice(sorted(keys)) if keys and r.chance(3, 4) else key()
            ops.append(f"get {kk}")
        else:
            ops.append("visit")
    ops.append("visit")
    return ops


GENS = {"lmq": gen_lmq, "msgq": gen_msgq, "idmap": gen_idmap}
SHARE = {"lmq": 3, "msgq": 3, "idmap": 2}  # of 8


def directed(comp):
    cs = []
    if comp == "lmq":
        # resize to exactly the number of queued messages (a power of two), then get + put
        for c in (2, 4, 8, 16):
            for extra in (0, 1, 3):
                o = [f"init {c + extra + 1}"] + [f"put {i + 1}" for i in range(c + extra)] + [f"resize {c}", "get", f"put 100", "get"]
                o += ["get"] * c + ["put 101", "get"]
                cs.append(o)
    if comp == "msgq":
        # F1 shape: ring offset so that the drop loop of resize reaches the end of the array
        for cap in (2, 4, 8):
            for off in range(0, cap + 2):
                o = [f"init {cap}"]
                t = 1
                for _ in range(off):
                    o += [f"tryput {t}", "aget 0"]; t += 1
                for _ in range(cap):
                    o.append(f"tryput {t}"); t += 1
                o += ["resize 0", "aget 1", "aget 2", f"tryput {t}", "aget 3", "resize 3", f"tryput {t + 1}", "aget 4"]
                cs.append(o)
    if comp == "idmap":
        cs.append(["init 1 3 0", "alloc 1 0", "alloc 2 0", "alloc 3 0", "alloc 4 0", "remove 2", "alloc 5 0", "alloc 6 0",
                   "remove 1", "remove 3", "alloc 7 0", "alloc 8 0", "visit"])
        cs.append(["init 1 100 0", "alloc 1 0", "alloc 2 0", "alloc 3 0", "fini", "alloc 4 0", "alloc 5 0", "visit", "fini", "fini", "alloc 6 0", "visit"])
        cs.append(["init 0 0 1", "alloc 1 77", "alloc 2 78", "fini", "alloc 3 5", "set 9 9", "fini", "get 9", "alloc 4 6", "visit"])
        cs.append(["init 0 0 0"] + [f"set {8 * i} {i + 1}" for i in range(12)] + [f"get {8 * i}" for i in range(13)] +
                  [f"remove {8 * i}" for i in range(0, 12, 2)] + [f"get {8 * i}" for i in range(12)] + ["visit"])
    return cs


def make_spec_rewrite(comp):
    def rw(ops, impl_lines):
        out = []
        for k, op in enumerate(ops):
            if k < len(impl_lines) and impl_lines[k].split()[0:1] == ["2"] and k > 0 and ops[k - 1] == "fail":
                out.append("alloc_fail " + " ".join(op.split()[1:]) if comp == "idmap" and op.startswith("alloc ") else "enomem")
            else:
                out.append(op)
        return out
    return rw


def make_judge(comp):
    def judge(ops, il):
        for k, (op, l) in enumerate(zip(ops, il)):
            w = l.split()
            if comp != "idmap" and w[0:1] == ["2"] and (k == 0 or ops[k - 1] != "fail"):
                return f"NNG_ENOMEM without an allocation failure on `{op}`"
            if comp == "lmq":
                m = re.search(r" len=(\d+) cap=(\d+)", l)
                if m and int(m.group(1)) > int(m.group(2)):
                    return f"queue holds {m.group(1)} messages with capacity {m.group(2)} after `{op}`"
            if "BAD" in l or "DUP" in l or "CORRUPT" in l or "NULL" in l:
                return f"queue handed out a message it should not have after `{op}`: {l}"
        return None
    return judge


def run(tier, seed, replay=None):
    t0 = time.time()
    v = core.Verdict(PROP, seed)
    core.clear_replays(PROP)
    st = lean.prepare(MODULES)
    core.log(PROP, f"lean: {len(st.discharged)}/{len(st.theorems)} theorems re-checked; extract {st.extract_count} constants "
                   f"(changed: {st.extract_changed}); {st.build_s:.1f}s")
    total = 4000 if tier == "quick" else 80000
    found_input = False
    summary, allcases, samples = {}, 0, []
    distinct = 0
    op_hist, rv_hist = {}, {}
    counts = {"spec": 0, "model": 0, "crash": 0}
    rp = json.load(open(replay)) if replay else None
    for comp, hname, specc, modelc in COMPONENTS:
        if rp and rp.get("component", comp) != comp:
            continue
        try:
            exe = build.harness(hname, [hname + ".c"])
        except build.BuildError as e:
            v.violation(f"build-{comp}", {"kind": "build", "component": comp, "error": str(e), "log": e.log[-4000:]}, no_input=True)
            continue
        if rp:
            cases = [rp["ops"]] if "ops" in rp else []
        else:
            cases = directed(comp)
            corpus = os.path.join(core.HERE, "corpus", PROP)
            if os.path.isdir(corpus):
                for f in sorted(os.listdir(corpus)):
                    if f.startswith(comp + "-"):
                        cases.append([l.strip() for l in open(os.path.join(corpus, f)) if l.strip() and not l.startswith("#")])
            for i in range(total * SHARE[comp] // 8):
                cases.append(GENS[comp](core.Rng(seed, PROP, tier, comp, i)))
        rw, judge = make_spec_rewrite(comp), make_judge(comp)
        ok = st.driver_ok
        res = unit.run_unit(PROP, cases, exe, specc if ok else None, modelc if ok else None, proj_spec, judge=judge, spec_rewrite=rw)
        core.log(PROP, f"{comp}: cases {res.cases} ops {res.ops}; spec mismatches {len(res.spec_mismatch)}, model mismatches "
                       f"{len(res.model_mismatch)}, crashes {len(res.crashes)}")
        summary[comp] = {"cases": res.cases, "ops": res.ops, "spec_mismatches": len(res.spec_mismatch),
                         "model_mismatches": len(res.model_mismatch), "crashes": len(res.crashes)}
        allcases += res.cases
        distinct += len({tuple(c) for c in cases if len(c) > 5})
        samples += [cases[len(cases) // 2], cases[-1]]
        for k, n in res.op_hist.items():
            op_hist[f"{comp}.{k}"] = n
        for k, n in res.rv_hist.items():
            rv_hist[f"{comp}.{k}"] = n
        counts["spec"] += len(res.spec_mismatch); counts["model"] += len(res.model_mismatch); counts["crash"] += len(res.crashes)
        for c in res.crashes[:2]:
            ops = unit.minimise(exe, specc, c["ops"], proj_spec, spec_rewrite=rw)
            v.violation(f"{comp}-crash-{c['case']}", {"kind": "sanitizer/crash on the implementation", "component": comp, "ops": ops,
                                                      "rc": c["rc"], "stderr": c["stderr"][-3000:]})
            found_input = True
        for mm in res.spec_mismatch[:2]:
            ops = unit.minimise(exe, specc, mm["ops"], proj_spec, spec_rewrite=rw) if mm["spec"] != "judge" else mm["ops"]
            s = unit.single(exe, specc, None, ops, spec_rewrite=rw)
            v.violation(f"{comp}-spec-{mm['case']}", {"kind": "implementation output differs from the C18 specification "
                                                              "(bounded FIFO / FIFO channel / finite map with id cursor)",
                                                      "component": comp, "ops": ops, "impl": s["impl"].lines, "spec": s["spec"].lines,
                                                      "first": {k: mm[k] for k in ("impl", "spec", "op_index")}})
            found_input = True
        if not res.crashes and not res.spec_mismatch and res.model_mismatch:
            mm = res.model_mismatch[0]
            ops = unit.minimise(exe, modelc, mm["ops"], lambda l: l)
            s = unit.single(exe, None, modelc, ops)
            summary[comp]["corr"] = {"kind": "correspondence broken: implementation differs from the Lean model the C18 theorems are "
                                             "about (no input violating the specification was found)",
                                     "component": comp, "correspondence": f"{modelc} vs {hname}", "ops": ops,
                                     "impl": s["impl"].lines, "model": s["model"].lines,
                                     "mismatching_cases": len(res.model_mismatch)}
    # the pollable levels of the msgq (C18N): own harness mode, own Lean components, own judge
    ncounts, nviol = c18_notify.run_part(tier, seed, st, rp)
    allcases += ncounts["cases"]; distinct += ncounts["distinct"]
    samples += ncounts.pop("samples", [])[:2]
    counts["spec"] += ncounts["judge"] + ncounts["spec"]; counts["model"] += ncounts["model"]; counts["crash"] += ncounts["crash"]
    for tag, payload, no_input in nviol:
        if not no_input:
            v.violation(tag, payload)
            found_input = True
    if not found_input:
        for tag, payload, no_input in nviol:
            if no_input:
                v.violation(tag, payload, no_input=True)
        for comp in summary:
            if "corr" in summary[comp]:
                v.violation(f"{comp}-corr", summary[comp]["corr"], no_input=True)
        if not st.ok:
            v.violation("proof", {"kind": "proof obligation no longer checks", "broken": st.broken, "log": st.log[-3000:]}, no_input=True)
    for comp in summary:
        summary[comp].pop("corr", None)
    cov = {
        "obligations": len(st.theorems), "discharged": len(st.discharged),
        "checker_cmd": "lake build NngModel.Props.C18 NngModel.Props.C18Notify && lake env lean <#print axioms for each theorem>",
        "trusted_base": ["Lean 4.33.0 kernel", "axioms: " + ", ".join(sorted({a for x in st.axioms.values() if x for a in x})),
                         "vlib/extract.py + vlib/extract_c18.py (constants) + vlib/extract_c18n.py (run_notify call sites, socket.c mapping)",
                         "harness/u_lmq.c, u_msgq.c, u_idmap.c, qcommon.h + vlib/unit.py (correspondence)",
                         "gcc ASan/UBSan/LSan as the out-of-bounds / leak detector on the implementation"],
        "theorems": st.discharged, "axioms": st.axioms, "broken": st.broken,
        "evaluations": allcases, "distinct_nontrivial": distinct,
        "rule": "operation sequences (<= 80 ops) from splitmix64(seed,C18,tier,component,i): lmq/msgq cases choose capacity, ring offset "
                "and fill level explicitly and then mix put/get/resize/flush/close/cancel with resize targets around the fill level and "
                "powers of two; idmap cases use tiny wrapping ranges, ranges around 2^32 and 2^64, random start, and keys colliding "
                "modulo 8/16/32/64; plus directed cases and corpus/C18; distinct = distinct op lists with more than 5 ops",
        "components": summary, "msgq_levels_part": ncounts, "msgq_levels_rule": c18_notify.RULE, "op_histogram": op_hist, "rv_histogram": rv_hist, "samples": samples,
        "spec_mismatches": counts["spec"], "model_mismatches": counts["model"], "crashes": counts["crash"],
        "extract_changed": st.extract_changed,
    }
    core.write_evidence(PROP, tier, seed, "proof", cov,
                        ["the Lean models Model/{Lmq,Msgq,IdHash}.lean mirror lmq.c, msgqueue.c, idhash.c; tie = differential "
                         "execution on the cases above (model-only fields: ring indices, allocation, pollable flags, table capacity, "
                         "load, cursor); msgq pollable levels: harness/u_msgq.c in norefresh mode (pollables and descriptors fetched once) "
                         "against msgqn-spec / msgqn-model and the non-blocking probes (vlib/props/c18_notify.py)",
                         "nni_aio_start succeeds (aios not stopped, infinite timeout); completions are collected after nni_aio_wait",
                         "allocation failure is injected through nni_alloc_set / nng_init_params; nni_random is supplied by the idmap harness"],
                        time.time() - t0, len(v.violations))
    return v.finish()
