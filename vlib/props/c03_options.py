"""C03, option part — memory safety, typing and atomicity of the option plumbing.

Lean: NngModel.Props.C03Options (all type tags, all buffer sizes, all values, all tables).
Tie to the code: harness/u_options.c (ASan/UBSan) calls the real nni_copyin_*/nni_copyout_*/nni_strlcpy with caller
buffers allocated at exactly the declared size and the typed public getters/setters on real sockets, contexts,
dialers and listeners for every extracted (table, option, type, range) row.  The same op lines go through the Lean
model (`opt-model`, Model/Options.lean: byte level + table walks + wrappers) and the Lean specification (`opt-spec`,
Spec/Options.lean: a typed key-value store), compared line by line by vlib/unit.py.

 impl != spec or sanitizer report -> VIOLATION with the minimised ops as replay
 only impl != model               -> VIOLATION ... no-failing-input-found

Op grammar (one output line per op):
 open <nng_*_open fn> | ctx | dialer <url> | listener <url>        create objects (endpoints are never started)
 dflt <s|c|d|l> <option> <tag> <value>                             (model/spec only) the measured initial value
 set  <s|c|d|l> <option> <tag> <value>                             nng_<obj>_set_<tag>; value decimal | hex | NULL
 get  <s|c|d|l> <option> <tag> [nv]                                nng_<obj>_get_<tag> into a 0xAA-filled variable
 cin <fn> <tag> <lo> <hi> <hex>      nni_copyin_<fn>(&dst, buf = exactly these bytes, .., tag)
 cout <fn> <tag> <value> <size>      nni_copyout_<fn>(value, buf of <size> bytes, NULL, tag)
 cinstr <maxsz> <tag> <dcap> <hex>   nni_copyin_str(dst[dcap], src = exactly these bytes, maxsz, tag)
 strlcpy <len> <dcap> <hex>          nni_strlcpy(dst[dcap], src, len)   (what nng_pipe_get_strcpy does)
 wspipe <path>                       two pair0 sockets connected over ws://127.0.0.1:<ephemeral><path>; object `p` = the listener side's pipe
 pstrcpy <option> <len> <dcap> | pstrlen <option> | pstrdup <option>     nng_pipe_get_strcpy(p, option, buf[dcap], len) / _strlen / _strdup

Used by vlib/props/c03.py through `run_part`; `run` is the stand-alone entry (./check c03_options quick)."""
import os, re, json, time, ast
from .. import core, build, lean, unit, extract

PROP = "C03"
SUB = "options"
CORPUS = "C03O"
MODULES = ["NngModel.Props.C03Options"]
RULE = ("op lists for harness/u_options.c: (1) corpus/C03O/* (one process each); (2) directed: every extracted row of every object kind x {lo-1, lo, hi, hi+1, "
        "INT_MIN/INT_MAX/2^64-1, every wrong type} followed by a get with the right and a wrong type; (3) random cases from "
        "splitmix64(seed,C03,tier,options,i): one socket (any protocol, cooked or raw) + context + dialer + listener (inproc/tcp/ipc/udp/ws), "
        "12-40 set/get ops with boundary-biased values, unknown names, names of other tables, strings, NULL; (4) byte-level cases: "
        "nni_copyin_*/nni_copyout_* with every tag pair, exact-size and oversize buffers (size 0 when the tag mismatches), "
        "nni_copyin_str and nni_strlcpy with all small (len, capacity, string length) triples; (5) live websocket pipes over loopback: typed pipe "
        "getters, nng_pipe_get_strcpy/_strlen/_strdup with buffer lengths around the string length; distinct = distinct op lists")
INT_MIN, INT_MAX = -2 ** 31, 2 ** 31 - 1
U64 = 2 ** 64 - 1
TAGS = ["bool", "int", "size", "ms", "str", "addr"]


# ---------------------------------------------------------------- extracted tables
def tables():
    path = os.path.join(extract.GEN, "C03O.pyval")
    d = {k: v for k, (v, _) in ast.literal_eval(open(path).read()).items()}
    rows = {}
    for (tid, name, tag, loneg, lo, hi, flags) in d["c03oRows"]:
        rows.setdefault(tid, []).append({"name": name, "tag": tag, "lo": lo - loneg, "hi": hi, "flags": flags})
    objs = {k: {"arg": a, "set": s, "get": [("@" if par else "") + t for (par, t) in g]} for (k, a, s, g) in d["c03oObjects"]}
    wr = set()
    for (w, gen, direction, vt, barg, sarg, tag) in d["c03oWrappers"]:
        m = re.match(r"(socket|ctx|dialer|listener|pipe)_(get|set)$", gen)
        if m:
            wr.add(({"socket": "s", "ctx": "c", "dialer": "d", "listener": "l", "pipe": "p"}[m.group(1)], m.group(2), tag))
    sizes = dict(d["c03oTypeSizes"])
    return rows, objs, wr, sizes, d


def first_row(rows, layers, name):
    for t in layers:
        for r in rows.get(t.lstrip("@"), []):
            if r["name"] == name:
                return r, t.startswith("@")
    return None, False


def names_of(rows, layers):
    out = []
    for t in layers:
        for r in rows.get(t.lstrip("@"), []):
            if r["name"] not in out:
                out.append(r["name"])
    return out


# ---------------------------------------------------------------- defaults (measured on the implementation)
def measure_defaults(exe, rows, objs):
    """initial value of every gettable option of every object kind, read from fresh objects of the real library.
    They only seed the stores of model and spec (`dflt` lines); no theorem is about them."""
    cases, index = [], []
    for kind, o in objs.items():
        pre, letter = create_ops(kind, o)
        ops = list(pre)
        for name in names_of(rows, o["get"]):
            r, _ = first_row(rows, o["get"], name)
            if r["flags"] & 1 and not r["flags"] & 16 and r["tag"] in ("bool", "int", "size", "ms", "str") and (letter, "get", r["tag"]) in WRAP:
                ops.append(f"get {letter} {name} {r['tag']}")
                index.append((kind, name, r["tag"], len(cases), len(ops) - 1))
        cases.append(ops)
    out = core.run_stream([exe], core.cases_to_text(cases), env=build.env())
    got = core.split_cases(out.lines)[0]
    dfl = {}
    for kind, name, tag, ci, oi in index:
        if ci < len(got) and oi < len(got[ci]):
            m = re.match(r"0 v=(\S+)$", got[ci][oi])
            if m and m.group(1) != "NULL":
                dfl[(kind, name)] = (tag, m.group(1))
    return dfl


WRAP = set()
PIPE_PATH = "/c03o"


def create_ops(kind, o):
    what, arg = kind.split(":", 1)
    if what == "sock":
        return [f"open {o['arg']}"], "s"
    if what == "ctx":
        return [f"open {o['arg']}", "ctx"], "c"
    if what == "pipe":
        return [f"wspipe {PIPE_PATH}"], "p"
    if what == "dialer":
        return ["open nng_pair0_open", f"dialer {o['arg']}"], "d"
    return ["open nng_pair0_open", f"listener {o['arg']}"], "l"


# ---------------------------------------------------------------- generators
def values_for(r, row, full=False):
    """candidate values (as protocol literals) for a row's own tag"""
    tag, lo, hi = row["tag"], row["lo"], row["hi"]
    if tag == "int":
        c = [lo - 1, lo, lo + 1, hi - 1, hi, hi + 1, INT_MIN, INT_MAX, -1, 0, (lo + hi) // 2, r.range(lo, hi)]
        return [str(x) for x in c if INT_MIN <= x <= INT_MAX]
    if tag == "ms":
        return [str(x) for x in [-2, -1, 0, 1, INT_MIN, INT_MAX, r.range(0, 100000), -3, r.range(INT_MIN, -2)]]
    if tag == "size":
        c = [0, 1, hi - 1, hi, hi + 1, U64, 2 ** 32 - 1, 2 ** 32, 2 ** 63, r.range(0, min(hi, U64)), r.next() % (U64 + 1)]
        return [str(x) for x in c if 0 <= x <= U64]
    if tag == "bool":
        return ["0", "1"]
    if tag == "str":
        return [core.hexs(bytes(r.range(1, 255) for _ in range(n))) for n in (0, 1, r.range(2, 40))]
    if tag == "addr":
        return [core.hexs(r.bytes(SIZES["addr"]))]
    return []


def any_value(r, tag):
    if tag == "int":
        return str(r.choice([0, 1, -1, 5, 8192, 8193, INT_MIN, INT_MAX, r.range(-100, 10000)]))
    if tag == "ms":
        return str(r.choice([0, -1, -2, 1000, INT_MAX, INT_MIN, r.range(-5, 70000)]))
    if tag == "size":
        return str(r.choice([0, 1, 65000, 65001, 2 ** 32, U64, r.next() % (U64 + 1)]))
    if tag == "bool":
        return str(r.below(2))
    if tag == "str":
        return core.hexs(bytes(r.range(1, 255) for _ in range(r.range(0, 12))))
    return core.hexs(r.bytes(SIZES["addr"]))


SIZES = {}


def in_range(row, tag, lit):
    if tag in ("int",):
        return row["lo"] <= int(lit) <= row["hi"]
    if tag == "ms":
        return int(lit) >= -1
    if tag == "size":
        return row["lo"] <= int(lit) <= row["hi"]
    return True


def set_op(r, rows, letter, o, name, dfl_known):
    """one set op on option `name` of the object; rows whose setter has further conditions (flag 4) only get
    values that fail before those conditions (wrong type / out of range)"""
    row, _ = first_row(rows, o["set"], name)
    tags = [t for t in TAGS if (letter, "set", t) in WRAP]
    if row is None or row["tag"] == "other" or not (row["flags"] & 2):
        t = r.choice(tags)
        return f"set {letter} {name} {t} {any_value(r, t)}"
    if r.chance(1, 4):
        t = r.choice([t for t in tags if t != row["tag"]] or tags)
        if t != row["tag"]:
            return f"set {letter} {name} {t} {any_value(r, t)}"
    if (letter, "set", row["tag"]) not in WRAP:
        t = r.choice(tags)
        return f"set {letter} {name} {t} {any_value(r, t)}"
    lit = r.choice(values_for(r, row))
    if row["flags"] & 4 and in_range(row, row["tag"], lit):
        bad = [x for x in values_for(r, row) if not in_range(row, row["tag"], x)]
        if not bad:
            t = r.choice([t for t in tags if t != row["tag"]])
            return f"set {letter} {name} {t} {any_value(r, t)}"
        lit = r.choice(bad)
    return f"set {letter} {name} {row['tag']} {lit}"


def get_op(r, rows, letter, kind, o, name, dfl):
    row, par = first_row(rows, o["get"], name)
    if row is not None and row["flags"] & 16:
        name, row, par = "no-such-option", None, False     # a getter with conditions of its own (state): not modelled
    tags = [t for t in TAGS if (letter, "get", t) in WRAP]
    if row is None or row["tag"] == "other" or r.chance(1, 4) or (letter, "get", row["tag"]) not in WRAP:
        t = r.choice(tags)
    else:
        t = row["tag"]
    nv = ""
    if row is not None and t == row["tag"]:
        known = ((("sock:nng_pair0_open" if par and kind.split(":")[0] in ("dialer", "listener") else kind), name) in dfl)
        if row["flags"] & 8 or not known:
            nv = " nv"
    return f"get {letter} {name} {t}{nv}"


FOREIGN = ["no-such-option", "", "recv-buffer", "send-buffer", "ttl-max", "req:resend-time", "sub:prefnew", "recv-size-max", "tcp-nodelay",
           "reconnect-time-min", "ws:protocol", "surveyor:survey-time", "bound-port", "ipc:permissions", "udp:copy-max", "recv-timeout", "ws:msgmode"]


def dflt_ops(rows, kind, letter, o, dfl):
    out = []
    for name in names_of(rows, [t for t in o["get"] if not t.startswith("@")]):
        if (kind, name) in dfl:
            tag, v = dfl[(kind, name)]
            out.append(f"dflt {letter} {name} {tag} {v}")
    return out


def gen_case(r, rows, objs, dfl):
    socks = [k for k in objs if k.startswith("sock:")]
    sk = "sock:nng_pair0_open" if r.chance(2, 5) else r.choice(socks)   # endpoints are created on pair0 sockets only
    fn = objs[sk]["arg"]
    ops = [f"open {fn}"]
    live = {"s": (sk, objs[sk])}
    # endpoints read through to the socket's tables: the extracted layer lists are for a pair0 host
    ep_host = fn == "nng_pair0_open"
    if "ctx:" + fn in objs and r.chance(2, 3):
        ops.append("ctx")
        live["c"] = ("ctx:" + fn, objs["ctx:" + fn])
    if ep_host:
        if r.chance(2, 3):
            k = r.choice([k for k in objs if k.startswith("dialer:")])
            ops.append(f"dialer {objs[k]['arg']}")
            live["d"] = (k, objs[k])
        if r.chance(2, 3):
            k = r.choice([k for k in objs if k.startswith("listener:")])
            ops.append(f"listener {objs[k]['arg']}")
            live["l"] = (k, objs[k])
    for letter, (kind, o) in live.items():
        ops += dflt_ops(rows, kind, letter, o, dfl)
    n = r.range(12, 40)
    for _ in range(n):
        letter = r.choice(sorted(live))
        kind, o = live[letter]
        own = names_of(rows, o["get"]) + names_of(rows, o["set"])
        name = r.choice(own) if own and r.chance(5, 6) else r.choice(FOREIGN)
        if name == "" or name.startswith(WS_HEADER):
            name = "no-such-option"
        if r.chance(1, 2):
            ops.append(set_op(r, rows, letter, o, name, dfl))
            if r.chance(1, 2):
                ops.append(get_op(r, rows, letter, kind, o, name, dfl))
        else:
            ops.append(get_op(r, rows, letter, kind, o, name, dfl))
    return ops


WS_HEADER = "ws:header:"


def directed_rows(rows, objs, dfl):
    """every row of every object kind: boundaries, extremes, every wrong type; then gets"""
    cases = []
    r = core.Rng(0, PROP, "directed")
    for kind, o in objs.items():
        pre, letter = create_ops(kind, o)
        ops = list(pre) + dflt_ops(rows, kind, letter, o, dfl)
        if letter in ("d", "l"):
            ops += dflt_ops(rows, "sock:nng_pair0_open", "s", objs["sock:nng_pair0_open"], dfl)
        for name in names_of(rows, o["set"] + o["get"]):
            row, _ = first_row(rows, o["set"], name)
            grow, _ = first_row(rows, o["get"], name)
            if row is not None and row["tag"] != "other" and row["flags"] & 2 and (letter, "set", row["tag"]) in WRAP:
                for lit in values_for(r, row):
                    if row["flags"] & 4 and in_range(row, row["tag"], lit):
                        continue
                    ops.append(f"set {letter} {name} {row['tag']} {lit}")
                    if grow is not None and not grow["flags"] & 16:
                        ops.append(get_op_fixed(letter, kind, name, grow, dfl, grow["tag"]))
            for t in TAGS:
                if (letter, "set", t) in WRAP and (row is None or t != row["tag"]):
                    ops.append(f"set {letter} {name} {t} {any_value(r, t)}")
                if (letter, "get", t) in WRAP and grow is not None and not grow["flags"] & 16:
                    ops.append(get_op_fixed(letter, kind, name, grow, dfl, t))
        for i in range(0, len(ops), 60):
            if i == 0:
                cases.append(ops[:60])
            else:
                cases.append(list(pre) + [x for x in ops if x.startswith("dflt")] + ops[i:i + 60])
    return cases


def get_op_fixed(letter, kind, name, grow, dfl, t):
    nv = " nv" if (t == grow["tag"] and grow["flags"] & 8) else ""
    return f"get {letter} {name} {t}{nv}"


def le(v, n):
    return core.hexs((v % (1 << (8 * n))).to_bytes(n, "little"))


def byte_cases(r, n):
    """byte-level ops; all inside the callers' contract (buffer >= sizeof(type of the tag) when the tag matches,
    any size incl. 0 when it does not; strings terminated or at least maxsz long)"""
    cases = []
    fns = ["bool", "int", "size", "ms", "addr"]
    for _ in range(n):
        ops = []
        for _ in range(r.range(10, 30)):
            k = r.below(10)
            if k < 3:
                fn = r.choice(fns)
                tag = fn if r.chance(2, 3) else r.choice(TAGS + ["none"])
                lo, hi = 0, 0
                if fn == "int":
                    lo = r.choice([0, 1, -5, INT_MIN]); hi = r.choice([8192, 15, INT_MAX, lo])
                    v = r.choice([lo - 1, lo, hi, hi + 1, INT_MIN, INT_MAX, r.range(-10, 9000)])
                    data = le(v, SIZES["int"])
                elif fn == "ms":
                    data = le(r.choice([-2, -1, 0, INT_MIN, INT_MAX, r.range(-4, 100000)]), SIZES["ms"])
                elif fn == "size":
                    lo = r.choice([0, 1]); hi = r.choice([65000, 2 ** 32 - 1, 2 ** 60 - 1, U64])
                    data = le(r.choice([0, lo, hi, hi + 1, U64, r.next()]), SIZES["size"])
                elif fn == "bool":
                    data = le(r.below(2), SIZES["bool"])
                else:
                    data = core.hexs(r.bytes(SIZES["addr"]))
                if tag == fn:
                    extra = r.choice([0, 0, 1, 8])
                    data = data + core.hexs(r.bytes(extra)) if extra else data
                else:
                    cut = r.choice([0, 0, 1, len(data) // 2])
                    data = data[:2 * cut] if cut else "-"
                ops.append(f"cin {fn} {tag} {lo} {hi} {data or '-'}")
            elif k < 6:
                fn = r.choice(fns + ["str"])
                tag = fn if r.chance(2, 3) else r.choice(TAGS + ["none"])
                val = {"int": lambda: r.choice([0, -1, INT_MIN, INT_MAX, r.range(-9, 9000)]), "ms": lambda: r.choice([-2, -1, 0, INT_MAX, INT_MIN]),
                       "size": lambda: r.choice([0, U64, 2 ** 32, r.next()]), "bool": lambda: r.below(2), "str": lambda: r.next() % (1 << 47),
                       "addr": lambda: core.hexs(r.bytes(SIZES["addr"]))}[fn]()
                size = SIZES[fn] + r.choice([0, 0, 1, 8]) if tag == fn else r.choice([0, 0, 1, SIZES[fn]])
                ops.append(f"cout {fn} {tag} {val} {size}")
            elif k < 8:
                maxsz = r.choice([1, 1, 2, 3, 4, 8, 16, r.range(1, 40)])
                ln = r.choice([0, maxsz - 1, maxsz, maxsz + 1, r.range(0, maxsz + 3)])
                s = bytes(r.range(1, 255) for _ in range(ln))
                tag = "str" if r.chance(4, 5) else r.choice(TAGS + ["none"])
                if tag != "str":
                    src, dcap = (s[:r.below(len(s) + 1)]), r.choice([0, 1, maxsz])
                elif ln < maxsz:
                    src, dcap = s + b"\0" + r.bytes(r.choice([0, 0, 3])), r.choice([maxsz, maxsz, ln + 1, maxsz + 4])
                else:
                    # too long: maxsz readable bytes, none of them NUL; the destination may have any size
                    src, dcap = s[:maxsz] if r.chance(1, 2) else s, r.choice([0, 1, maxsz])
                ops.append(f"cinstr {maxsz} {tag} {dcap} {core.hexs(src)}")
            else:
                ln = r.choice([0, 1, 2, 7, 8, 9, r.range(0, 40)])
                s = bytes(r.range(1, 255) for _ in range(ln))
                length = r.choice([0, 1, ln, ln + 1, ln + 2, r.range(0, ln + 4)])
                dcap = length + r.choice([0, 0, 0, 5])
                ops.append(f"strlcpy {length} {dcap} {core.hexs(s)}")
        cases.append(ops)
    # exhaustive small triples for the string functions
    ops = []
    for length in range(0, 7):
        for ln in range(0, 8):
            ops.append(f"strlcpy {length} {length} {core.hexs(bytes(range(0x41, 0x41 + ln)))}")
    cases.append(ops)
    ops = []
    for maxsz in range(1, 6):
        for ln in range(0, 7):
            s = bytes(range(0x61, 0x61 + ln))
            src = s + b"\0" if ln < maxsz else s[:maxsz]
            ops.append(f"cinstr {maxsz} str {maxsz} {core.hexs(src)}")
    cases.append(ops)
    return cases


def pipe_cases(r, n, rows, objs, dfl):
    """a live websocket pipe (two pair0 sockets over loopback TCP, ephemeral port): typed pipe getters and the string
    copies nng_pipe_get_strcpy / _strlen / _strdup with every buffer length around the string's length"""
    cases = []
    kind, o = "pipe:ws", objs["pipe:ws"]
    names = names_of(rows, o["get"])
    for _ in range(n):
        # (no empty, "." or ".." segments: nng_url_parse canonicalises those away)
        path = "/" + "".join(r.choice("abcdefghijklmnopqrstuvwxyz0123456789-_") for _ in range(r.choice([0, 1, 4, 7, 8, 15, r.range(0, 40)])))
        if len(path) > 6 and r.chance(1, 2):
            path = path[:3] + "/" + path[4:]
        L = len(path)
        ops = [f"wspipe {path}"]
        for name in names:
            if (kind, name) in dfl and name != "ws:request-uri":
                tag, v = dfl[(kind, name)]
                ops.append(f"dflt p {name} {tag} {v}")
        for _ in range(r.range(8, 24)):
            k = r.below(10)
            name = r.choice(["ws:request-uri"] * 4 + ["ws:recv-text", "no-such-option", "recv-buffer", "tcp-nodelay", "ws:protocol", "recv-size-max"])
            if k < 5:
                ln = r.choice([0, 1, L - 1, L, L + 1, L + 2, r.range(0, L + 5)])
                ln = max(0, ln)
                ops.append(f"pstrcpy {name} {ln} {ln + r.choice([0, 0, 0, 3])}")
            elif k < 6:
                ops.append(f"pstrlen {name}")
            elif k < 7:
                ops.append(f"pstrdup {name}")
            else:
                nm = r.choice(names + ["no-such-option"])
                op = get_op(r, rows, "p", kind, o, nm, dfl)
                if nm == "ws:request-uri":
                    op = op.replace(" nv", "")
                ops.append(op)
        cases.append(ops)
    return cases


def finding_cases(objs):
    """inputs on which the pinned tree leaves the callers' buffers / passes NULL to strnlen; on the repaired tree
    they are ordinary cases.  Last in the list: a sanitizer abort loses the rest of its chunk."""
    return [["cinstr 0 int 0 -", "cinstr 0 str 0 -"],
            ["open nng_pair0_open", f"dialer {objs['dialer:ws']['arg']}", "set d ws:protocol str NULL", "get d ws:protocol str nv"],
            ["open nng_pair0_open", f"listener {objs['listener:ws']['arg']}", "set l ws:protocol str 6162", "set l ws:protocol str NULL",
             "get l ws:protocol str", "set l tcp-nodelay str NULL", "set l no-such-option str NULL"]]


def proj(l):
    return " ".join(w for w in l.split() if w != "UNSAFE")


def minimise_ops(exe, comp, ops, budget_s=30):
    """ddmin that keeps the object creation + measured defaults (the leading open/ctx/dialer/listener/dflt lines), then
    drops the defaults of options the remaining ops do not mention"""
    env = build.env()

    def fails(o):
        text = core.cases_to_text([o])
        a = core.run_stream([exe], text, env=env, timeout=60)
        if a.rc != 0:
            return True
        b = core.run_stream(lean.driver_cmd(comp), text, timeout=60)
        la, lb = core.split_cases(a.lines)[0], core.split_cases(b.lines)[0]
        if not la or not lb:
            return True
        return any(proj(x) != proj(y) for x, y in zip(la[0], lb[0]))

    k = 0
    while k < len(ops) and ops[k].split()[0] in ("open", "ctx", "dialer", "listener", "dflt", "wspipe"):
        k += 1
    if not fails(ops):
        return ops
    out = core.ddmin(ops, fails, budget_s, keep_prefix=k)
    names = {l.split()[2] for l in out[k:] if l.split()[0] in ("set", "get") and len(l.split()) > 2}
    letters = {l.split()[1] for l in out[k:] if l.split()[0] in ("set", "get")}
    slim = [l for l in out[:k] if not l.startswith("dflt") or l.split()[2] in names]
    slim = [l for l in slim if not ((l == "ctx" and "c" not in letters) or (l.startswith("dialer") and "d" not in letters)
                                    or (l.startswith("listener") and "l" not in letters))]
    cand = slim + out[k:]
    return cand if fails(cand) else out


# ---------------------------------------------------------------- the part
def run_part(tier, seed, st, replay=None):
    """-> (counts dict, [(tag, payload, no_input)])"""
    global WRAP, SIZES, WS_HEADER
    t0 = time.time()
    counts = {"cases": 0, "ops": 0, "directed": 0, "random": 0, "byte_level": 0, "pipe": 0, "pipe_inconclusive": 0, "corpus": 0, "spec": 0, "model": 0, "crash": 0, "distinct": 0,
              "rows": 0, "rows_exercised": 0, "objects": 0, "defaults_measured": 0, "op_histogram": {}, "rv_histogram": {}, "samples": [], "wall_s": 0.0,
              "tree": {}}
    viol = []
    try:
        exe = build.harness("u_options", ["u_options.c"])
    except build.BuildError as e:
        viol.append(("options-build", {"kind": "build", "sub": SUB, "error": str(e), "log": e.log[-4000:]}, True))
        return counts, viol
    rows, objs, WRAP, SIZES, d = tables()
    WS_HEADER = d.get("c03oWsHeaderPrefix", WS_HEADER)
    counts["tree"] = {"nni_copyin_str too-long test repaired": d["c03oCopyinStrGuarded"], "ws_check_string rejects NULL": d["c03oCheckStringNullGuard"]}
    counts["rows"] = sum(len(v) for v in rows.values())
    counts["objects"] = len(objs)
    with_lean = bool(st.driver_ok)
    dfl = measure_defaults(exe, rows, objs)
    counts["defaults_measured"] = len(dfl)
    cases, corpus = [], []
    if replay:
        rp = json.load(open(replay))
        if rp.get("sub") != SUB or "ops" not in rp:
            return counts, viol
        cases.append(rp["ops"])
    else:
        cd = os.path.join(core.HERE, "corpus", CORPUS)
        if os.path.isdir(cd):
            for f in sorted(os.listdir(cd)):
                corpus.append([l.strip() for l in open(os.path.join(cd, f)) if l.strip() and not l.startswith("#")])
                counts["corpus"] += 1
        dc = directed_rows(rows, objs, dfl)
        cases += dc
        counts["directed"] = len(dc)
        nrand = 6000 if tier == "quick" else 150000
        for i in range(nrand):
            cases.append(gen_case(core.Rng(seed, PROP, tier, SUB, i), rows, objs, dfl))
        counts["random"] = nrand
        bc = byte_cases(core.Rng(seed, PROP, tier, SUB, "bytes"), 1000 if tier == "quick" else 20000)
        cases += bc
        counts["byte_level"] = len(bc)
        pc = pipe_cases(core.Rng(seed, PROP, tier, SUB, "pipe"), 120 if tier == "quick" else 2000, rows, objs, dfl)
        cases += pc
        counts["pipe"] = len(pc)
    fcases = [] if replay else corpus + finding_cases(objs)
    counts["cases"] = len(cases) + len(fcases)
    counts["ops"] = sum(len(c) for c in cases)
    counts["distinct"] = len({tuple(c) for c in cases})
    used = set()
    for c in cases:
        for l in c:
            w = l.split()
            if w[0] in ("set", "get") and len(w) >= 3:
                used.add(w[2])
    counts["rows_exercised"] = sum(1 for v in rows.values() for r in v if r["name"] in used)
    if cases:
        counts["samples"] = [{"sub": SUB, "ops": c[:30]} for c in (cases[0], cases[len(cases) // 2], cases[-1])]
    res = unit.run_unit(PROP, cases, exe, "opt-spec" if with_lean else None, "opt-model" if with_lean else None, proj, proj_model=proj,
                        opkey=lambda l: " ".join(l.split()[:1]))
    if fcases:
        # one process per case: a sanitizer abort must not hide the other findings
        r2 = unit.run_unit(PROP, fcases, exe, "opt-spec" if with_lean else None, "opt-model" if with_lean else None, proj, proj_model=proj,
                           opkey=lambda l: " ".join(l.split()[:1]), chunks=len(fcases))
        for x in r2.crashes + r2.spec_mismatch + r2.model_mismatch:
            x["case"] += len(cases)
        res.crashes += r2.crashes
        res.spec_mismatch += r2.spec_mismatch
        res.model_mismatch += r2.model_mismatch
        for k, n in r2.op_hist.items():
            res.op_hist[k] = res.op_hist.get(k, 0) + n
        for k, n in r2.rv_hist.items():
            res.rv_hist[k] = res.rv_hist.get(k, 0) + n
    # a loopback websocket connection that could not be established (environment) makes that case inconclusive
    def env_fail(mm):
        return mm["op_index"] == 0 and mm["ops"][0].startswith("wspipe") and mm["impl"].split()[:1] != ["0"]
    counts["pipe_inconclusive"] = sum(1 for mm in res.spec_mismatch if env_fail(mm))
    res.spec_mismatch = [mm for mm in res.spec_mismatch if not env_fail(mm)]
    res.model_mismatch = [mm for mm in res.model_mismatch if not env_fail(mm)]
    counts["spec"], counts["model"], counts["crash"] = len(res.spec_mismatch), len(res.model_mismatch), len(res.crashes)
    counts["op_histogram"], counts["rv_histogram"] = res.op_hist, res.rv_hist
    found_input = False
    seen = set()
    def crashes(o):
        return core.run_stream([exe], core.cases_to_text([o]), env=build.env(), timeout=60).rc != 0

    for c in res.crashes[:8]:
        san = next((l for l in c["stderr"].splitlines() if "runtime error" in l or "ERROR: AddressSanitizer" in l or "SUMMARY" in l), "")
        site = re.sub(r"0x[0-9a-f]+|==\d+==", "", san)
        m = re.search(r"#\d+ 0x[0-9a-f]+ in (nni_\w+|ws_\w+|nng_\w+) ", c["stderr"])
        key = (site, m.group(1) if m else "")
        if key in seen or len(seen) >= 3:
            continue
        seen.add(key)
        ops = core.ddmin(c["ops"], crashes, 30) if crashes(c["ops"]) else c["ops"]
        viol.append((f"options-crash-{c['case']}", {"kind": "sanitizer report / crash of the implementation in the option plumbing", "sub": SUB, "ops": ops,
                                                   "rc": c["rc"], "report": san, "stderr": c["stderr"][-3000:]}, False))
        found_input = True
    sig = set()
    for mm in res.spec_mismatch:
        t = mm["op_index"]
        w = (mm["ops"][t] if 0 <= t < len(mm["ops"]) else "").split()
        k = (w[0] if w else "", w[2] if len(w) > 2 and w[0] in ("set", "get") else (w[1] if len(w) > 1 else ""), mm["impl"].split()[:1] == mm["spec"].split()[:1])
        if k in sig or len(sig) >= 3:
            continue
        sig.add(k)
        ops = minimise_ops(exe, "opt-spec", mm["ops"]) if with_lean else mm["ops"]
        key = tuple(ops)
        if key in seen:
            continue
        seen.add(key)
        s = unit.single(exe, "opt-spec", "opt-model", ops, prelude=())
        viol.append((f"options-spec-{mm['case']}", {"kind": "implementation differs from the specification of the option plumbing (Spec/Options.lean typed key-value store with the "
                                                           "documented ranges; byte-level functions: Driver/Options.lean cinSpec/coutSpec/strSpec): wrong error code, value stored "
                                                           "although type/range is wrong, value lost, destination written on failure, wrong bytes copied or missing terminator",
                                                   "sub": SUB, "ops": ops, "impl": s["impl"].lines, "spec": s["spec"].lines, "model": s["model"].lines,
                                                   "first": {k: mm[k] for k in ("impl", "spec", "op_index")}}, False))
        found_input = True
    if not found_input and res.model_mismatch:
        mm = res.model_mismatch[0]
        ops = minimise_ops(exe, "opt-model", mm["ops"])
        s = unit.single(exe, None, "opt-model", ops, prelude=())
        viol.append(("options-corr", {"kind": "correspondence broken: the real option plumbing differs from the Lean model the C03Options theorems are about "
                                              "(no input violating the specification was found)", "sub": SUB, "correspondence": "opt-model vs harness/u_options.c",
                                      "ops": ops, "impl": s["impl"].lines, "model": s["model"].lines, "mismatching_cases": len(res.model_mismatch)}, True))
    counts["wall_s"] = round(time.time() - t0, 1)
    core.log(PROP, f"options: rows {counts['rows']} (exercised {counts['rows_exercised']}), objects {counts['objects']}, defaults {counts['defaults_measured']}; "
                   f"cases {counts['cases']} ops {counts['ops']}; spec mismatches {counts['spec']}, model mismatches {counts['model']}, crashes {counts['crash']}; "
                   f"{counts['wall_s']}s")
    return counts, viol


def run(tier, seed, replay=None):
    """stand-alone entry: Lean build + axiom audit of Props/C03Options, then the differential run"""
    t0 = time.time()
    v = core.Verdict(PROP, seed)
    if os.path.isdir(core.REPLAYS):
        for f in os.listdir(core.REPLAYS):
            if f.startswith(f"{PROP}-") and "-options-" in f and not (replay and os.path.abspath(replay) == os.path.join(core.REPLAYS, f)):
                os.unlink(os.path.join(core.REPLAYS, f))
    st = lean.prepare(MODULES)
    core.log(PROP, f"lean: {len(st.discharged)}/{len(st.theorems)} theorems re-checked; {st.build_s:.1f}s")
    counts, viol = run_part(tier, seed, st, replay)
    found_input = False
    for tag, payload, no_input in viol:
        v.violation(tag, payload, no_input=no_input)
        found_input = found_input or not no_input
    if not found_input and not st.ok:
        v.violation("options-proof", {"kind": "proof obligation no longer checks", "sub": SUB, "broken": st.broken, "log": st.log[-3000:]}, no_input=True)
    cov = {"obligations": len(st.theorems), "discharged": len(st.discharged),
           "checker_cmd": "lake build NngModel.Props.C03Options && lake env lean <#print axioms for each theorem>",
           "trusted_base": ["Lean 4.33.0 kernel", "axioms: " + ", ".join(sorted({a for x in st.axioms.values() if x for a in x})),
                            "vlib/extract_c03o.py (tables, shapes, wrapper table)", "harness/u_options.c + vlib/unit.py (correspondence)",
                            "gcc ASan/UBSan as the out-of-bounds detector on the implementation"],
           "theorems": st.discharged, "axioms": st.axioms, "broken": st.broken,
           "evaluations": counts["cases"], "distinct_nontrivial": counts["distinct"], "rule": RULE, "samples": counts["samples"],
           "options_part": {k: counts[k] for k in counts if k != "samples"}}
    ev = core.write_evidence(PROP + "-options", tier, seed, "proof", cov,
                             ["callers of the generic nni_*_setopt/getopt pass a buffer at least as large as the C type of the tag (the typed public wrappers do: theorem)",
                              "initial option values are measured on the implementation, not modelled", "little-endian LP64 (sizes extracted with gcc)"],
                             time.time() - t0, len(v.violations))
    ev["property_id"] = PROP
    json.dump(ev, open(os.path.join(core.EVIDENCE, f"{PROP}-options.json"), "w"), indent=1)
    return v.finish()
