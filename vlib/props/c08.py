"""C08 — PAIR v0 / v1: one peer at a time, ordered loss-free exchange with back-pressure, hop counts."""
import os, time, json
from .. import core, build, lean, sim

PROP = "C08"
MODULES = ["NngModel.Props.C08"]
TIMEOUTS = [20, 50, 100]
ADV = [7, 13, 31, 61, 127]
KINDS = ("pair0", "pair1")
PEER = {"pair0": "0010", "pair1": "0011"}
WRONG = ["0010", "0011", "0050", "0051", "0030", "0070"]


def be32(v):
    return (v & 0xFFFFFFFF).to_bytes(4, "big")


class Gen:
    """one op list for a PAIR0 / PAIR1 socket; keeps enough shadow state to pick meaningful
    operations (which pipes exist, which aios are probably free) and distinct bodies."""

    def __init__(self, r, kind):
        self.r, self.kind = r, kind
        self.ops = []
        self.npipes = 0
        self.nbody = 0
        self.busy_aio = set()
        self.now = 0
        self.deadlines = set()
        self.raw = False
        self.ttl = 8

    def body(self):
        self.nbody += 1
        extra = self.r.bytes(self.r.choice([0, 0, 1, 3, 8]))
        return self.nbody.to_bytes(2, "big") + extra

    def aio(self):
        free = [a for a in range(16) if a not in self.busy_aio]
        return self.r.choice(free) if free else None

    def mode(self):
        k = self.r.below(10)
        if k < 4:
            return "nb"
        if k < 7:
            return "inf"
        if k < 8:
            return "0"
        t = self.r.choice(TIMEOUTS)
        self.deadlines.add(self.now + t)
        return str(t)

    def advance(self):
        d = self.r.choice(ADV)
        while self.now + d in self.deadlines:
            d += 1
        self.now += d
        self.ops.append(f"advance {d}")
        self.busy_aio.clear()

    def hopval(self):
        """all boundary values of the 32-bit header word"""
        r, t = self.r, self.ttl
        return r.choice([0, 1, 1, max(t - 1, 0), t, t, t + 1, t + 1, 0xFE, 0xFF, 0x100, 0x101, 0xFFFF, 0x01000000,
                         0x7FFFFFFF, 0x80000000, 0xFFFFFFFF, r.below(1 << 32), r.below(16), r.below(16), r.below(300)])

    def send_hdr(self):
        r = self.r
        if self.kind == "pair0":
            return "-" if r.chance(4, 5) else r.bytes(r.choice([1, 4, 8])).hex()
        if not self.raw:
            return "-" if r.chance(3, 4) else r.bytes(r.choice([1, 4, 4, 8])).hex()
        k = r.below(10)
        if k < 6:
            return be32(r.choice([0, 1, 2, self.ttl - 1, self.ttl, 7, 8, 0x7F, 0xFD, 0xFE])).hex()
        if k < 8:
            return be32(r.choice([0xFF, 0x100, 0xFFFFFFFF, 0x01000000, 0x80000000, r.below(1 << 32)])).hex()
        return core.hexs(r.bytes(r.choice([0, 1, 3, 5, 8])))

    def arrival(self):
        r = self.r
        if self.kind == "pair0":
            return self.body().hex()
        k = r.below(20)
        if k < 2:
            return core.hexs(r.bytes(r.choice([0, 1, 2, 3])))      # shorter than the hop header
        if k < 3:
            return be32(self.hopval()).hex()                       # header only, empty body
        if k < 12:
            return (be32(r.choice([1, 1, 2, max(self.ttl - 1, 1), self.ttl])) + self.body()).hex()
        return (be32(self.hopval()) + self.body()).hex()

    def pipe(self):
        # mostly the most recent pipes (the older ones are usually gone)
        if self.r.chance(3, 4):
            return max(0, self.npipes - 1 - self.r.below(2))
        return self.r.below(self.npipes)

    def gen(self, n):
        r = self.r
        self.raw = r.chance(1, 3)
        self.ops.append(f"open {self.kind}" + (" raw" if self.raw else ""))
        if r.chance(2, 3):
            self.ops.append(f"setopt - send-buffer int {r.choice([0, 1, 2, 3])}")
        if r.chance(2, 3):
            self.ops.append(f"setopt - recv-buffer int {r.choice([0, 1, 2, 3])}")
        if self.kind == "pair1" and r.chance(1, 2):
            self.ttl = r.range(1, 15)
            self.ops.append(f"setopt - ttl-max int {self.ttl}")
        while len(self.ops) < n:
            k = r.below(100)
            if k < 10 and self.npipes < 12:
                good = PEER[self.kind]
                self.ops.append(f"pipe_add {good if r.chance(7, 8) else r.choice(WRONG)}")
                self.npipes += 1
            elif k < 14 and self.npipes:
                self.ops.append(f"pipe_drop {self.pipe()}")
                self.busy_aio.clear()
            elif k < 30:
                a = self.aio()
                if a is None:
                    self.advance(); continue
                m = self.mode()
                if m == "nb" and r.chance(1, 2):
                    self.ops.append("poll")
                self.ops.append(f"send - {a} {self.send_hdr()} {self.body().hex()} {m}")
                if m != "nb":
                    self.busy_aio.add(a)
            elif k < 45:
                a = self.aio()
                if a is None:
                    self.advance(); continue
                m = self.mode()
                if m == "nb" and r.chance(1, 2):
                    self.ops.append("poll")
                self.ops.append(f"recv - {a} {m}")
                if m != "nb":
                    self.busy_aio.add(a)
            elif k < 57 and self.npipes:
                self.ops.append(f"send_done {self.pipe()} {0 if r.chance(9, 10) else r.choice([7, 19, 31])}")
                self.busy_aio.clear()
            elif k < 72 and self.npipes:
                p = self.pipe()
                if r.chance(14, 15):
                    self.ops.append(f"recv_done {p} {self.arrival()}")
                else:
                    self.ops.append(f"recv_done {p} !{r.choice([7, 19, 31])}")
                self.busy_aio.clear()
            elif k < 76:
                self.ops.append(f"cancel {r.below(16)}")
                self.busy_aio.clear()
            elif k < 83:
                self.advance()
            elif k < 87:
                self.ops.append(f"setopt - send-buffer int {r.choice([0, 0, 1, 2, 3, 3, 4, -1, 8193])}")
            elif k < 91:
                self.ops.append(f"setopt - recv-buffer int {r.choice([0, 0, 1, 2, 3, 3, 4, -1, 8193])}")
            elif k < 93 and self.kind == "pair1":
                v = r.choice([1, 2, 3, 8, 14, 15, 0, 16, -1, r.range(1, 15), r.range(1, 15)])
                if 1 <= v <= 15:
                    self.ttl = v
                self.ops.append(f"setopt - ttl-max int {v}")
            elif k < 94:
                self.ops.append(f"getopt - {r.choice(['send-buffer', 'recv-buffer'] + (['ttl-max'] if self.kind == 'pair1' else []))} int")
            elif k < 97:
                self.ops.append("poll")
            elif k < 98:
                self.ops.append(f"abort {r.below(16)} {r.choice([5, 20, 7])}")
                self.busy_aio.clear()
            elif k < 99:
                self.ops.append("ctx_open 0")
            else:
                self.ops.append("close")
                break
        return self.ops


def gen_case(seed, tier, i):
    r = core.Rng(seed, PROP, tier, i)
    kind = KINDS[i % 2]
    return kind, Gen(r, kind).gen(r.range(8, 60))


def kind_of(ops):
    for o in ops[:3]:
        if o.startswith("open pair1"):
            return "pair1"
    return "pair0"


def corpus_cases(race=False):
    """corpus/C08/race_* are race-stream cases (own `sched` line, `nq` / `delay` lines); the rest are ordinary histories"""
    out = []
    d = os.path.join(core.HERE, "corpus", PROP)
    if os.path.isdir(d):
        for f in sorted(os.listdir(d)):
            if f.startswith("race") != race:
                continue
            ops = [l.strip() for l in open(os.path.join(d, f)) if l.strip() and not l.startswith("#")]
            if ops:
                out.append((kind_of(ops), ops))
    return out


# ---------------------------------------------------------------------------
# UNIT-style stream for the PAIR1 receive decision: every tuple (body length, header word,
# ttl) goes through the real pair1_pipe_recv_cb on a fresh pipe and through the pure Lean
# function `Nng.Pair1.hopDecision`; the verdicts (close / drop / deliver h) must agree.

HOP_PER_CASE = 50


def hop_tuples(seed, tier):
    r = core.Rng(seed, PROP, tier, "hop")
    tuples = []
    for ttl in range(1, 16):
        for h in [0, 1, ttl - 1, ttl, ttl + 1, 0xFE, 0xFF, 0x100, 0x101, 0xFFFF, 0x10000, 0x01000000, 0x7FFFFFFF, 0x80000000,
                  0xFFFFFF00 + ttl, 0xFFFFFFFF]:
            tuples.append((ttl, be32(h) + r.bytes(r.choice([0, 1, 5]))))
        for n in (0, 1, 2, 3):
            tuples.append((ttl, r.bytes(n) if r.chance(1, 2) else bytes(n)))
    nrand = 500 if tier == "quick" else 20000
    for _ in range(nrand):
        ttl = r.range(1, 15)
        k = r.below(4)
        h = r.below(1 << 32) if k == 0 else r.below(0x200) if k == 1 else r.below(20) if k == 2 else (r.below(256) << (8 * r.range(1, 3)))
        tuples.append((ttl, be32(h) + r.bytes(r.below(6))))
    return tuples


def hop_cases(tuples, seed, tier):
    r = core.Rng(seed, PROP, tier, "hopcase")
    cases = []
    for i in range(0, len(tuples), HOP_PER_CASE):
        chunk = tuples[i:i + HOP_PER_CASE]
        ops = ["open pair1" + (" raw" if r.chance(1, 2) else "")]
        ttl = None
        for k, (t, data) in enumerate(chunk):
            if t != ttl:
                ops.append(f"setopt - ttl-max int {t}")
                ttl = t
            ops += ["cancel 0", "recv - 0 inf", f"pipe_add 0011", f"recv_done {k} {core.hexs(data)}", f"pipe_drop {k}"]
        cases.append((chunk, ops))
    return cases


def hop_classify(line, k):
    evs = [e.strip() for e in line.split(" ; ")]
    if f"pclosed {k}" in evs:
        return "close"
    for e in evs:
        w = e.split()
        if w[:3] == ["done", "0", "0"] and len(w) == 5:
            return f"deliver {w[3]} {w[4]}"
    if f"parm {k}" in evs:
        return "drop"
    return "stuck:" + line


def run_hop(exe, seed, tier, scheds):
    tuples = hop_tuples(seed, tier)
    cases = hop_cases(tuples, seed, tier)
    env = build.env()
    bad, n = [], 0
    hist = {}
    # Lean side
    qs = []
    for chunk, _ in cases:
        for t, data in chunk:
            qs.append(f"hop {len(data)} {int.from_bytes(data[:4], 'big')} {t}")
    lres = core.run_stream(lean.driver_cmd("pair1-hop"), "\n".join(qs) + "\n").lines
    li = 0
    expect = []
    for chunk, _ in cases:
        ex = []
        for t, data in chunk:
            v = lres[li] if li < len(lres) else "missing"
            li += 1
            if v.startswith("deliver "):
                v = f"deliver {be32(int(v.split()[1])).hex()} {core.hexs(data[4:])}"
            ex.append(v)
        expect.append(ex)
    jobs = [(ci, k) for ci in range(len(cases)) for k in scheds[:3]]

    def work(part):
        text = core.cases_to_text([[f"sched {k}"] + cases[ci][1] for ci, k in part])
        res = core.run_stream([exe], text, env=env, timeout=3600)
        return part, res, core.split_cases(res.lines)[0]

    for part, res, ic in core.parallel_map(work, core.chunked(jobs, max(core.NCPU, (len(jobs) + 19) // 20))):
        if res.rc != 0 or len(ic) != len(part):
            bad.append({"kind": "crash", "rc": res.rc, "stderr": res.err[-2000:], "ops": ["sched %d" % part[min(len(ic), len(part) - 1)][1]] + cases[part[min(len(ic), len(part) - 1)][0]][1]})
        for (ci, k), lines in zip(part, ic):
            chunk, ops = cases[ci]
            full = [f"sched {k}"] + ops
            idx = [i for i, o in enumerate(full) if o.startswith("recv_done")]
            for j, i in enumerate(idx):
                n += 1
                got = hop_classify(lines[i], j) if i < len(lines) else "missing"
                want = expect[ci][j]
                hist[want.split()[0]] = hist.get(want.split()[0], 0) + 1
                if got != want and len(bad) < 5:
                    t, data = chunk[j]
                    bad.append({"kind": "hop decision differs", "ttl": t, "arrival": core.hexs(data), "implementation": got, "lean": want,
                                "ops": [f"sched {k}", ops[0], f"setopt - ttl-max int {t}", "recv - 0 inf", "pipe_add 0011", f"recv_done 0 {core.hexs(data)}"]})
    return {"tuples": len(tuples), "evaluations": n, "bad": bad, "hist": hist}


# ---------------------------------------------------------------------------
# Race stream: completions of a pipe's send / receive that are still in flight when the pipe
# is lost and a new peer attaches (`nq` = the harness does not wait for quiescence, `delay` =
# delay-bounded scheduling: one thread is held back for a while).  The model works at the
# granularity of quiescent steps, so these runs are judged (Lean judge, safety clauses) and
# watched for sanitizer reports / deadlocks only.

def race_case(r, scheds):
    kind = r.choice(KINDS)
    raw = r.chance(1, 3)
    good = PEER[kind]
    nb = [0]

    def body():
        nb[0] += 1
        return (0xA000 + nb[0]).to_bytes(2, "big").hex()

    def arr():
        return ("00000001" if kind == "pair1" else "") + body()

    shdr = "00000001" if (kind == "pair1" and raw) else "-"
    ops = [f"sched {r.choice(list(scheds))}", f"open {kind}" + (" raw" if raw else "")]
    which = r.choice(["send", "recv", "both"])
    sc, rc = r.choice([1, 2, 3]), r.choice([0, 0, 1, 2])
    ops += [f"setopt - send-buffer int {sc}", f"setopt - recv-buffer int {rc}", f"pipe_add {good}"]
    a = 0
    if which in ("send", "both"):
        for _ in range(1 + r.range(1, sc + 1)):
            ops.append(f"send - {a} {shdr} {body()} inf"); a += 1
    if which in ("recv", "both"):
        for _ in range(r.range(0, rc)):
            ops.append(f"recv_done 0 {arr()}")
    ops.append(f"delay {r.below(120)} {r.choice([60, 150, 400])}")
    group = []
    if which in ("send", "both"):
        group.append("nq send_done 0 0")
    if which in ("recv", "both"):
        group.append(f"nq recv_done 0 {arr()}")
    if len(group) == 2 and r.chance(1, 2):
        group.reverse()
    ops += group + ["nq pipe_drop 0", f"pipe_add {good}", "poll"]
    for _ in range(3):
        ops.append("send_done 1 0")
    ops.append(f"recv_done 1 {arr()}")
    for _ in range(rc + 3):
        ops.append(f"recv - {a} nb"); a = (a + 1) % 16
    ops += ["poll", "close"]
    return kind, ops


def run_race(exe, st, seed, tier, scheds, only=None):
    r = core.Rng(seed, PROP, tier, "race")
    n = 2400 if tier == "quick" else 10000
    cases = only if only else corpus_cases(race=True) + [race_case(r, scheds) for _ in range(n)]
    env = build.env()
    out = {"runs": len(cases), "crashes": [], "judge": []}

    def work(part):
        res = []
        for kind, ops in part:
            impl = core.run_stream([exe], core.cases_to_text([ops]), env=env, timeout=120)
            ic = core.split_cases(impl.lines)
            res.append((kind, ops, impl, ic[0][0] if ic[0] else None, ic[1]))
        jl = {}
        for kind in KINDS:
            lines, idx = [], []
            for i, (k, ops, impl, il, _) in enumerate(res):
                if k == kind and il is not None:
                    lines += [f"{op} => {o}" for op, o in zip(ops, il)] + ["reset"]
                    idx.append(i)
            if lines and st.driver_ok:
                jc = core.split_cases(core.run_stream(lean.driver_cmd(f"{kind}-judge"), "\n".join(lines) + "\n").lines)[0]
                for i, verdicts in zip(idx, jc):
                    jl[i] = verdicts
        return res, jl

    for res, jl in core.parallel_map(work, core.chunked(cases, core.NCPU * 2)):
        for i, (kind, ops, impl, il, partial) in enumerate(res):
            if impl.rc != 0 or il is None:
                out["crashes"].append({"kind": kind, "ops": ops, "rc": impl.rc, "last": (il or partial)[-3:], "stderr": impl.err[-3000:]})
            for t, vd in enumerate(jl.get(i, [])):
                if vd.startswith("VIOLATION"):
                    out["judge"].append({"kind": kind, "ops": ops, "clause": vd[10:], "op_index": t, "impl": il})
                    break
    return out


# ---------------------------------------------------------------------------

def run(tier, seed, replay=None):
    t0 = time.time()
    v = core.Verdict(PROP, seed)
    rp = json.load(open(replay)) if replay else None   # (before the old replays are removed)
    core.clear_replays(PROP)
    st = lean.prepare(MODULES)
    core.log(PROP, f"lean: {len(st.discharged)}/{len(st.theorems)} theorems re-checked; extract {st.extract_count} constants "
                   f"(changed: {st.extract_changed}); {st.build_s:.1f}s")
    try:
        exe = sim.build_sim("s_proto", ["s_proto.c"])
    except build.BuildError as e:
        v.violation("build", {"kind": "build", "error": str(e), "log": e.log[-4000:]}, no_input=True)
        core.write_evidence(PROP, tier, seed, "proof", {"obligations": max(1, len(st.theorems)), "discharged": 0, "checker_cmd": "lake build",
                            "trusted_base": [], "explanation": "implementation or harness does not build"}, [], time.time() - t0, 1)
        return v.finish()
    n = 2000 if tier == "quick" else 12000
    scheds = (1, 2, 3) if tier == "quick" else tuple(range(1, 11))
    race_replay = None
    if replay:
        ops = rp["ops"]
        if ops and ops[0].startswith("sched"):
            scheds = (int(ops[0].split()[1]),)
            ops = ops[1:]
        allc = [(kind_of(ops), ops)]
        if any(o.startswith(("nq ", "delay ")) for o in ops):
            # a race-stream replay: run it alone, exactly as recorded
            allc = []
            race_replay = [(kind_of(ops), rp["ops"])]
    else:
        allc = corpus_cases() + [gen_case(seed, tier, i) for i in range(n)]
    results = {}
    for kind in KINDS:
        cs = [ops for k, ops in allc if k == kind]
        if cs:
            # batches: one harness process handles at most ~150 cases (harness/simplat.c never releases the slots of its
            # mutex side table, so a long-lived process slows down and finally spins; see integration/C08.md (b))
            acc = None
            BATCH = max(100, 150 * core.NCPU // len(scheds))
            for b in range(0, len(cs), BATCH):
                part = sim.run_sim(PROP, cs[b:b + BATCH], exe, f"{kind}-model" if st.driver_ok else None,
                                   f"{kind}-judge" if st.driver_ok else None, scheds, timeout=3600)
                for lst in (part.judge_viol, part.model_mismatch, part.crashes):
                    for x in lst:
                        x["case"] += b
                if acc is None:
                    acc = part
                else:
                    acc.cases += part.cases; acc.runs += part.runs; acc.ops += part.ops
                    acc.judge_viol += part.judge_viol; acc.model_mismatch += part.model_mismatch; acc.crashes += part.crashes
                    for k, x in part.op_hist.items(): acc.op_hist[k] = acc.op_hist.get(k, 0) + x
                    for k, x in part.ev_hist.items(): acc.ev_hist[k] = acc.ev_hist.get(k, 0) + x
            results[kind] = (cs, acc)
    found_input = False
    tot = {"cases": 0, "runs": 0, "ops": 0, "judge": 0, "model": 0, "crash": 0}
    op_hist, ev_hist = {}, {}
    for kind, (cs, res) in results.items():
        tot["cases"] += res.cases; tot["runs"] += res.runs; tot["ops"] += res.ops
        tot["judge"] += len(res.judge_viol); tot["model"] += len(res.model_mismatch); tot["crash"] += len(res.crashes)
        for k, x in res.op_hist.items(): op_hist[k] = op_hist.get(k, 0) + x
        for k, x in res.ev_hist.items(): ev_hist[k] = ev_hist.get(k, 0) + x
        for c in res.crashes[:2]:
            ops = sim.minimise(exe, None, c["ops"], False)
            v.violation(f"crash-{kind}-{c['case']}", {"kind": "crash / sanitizer report / deadlock of the implementation under the simulated platform",
                        "ops": ops, "rc": c["rc"], "last_output": c["last"], "stderr": c["stderr"]})
            found_input = True
        seen = set()
        for jv in res.judge_viol:
            if jv["clause"] in seen or len(seen) >= 3:
                continue
            seen.add(jv["clause"])
            ops = sim.minimise(exe, f"{kind}-judge", jv["ops"], True)
            impl, il, verdicts = sim.run_one(exe, f"{kind}-judge", ops, True)
            v.violation(f"judge-{kind}-{jv['case']}", {"kind": "implementation trace violates the C08 trace predicate (Spec/Pair.lean)",
                        "clause": jv["clause"], "ops": ops, "impl": il, "judge": verdicts})
            found_input = True
    race = {"runs": 0, "crashes": [], "judge": []}
    race_ok = "no_quiesce" in open(os.path.join(core.HERE, "harness", "s_proto.c")).read()
    if not race_ok:
        core.log(PROP, "harness/s_proto.c has no `nq`/`delay` support: race stream skipped (see integration/C08.md (b))")
    if race_ok and (not replay or race_replay):
        race = run_race(exe, st, seed, tier, scheds, race_replay)
        for i, c in enumerate(race["crashes"][:2]):
            ops = sim.minimise(exe, None, c["ops"], False)
            v.violation(f"race-crash-{c['kind']}-{i}", {"kind": "crash / sanitizer report / deadlock of the implementation when a pipe's completion races with its "
                        "detach and a new peer (simulated platform, delay-bounded schedule)", "ops": ops, "rc": c["rc"], "last_output": c["last"], "stderr": c["stderr"]})
            found_input = True
        seen = set()
        for jv in race["judge"]:
            if jv["clause"] in seen or len(seen) >= 2:
                continue
            seen.add(jv["clause"])
            ops = sim.minimise(exe, f"{jv['kind']}-judge", jv["ops"], True)
            impl, il, verdicts = sim.run_one(exe, f"{jv['kind']}-judge", ops, True)
            v.violation(f"race-judge-{jv['kind']}-{len(seen)}", {"kind": "implementation trace violates the C08 trace predicate (Spec/Pair.lean) when a pipe's "
                        "completion races with its detach and a new peer", "clause": jv["clause"], "ops": ops, "impl": il, "judge": verdicts})
            found_input = True
    hop = {"tuples": 0, "evaluations": 0, "bad": [], "hist": {}}
    if not replay and st.driver_ok:
        hop = run_hop(exe, seed, tier, scheds)
        for i, b in enumerate(hop["bad"][:2]):
            v.violation(f"hop-{i}", dict(b, kind="PAIR1 receive decision of the implementation differs from Nng.Pair1.hopDecision: " + b["kind"]))
            found_input = True
    core.log(PROP, f"cases {tot['cases']} runs {tot['runs']} ops {tot['ops']}; judge violations {tot['judge']}, model mismatches {tot['model']}, "
                   f"crashes {tot['crash']}; race runs {race['runs']}: judge violations {len(race['judge'])}, crashes {len(race['crashes'])}; hop decisions {hop['evaluations']} ({hop['tuples']} tuples), differing {len(hop['bad'])}")
    if not found_input:
        for kind, (cs, res) in results.items():
            if res.model_mismatch:
                mm = res.model_mismatch[0]
                ops = sim.minimise(exe, f"{kind}-model", mm["ops"], False)
                impl, il, ml = sim.run_one(exe, f"{kind}-model", ops)
                v.violation(f"corr-{kind}", {"kind": "correspondence broken: implementation differs from the Lean model the C08 theorems are about "
                            "(no trace violating the property predicate was found)", "correspondence": f"{kind}-model vs s_proto",
                            "ops": ops, "impl": il, "model": ml, "mismatching_runs": len(res.model_mismatch)}, no_input=True)
                break
        if not st.ok:
            v.violation("proof", {"kind": "proof obligation no longer checks", "broken": st.broken, "log": st.log[-3000:]}, no_input=True)
    allops = [ops for _, ops in allc]
    cov = {"obligations": len(st.theorems), "discharged": len(st.discharged),
           "checker_cmd": "lake build NngModel.Props.C08 && lake env lean <#print axioms for each theorem>",
           "trusted_base": ["Lean 4.33.0 kernel", "axioms: " + ", ".join(sorted({a for x in st.axioms.values() if x for a in x})),
                            "vlib/extract.py + extract_c08.py (constants, shape anchors of the hop tests)",
                            "harness/simplat.c (scheduler, virtual clock), mocktran.c (transport contract), s_proto.c",
                            "vlib/sim.py (diff, canonicalisation of event order within a quiescent batch)", "gcc ASan/UBSan"],
           "theorems": st.discharged, "axioms": st.axioms, "broken": st.broken,
           "evaluations": tot["runs"] + hop["evaluations"] + race["runs"], "distinct_nontrivial": len({tuple(o) for o in allops if len(o) > 4}) + hop["tuples"],
           "rule": "event histories for one PAIR0 or PAIR1 socket, cooked or raw (8-60 events: sends/receives in all modes, peers connecting at any "
                   "time with right/wrong protocol, peer loss, transport completions ok/err, PAIR1 arrivals over all boundary values of the 32-bit hop "
                   "word and short bodies, raw sends with malformed headers, cancel/abort, virtual-time advance, send-/recv-buffer resizes 0-4, ttl-max "
                   f"changes, poll, close) from splitmix64(seed,C08,tier,i), each run under {len(scheds)} schedule seeds; plus the hop-decision stream: "
                   "(length, header word, ttl) tuples (all boundaries x ttl 1..15 + random) through the real receive callback vs the pure Lean function; "
                   "plus the race stream: a send / receive completion left in flight (`nq`) while the pipe is lost and a new peer attaches, under "
                   "delay-bounded schedules (random offset 0-119, length 60/150/400), judged and watched for sanitizer reports / deadlocks; "
                   "distinct = distinct op lists longer than 4 + hop tuples",
           "schedules_per_case": len(scheds), "ops": tot["ops"], "op_histogram": op_hist, "event_histogram": ev_hist,
           "hop_verdict_histogram": hop["hist"],
           "samples": ([allops[0], allops[-1]] if allops else []), "judge_violations": tot["judge"], "model_mismatches": tot["model"], "crashes": tot["crash"],
           "hop_mismatches": len(hop["bad"]), "race_stream_enabled": race_ok, "race_runs": race["runs"], "race_judge_violations": len(race["judge"]), "race_crashes": len(race["crashes"]), "extract_changed": st.extract_changed}
    core.write_evidence(PROP, tier, seed, "proof", cov,
                        ["protocol callbacks are atomic under the protocol mutex (SIM still interleaves their unlocked tails)",
                         "the mock transport honours the transport contract of the real transports",
                         "bodies are pairwise distinct within a case, so the judge can identify messages by content",
                         "nni_lmq behaves as a bounded FIFO whose resize keeps the oldest messages (C18)"],
                        time.time() - t0, len(v.violations))
    return v.finish()
