"""C05 — PUB/SUB: delivery iff a current subscription is a prefix of the body, per-context filtering,
unsubscribe purge, drop rule on a full receive buffer, per-publisher order, PUB never blocks."""
import os, re, time, json
from .. import core, build, lean, sim

PROP = "C05"
MODULES = ["NngModel.Props.C05"]
TIMEOUTS = [20, 50, 100]
ADV = [7, 13, 31, 61, 127]
# topic pool: empty, nested prefixes, siblings, binary (0x00 / 0xff), a long one
TOPICS = ["-", "61", "6162", "616263", "6161", "62", "00", "0000", "ff00", "ff", "6162636465666768", "7a"]
KINDS = ("sub", "pub", "xsub")


class Gen:
    """one op list for a SUB or PUB socket with enough shadow state to keep most operations
    meaningful (which pipes / contexts exist, which aios are free, pending deadlines)."""

    def __init__(self, r, kind):
        self.r, self.kind = r, kind
        self.ops = []
        self.npipes = 0
        self.live = []            # pipes believed open
        self.nbody = 0
        self.busy_aio = set()
        self.now = 0
        self.deadlines = set()
        self.ctx = set()          # open context slots
        self.subs = {}            # shadow: ctx key -> list of topics subscribed (to pick unsub targets)
        self.small = r.chance(2, 3)   # small receive buffers (so that they fill up)

    # -- helpers -----------------------------------------------------------------------------
    def topic(self):
        r = self.r
        k = r.below(10)
        if k < 8:
            return r.choice(TOPICS)
        return r.bytes(r.choice([1, 2, 3, 9])).hex()

    def body(self):
        """mostly: a pool topic (or a proper prefix of one / one byte off) followed by a counter,
        so that many bodies match some subscription; sometimes very short or empty"""
        r = self.r
        self.nbody += 1
        k = r.below(20)
        if k == 0:
            return "-"
        t = r.choice(TOPICS)
        t = "" if t == "-" else t
        if k == 1:
            return t or "-"                      # exactly the topic
        if k == 2 and len(t) >= 4:
            return t[:-2]                        # one byte shorter than the topic
        if k == 3 and t:
            b = bytearray.fromhex(t); b[-1] ^= 1
            t = b.hex()                          # last byte differs
        if k == 4:
            t = r.bytes(r.choice([1, 2, 4])).hex()
        return t + self.nbody.to_bytes(2, "big").hex() + r.bytes(r.choice([0, 0, 1, 5])).hex()

    def aio(self):
        free = [a for a in range(16) if a not in self.busy_aio]
        return self.r.choice(free) if free else None

    def mode(self):
        k = self.r.below(10)
        if k < 4:
            return "nb"
        if k < 7:
            return "inf"
        if k < 8:
            return "0"
        t = self.r.choice(TIMEOUTS)
        self.deadlines.add(self.now + t)
        return str(t)

    def advance(self):
        d = self.r.choice(ADV)
        while self.now + d in self.deadlines:
            d += 1
        self.now += d
        self.ops.append(f"advance {d}")
        self.busy_aio.clear()

    def anyctx(self):
        """a context reference: the socket, an open slot, rarely a closed / never opened one"""
        r = self.r
        k = r.below(20)
        if k == 0:
            return str(r.below(5))
        if self.ctx and k < 13:
            return str(r.choice(sorted(self.ctx)))
        return "-"

    def bufval(self):
        r = self.r
        if r.chance(1, 8):
            return r.choice([0, -1, 8192, 8193, 128])
        return r.choice([1, 1, 2, 2, 3, 4, 5, 8])

    # -- SUB -----------------------------------------------------------------------------------
    def gen_sub(self, n):
        r = self.r
        self.ops.append("open sub")
        if self.small:
            self.ops.append(f"setopt - recv-buffer int {r.choice([1, 2, 2, 3, 4])}")
        if r.chance(1, 2):
            self.ops.append(f"setopt - sub:prefnew bool {r.below(2)}")
        while len(self.ops) < n:
            k = r.below(100)
            if k < 6 and len(self.live) < 3 and self.npipes < 8:
                ok = r.chance(9, 10)
                self.ops.append(f"pipe_add {'0020' if ok else r.choice(['0021', '0050', '0010'])}")
                if ok:
                    self.live.append(self.npipes)
                self.npipes += 1
            elif k < 8 and self.npipes:
                p = r.choice(self.live) if self.live and r.chance(4, 5) else r.below(self.npipes)
                self.ops.append(f"pipe_drop {p}")
                if p in self.live: self.live.remove(p)
            elif k < 36:
                if not self.live:
                    if self.npipes >= 8:
                        self.advance(); continue
                    self.ops.append("pipe_add 0020"); self.live.append(self.npipes); self.npipes += 1
                    continue
                p = r.choice(self.live) if r.chance(19, 20) else r.below(self.npipes)
                if r.chance(29, 30):
                    self.ops.append(f"recv_done {p} {self.body()}")
                else:
                    self.ops.append(f"recv_done {p} !{r.choice([7, 19, 31])}")
                    if p in self.live: self.live.remove(p)
                self.busy_aio.clear()
            elif k < 56:
                a = self.aio()
                if a is None:
                    self.advance(); continue
                m = self.mode()
                self.ops.append(f"recv {self.anyctx()} {a} {m}")
                if m not in ("nb", "0"):
                    self.busy_aio.add(a)
            elif k < 68:
                c = self.anyctx()
                t = self.topic()
                self.ops.append(f"sub {c} {t}")
                self.subs.setdefault(c, []).append(t)
            elif k < 75:
                c = self.anyctx()
                have = self.subs.get(c, [])
                if have and r.chance(4, 5):
                    t = r.choice(have)
                    if r.chance(3, 4):
                        have.remove(t)
                else:
                    t = self.topic()
                self.ops.append(f"unsub {c} {t}")
            elif k < 79:
                free = [c for c in range(4) if c not in self.ctx]
                if free and (len(self.ctx) < 3):
                    c = r.choice(free)
                    self.ops.append(f"ctx_open {c}")
                    self.ctx.add(c); self.subs[str(c)] = []
                elif r.chance(1, 10):
                    self.ops.append(f"ctx_open {r.below(4)}")    # re-open of a slot in use: the old context is orphaned
            elif k < 81 and self.ctx:
                c = r.choice(sorted(self.ctx))
                self.ops.append(f"ctx_close {c}")
                self.ctx.discard(c); self.subs.pop(str(c), None)
                self.busy_aio.clear()
            elif k < 84:
                self.ops.append(f"setopt {self.anyctx()} recv-buffer int {self.bufval()}")
            elif k < 86:
                self.ops.append(f"setopt {self.anyctx()} sub:prefnew bool {r.below(2)}")
            elif k < 88:
                self.ops.append(f"getopt {self.anyctx()} {r.choice(['recv-buffer int', 'sub:prefnew bool'])}")
            elif k < 91:
                self.ops.append(f"cancel {r.below(16)}")
                self.busy_aio.clear()
            elif k < 92:
                self.ops.append(f"abort {r.below(16)} {r.choice([5, 20, 7])}")
                self.busy_aio.clear()
            elif k < 96:
                self.advance()
            elif k < 99:
                self.ops.append("poll")
            elif r.chance(1, 3):
                a = self.aio()
                if a is not None:
                    self.ops.append(f"send {self.anyctx()} {a} - 0102 {r.choice(['nb', 'inf'])}")
            elif r.chance(1, 2):
                self.ops.append("close")
                break
        return self.ops

    # -- PUB -----------------------------------------------------------------------------------
    def gen_pub(self, n):
        r = self.r
        self.ops.append("open pub" + (" raw" if r.chance(1, 4) else ""))
        if r.chance(3, 4):
            self.ops.append(f"setopt - send-buffer int {r.choice([1, 1, 2, 2, 3, 4])}")
        while len(self.ops) < n:
            k = r.below(100)
            if k < 10 and len(self.live) < 4 and self.npipes < 8:
                ok = r.chance(9, 10)
                self.ops.append(f"pipe_add {'0021' if ok else r.choice(['0020', '0051', '0010'])}")
                if ok:
                    self.live.append(self.npipes)
                self.npipes += 1
            elif k < 12 and self.npipes:
                p = r.choice(self.live) if self.live and r.chance(4, 5) else r.below(self.npipes)
                self.ops.append(f"pipe_drop {p}")
                if p in self.live: self.live.remove(p)
            elif k < 55:
                a = self.aio()
                hdr = "-" if r.chance(5, 6) else r.bytes(r.choice([1, 4])).hex()
                c = "-" if r.chance(40, 41) else "0"
                self.ops.append(f"send {c} {a} {hdr} {self.body()} {self.mode()}")
            elif k < 80 and self.npipes:
                p = r.choice(self.live) if self.live and r.chance(19, 20) else r.below(self.npipes)
                ok = r.chance(19, 20)
                self.ops.append(f"send_done {p} {0 if ok else r.choice([7, 19, 31])}")
                if not ok and p in self.live: self.live.remove(p)     # (only if a send was in flight; the shadow is approximate)
            elif k < 81 and self.npipes:
                p = r.below(self.npipes)
                self.ops.append(f"recv_done {p} {self.body() if r.chance(1, 2) else '!7'}")
                if p in self.live: self.live.remove(p)
            elif k < 88:
                self.ops.append(f"setopt - send-buffer int {self.bufval()}")
            elif k < 90:
                self.ops.append("getopt - send-buffer int")
            elif k < 93:
                self.advance()
            elif k < 96:
                self.ops.append("poll")
            elif k < 97:
                self.ops.append(f"cancel {r.below(16)}")
            elif k < 98:
                self.ops.append(f"recv - {self.aio()} {r.choice(['nb', 'inf'])}")
            elif k < 99:
                self.ops.append(r.choice(["ctx_open 0", "sub - 61", "unsub - 61", "abort 3 5"]))
            elif r.chance(1, 2):
                self.ops.append("close")
                break
        return self.ops

    # -- raw SUB (xsub.c + the socket's upper read queue) -----------------------------------------
    def gen_xsub(self, n):
        r = self.r
        self.ops.append("open sub raw")
        if self.small:
            self.ops.append(f"setopt - recv-buffer int {r.choice([0, 1, 2, 2, 3, 4])}")
        while len(self.ops) < n:
            k = r.below(100)
            if k < 6 and len(self.live) < 3 and self.npipes < 8:
                ok = r.chance(9, 10)
                self.ops.append(f"pipe_add {'0020' if ok else r.choice(['0021', '0050', '0010'])}")
                if ok:
                    self.live.append(self.npipes)
                self.npipes += 1
            elif k < 8 and self.npipes:
                p = r.choice(self.live) if self.live and r.chance(4, 5) else r.below(self.npipes)
                self.ops.append(f"pipe_drop {p}")
                if p in self.live: self.live.remove(p)
            elif k < 40:
                if not self.live:
                    if self.npipes >= 8:
                        self.advance(); continue
                    self.ops.append("pipe_add 0020"); self.live.append(self.npipes); self.npipes += 1
                    continue
                p = r.choice(self.live) if r.chance(19, 20) else r.below(self.npipes)
                if r.chance(29, 30):
                    self.ops.append(f"recv_done {p} {self.body()}")
                else:
                    self.ops.append(f"recv_done {p} !{r.choice([7, 19, 31])}")
                    if p in self.live: self.live.remove(p)
                self.busy_aio.clear()
            elif k < 70:
                a = self.aio()
                if a is None:
                    self.advance(); continue
                m = self.mode()
                c = "-" if r.chance(30, 31) else "0"
                self.ops.append(f"recv {c} {a} {m}")
                if m not in ("nb", "0"):
                    self.busy_aio.add(a)
            elif k < 76:
                self.ops.append(f"setopt - recv-buffer int {self.bufval()}")
            elif k < 79:
                self.ops.append("getopt - recv-buffer int")
            elif k < 83:
                self.ops.append(f"cancel {r.below(16)}")
                self.busy_aio.clear()
            elif k < 85:
                self.ops.append(f"abort {r.below(16)} {r.choice([5, 20, 7])}")
                self.busy_aio.clear()
            elif k < 90:
                self.advance()
            elif k < 96:
                self.ops.append("poll")
            elif k < 98:
                a = self.aio()
                if a is not None:
                    self.ops.append(f"send {'-' if r.chance(3, 4) else '0'} {a} - 0102 {r.choice(['nb', 'inf'])}")
            elif k < 99:
                self.ops.append(r.choice(["ctx_open 0", "ctx_close 0", "sub - 61", "unsub - 61", "sub 0 61"]))
            elif r.chance(1, 2):
                self.ops.append("close")
                break
        return self.ops

    def gen(self, n):
        return {"sub": self.gen_sub, "pub": self.gen_pub, "xsub": self.gen_xsub}[self.kind](n)


XSUB_BASE = 10_000_000      # raw-SUB cases use their own index range, so the SUB / PUB streams are what they were


def gen_case(seed, tier, i):
    r = core.Rng(seed, PROP, tier, i)
    kind = "xsub" if i >= XSUB_BASE else ("pub" if i % 3 == 2 else "sub")
    return kind, Gen(r, kind).gen(r.range(8, 60))


def kind_of(ops):
    for o in ops[:3]:
        if o.startswith("open pub"):
            return "pub"
        if o.startswith("open sub raw"):
            return "xsub"
    return "sub"


def corpus_cases():
    out = []
    d = os.path.join(core.HERE, "corpus", PROP)
    if os.path.isdir(d):
        for f in sorted(os.listdir(d)):
            ops = [l.strip() for l in open(os.path.join(d, f)) if l.strip() and not l.startswith("#")]
            if ops:
                out.append((kind_of(ops), ops))
    return out


MAX_CASES_PER_PROCESS = 80   # harness/simplat.c keeps every mutex address ever used in a fixed table (8192 slots, never
                             # reclaimed): a stream of a few hundred SUB cases fills it and the harness spins in mowner()


def crash_signature(stderr):
    """first sanitizer diagnostic line without addresses / pids"""
    import re
    for l in stderr.splitlines():
        if "runtime error" in l or "ERROR: AddressSanitizer" in l or "SIM:" in l:
            l = re.sub(r"0x[0-9a-f]+", "ADDR", l)
            l = re.sub(r"==\d+==", "", l)
            return l.strip()[:200]
    return "no-diagnostic"


def locate_crash(exe, cs, c, scheds, limit=600):
    """the harness' stdout is block-buffered and lost when a sanitizer stops the process, so the case that
    crashed is at or after the one sim.run_sim reports: replay the following cases one by one"""
    n = 0
    for ci in range(c["case"], len(cs)):
        for k in scheds:
            ops = [f"sched {k}"] + cs[ci]
            impl, il, _ = sim.run_one(exe, None, ops)
            if impl.rc != 0:
                return ci, ops, impl
            n += 1
            if n >= limit:
                return None
    return None


def run_batched(cases, exe, model_comp, judge_comp, scheds):
    """sim.run_sim in batches small enough for one harness process; results merged"""
    per = max(1, MAX_CASES_PER_PROCESS * core.NCPU // len(scheds))
    tot = sim.SimResult()
    for off in range(0, len(cases), per):
        res = sim.run_sim(PROP, cases[off:off + per], exe, model_comp, judge_comp, scheds)
        tot.cases += res.cases; tot.runs += res.runs; tot.ops += res.ops
        for lst, src in ((tot.judge_viol, res.judge_viol), (tot.model_mismatch, res.model_mismatch), (tot.crashes, res.crashes)):
            for x in src:
                x["case"] += off
                lst.append(x)
        for k, x in res.op_hist.items(): tot.op_hist[k] = tot.op_hist.get(k, 0) + x
        for k, x in res.ev_hist.items(): tot.ev_hist[k] = tot.ev_hist.get(k, 0) + x
    return tot


def run(tier, seed, replay=None):
    t0 = time.time()
    v = core.Verdict(PROP, seed)
    rp = json.load(open(replay)) if replay else None      # read it before the replay directory is cleared
    core.clear_replays(PROP)
    st = lean.prepare(MODULES)
    core.log(PROP, f"lean: {len(st.discharged)}/{len(st.theorems)} theorems re-checked; extract {st.extract_count} constants "
                   f"(changed: {st.extract_changed}); {st.build_s:.1f}s")
    try:
        exe = sim.build_sim("s_proto", ["s_proto.c"])
    except build.BuildError as e:
        v.violation("build", {"kind": "build", "error": str(e), "log": e.log[-4000:]}, no_input=True)
        core.write_evidence(PROP, tier, seed, "proof", {"obligations": max(1, len(st.theorems)), "discharged": 0, "checker_cmd": "lake build",
                            "trusted_base": [], "explanation": "implementation or harness does not build"}, [], time.time() - t0, 1)
        return v.finish()
    n = 2400 if tier == "quick" else 60000
    scheds = (1, 2, 3) if tier == "quick" else tuple(range(1, 11))
    if replay:
        ops = rp["ops"]
        if ops and ops[0].startswith("sched"):
            scheds = (int(ops[0].split()[1]),)
            ops = ops[1:]
        allc = [(kind_of(ops), ops)]
    else:
        nx = 600 if tier == "quick" else 15000
        allc = corpus_cases() + [gen_case(seed, tier, i) for i in range(n)] + [gen_case(seed, tier, XSUB_BASE + i) for i in range(nx)]
    results = {}
    for kind in KINDS:
        cs = [ops for k, ops in allc if k == kind]
        if cs:
            results[kind] = (cs, run_batched(cs, exe, f"{kind}-model" if st.driver_ok else None,
                                             f"{kind}-judge" if st.driver_ok else None, scheds))
    found_input = False
    tot = {"cases": 0, "runs": 0, "ops": 0, "judge": 0, "model": 0, "crash": 0}
    op_hist, ev_hist = {}, {}
    for kind, (cs, res) in results.items():
        tot["cases"] += res.cases; tot["runs"] += res.runs; tot["ops"] += res.ops
        tot["judge"] += len(res.judge_viol); tot["model"] += len(res.model_mismatch); tot["crash"] += len(res.crashes)
        for k, x in res.op_hist.items(): op_hist[k] = op_hist.get(k, 0) + x
        for k, x in res.ev_hist.items(): ev_hist[k] = ev_hist.get(k, 0) + x
        seen_crash = set()
        for c in res.crashes:
            if len(seen_crash) >= 2:
                break
            loc = locate_crash(exe, cs, c, scheds)
            if loc is None:
                sig = "unlocated"
                ops, stderr, rc = c["ops"], c["stderr"], c["rc"]
            else:
                ci, ops, impl = loc
                stderr, rc = impl.err[-3000:], impl.rc
                sig = crash_signature(stderr)
            if sig in seen_crash:
                continue
            seen_crash.add(sig)
            if loc is not None:
                ops = sim.minimise(exe, None, ops, False)
            v.violation(f"crash-{kind}-{c['case']}", {"kind": "crash / sanitizer report / deadlock of the implementation under the simulated platform",
                        "signature": sig, "ops": ops, "rc": rc, "last_output": c["last"], "stderr": stderr})
            found_input = True
        # one report per distinct clause (at most three)
        seen = set()
        for jv in res.judge_viol:
            key = re.sub(r"\d+", "N", jv["clause"])
            if key in seen or len(seen) >= 3:
                continue
            seen.add(key)
            ops = sim.minimise(exe, f"{kind}-judge", jv["ops"], True)
            impl, il, verdicts = sim.run_one(exe, f"{kind}-judge", ops, True)
            clause = next((x[10:] for x in (verdicts or []) if x.startswith("VIOLATION")), jv["clause"])
            v.violation(f"judge-{kind}-{jv['case']}", {"kind": "implementation trace violates the C05 trace predicate (Spec/PubSub.lean)",
                        "clause": clause, "ops": ops, "impl": il, "judge": verdicts})
            found_input = True
    core.log(PROP, f"cases {tot['cases']} runs {tot['runs']} ops {tot['ops']}; judge violations {tot['judge']}, model mismatches {tot['model']}, crashes {tot['crash']}")
    if not found_input:
        for kind, (cs, res) in results.items():
            if res.model_mismatch:
                mm = res.model_mismatch[0]
                ops = sim.minimise(exe, f"{kind}-model", mm["ops"], False)
                impl, il, ml = sim.run_one(exe, f"{kind}-model", ops)
                v.violation(f"corr-{kind}", {"kind": "correspondence broken: implementation differs from the Lean model the C05 theorems are about "
                            "(no trace violating the property predicate was found)", "correspondence": f"{kind}-model vs s_proto",
                            "ops": ops, "impl": il, "model": ml, "mismatching_runs": len(res.model_mismatch)}, no_input=True)
                break
        if not st.ok:
            v.violation("proof", {"kind": "proof obligation no longer checks", "broken": st.broken, "log": st.log[-3000:]}, no_input=True)
    allops = [ops for _, ops in allc]
    cov = {"obligations": len(st.theorems), "discharged": len(st.discharged),
           "checker_cmd": "lake build NngModel.Props.C05 && lake env lean <#print axioms for each theorem>",
           "trusted_base": ["Lean 4.33.0 kernel", "axioms: " + ", ".join(sorted({a for x in st.axioms.values() if x for a in x})),
                            "vlib/extract.py + extract_c05.py (constants)", "harness/simplat.c (scheduler, virtual clock), mocktran.c (transport contract), s_proto.c",
                            "vlib/sim.py (diff, canonicalisation of event order within a quiescent batch)", "gcc ASan/UBSan"],
           "theorems": st.discharged, "axioms": st.axioms, "broken": st.broken,
           "evaluations": tot["runs"], "distinct_nontrivial": len({tuple(o) for o in allops if len(o) > 4}),
           "rule": "event histories for one SUB socket (2 of 3 cases; up to 3 contexts besides the socket, topics from a pool of empty / nested / "
                   "sibling / binary / long topics plus random ones, bodies built from pool topics (exact, one byte short, one byte off, extended), "
                   "receive buffers 1-8 and both PREFNEW settings, subscribe / unsubscribe / receive in all modes / cancel / abort / time / "
                   "context open-close-reopen / option changes / poll / close) or one PUB socket (send buffers 1-8, 0-4 pipes, sends in all modes, "
                   "transport completions ok/err, pipe add/drop, resizes) or (600 quick / 15000 thorough extra cases) one raw SUB socket (receive "
                   "buffers 0-8 incl. shrinks below the fill level, arrivals, receives in all modes, cancel / abort / time / poll / close), 8-60 events from splitmix64(seed,C05,tier,i), each run under "
                   f"{len(scheds)} schedule seeds; distinct = distinct op lists longer than 4",
           "schedules_per_case": len(scheds), "ops": tot["ops"], "op_histogram": op_hist, "event_histogram": ev_hist,
           "samples": [allops[0], allops[-1]], "judge_violations": tot["judge"], "model_mismatches": tot["model"], "crashes": tot["crash"],
           "extract_changed": st.extract_changed}
    core.write_evidence(PROP, tier, seed, "proof", cov,
                        ["protocol callbacks are atomic under the protocol mutex (SIM still interleaves their unlocked tails)",
                         "the mock transport honours the transport contract of the real transports",
                         "nni_lmq behaves as a bounded FIFO (C18)", "allocation never fails (nni_msg_dup / nni_msg_unique / topic allocation)",
                         "raw SUB: the socket's upper read queue (nni_msgq) behaves as the FIFO channel of C18 (ring indices abstracted)"],
                        time.time() - t0, len(v.violations))
    return v.finish()
