"""C16 — WebSocket / HTTP codecs.  UNIT executor.

Three sub-checks, each a three-way differential run (real code / Lean specification / Lean model):
  ws    : harness/u_ws.c includes the real websocket.c and drives its static frame functions
          (ws_read_cb..., ws_str_send/ws_frame_prep_tx/ws_write_cb, ws_msg_init_control, ws_apply_mask)
  chunk : harness/u_codec.c over nni_http_chunks_* (chunked transfer decoding)
  b64   : harness/u_codec.c over nni_base64_encode/decode and nni_sha1 (vectors only)
"""
import re, time, os, json
from .. import core, build, lean, unit

PROP = "C16"
MODULES = ["NngModel.Props.C16", "NngModel.Props.C16Http", "NngModel.Props.C16Sha1", "NngModel.Props.C16Upgrade",
           "NngModel.Props.C16Queue", "NngModel.Props.C16Server", "NngModel.Props.C16ServerSrc",
           "NngModel.Props.C16Client"]
ALLOC_LIMIT = 1 << 22

# ------------------------------------------------------------------------------------------ WS
PAY = [0, 0, 1, 1, 2, 3, 4, 5, 7, 8, 9, 15, 16, 17, 31, 32, 33, 60, 124, 125, 126, 127, 128, 200, 300, 1000]
BIG = [65535, 65536, 65537, 70000]


def enc_len(n, form=None):
    """length field; form None = minimal, 16/64 = forced (possibly non-minimal)"""
    if form is None:
        form = 7 if n < 126 else (16 if n < 65536 else 64)
    if form == 7:
        return n & 0x7f, b""
    if form == 16:
        return 126, (n & 0xffff).to_bytes(2, "big")
    return 127, (n & ((1 << 64) - 1)).to_bytes(8, "big")


def xor_mask(key, data):
    return bytes(b ^ key[i & 3] for i, b in enumerate(data))


def frame(op, fin, payload, masked, key=b"\0\0\0\0", rsv=0, form=None, declared=None):
    n = len(payload) if declared is None else declared
    l7, ext = enc_len(n, form)
    b0 = (0x80 if fin else 0) | (rsv << 4) | (op & 0x0f)
    b1 = (0x80 if masked else 0) | l7
    out = bytes([b0, b1]) + ext
    if masked:
        out += key + xor_mask(key, payload)
    else:
        out += payload
    return out


def gen_ws_case(r, idx):
    server = r.chance(1, 2)
    isstream = r.chance(1, 6)
    recvtext = r.chance(1, 3)
    sendtext = r.chance(1, 3)
    maxframe = r.choice([0, 0, 125, 126, 1000, 65535, 65536, 1 << 20, 1 << 20])
    recvmax = r.choice([0, 0, 50, 300, 2000, 1 << 20, 1 << 20])
    fragsize = r.choice([0, 1, 2, 5, 125, 126, 127, 1000, 65535, 65536, 1 << 16, 1 << 20])
    ops = [f"cfg {int(server)} {int(isstream)} {int(recvtext)} {int(sendtext)} {maxframe} {recvmax} {fragsize} {ALLOC_LIMIT}"]
    peer_masks = server  # frames toward a server are masked
    allow_big = r.chance(1, 40)
    mutate = r.chance(1, 2)
    stream = []  # list of frames (bytes), in order
    budget = 200000

    def psize():
        if allow_big and r.chance(1, 3):
            return r.choice(BIG)
        k = r.below(10)
        if k < 6:
            return r.choice(PAY)
        if k < 9:
            return r.range(0, 140)
        return r.range(0, 2500)

    def key():
        return r.bytes(4)

    def ssize():
        # size of a message we send: at most ~300 frames
        n = psize()
        if fragsize and n // fragsize > 300:
            n = fragsize * r.range(0, 300) + r.below(fragsize)
        return n

    def ctl():
        op = r.choice([9, 9, 10])
        return frame(op, True, r.bytes(r.choice([0, 1, 4, 60, 124, 125, r.range(0, 125)])), peer_masks, key())

    nmsg = r.range(1, 5)
    for _ in range(nmsg):
        n = psize()
        if budget - n < 0:
            break
        budget -= n
        data = r.bytes(n)
        # cut into fragments
        pieces = []
        if r.chance(1, 3) or n == 0:
            pieces = [data]
        else:
            fs = r.choice([1, 2, 3, 7, 64, 125, 126, 1000, 65536]) if r.chance(1, 2) else r.range(1, max(1, n))
            if n // fs > 40:
                fs = n // 40 + 1
            pieces = [data[i:i + fs] for i in range(0, n, fs)]
            if r.chance(1, 6):
                pieces.insert(r.below(len(pieces) + 1), b"")  # empty fragment
        dop = 1 if (recvtext and r.chance(1, 2)) else 2
        for i, p in enumerate(pieces):
            while r.chance(1, 5):
                stream.append(ctl())
            stream.append(frame(dop if i == 0 else 0, i == len(pieces) - 1, p, peer_masks, key()))
        while r.chance(1, 6):
            stream.append(ctl())
    if r.chance(1, 8):
        stream.append(frame(8, True, r.choice([b"", b"\x03\xe8", b"\x03\xe9bye"]), peer_masks, key()))
        if r.chance(1, 2):
            stream.append(frame(2, True, b"after-close", peer_masks, key()))
    if mutate and stream:
        k = r.below(len(stream))
        m = r.below(14)
        p = r.bytes(r.choice([0, 1, 5, 125, 126, 130, 200, 300]))
        if m == 0:   # wrong mask direction
            bad = frame(r.choice([0, 2, 9, 8]), True, p[:100], not peer_masks, key())
        elif m == 1:  # reserved opcode
            bad = frame(r.choice([3, 4, 5, 6, 7, 11, 12, 13, 14, 15]), r.chance(1, 2), p, peer_masks, key())
        elif m == 2:  # RSV bit
            bad = frame(r.choice([0, 1, 2, 8, 9, 10]), r.chance(1, 2), p, peer_masks, key(), rsv=r.range(1, 7))
        elif m == 3:  # non-minimal 16-bit
            q = p[:r.range(0, 125)]
            bad = frame(r.choice([2, 0, 9]), True, q, peer_masks, key(), form=16)
        elif m == 4:  # non-minimal 64-bit
            q = r.bytes(r.choice([0, 1, 125, 126, 300, 1000]))
            bad = frame(r.choice([2, 0, 10]), True, q, peer_masks, key(), form=64)
        elif m == 5:  # control too long
            bad = frame(r.choice([9, 10, 8]), True, r.bytes(r.choice([126, 127, 200, 1000])), peer_masks, key())
        elif m == 6:  # continuation with nothing open / data while open: place a stray frame
            bad = frame(r.choice([0, 2, 1]), r.chance(1, 2), p, peer_masks, key())
        elif m == 7:  # frame above maxframe
            n = (maxframe + r.choice([1, 2, 100])) if maxframe else r.choice([1 << 23, 1 << 40, (1 << 63) + 5, (1 << 64) - 1])
            q = r.bytes(min(n, 3000))
            bad = frame(2, True, q, peer_masks, key(), declared=n)
        elif m == 8:  # message above recvmax through many fragments
            lim = recvmax if recvmax else 5000
            part = r.bytes(min(lim // 2 + 1, 40000))
            stream[k:k] = [frame(2, False, part, peer_masks, key()), frame(0, False, part, peer_masks, key())]
            bad = frame(0, True, part, peer_masks, key())
            k += 2
        elif m == 9:  # text frame
            bad = frame(1, True, p, peer_masks, key())
        elif m == 10:  # fragmented control frame (not in the property's list: accepted by nng)
            bad = frame(9, False, p[:125], peer_masks, key())
        elif m == 11:  # truncate the stream
            bad = None
            stream = stream[:k] + [stream[k][:r.below(len(stream[k]) + 1)]]
        elif m == 12:  # garbage
            bad = r.bytes(r.range(1, 20))
        else:  # message exactly at / one above recvmax with a ping in between (control frames do not count)
            lim = recvmax if 0 < recvmax <= 2000 else 300
            tot = lim + r.choice([0, 0, 1])
            a = r.range(0, tot)
            d = r.bytes(tot)
            stream[k:k] = [frame(2, False, d[:a], peer_masks, key()), frame(9, True, r.bytes(r.range(1, 125)), peer_masks, key())]
            bad = frame(0, True, d[a:], peer_masks, key())
            k += 2
        if bad is not None:
            stream.insert(k, bad)
    wire = b"".join(stream)
    # segmentation
    mode = r.below(6)
    blocks = []
    if mode == 0 or not wire:
        blocks = [wire]
    elif mode == 1 and len(wire) <= 400:
        blocks = [wire[i:i + 1] for i in range(len(wire))]
    elif mode == 2:
        blocks = list(stream)
    else:
        ncut = r.range(1, 8)
        cuts = sorted({r.below(len(wire) + 1) for _ in range(ncut)} | {0, len(wire)})
        blocks = [wire[a:b] for a, b in zip(cuts, cuts[1:])]
    closed_at = r.below(len(blocks) + 1) if r.chance(1, 12) else -1
    for i, b in enumerate(blocks):
        if i == closed_at:
            ops.append("close")
        if r.chance(1, 4):
            n = ssize()
            h = r.bytes(r.choice([0, 0, 4, 8])) if not isstream else b""
            ops.append(f"send {core.hexs(h)} {core.hexs(r.bytes(n))} {r.below(1 << 32)}")
        if r.chance(1, 12):
            ops.append(f"ctl {r.choice([8, 9, 10])} {core.hexs(r.bytes(r.choice([0, 2, 125, 126, 130])))} {r.below(1 << 32)}")
        if r.chance(1, 12):
            ops.append(f"mask {r.bytes(4).hex()} {r.below(9)} {core.hexs(r.bytes(r.choice([0, 1, 3, 4, 5, 7, 8, 9, 15, 16, 17, 23, 24, 31, 32, 33, 47, 48, 63, 64, 65, 100])))}")
        ops.append(f"rx {core.hexs(b)}")
    if r.chance(1, 3):
        ops.append(f"send - {core.hexs(r.bytes(ssize()))} {r.below(1 << 32)}")
    ops.append("end")
    return ops


def ws_directed():
    cs = []
    base = f"1048576 1048576 65536 {ALLOC_LIMIT}"
    for server in (0, 1):
        m = bool(server)
        k = bytes([1, 2, 3, 4])
        # every cut of a small fragmented message with an interleaved ping
        wire = frame(2, False, b"he", m, k) + frame(9, True, b"pp", m, k) + frame(0, False, b"", m, k) + frame(0, True, b"llo", m, k)
        for cut in range(len(wire) + 1):
            cs.append([f"cfg {server} 0 0 0 {base}", f"rx {core.hexs(wire[:cut])}", f"rx {core.hexs(wire[cut:])}", "end"])
        # length-encoding boundaries
        for n in (125, 126, 127, 65535, 65536):
            cs.append([f"cfg {server} 0 0 0 {base}", f"rx {core.hexs(frame(2, True, bytes(n), m, k))}", f"send - {'ab' * n} 9", "end"])
        # empty ping, empty message, close
        cs.append([f"cfg {server} 0 0 0 {base}", f"rx {core.hexs(frame(9, True, b'', m, k))}", f"rx {core.hexs(frame(2, True, b'', m, k))}",
                   f"rx {core.hexs(frame(8, True, b'', m, k))}", "end"])
        # ping interleaved in a message that exactly fills recvmax
        cs.append([f"cfg {server} 0 0 0 1048576 10 65536 {ALLOC_LIMIT}", f"rx {core.hexs(frame(2, False, b'12345', m, k))}",
                   f"rx {core.hexs(frame(9, True, b'x', m, k))}", f"rx {core.hexs(frame(0, True, b'67890', m, k))}", "end"])
    return cs


EVKEEP = ("m:", "d:")


def _evs(line):
    m = re.search(r" ev=(\S+)", line)
    if not m or m.group(1) == "-":
        return []
    return m.group(1).split(",")


def ws_proj_spec(l):
    w = l.split()
    if not w:
        return l
    if w[0] in ("rx", "cfg", "close"):
        return w[0] + " " + ",".join(e for e in _evs(l) if e.startswith(EVKEEP))
    if w[0] == "send":
        if l.startswith("send rv=0 ") or l == "send ok":
            return "send ok"
        m = re.match(r"send rv=(\d+)", l)
        return f"send rv={m.group(1)}" if m else l
    if w[0] == "ctl":
        return "ctl ok" if l.startswith("ctl rv=") else l
    if w[0] == "end":
        return "end ok" if l.startswith("end closed=") else l
    return l


def ws_spec_rewrite(ops, impl_lines):
    out = []
    emitted = []
    for k, op in enumerate(ops):
        l = impl_lines[k] if k < len(impl_lines) else None
        w = op.split()
        if l is None:
            out.append(op)
            continue
        tx = [e[2:] for e in _evs(l) if e.startswith("t:")]
        if w[0] == "send":
            m = re.match(r"send rv=(\d+) n=(\d+)", l)
            if m:
                out.append(f"chk-send {w[1]} {w[2]} {m.group(1)} {m.group(2)} {','.join(tx) or '-'}")
            else:
                out.append(op)
        elif w[0] == "ctl":
            m = re.match(r"ctl rv=(\d+)(?: f=(\S+))?", l)
            out.append(f"chk-ctl {w[1]} {w[2]} {m.group(1)} {m.group(2) or '-'}" if m else op)
        elif w[0] == "end":
            m = re.match(r"end closed=(\d)", l)
            out.append(f"chk-end {m.group(1)} {','.join(emitted) or '-'}" if m else op)
        else:
            emitted += tx
            out.append(op)
    return out



# ------------------------------------------------------------------------------------------ chunked
CH_SIZES = [1, 1, 2, 3, 9, 15, 16, 17, 100, 255, 256, 257, 1000, 4095, 4096, 5000]


def hexsize(r, n):
    t = "%x" % n
    if r.chance(1, 3):
        t = t.upper()
    if r.chance(1, 5):
        t = "0" * r.range(1, 3) + t
    return t.encode()


def gen_chunk_stream(r):
    """returns (bytes, maxsz)"""
    maxsz = r.choice([0, 0, 10, 100, 1000, 100000, 100000])
    out = bytearray()
    nch = r.range(0, 5)
    tot = 0
    for _ in range(nch):
        n = r.choice(CH_SIZES) if r.chance(2, 3) else r.range(1, 300)
        tot += n
        out += hexsize(r, n)
        if r.chance(1, 4):
            out += b";" + r.choice([b"", b"a=b", b"name=\"quoted value\"", b" x ; y"])
        out += b"\r\n" + r.bytes(n) + b"\r\n"
    out += r.choice([b"0", b"0", b"00", b"0000"])
    if r.chance(1, 5):
        out += b";last"
    out += b"\r\n"
    for _ in range(r.choice([0, 0, 0, 1, 2])):
        out += r.choice([b"X-Trailer: 1", b"Foo: bar baz", b"a", b":"]) + b"\r\n"
    out += b"\r\n"
    if r.chance(1, 4):
        out += r.bytes(r.range(1, 10))  # bytes after the end: must not be consumed
    if r.chance(1, 2):
        m = r.below(14)
        pos = r.below(len(out))
        if m == 0:
            out[pos] = r.below(256)
        elif m == 1:
            out = out[:pos]
        elif m == 2:
            out[0:0] = r.choice([b"g", b" ", b"\r\n", b"-1", b"0x", b";", b"z9"])
        elif m == 3:
            out[0:0] = b"fffffffffffffffff\r\n"           # 17 digits: size_t overflow
        elif m == 4:
            out[0:0] = r.choice([b"fffffffffffffffe", b"ffffffffffffffff", b"fffffffffffffffd", b"8000000000000000"]) + b"\r\n"
        elif m == 5:
            out[0:0] = (b"%x" % (maxsz + r.choice([0, 1, 2]) if maxsz else (ALLOC_LIMIT + r.choice([-3, -2, -1, 0, 1])))) + b"\r\n"
        elif m == 6:
            i = out.find(b"\r\n")
            if i >= 0:
                out[i:i + 2] = r.choice([b"\n", b"\r", b"\r\r\n", b"\rX"])
        elif m == 7:
            i = out.find(b";")
            if i >= 0:
                out[i + 1:i + 1] = bytes([r.choice([0, 7, 9, 127, 128, 255])])
        elif m == 8:
            # break the CRLF after some chunk data
            i = out.rfind(b"\r\n0")
            if i > 0:
                out[i:i + 2] = r.choice([b"XY", b"\rY", b"X\n", b"\n\r"])
        elif m == 9:
            i = out.rfind(b"\r\n\r\n")
            if i >= 0:
                out[i + 2:i + 2] = r.choice([b"\x01bad: x\r\n", b"ok: \xff\r\n", b"line\n", b"line\r\r\n"])
        elif m == 10 and maxsz:
            # total just over the maximum, spread over chunks
            a = maxsz // 2 + 1
            out[0:0] = (b"%x\r\n" % a) + r.bytes(a) + b"\r\n" + (b"%x\r\n" % a)
        elif m == 11:
            out[pos:pos] = r.bytes(r.range(1, 4))
        elif m == 12:
            out[0:0] = b"0\r\n\r\n"
        else:
            del out[pos:pos + r.range(1, 3)]
    return bytes(out), maxsz


def cut_blocks(r, wire, allow_bytewise=True):
    mode = r.below(5)
    if mode == 0 or not wire:
        return [wire]
    if mode == 1 and allow_bytewise and len(wire) <= 600:
        return [wire[i:i + 1] for i in range(len(wire))]
    ncut = r.range(1, 10)
    cuts = sorted({r.below(len(wire) + 1) for _ in range(ncut)} | {0, len(wire)})
    return [wire[a:b] for a, b in zip(cuts, cuts[1:])]


def gen_chunk_case(r, idx):
    wire, maxsz = gen_chunk_stream(r)
    ops = [f"init {maxsz} {ALLOC_LIMIT}"]
    for b in cut_blocks(r, wire):
        ops.append(f"parse {core.hexs(b)}")
    return ops


def chunk_directed():
    cs = []
    for wire in [b"3\r\nabc\r\n0\r\n\r\n", b"1;x\r\nZ\r\n00\r\nT: v\r\n\r\nrest", b"2\r\nabXY0\r\n\r\n", b"A\r\n0123456789\r\n0\r\n\r\n"]:
        for cut in range(len(wire) + 1):  # every cut
            cs.append(["init 0 4194304", f"parse {core.hexs(wire[:cut])}", f"parse {core.hexs(wire[cut:])}"])
        cs.append(["init 2 4194304"] + [f"parse {core.hexs(wire[i:i + 1])}" for i in range(len(wire))])
    return cs


def codec_proj_spec(l):
    w = l.split()
    if w and w[0] == "parse":
        return " ".join(x for x in w if not x.startswith("chunks="))
    if w and w[0] == "sha1":
        return "sha1"
    return l


# ------------------------------------------------------------------------------------------ base64 / sha1
import base64 as _b64, hashlib as _hl


def gen_b64_case(r, idx):
    ops = []
    for _ in range(r.range(3, 12)):
        k = r.below(10)
        if k < 3:
            n = r.choice([0, 1, 2, 3, 4, 5, 6, 16, 20, 57, 100]) if r.chance(2, 3) else r.range(0, 200)
            need = (n + 2) // 3 * 4
            outlen = r.choice([need + 1, need + 1, need, need - 1 if need else 0, 0, need + 10, r.range(0, need + 2)])
            ops.append(f"b64e {core.hexs(r.bytes(n))} {outlen}")
        elif k < 8:
            raw = r.bytes(r.choice([0, 1, 2, 3, 4, 5, 16, 20, 33]) if r.chance(2, 3) else r.range(0, 120))
            enc = bytearray(_b64.b64encode(raw))
            m = r.below(8)
            if m == 0 and enc:
                enc[r.below(len(enc))] = r.below(256)          # any byte, including >= 0x80
            elif m == 1:
                for _ in range(r.range(1, 4)):
                    p = r.below(len(enc) + 1)
                    enc[p:p] = r.choice([b" ", b"\n", b"\r\n", b"\t", b"\x0b", b"\x0c"])
            elif m == 2:
                enc = enc[:r.below(len(enc) + 1)]
            elif m == 3:
                enc = bytearray(r.bytes(r.range(0, 40)))        # arbitrary bytes
            elif m == 4:
                enc = enc.rstrip(b"=")
            need = len(raw)
            outlen = r.choice([need, need, need + 1, need - 1 if need else 0, 0, need + 8, 200])
            ops.append(f"b64d {core.hexs(bytes(enc))} {outlen}")
        else:
            n = r.choice([0, 1, 3, 55, 56, 57, 63, 64, 65, 119, 120, 128]) if r.chance(1, 2) else r.range(0, 300)
            ops.append(f"sha1 {core.hexs(r.bytes(n))} {r.range(0, n)}")
    return ops


def b64_directed():
    abc = b"abc".hex()
    return [[f"sha1 {abc} 1", "sha1 - 0", f"sha1 {(b'a' * 1000).hex()} 500",
             f"sha1 {b'abcdbcdecdefdefgefghfghighijhijkijkljklmklmnlmnomnopnopq'.hex()} 7"],
            [f"b64e {bytes(range(20)).hex()} 28", f"b64e {bytes(range(16)).hex()} 24", f"b64e {bytes(range(16)).hex()} 25"],
            [f"b64d {bytes([c]).hex() * 4} 8" for c in range(0, 256, 5)],
            [f"b64d {(bytes([c]) + b'QUJD').hex()} 8" for c in range(128, 256, 3)]]


def b64_judge(ops, impl_lines):
    for op, l in zip(ops, impl_lines):
        w = op.split()
        if w[0] == "sha1":
            data = bytes.fromhex(w[1]) if w[1] != "-" else b""
            if l != "sha1 d=" + _hl.sha1(data).hexdigest():
                return f"SHA-1 digest differs from the reference on `{op[:80]}`: {l}"
    return None

# ------------------------------------------------------------------------------------------ run

class Sub:
    def __init__(self, name, harness, spec, model, proj_spec, rewrite=None, judge=None, proj_model=None):
        self.name, self.harness, self.spec, self.model = name, harness, spec, model
        self.proj_model = proj_model or (lambda l: l)
        self.proj_spec, self.rewrite, self.judge = proj_spec, rewrite, judge
        self.cases, self.res, self.exe = [], None, None


def run(tier, seed, replay=None):
    t0 = time.time()
    v = core.Verdict(PROP, seed)
    core.clear_replays(PROP)
    st = lean.prepare(MODULES)
    core.log(PROP, f"lean: {len(st.discharged)}/{len(st.theorems)} theorems re-checked; extract {st.extract_count} constants "
                   f"(changed: {st.extract_changed}); {st.build_s:.1f}s")
    subs = [Sub("ws", ("u_ws", ["u_ws.c"]), "ws-spec", "ws-model", ws_proj_spec, ws_spec_rewrite),
            Sub("chunk", ("u_codec", ["u_codec.c"]), "codec-spec", "codec-model", codec_proj_spec),
            Sub("b64", ("u_codec", ["u_codec.c"]), "codec-spec", "codec-model", codec_proj_spec, judge=b64_judge,
                proj_model=lambda l: "sha1" if l.startswith("sha1") else l)]
    try:
        for s in subs:
            s.exe = build.harness(*s.harness)
    except build.BuildError as e:
        v.violation("build", {"kind": "build", "error": str(e), "log": e.log[-4000:]}, no_input=True)
        core.write_evidence(PROP, tier, seed, "proof", {"obligations": len(st.theorems), "discharged": 0,
                            "checker_cmd": "lake build", "trusted_base": [], "explanation": "implementation or harness does not build"},
                            [], time.time() - t0, 1)
        return v.finish()
    n = 3000 if tier == "quick" else 60000
    by = {s.name: s for s in subs}
    if replay:
        rp = json.load(open(replay))
        if "ops" in rp and rp.get("sub") in by:
            by[rp["sub"]].cases = [rp["ops"]]
    else:
        by["ws"].cases = ws_directed() + [gen_ws_case(core.Rng(seed, PROP, tier, "ws", i), i) for i in range(n)]
        by["chunk"].cases = chunk_directed() + [gen_chunk_case(core.Rng(seed, PROP, tier, "chunk", i), i) for i in range(n)]
        by["b64"].cases = b64_directed() + [gen_b64_case(core.Rng(seed, PROP, tier, "b64", i), i) for i in range(n // 3)]
        corpus = os.path.join(core.HERE, "corpus", PROP)
        if os.path.isdir(corpus):
            for f in sorted(os.listdir(corpus)):
                sub = f.split("-")[0]
                if sub in by:
                    by[sub].cases.append([l.strip() for l in open(os.path.join(corpus, f)) if l.strip() and not l.startswith("#")])
    found_input = False
    tot = {"cases": 0, "ops": 0, "spec": 0, "model": 0, "crash": 0}
    hist, rvh, samples, distinct = {}, {}, [], 0
    for s in subs:
        if not s.cases:
            continue
        if st.driver_ok:
            res = unit.run_unit(PROP, s.cases, s.exe, s.spec, s.model, s.proj_spec, proj_model=s.proj_model, judge=s.judge,
                                spec_rewrite=s.rewrite)
        else:
            res = unit.run_unit(PROP, s.cases, s.exe, None, None, s.proj_spec, judge=s.judge)
        s.res = res
        core.log(PROP, f"{s.name}: cases {res.cases} ops {res.ops}; spec mismatches {len(res.spec_mismatch)}, model mismatches "
                       f"{len(res.model_mismatch)}, crashes {len(res.crashes)}")
        tot["cases"] += res.cases; tot["ops"] += res.ops
        tot["spec"] += len(res.spec_mismatch); tot["model"] += len(res.model_mismatch); tot["crash"] += len(res.crashes)
        hist[s.name] = res.op_hist; rvh[s.name] = res.rv_hist
        samples += [{"sub": s.name, "ops": [o[:200] for o in c]} for c in (s.cases[0], s.cases[len(s.cases) // 2], s.cases[-1])]
        distinct += len({tuple(c) for c in s.cases if len(c) > 2})
        for c in res.crashes[:2]:
            ops = unit.minimise(s.exe, s.spec, c["ops"], s.proj_spec, spec_rewrite=s.rewrite)
            v.violation(f"{s.name}-crash-{c['case']}", {"kind": "sanitizer/crash on the implementation", "sub": s.name, "ops": ops,
                                                        "rc": c["rc"], "stderr": c["stderr"]})
            found_input = True
        for mm in res.spec_mismatch[:2]:
            ops = unit.minimise(s.exe, s.spec, mm["ops"], s.proj_spec, spec_rewrite=s.rewrite) if mm["spec"] != "judge" else mm["ops"]
            r1 = unit.single(s.exe, s.spec, None, ops, spec_rewrite=s.rewrite)
            v.violation(f"{s.name}-spec-{mm['case']}", {"kind": "implementation output differs from the codec specification", "sub": s.name,
                                                        "ops": ops, "impl": r1["impl"].lines, "spec": r1["spec"].lines,
                                                        "first": {k: str(mm[k])[:400] for k in ("impl", "spec", "op_index")}})
            found_input = True
    # HTTP request/response layer (vlib/props/c16_http.py: receive buffer, line parsers, writer; segmentation judge)
    from . import c16_http
    hc, hv = c16_http.run_http_part(tier, seed, st, replay)
    for tag, payload, no_input in hv:
        v.violation(tag, payload, no_input=no_input)
        found_input = found_input or not no_input
    # writer side of the HTTP layer (vlib/props/c16_emitwf.py: what the header setters accept is written as ONE head)
    from . import c16_emitwf
    ec, ev, ek = c16_emitwf.run_emitwf_part(tier, seed, replay)
    for tag, payload, no_input in ev:
        v.violation(tag, payload, no_input=no_input)
        found_input = found_input or not no_input
    for t in ek:
        v.known_finding(t)
    tot["cases"] += ec["cases"]; tot["spec"] += ec["bad"]
    tot["cases"] += hc["cases"]; tot["ops"] += hc["ops"]; tot["spec"] += hc["spec"] + hc["seg"]
    tot["model"] += hc["model"]; tot["crash"] += hc["crash"]
    hist["http"] = hc["op_hist"]; rvh["http"] = hc["rv_hist"]; samples += hc["samples"]; distinct += hc["distinct"]
    # SHA-1, ws_make_accept and the opening handshake on both sides (vlib/props/c16_upgrade.py)
    from . import c16_upgrade
    uc, uv = c16_upgrade.run_upgrade_part(tier, seed, st, replay)
    for tag, payload, no_input in uv:
        v.violation(tag, payload, no_input=no_input)
        found_input = found_input or not no_input
    tot["cases"] += uc["cases"]; tot["ops"] += uc["ops"]; tot["spec"] += uc["spec"]
    tot["model"] += uc["model"]; tot["crash"] += uc["crash"]
    hist["upgrade"] = uc["op_hist"]; rvh["upgrade"] = uc["rv_hist"]; samples += uc["samples"]; distinct += uc["distinct"]
    # receive queue of the WebSocket layer: rxq / recvq / pause rule, receives posted late, in bursts, cancelled (vlib/props/c16_queue.py)
    from . import c16_queue
    qc, qv = c16_queue.run_part(tier, seed, st, replay)
    for tag, payload, no_input in qv:
        v.violation(tag, payload, no_input=no_input)
        found_input = found_input or not no_input
    tot["cases"] += qc["cases"]; tot["ops"] += qc["ops"]; tot["spec"] += qc["spec"]
    tot["model"] += qc["model"]; tot["crash"] += qc["crash"]
    hist["queue"] = qc["op_hist"]; rvh["queue"] = qc["rv_hist"]; samples += qc["samples"]; distinct += qc["distinct"]
    # HTTP server layer: handler table, routing, request framing, persistence, error pages (vlib/props/c16_server.py)
    from . import c16_server
    vc, vv = c16_server.run_part(tier, seed, st, replay)
    for tag, payload, no_input in vv:
        v.violation(tag, payload, no_input=no_input)
        found_input = found_input or not no_input
    tot["cases"] += vc["cases"]; tot["ops"] += vc["ops"]; tot["spec"] += vc["spec"] + vc["seg"]
    tot["model"] += vc["model"]; tot["crash"] += vc["crash"]
    hist["server"] = vc["op_hist"]; rvh["server"] = vc["rv_hist"]; samples += vc["samples"]; distinct += vc["distinct"]
    if not found_input:
        for s in subs:
            if s.res and s.res.model_mismatch:
                mm = s.res.model_mismatch[0]
                ops = unit.minimise(s.exe, s.model, mm["ops"], s.proj_model)
                r1 = unit.single(s.exe, None, s.model, ops)
                v.violation(f"{s.name}-corr", {"kind": "correspondence broken: implementation differs from the Lean model the C16 theorems "
                                                       "are about (no input violating the specification was found)", "sub": s.name,
                                               "correspondence": f"{s.model} vs {s.harness[0]}", "ops": ops, "impl": r1["impl"].lines,
                                               "model": r1["model"].lines, "mismatching_cases": len(s.res.model_mismatch)}, no_input=True)
        if not st.ok:
            v.violation("proof", {"kind": "proof obligation no longer checks", "broken": st.broken, "log": st.log[-3000:]}, no_input=True)
    cov = {
        "obligations": len(st.theorems), "discharged": len(st.discharged),
        "checker_cmd": "lake build NngModel.Props.C16 && lake env lean <#print axioms for each theorem>",
        "trusted_base": ["Lean 4.33.0 kernel", "axioms: " + ", ".join(sorted({a for x in st.axioms.values() if x for a in x})),
                         "vlib/extract.py + vlib/extract_c16.py (constants, tables)",
                         "harness/u_ws.c (includes the real websocket.c; fakes only nni_http_read_full/write_full/conn_close and nni_random), "
                         "harness/u_codec.c, vlib/unit.py (correspondence)",
                         "gcc ASan/UBSan as the out-of-bounds detector on the implementation"],
        "theorems": st.discharged, "axioms": st.axioms, "broken": st.broken,
        "evaluations": tot["cases"], "distinct_nontrivial": distinct,
        "rule": "per sub-check op sequences from splitmix64(seed,C16,tier,sub,i): ws = peer frame streams (valid, fragmented, interleaved "
                "controls, one mutation in half of the cases) cut whole/bytewise/at frames/randomly, with sends, control builds and mask "
                "calls in between; chunk = chunked bodies valid and mutated under every kind of cut; b64 = random strings; plus directed "
                "cases and corpus; distinct = distinct op lists with more than 2 ops",
        "ops": tot["ops"], "op_histogram": hist, "rv_histogram": rvh, "samples": samples,
        "spec_mismatches": tot["spec"], "model_mismatches": tot["model"], "crashes": tot["crash"],
        "extract_changed": st.extract_changed,
    }
    cov["http_part"] = {k: hc[k] for k in ("streams", "cases", "ops", "bytes", "seg", "spec", "model", "crash", "wall_s")}
    cov["http_rule"] = c16_http.RULE
    cov["upgrade_part"] = {k: uc.get(k, 0) for k in ("cases", "ops", "spec", "model", "crash", "sha_bytes", "wall_s", "emitted_101_judged", "emitted_101_nonconforming")}
    cov["upgrade_rule"] = c16_upgrade.RULE
    cov["queue_part"] = {k: qc.get(k, 0) for k in ("cases", "ops", "spec", "model", "crash", "completions", "paused_lines", "held_lines", "wall_s")}
    cov["queue_rule"] = c16_queue.RULE
    cov["server_part"] = {k: vc.get(k, 0) for k in ("cases", "ops", "bytes", "responses", "handler_runs", "closes", "status_hist", "spec", "seg",
                                                    "model", "crash", "wall_s")}
    cov["server_rule"] = c16_server.RULE
    core.write_evidence(PROP, tier, seed, "proof", cov,
                        ["Model/Ws.lean, Model/HttpChunk.lean, Model/Base64.lean mirror websocket.c, http_chunk.c, base64.c; tie = differential "
                         "execution on the cases above",
                         "the byte transport under the frame layer (nni_http_read_full/write_full: exactly-n reads, full writes) is played by the "
                         "harness; its real implementation is exercised by the system-level executor",
                         "one receive is always posted; allocation above the configured limit fails (nni_alloc_set)"],
                        time.time() - t0, len(v.violations))
    return v.finish()
