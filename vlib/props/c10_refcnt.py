"""C10 / C03, reference counts — src/core/refcnt.c.  Lean: NngModel.Props.C10Refcnt (every interleaving of any number of
threads within the ownership contract: the finaliser runs exactly once, exactly when the last reference goes, nothing
touches the counter afterwards).  Tie to the code: harness/u_refcnt.c runs the real nni_refcnt_* on the same call sequences
as the Lean model (`refcnt-model`, line-exact) and its observations are judged by the Lean predicate (`refcnt-judge`)."""
import os, json, time
from .. import core, build, lean

PROP = "C10"
SUB = "refcnt"
MODULES = ["NngModel.Props.C10Refcnt"]


def gen(r, respect):
    nt = 1 + r.below(4)
    own = [r.below(3) for _ in range(nt)]
    if sum(own) == 0:
        own[r.below(nt)] = 1 + r.below(2)
    ops = ["init " + ",".join(map(str, own))]
    for _ in range(r.range(4, 40)):
        owners = [t for t in range(nt) if own[t] > 0]
        if respect and not owners:
            break
        t = r.choice(owners) if (respect or (owners and r.chance(4, 5))) else r.below(nt)
        if r.chance(2, 5) and sum(own) < 40:
            ops.append(f"hold {t}"); own[t] += 1
        else:
            ops.append(f"rele {t}"); own[t] = max(0, own[t] - 1)
    return ops


def run_part(tier, seed, st, replay=None):
    t0 = time.time()
    counts = {"cases": 0, "ops": 0, "in_contract": 0, "judge": 0, "model": 0, "crash": 0, "finalised": 0, "distinct": 0, "wall_s": 0.0}
    viol = []
    try:
        exe = build.harness("u_refcnt", ["u_refcnt.c"])
    except build.BuildError as e:
        viol.append(("refcnt-build", {"kind": "build", "sub": SUB, "error": str(e), "log": e.log[-3000:]}, True))
        return counts, viol
    if replay:
        rp = json.load(open(replay)) if isinstance(replay, str) else replay
        if rp.get("sub") != SUB:
            return counts, viol
        cases = [(True, list(rp["ops"]))]
    else:
        n = 3000 if tier == "quick" else 60000
        cases = []
        for i in range(n):
            r = core.Rng(seed, PROP, tier, SUB, i)
            respect = not r.chance(1, 6)
            cases.append((respect, gen(r, respect)))
    counts["cases"] = len(cases)
    counts["ops"] = sum(len(c) for _, c in cases)
    counts["in_contract"] = sum(1 for k, _ in cases if k)
    counts["distinct"] = len({tuple(c) for _, c in cases})
    text = core.cases_to_text([c for _, c in cases])
    a = core.run_stream([exe], text, env=build.env(), timeout=600)
    ic, partial = core.split_cases(a.lines)
    if a.rc != 0 or len(ic) != len(cases):
        k = min(len(ic), len(cases) - 1)
        viol.append((f"refcnt-crash-{k}", {"kind": "crash / sanitizer report of the real refcnt.c", "sub": SUB, "ops": cases[k][1], "rc": a.rc,
                                          "stderr": a.err[-2000:]}, False))
        counts["crash"] = 1
        return counts, viol
    if not st.driver_ok:
        return counts, viol
    jc = core.split_cases(core.run_stream(lean.driver_cmd("refcnt-judge"), "\n".join(a.lines) + "\nreset\n", timeout=600).lines)[0]
    mc = core.split_cases(core.run_stream(lean.driver_cmd("refcnt-model"), text, timeout=600).lines)[0]
    first_j = first_m = None
    for idx, (respect, ops) in enumerate(cases):
        il = ic[idx]
        if il and il[-1].endswith("finis=1"):
            counts["finalised"] += 1
        if respect and idx < len(jc) and any(l.startswith("VIOLATION") or l == "bad-obs" for l in jc[idx]):
            counts["judge"] += 1
            first_j = first_j if first_j is not None else idx
        if idx < len(mc) and mc[idx][:len(il)] != il:
            counts["model"] += 1
            first_m = first_m if first_m is not None else idx
    if first_j is not None:
        ops = cases[first_j][1]
        k = next(i for i, l in enumerate(jc[first_j]) if l.startswith("VIOLATION") or l == "bad-obs")
        viol.append((f"refcnt-judge-{first_j}", {"kind": "the finaliser of a reference-counted object did not run exactly once, exactly when the "
                                                        "last reference went (judge of Model/Refcnt.lean on the real refcnt.c)",
                                                "sub": SUB, "ops": ops[:k + 1], "impl": ic[first_j][:k + 1], "violating_cases": counts["judge"]}, False))
    elif first_m is not None:
        viol.append(("refcnt-corr", {"kind": "correspondence broken: the real refcnt.c differs from the Lean model the C10Refcnt theorems are about "
                                            "(no call sequence violating the property was found)", "sub": SUB,
                                    "correspondence": "refcnt-model vs harness/u_refcnt.c", "ops": cases[first_m][1],
                                    "impl": ic[first_m][-3:], "model": mc[first_m][-3:], "mismatching_cases": counts["model"]}, True))
    counts["wall_s"] = round(time.time() - t0, 1)
    core.log(PROP, f"refcnt: cases {counts['cases']} ({counts['in_contract']} within the ownership contract, {counts['finalised']} end finalised) "
                   f"calls {counts['ops']}; judge violations {counts['judge']}, model mismatches {counts['model']}, crashes {counts['crash']}; {counts['wall_s']}s")
    return counts, viol
