"""C16, writer side of the HTTP layer: "everything they emit is well-formed for a conforming peer".

Implementation-only judge (no model involved, so it is valid before and after the fix): header fields are set on a
client connection through the real nni_http_set_header / nni_http_add_header (harness/u_http.c ops `seth`/`addh`), the
head is written through the real nni_http_write_req, and the bytes written are handed in one piece to a fresh server
connection of the same code (nni_http_read_req).  Rule: if the setters accepted the fields (rv=0), what was written is
exactly ONE request head: the reader completes on it, the head ends at the last byte written (no bytes left over that
the application never asked to send), and it holds as many header fields as were set.  A setter that refuses a field
(NNG_EINVAL) takes the case out of the rule.  Lean side: Props/C16Http.lean `emit_parses_back` (holds under `EmitOk`),
`emit_needs_no_crlf_in_header_value` etc. (fails without it).

Finding: the unpatched setters accept CR / LF / control characters (request and response splitting) —
integration/fixes/C16S-http-header-crlf-injection.patch; replay corpus/C16/emit-header-crlf-injection.txt.
While known_findings.json lists the open finding `http-header-crlf-injection` for C16 it is reported as KNOWN-FINDING,
otherwise as a VIOLATION with a minimised replay.
"""
import json, os, re, subprocess, time
from .. import core, build

PROP = "C16"
SUB = "emitwf"
KEY = "http-header-crlf-injection"
RULE = ("fields accepted by nni_http_set_header/add_header => the written head is read back by nni_http_read_req as exactly one "
        "head ending at the last byte written, with the same number of header fields")

NAMES = [b"X-A", b"Accept", b"x-b", b"Cookie", b"Content-Type", b"Host", b"User-Agent", b"A"]
ORD = b"abcXYZ019-_/.=;, *"
BAD = [b"\r\n", b"\r\n\r\n", b"\n", b"\r", b"\x01", b"\x7f", b"\t", b":", b" ", b"\r\nX-Injected: 1", b"\r\n\r\nGET /evil HTTP/1.1\r\nHost: x"]


def hx(b):
    return b.hex() if b else "-"


def directed():
    d = []
    for bad in BAD:
        d.append([("seth", b"X-A", b"b" + bad + b"c")])
        d.append([("addh", b"X-A", b"1"), ("addh", b"X-A", bad + b"2")])
        d.append([("seth", b"X" + bad + b"A", b"v")])
    d.append([("seth", b"X-A", b"1 2"), ("seth", b"Accept", b"*/*")])
    d.append([("seth", b"Content-Type", b"text/plain\r\nX-Injected: 1")])
    d.append([("seth", b"Host", b"h\r\n\r\nGET /evil HTTP/1.1")])
    return d


def gen(rng):
    n = rng.range(1, 4)
    out = []
    for _ in range(n):
        name = rng.choice(NAMES)
        val = bytes(rng.choice(list(ORD)) for _ in range(rng.range(0, 12)))
        r = rng.range(0, 9)
        if r < 4:
            pos = rng.range(0, len(val))
            val = val[:pos] + rng.choice(BAD) + val[pos:]
        elif r == 4:
            pos = rng.range(0, len(name))
            name = name[:pos] + rng.choice(BAD) + name[pos:]
        out.append((rng.choice(["seth", "addh"]), name, val.replace(b"\x00", b"")))
    return out


def ops_of(case):
    return ["conn 1", "verbose"] + [f"{op} {hx(k)} {hx(v)}" for op, k, v in case] + ["emit"]


def run_ops(exe, ops):
    p = subprocess.run([exe], input="\n".join(ops) + "\n", capture_output=True, text=True, env=build.env(), timeout=60)
    return p.returncode, p.stdout.splitlines(), p.stderr


def judge(exe, case):
    """returns None (rule holds or not applicable) or a dict describing the violation"""
    ops = ops_of(case)
    rc, out, err = run_ops(exe, ops)
    if rc != 0:
        return {"kind": "sanitizer/crash on the implementation (writer)", "ops": ops, "stderr": err[-1500:]}
    setters = [l for l in out if l.startswith(("seth ", "addh "))]
    accepted = sum(1 for l in setters if l.endswith("rv=0"))
    em = next((l for l in out if l.startswith("emit ")), "")
    m = re.match(r"emit rv=0 n=(\d+) b=([0-9a-f]+) .* nh=(\d+) ", em)
    if not m or accepted == 0:
        return None
    n, wire, nh = int(m.group(1)), m.group(2), int(m.group(3))
    if n >= 8000:
        return None
    ops2 = ["conn 0", "verbose", "req", f"rx {wire}"]
    rc2, out2, err2 = run_ops(exe, ops2)
    if rc2 != 0:
        return {"kind": "sanitizer/crash on the implementation (reader)", "ops": ops, "ops_reader": ops2, "stderr": err2[-1500:]}
    rx = next((l for l in out2 if l.startswith("rx ")), "")
    m2 = re.match(r"rx done rv=0 .* nh=(\d+) .* pos=(\d+) ", rx)
    what = None
    if not m2:
        what = "the reader does not complete on what was written: " + rx[:160]
    elif int(m2.group(2)) != n:
        what = (f"the head ends after {m2.group(2)} of the {n} bytes written: the remaining {n - int(m2.group(2))} bytes are sent "
                f"to the peer as the start of another message the application never issued")
    elif int(m2.group(1)) != nh:
        what = f"{nh} header fields were set, the head written holds {m2.group(1)}"
    if what is None:
        return None
    return {"kind": "the written request head is not the one head it was built from (header fields accepted by the setters)",
            "sub": SUB, "clause": RULE, "what": what, "ops": ops, "written_hex": wire[:400], "ops_reader": ops2[:3] + [ops2[3][:420]],
            "reader": rx[:300], "harness": "harness/u_http.c"}


def minimise(exe, case, want=""):
    """greedy: drop setters, then shorten values, keeping a violation whose description contains `want`"""
    def still(t):
        r = judge(exe, t)
        return bool(r) and want in r.get("what", "")
    cur = list(case)
    changed = True
    while changed:
        changed = False
        for i in range(len(cur)):
            t = cur[:i] + cur[i + 1:]
            if t and still(t):
                cur, changed = t, True
                break
    # shorten the values byte by byte from the right and from the left
    for i in range(len(cur)):
        for side in (0, 1):
            while True:
                op, k, v = cur[i]
                if len(v) <= 1:
                    break
                v2 = v[:-1] if side == 0 else v[1:]
                t = cur[:i] + [(op, k, v2)] + cur[i + 1:]
                if still(t):
                    cur = t
                else:
                    break
    return cur


def run_emitwf_part(tier, seed, replay=None):
    """returns (counts, [(tag, payload, no_input)], [known finding texts])"""
    t0 = time.time()
    counts = {"cases": 0, "bad": 0, "wall_s": 0.0}
    viol, known = [], []
    try:
        exe = build.harness("u_http", ["u_http.c"])
    except build.BuildError as e:
        return counts, [("emitwf-build", {"kind": "build", "sub": SUB, "error": str(e), "log": e.log[-3000:]}, True)], known
    cases = []
    if replay:
        rp = json.load(open(replay))
        if rp.get("sub") != SUB:
            return counts, viol, known
        cases.append([(o.split()[0], bytes.fromhex(o.split()[1].replace("-", "")), bytes.fromhex(o.split()[2].replace("-", "")))
                      for o in rp["ops"] if o.startswith(("seth ", "addh "))])
    else:
        cases += directed()
        for i in range(150 if tier == "quick" else 3000):
            cases.append(gen(core.Rng(seed, PROP, tier, SUB, i)))
    first = None
    for i, c in enumerate(cases):
        counts["cases"] += 1
        r = judge(exe, c)
        if r:
            counts["bad"] += 1
            # prefer a case in which bytes are left over after the head (a smuggled message) for the report
            if first is None or ("head ends after" in r.get("what", "") and "head ends after" not in first[2].get("what", "")):
                first = (i, c, r)
    if first is not None:
        i, c, r = first
        kf = next((f for f in core.known_findings(PROP) if f.get("status") == "open" and f.get("key") == KEY), None)
        if kf and not replay:
            known.append(kf["text"] + f" [{counts['bad']} of {counts['cases']} writer cases]")
        else:
            try:
                c = minimise(exe, c, "head ends after" if "head ends after" in r.get("what", "") else "")
            except Exception:
                pass
            r = judge(exe, c) or r
            viol.append((f"emitwf-{i}", r, False))
    counts["wall_s"] = round(time.time() - t0, 1)
    core.log(PROP, f"emitwf: writer cases {counts['cases']}; written head is not one head: {counts['bad']}; {counts['wall_s']}s")
    return counts, viol, known
