"""C15 — non-blocking calls never block; poll descriptors mirror readiness (all protocols)."""
from .. import generic

PROP = "C15"
MODULES = ["NngModel.Props.C15"]


# per-protocol halves of the property: "flag = a non-blocking op would succeed" and "non-blocking
# never parks", proved over all histories in the protocol property files
EXTRA = {
    "NngModel.Props.C06": ["Nng.C06.push_writable_iff", "Nng.C06.push_nonblocking_never_parks", "Nng.C06.pull_readable_iff"],
    "NngModel.Props.C05": ["Nng.C05.T8_readable_iff_queued", "Nng.C05.T8_readable_iff_nb_recv_succeeds", "Nng.C05.T8_pub_always_writable"],
    "NngModel.Props.C09": ["Nng.C09.B2_send_never_blocks", "Nng.C09.B6_readable", "Nng.C09.B6_writable"],
}


def run(tier, seed, replay=None):
    return generic.run_generic(PROP, MODULES, "poll-judge", tier, seed, replay, generic.augment_c15, 3000, 40000,
                               "event histories of every modelled protocol (providers in vlib/protos.py) with `poll` followed by a socket-level "
                               "non-blocking receive or send inserted at random quiescent points; judged by Spec/Generic.lean pollStep", extra=EXTRA)
