"""C15 — non-blocking calls never block; poll descriptors mirror readiness (all protocols)."""
import json
from .. import generic
from . import c15_pollable

PROP = "C15"
MODULES = ["NngModel.Props.C15", "NngModel.Props.C15Pollable"]


# per-protocol halves of the property: "flag = a non-blocking op would succeed" and "non-blocking
# never parks", proved over all histories in the protocol property files
EXTRA = {
    "NngModel.Props.C06": ["Nng.C06.push_writable_iff", "Nng.C06.push_nonblocking_never_parks", "Nng.C06.pull_readable_iff"],
    "NngModel.Props.C09": ["Nng.C09.B2_send_never_blocks", "Nng.C09.B6_readable", "Nng.C09.B6_writable"],
    "NngModel.Props.C04Rep": ["Nng.C04Rep.readable_exact", "Nng.C04Rep.writable_exact", "Nng.C04Rep.nonblocking_send_result"],
    "NngModel.Props.C07": ["Nng.C07.S7_surveyor_nonblocking", "Nng.C07.S7_surveyor_readable", "Nng.C07.S7_surveyor_nb_outcomes",
                           "Nng.C07.S7_respondent_readable", "Nng.C07.S7_respondent_nb_recv", "Nng.C07.S7_respondent_writable",
                           "Nng.C07.raw_poll_flags"],
    "NngModel.Props.C08": ["Nng.C08.a6_writable_iff_nb_send_succeeds", "Nng.C08.a6_readable_iff_nb_recv_succeeds"],
    "NngModel.Props.C05": ["Nng.C05.T8_readable_iff_queued", "Nng.C05.T8_readable_iff_nb_recv_succeeds", "Nng.C05.T8_pub_always_writable",
                           "Nng.C05.X4_readable_iff_nb_recv_succeeds"],
}


def run(tier, seed, replay=None):
    if replay and json.load(open(replay)).get("sub") == c15_pollable.SUB:
        return c15_pollable.run(tier, seed, replay)
    return generic.run_generic(PROP, MODULES, "poll-judge", tier, seed, replay, generic.augment_c15, 3000, 40000,
                               "event histories of every modelled protocol (providers in vlib/protos.py) with `poll` followed by a socket-level "
                               "non-blocking receive or send inserted at random quiescent points; judged by Spec/Generic.lean pollStep; " + c15_pollable.RULE,
                               extra=EXTRA, parts=[("pollable_part", c15_pollable.run_part)])
