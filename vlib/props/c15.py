"""C15 — non-blocking calls never block; poll descriptors mirror readiness (all protocols)."""
from .. import generic

PROP = "C15"
MODULES = ["NngModel.Props.C15"]


def run(tier, seed, replay=None):
    return generic.run_generic(PROP, MODULES, "poll-judge", tier, seed, replay, generic.augment_c15, 1500, 30000,
                               "event histories of every modelled protocol (providers in vlib/protos.py) with `poll` followed by a socket-level "
                               "non-blocking receive or send inserted at random quiescent points; judged by Spec/Generic.lean pollStep")
