"""C10 — close always terminates, completes everything, invalidates handles."""
from .. import core, life_common

PROP = "C10"


def run(tier, seed, replay=None):
    return life_common.check(PROP, tier, seed, replay)
