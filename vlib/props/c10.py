"""C10 — close always terminates, completes everything, invalidates handles."""
import json
from .. import core, life_common
from . import c10_pfd, c10_reap, c10_refcnt

PROP = "C10"


def run(tier, seed, replay=None):
    if replay and json.load(open(replay)).get("sub") in (c10_pfd.SUB, c10_pfd.SUB_CALLERS):
        return c10_pfd.run(tier, seed, replay)          # a replay of the poller part (harness/u_pfd.c)
    if replay and json.load(open(replay)).get("sub") == c10_reap.SUB:
        return life_common.check(PROP, tier, seed, None, parts=[("reap", lambda t, s, st, r: c10_reap.run_part(t, s, st, replay))],
                                 extra_modules=c10_reap.MODULES)
    if replay and json.load(open(replay)).get("sub") == c10_refcnt.SUB:
        return life_common.check(PROP, tier, seed, None, parts=[("refcnt", lambda t, s, st, r: c10_refcnt.run_part(t, s, st, replay))],
                                 extra_modules=c10_refcnt.MODULES)
    # the reaper (src/core/reap.c) under thread schedules: Props/C10Reap.lean + harness/u_reap.c
    # the posix poller under the transports (src/platform/posix/posix_pollq_epoll.c): Props/C10Pfd.lean + harness/u_pfd.c
    return life_common.check(PROP, tier, seed, replay, parts=[("pfd", c10_pfd.run_part), ("reap", c10_reap.run_part), ("refcnt", c10_refcnt.run_part)],
                             extra_modules=list(c10_pfd.MODULES) + list(c10_reap.MODULES) + list(c10_refcnt.MODULES))
