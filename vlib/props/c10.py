"""C10 — close always terminates, completes everything, invalidates handles."""
import json
from .. import core, life_common
from . import c10_pfd

PROP = "C10"


def run(tier, seed, replay=None):
    if replay and json.load(open(replay)).get("sub") in (c10_pfd.SUB, c10_pfd.SUB_CALLERS):
        return c10_pfd.run(tier, seed, replay)          # a replay of the poller part (harness/u_pfd.c)
    # the posix poller under the transports (src/platform/posix/posix_pollq_epoll.c): Props/C10Pfd.lean + harness/u_pfd.c
    return life_common.check(PROP, tier, seed, replay, parts=[("pfd", c10_pfd.run_part)], extra_modules=c10_pfd.MODULES)
