"""C16, part S (HTTP server layer, http_server.c) -- constants and source facts re-extracted on every run:
status codes the server front answers with, the handler defaults (method, body limit, field sizes), the reason table
of nni_http_reason, the error page template of http_conn_set_error, and -- as FLAGS, not hard anchors -- (1) that the
order of the checks in http_sconn_rxdone is the one Model/HttpServer.lean mirrors, (2) that the handler loop has the text
the model mirrors, (3..7) the presence of five repairs (Content-Length validation, close after a request that could not
be parsed, no body in an answer to HEAD (two places), `iserr` reset per request).  The model follows the flags;
Props/C16Server.lean has the obligations that they are `true`."""
import re
from . import extract as X


def _status(http_h, name):
    return int(X.one(r"\bNNG_HTTP_STATUS_" + name + r"\s*=\s*(\d+)", http_h, "NNG_HTTP_STATUS_" + name).group(1))


def _cstr(lit):
    """concatenated C string literals -> bytes (only the escapes that occur: \\n \\" \\\\)"""
    out = []
    for part in re.findall(r'"((?:[^"\\]|\\.)*)"', lit):
        i = 0
        while i < len(part):
            c = part[i]
            if c == "\\":
                n = part[i + 1]
                out.append({"n": 10, "r": 13, "t": 9, '"': 34, "\\": 92, "0": 0}.get(n, ord(n)))
                i += 2
            else:
                out.append(ord(c))
                i += 1
    return out


def _split_fmt(bs):
    """bytes of a printf format -> list of literal segments, and the directive letters between them"""
    segs, dirs, cur, i = [], [], [], 0
    while i < len(bs):
        if bs[i] == 37 and i + 1 < len(bs):
            if bs[i + 1] == 37:
                cur.append(37)
            else:
                segs.append(cur)
                cur = []
                dirs.append(chr(bs[i + 1]))
            i += 2
        else:
            cur.append(bs[i])
            i += 1
    segs.append(cur)
    return segs, dirs


def _norm(s):
    return re.sub(r"\s+", " ", s).strip()


LOOP_TEXT = _norm("""
NNI_LIST_FOREACH (&s->handlers, h) { size_t len; if (!http_handler_host_match(h, host)) { continue; }
len = strlen(h->uri); if (strncmp(uri, h->uri, len) != 0) { continue; }
switch (uri[len]) { case '\\0': break; case '/': if ((uri[len + 1] != '\\0') && (!h->tree)) { continue; } break; default: continue; }
if (h->method[0] == '\\0') { break; }
val = nni_http_get_method(sc->conn); if (strcmp(val, h->method) == 0) { break; }
if ((strcmp(val, "HEAD") == 0) && (strcmp(h->method, "GET") == 0)) { head = h; continue; }
badmeth = 1; }
if ((h == NULL) && (head != NULL)) { h = head; }
if (h == NULL) { nni_mtx_unlock(&s->mtx); if (badmeth) { http_sconn_error( sc, NNG_HTTP_STATUS_METHOD_NOT_ALLOWED); } else {
http_sconn_error(sc, NNG_HTTP_STATUS_NOT_FOUND); } return; }
""")

HOST_TEXT = _norm("""
if ((nni_strncasecmp(host, h->host, len) != 0)) { return (false); }
if ((host[len] != '\\0') && (host[len] != ':') && ((host[len] != '.') || (host[len + 1] != '\\0'))) { return (false); }
return (true);
""")


def hook(put):
    hh = X.src("include/nng/http.h")
    names = ["OK", "STATUS_MOVED_PERMANENTLY", "BAD_REQUEST", "NOT_FOUND", "METHOD_NOT_ALLOWED", "CONTENT_TOO_LARGE",
             "INTERNAL_SERVER_ERROR", "NOT_IMPLEMENTED", "HTTP_VERSION_NOT_SUPP"]
    put("httpSrvStatus", [_status(hh, n) for n in names], "include/nng/http.h NNG_HTTP_STATUS_ " + " ".join(names))

    srv_src = X.src("src/supplemental/http/http_server.c")
    srv = X.strip_comments(srv_src)
    put("httpSrvUriSize", int(X.one(r"#define\s+NNG_HTTP_MAX_URI\s+(\d+)", srv, "NNG_HTTP_MAX_URI").group(1)),
        "http_server.c NNG_HTTP_MAX_URI (handler uri[])")
    put("httpSrvMethodSize", int(X.one(r"char\s+method\[(\d+)\];", srv, "nng_http_handler.method").group(1)),
        "http_server.c struct nng_http_handler method[]")
    put("httpSrvHostSize", int(X.one(r"char\s+host\[(\d+)\];", srv, "nng_http_handler.host").group(1)),
        "http_server.c struct nng_http_handler host[]")
    hi = X.func_body(srv_src, "nni_http_handler_init")
    m = X.one(r"h->maxbody\s*=\s*(\d+)\s*\*\s*(\d+)\s*;", hi, "nni_http_handler_init maxbody")
    put("httpSrvDefMaxBody", int(m.group(1)) * int(m.group(2)), "http_server.c nni_http_handler_init h->maxbody")
    X.one(r"h->getbody\s*=\s*true;", hi, "nni_http_handler_init getbody")
    X.one(r"h->tree\s*=\s*false;", hi, "nni_http_handler_init tree")
    dm = X.one(r'strcpy\(h->method, "([^"]*)"\)', hi, "nni_http_handler_init default method").group(1)
    put("httpSrvDefMethod", [ord(c) for c in dm], "http_server.c nni_http_handler_init default method")
    X.one(r'\(strlen\(uri\) == 0\) \|\| \(strcmp\(uri, "/"\) == 0\)\) \{\s*uri = "";', hi, "nni_http_handler_init maps / to the empty uri")
    ah = X.func_body(srv_src, "nni_http_server_add_handler")
    X.one(r"if \(strcmp\(h->uri, h2->uri\) > 0\) \{\s*nni_list_insert_before\(&s->handlers, h, h2\);\s*break;", ah,
          "nni_http_server_add_handler sorted insertion")
    X.one(r"nni_strcasecmp\(h2->host, h->host\) != 0.*?strcmp\(h2->method, h->method\) != 0.*?strcmp\(h->uri, h2->uri\) != 0.*?"
          r"return \(NNG_EADDRINUSE\);", ah, "nni_http_server_add_handler conflict rule")
    ir = X.func_body(srv_src, "nni_http_handler_init_redirect")
    X.one(r"nni_http_handler_set_method\(h, NULL\);.*?nni_http_handler_collect_body\(h, false, 0\);", ir, "redirect handler settings")
    X.one(r"if \(status == 0\) \{\s*status = NNG_HTTP_STATUS_STATUS_MOVED_PERMANENTLY;", ir, "redirect default status")
    ist = X.func_body(srv_src, "nni_http_handler_init_static")
    X.one(r"nni_http_handler_collect_body\(h, true, 0\);", ist, "static handler body limit")
    sct = X.one(r'if \(ctype == NULL\) \{\s*ctype = "([^"]*)";', ist, "static handler default content type").group(1)
    put("httpSrvStaticCtype", [ord(c) for c in sct], "http_server.c nni_http_handler_init_static default content type")

    # ---- reason table
    conn_src = X.src("src/supplemental/http/http_conn.c")
    rs = X.func_body(conn_src, "nni_http_reason")
    tab = X.one(r"http_status\[\]\s*=\s*\{(.*?)\{\s*0\s*,\s*NULL\s*\}", rs, "nni_http_reason table").group(1)
    ent = re.findall(r'\{\s*NNG_HTTP_STATUS_(\w+)\s*,\s*((?:"[^"]*"\s*)+)\}', tab)
    if len(ent) < 20:
        raise X.ExtractError("nni_http_reason table: entries not recognised")
    put("httpSrvReasons", [(_status(hh, n), _cstr(t)) for n, t in ent], "http_conn.c nni_http_reason http_status[] (in order)")
    unk = X.one(r'return \("([^"]*)"\);\s*$', rs.rstrip(), "nni_http_reason default").group(1)
    put("httpSrvUnknownReason", [ord(c) for c in unk], "http_conn.c nni_http_reason default")

    # ---- error page
    se = X.func_body(conn_src, "http_conn_set_error")
    put("httpSrvPageBuf", int(X.one(r"char\s+content\[(\d+)\];", se, "http_conn_set_error content[]").group(1)),
        "http_conn.c http_conn_set_error content[]")
    pre = X.one(r"const char \*prefix\s*=\s*((?:\"(?:[^\"\\]|\\.)*\"\s*)+);", se, "error page prefix").group(1)
    segs, dirs = _split_fmt(_cstr(pre))
    if dirs != ["d", "s", "d", "s"]:
        raise X.ExtractError(f"error page prefix: directives {dirs}, expected %d %s %d %s")
    X.one(r"snprintf\(content, sizeof\(content\), prefix, status, reason,\s*status, reason\);", se, "error page arguments")
    put("httpSrvPagePrefix", [(s,) for s in segs], "http_conn.c http_conn_set_error prefix, split at %d %s %d %s")
    suf = X.one(r"const char \*suffix\s*=\s*((?:\"(?:[^\"\\]|\\.)*\"\s*)+);", se, "error page suffix").group(1)
    put("httpSrvPageSuffix", _cstr(suf), "http_conn.c http_conn_set_error suffix")
    ct = X.one(r'nni_http_set_content_type\(conn, "([^"]*)"\);', se, "error page content type").group(1)
    put("httpSrvPageCtype", [ord(c) for c in ct], "http_conn.c http_conn_set_error content type")
    m = X.one(r"redirect != NULL && strlen\(redirect\) > (\d+) &&\s*strlen\(reason\) < (\d+)", se, "redirect length test")
    put("httpSrvRedirLimits", [int(m.group(1)), int(m.group(2))], "http_conn.c http_conn_set_error redirect/reason length test")
    lng = X.one(r'snprintf\(content \+ strlen\(content\), avail,\s*((?:"(?:[^"\\]|\\.)*"\s*)+)\);', se, "long redirect text").group(1)
    put("httpSrvRedirLong", _cstr(lng), "http_conn.c http_conn_set_error text for a long redirect")
    sh = X.one(r'snprintf\(content \+ strlen\(content\), avail,\s*((?:"(?:[^"\\]|\\.)*"\s*)+),\s*redirect, redirect\);', se,
               "redirect text").group(1)
    segs2, dirs2 = _split_fmt(_cstr(sh))
    if dirs2 != ["s", "s"]:
        raise X.ExtractError("redirect text: expected two %s")
    put("httpSrvRedirText", [(s,) for s in segs2], "http_conn.c http_conn_set_error redirect text, split at %s %s")
    X.one(r"if \(strlen\(body\) > 0\) \{\s*nni_http_set_content_type\(.*?\(void\) nni_http_copy_body\(conn, body, strlen\(body\)\);", se,
          "error page body installation")
    sr = X.func_body(conn_src, "nni_http_set_redirect")
    put("httpSrvUbufSize", int(X.one(r"char\s+ubuf\[(\d+)\];", X.strip_comments(conn_src), "nng_http_conn.ubuf").group(1)),
        "http_conn.c struct nng_http_conn ubuf[]")
    X.one(r'conn->location\.name\s*=\s*"Location";.*?nni_list_prepend\(&conn->res\.data\.hdrs, &conn->location\);', sr,
          "nni_http_set_redirect Location header")

    # ---- http_sconn_rxdone: order of the checks (FLAG) and the handler loop (FLAG)
    rx = X.func_body(srv_src, "http_sconn_rxdone")
    anchors = [r"nng_http_get_status\(sc->conn\) >= NNG_HTTP_STATUS_BAD_REQUEST", r'strncmp\(val, "HTTP/1\.", 7\) != 0',
               r'strcmp\(val, "HTTP/1\.1"\) != 0', r"uri\[0\] != '/'", r'nni_http_get_header\(sc->conn, "Connection"\)',
               r'nni_strcasestr\(val, "close"\)', r'nni_http_get_header\(sc->conn, "Transfer-Encoding"\) != NULL',
               r'nni_http_get_header\(sc->conn, "Content-Length"\)', r"strtoull\(cls, &end, 10\)",
               r'nni_http_get_header\(sc->conn, "Host"\)', r"\(host == NULL\) && \(needhost\)", r"NNI_LIST_FOREACH \(&s->handlers, h\)",
               r"NNG_HTTP_STATUS_METHOD_NOT_ALLOWED", r"NNG_HTTP_STATUS_NOT_FOUND", r"\(h->getbody\) && \(sc->unconsumed_body > 0\)",
               r"sc->unconsumed_body > h->maxbody", r"NNG_HTTP_STATUS_CONTENT_TOO_LARGE", r"nni_http_req_alloc_data\(req, sc->unconsumed_body\)",
               r"nni_http_read_full\(sc->conn, aio\)", r"finish:", r'nni_http_set_version\(sc->conn, NNG_HTTP_VERSION_1_1\)',
               r"h->cb\(sc->conn, h->data, &sc->cbaio\)"]
    pos = []
    for a in anchors:
        ms = list(re.finditer(a, rx))
        pos.append(ms[0].start() if len(ms) == 1 else -1)
    put("httpSrvRxOrderAsModelled", all(p >= 0 for p in pos) and pos == sorted(pos),
        "http_server.c http_sconn_rxdone: the checks occur once each, in the order of Model/HttpServer.lean rxDecide (flag)")
    a = rx.find("NNI_LIST_FOREACH (&s->handlers, h)")
    b = rx.find("if ((h->getbody)")
    put("httpSrvLookupAsModelled", a >= 0 and b > a and _norm(rx[a:b]) == LOOP_TEXT,
        "http_server.c http_sconn_rxdone: text of the handler loop and of the 404/405 decision (flag)")
    hm = X.func_body(srv_src, "http_handler_host_match")
    put("httpSrvHostMatchAsModelled", HOST_TEXT in _norm(hm) and
        bool(re.search(r"if \(\(len = strlen\(h->host\)\) == '\\0'\) \{\s*return \(true\);\s*\}\s*if \(host == NULL\) \{\s*return \(false\);", hm)),
        "http_server.c http_handler_host_match: text of the name comparison (flag)")
    put("httpSrvClenValidated",
        bool(re.search(r"if \(\(cls\[0\] < '0'\) \|\| \(cls\[0\] > '9'\) \|\| \(\*end != '\\0'\)\) \{\s*sc->unconsumed_body = 0;\s*"
                       r"sc->close\s*=\s*true;\s*http_sconn_error\(sc, NNG_HTTP_STATUS_BAD_REQUEST\);", rx)),
        "http_server.c http_sconn_rxdone: a Content-Length that is not a plain decimal number is answered 400 and the connection closed (flag)")
    if not re.search(r"if \(\(cls\[0\] < '0'\)", rx):
        X.one(r"if \(\(end == NULL\) && \(\*end != '\\0'\)\)", rx, "http_sconn_rxdone Content-Length test (either form)")
    put("httpSrvParseErrorCloses",
        bool(re.search(r"if \(nng_http_get_status\(sc->conn\) >= NNG_HTTP_STATUS_BAD_REQUEST\) \{\s*sc->close = true;\s*http_sconn_error", rx)),
        "http_server.c http_sconn_rxdone: a request the parser rejected (400/414/431/505) closes the connection (flag)")
    er = X.func_body(srv_src, "http_sconn_error")
    X.one(r"nng_http_set_status\(sc->conn, err, NULL\);\s*if \(nni_http_server_error\(sc->server, sc->conn\) != 0\)", er, "http_sconn_error shape")
    put("httpSrvErrorPrunesHead",
        bool(re.search(r'if \(strcmp\(nni_http_get_method\(sc->conn\), "HEAD"\) == 0\) \{\s*nni_http_prune_body\(sc->conn\);\s*\}\s*if \(sc->close\)', er)),
        "http_server.c http_sconn_error: the error page of an answer to HEAD is pruned (flag)")
    cb = X.func_body(srv_src, "http_sconn_cbdone")
    new = bool(re.search(r'if \(\(\(strcmp\(method, "HEAD"\) != 0\) \|\| status < 200 \|\|\s*status > 299\) &&\s*nni_http_is_error\(sc->conn\)\) \{\s*'
                         r'\(void\) nni_http_server_error\(s, sc->conn\);\s*\}\s*if \(strcmp\(method, "HEAD"\) == 0\) \{\s*'
                         r"nni_http_prune_body\(sc->conn\);", cb))
    old = bool(re.search(r'if \(\(strcmp\(method, "HEAD"\) == 0\) && status >= 200 &&\s*status <= 299\) \{\s*nni_http_prune_body\(sc->conn\);\s*'
                         r"\} else if \(nni_http_is_error\(sc->conn\)\) \{\s*\(void\) nni_http_server_error\(s, sc->conn\);", cb))
    if not (new or old):
        raise X.ExtractError("http_sconn_cbdone: neither known form of the HEAD / error page block")
    put("httpSrvCbdonePrunesHead", new, "http_server.c http_sconn_cbdone: every answer to HEAD is pruned, not only 2xx (flag)")
    X.one(r'if \(\(val != NULL\) && \(strstr\(val, "close"\) != NULL\)\) \{\s*sc->close = true;\s*\}\s*if \(sc->close\) \{\s*'
          r'nni_http_set_header\(sc->conn, "Connection", "close"\);', cb, "http_sconn_cbdone Connection: close")
    cr = X.func_body(conn_src, "nni_http_conn_reset")
    put("httpSrvIserrReset", bool(re.search(r"conn->iserr\s*=\s*false;", cr)),
        "http_conn.c nni_http_conn_reset clears iserr, so an error answer does not turn later answers on the connection into error pages (flag)")
    pr = X.func_body(conn_src, "http_prepare")
    m = X.one(r"if \(\(len (<=?) conn->bufsz\) && \(conn->rd_get == conn->rd_put\)\) \{\s*http_snprintf\(conn, \(char \*\) conn->buf, conn->bufsz\);\s*"
              r"\*data = conn->buf;\s*\*szp\s*=\s*len;", pr, "http_prepare fixed-buffer test")
    put("httpWrFixedIfLess", m.group(1) == "<",
        "http_conn.c http_prepare: the head is formatted into the connection buffer only when len < bufsz, so that the NUL snprintf appends "
        "does not replace its last byte (flag)")
    X.one(r"\*data = nni_alloc\(len \+ 1\)\) == NULL.*?http_snprintf\(conn, \*data, len \+ 1\);\s*\*szp = len;", pr, "http_prepare heap path")
    tc = X.func_body(X.src("src/supplemental/http/http_client.c"), "nni_http_transact_conn")
    put("httpCliResetsResponse", bool(re.search(r"nni_http_res_reset\(txn->res\);\s*nni_http_set_status\(txn->conn, 0, NULL\);", tc)),
        "http_client.c nni_http_transact_conn resets the connection's response object (headers, body) and status before the request is sent (flag)")
    tx = X.func_body(srv_src, "http_sconn_txdone")
    X.one(r"if \(sc->close\) \{\s*http_sconn_close\(sc\);\s*return;\s*\}\s*sc->handler = NULL;\s*if \(sc->unconsumed_body\) \{\s*"
          r"nni_http_read_discard\(\s*sc->conn, sc->unconsumed_body, &sc->rxaio\);\s*\} else \{\s*nni_http_read_req\(sc->conn, &sc->rxaio\);", tx,
          "http_sconn_txdone shape")
