"""anchors for the model of the expire-list scan (Model/ExpireQ.lean): the shape of nni_aio_expire_loop"""
import re
from . import extract as X


def hook(put):
    aio = X.src("src/core/aio.c")
    body = re.sub(r"\s+", " ", X.func_body(aio, "nni_aio_expire_loop"))
    # the array the batch goes to has NNI_EXPIRE_BATCH slots
    X.one(r"nni_aio \*expires\[NNI_EXPIRE_BATCH\];", body, "expires[NNI_EXPIRE_BATCH]")
    # sleep test at the top of the loop
    X.one(r"if \(now < next && !\(q->eq_stop && aio != NULL\)\) \{ nni_cv_until\(cv, next\); continue; \}", body,
          "expire loop: sleep only while now < eq_next (and not stopping with entries left)")
    # the scan: eq_next restarts at NEVER, an entry is taken iff (stopping or a_expire < now) and the batch has room
    X.one(r"q->eq_next = NNI_TIME_NEVER; exp_idx = 0; while \(aio != NULL\) \{ if \(\(q->eq_stop \|\| aio->a_expire < now\) && "
          r"\(exp_idx < NNI_EXPIRE_BATCH\)\) \{", body, "expire loop: take rule (due and batch has room)")
    X.one(r"expires\[exp_idx\+\+\] = aio; nxt = nni_list_next\(&q->eq_list, aio\); nni_list_remove\(&q->eq_list, aio\); "
          r"aio->a_expiring = true; aio = nxt; continue; \}", body, "expire loop: taken entries leave the list")
    # every entry left on the list (due or not) lowers eq_next
    X.one(r"continue; \} if \(aio->a_expire < q->eq_next\) \{ q->eq_next = aio->a_expire; \} aio = nni_list_next\(&q->eq_list, aio\); \}",
          body, "expire loop: eq_next = min a_expire of EVERY entry left on the list")
    X.one(r"for \(uint32_t i = 0; i < exp_idx; i\+\+\) \{ aio = expires\[i\];", body, "expire loop: every taken entry is processed")
    m = X.one(r"#define\s+NNI_TIME_NEVER\s+\(\(nni_time\)\s*-\s*1\)", X.src("src/core/defs.h"), "NNI_TIME_NEVER")
    m = X.one(r"typedef\s+uint64_t\s+nni_time;", X.src("src/core/defs.h"), "nni_time is 64 bit")
    put("expireTimeNeverBits", 64, "core/defs.h nni_time = uint64_t, NNI_TIME_NEVER = (nni_time) -1")
    # completion lists (Model/Completions.lean): add prepends through the reap node; run takes the link out of the node
    # BEFORE it completes the aio
    add = re.sub(r"\s+", " ", X.func_body(aio, "nni_aio_completions_add"))
    X.one(r"aio->a_reap_node\.rn_next = \*clp; aio->a_result = result; aio->a_count = count; \*clp = aio;", add, "completions_add prepends through a_reap_node")
    run = re.sub(r"\s+", " ", X.func_body(aio, "nni_aio_completions_run"))
    X.one(r"nni_aio \*cl = \*clp; \*clp = NULL; while \(\(aio = cl\) != NULL\) \{ cl = \(void \*\) aio->a_reap_node\.rn_next; "
          r"aio->a_reap_node\.rn_next = NULL; nni_aio_finish_sync\(aio, aio->a_result, aio->a_count\); \}", run,
          "completions_run: link read and cleared before the callback")
    put("completionsRunAnchored", True, "core/aio.c nni_aio_completions_add/_run match Model/Completions.lean")
    put("expireScanAnchored", True, "core/aio.c nni_aio_expire_loop: take rule, eq_next rule and sleep test match Model/ExpireQ.lean")
