"""Build cache: nng static library (from /repo's current working tree) and harness
binaries, keyed by content hash, under /verif/.cache.  Every check calls these on
every run; a hash hit costs a tree scan (~50 ms)."""
import os, sys, hashlib, subprocess, json, shutil, fcntl, time, re, shlex

REPO = os.environ.get("VERIF_REPO", "/repo")
HERE = os.path.dirname(os.path.dirname(os.path.abspath(__file__)))
CACHE = os.path.join(HERE, ".cache")
HARNESS = os.path.join(HERE, "harness")

VARIANTS = {
    # what the checks run: baseline configuration (NDEBUG: NNI_ASSERT compiled out, as in
    # RelWithDebInfo) + sanitizers + the NNG_VERIF hooks
    "asan": "-O1 -g -DNDEBUG -DNNG_VERIF -fno-omit-frame-pointer -fsanitize=address,undefined -fno-sanitize-recover=all",
    # same without sanitizers (timing-sensitive REAL runs, allocation sweeps with many processes)
    "plain": "-O1 -g -DNDEBUG -DNNG_VERIF",
}


class BuildError(Exception):
    def __init__(self, msg, log=""):
        super().__init__(msg)
        self.log = log


def _tree_hash():
    h = hashlib.sha256()
    roots = ["src", "include", "cmake", "CMakeLists.txt"]
    for r in roots:
        p = os.path.join(REPO, r)
        if os.path.isfile(p):
            h.update(r.encode()); h.update(open(p, "rb").read())
            continue
        for d, dirs, files in os.walk(p):
            dirs.sort()
            for f in sorted(files):
                if f.endswith((".md", ".adoc", ".txt")) and f != "CMakeLists.txt":
                    continue
                fp = os.path.join(d, f)
                h.update(os.path.relpath(fp, REPO).encode())
                try:
                    h.update(open(fp, "rb").read())
                except OSError:
                    pass
    return h.hexdigest()[:16]


class _Lock:
    def __init__(self, name):
        os.makedirs(CACHE, exist_ok=True)
        self.path = os.path.join(CACHE, name + ".lock")

    def __enter__(self):
        self.f = open(self.path, "w")
        fcntl.flock(self.f, fcntl.LOCK_EX)

    def __exit__(self, *a):
        fcntl.flock(self.f, fcntl.LOCK_UN)
        self.f.close()


def _prune(prefix, keep):
    ents = [e for e in os.listdir(CACHE) if e.startswith(prefix) and os.path.isdir(os.path.join(CACHE, e))]
    ents.sort(key=lambda e: os.path.getmtime(os.path.join(CACHE, e)), reverse=True)
    for e in ents[keep:]:
        shutil.rmtree(os.path.join(CACHE, e), ignore_errors=True)


def nng(variant="asan"):
    """returns dict(dir, lib, cflags(list), hash). Builds if needed."""
    th = _tree_hash()
    key = hashlib.sha256((th + VARIANTS[variant]).encode()).hexdigest()[:12]
    d = os.path.join(CACHE, f"nng-{variant}-{key}")
    info = os.path.join(d, "info.json")
    with _Lock(f"nng-{variant}"):
        if os.path.exists(info):
            os.utime(d)
            res = json.load(open(info))
            # the cache key is the CONTENT of the tree: the same content may since live elsewhere (a scratch worktree
            # that was removed): point the include paths at the tree in use now
            old = res.get("repo")
            if old and old != REPO:
                res["cflags"] = [("-I" + REPO + t[2 + len(old):]) if t.startswith("-I" + old) else t for t in res["cflags"]]
            return res
        shutil.rmtree(d, ignore_errors=True)
        os.makedirs(d)
        t0 = time.time()
        cfg = ["cmake", "-G", "Ninja", "-S", REPO, "-B", d, "-DBUILD_SHARED_LIBS=OFF", "-DNNG_TESTS=OFF",
               "-DNNG_TOOLS=OFF", "-DNNG_ENABLE_NNGCAT=OFF", "-DCMAKE_BUILD_TYPE=None",
               "-DCMAKE_EXPORT_COMPILE_COMMANDS=ON", "-DCMAKE_C_FLAGS=" + VARIANTS[variant]]
        p = subprocess.run(cfg, capture_output=True, text=True)
        if p.returncode != 0:
            shutil.rmtree(d, ignore_errors=True)
            raise BuildError("cmake configure failed", p.stdout + p.stderr)
        p = subprocess.run(["ninja", "-C", d, "nng"], capture_output=True, text=True)
        if p.returncode != 0:
            log = p.stdout + p.stderr
            shutil.rmtree(d, ignore_errors=True)
            raise BuildError("nng does not compile", log)
        cc = json.load(open(os.path.join(d, "compile_commands.json")))
        ent = next(e for e in cc if e["file"].endswith("src/core/aio.c"))
        toks = shlex.split(ent["command"])
        cflags = [t for t in toks if t.startswith("-D") or t.startswith("-I")]
        res = {"dir": d, "lib": os.path.join(d, "libnng.a"), "cflags": cflags, "hash": key, "tree": th, "repo": REPO,
               "variant": variant, "build_s": round(time.time() - t0, 1)}
        # drop object files: only the archive and the config header are needed
        for sub in ("CMakeFiles",):
            shutil.rmtree(os.path.join(d, sub), ignore_errors=True)
        for dd, _, ff in os.walk(os.path.join(d, "src")):
            for f in ff:
                if f.endswith(".o"):
                    os.unlink(os.path.join(dd, f))
        json.dump(res, open(info, "w"))
        _prune(f"nng-{variant}-", 2)
        return res


def harness(name, sources, variant="asan", extra=None, libs=None):
    """compile harness/<sources> against the cached library; returns path of the binary."""
    lib = nng(variant)
    srcs = [os.path.join(HARNESS, s) for s in sources]
    h = hashlib.sha256()
    h.update(lib["hash"].encode())
    for s in srcs:
        h.update(open(s, "rb").read())
    for inc in sorted(os.listdir(HARNESS)):
        if inc.endswith(".h"):
            h.update(open(os.path.join(HARNESS, inc), "rb").read())
    h.update(repr(extra).encode())
    key = h.hexdigest()[:12]
    d = os.path.join(CACHE, f"h-{name}-{variant}-{key}")
    exe = os.path.join(d, name)
    with _Lock(f"h-{name}-{variant}"):
        if os.path.exists(exe):
            os.utime(d)
            return exe
        shutil.rmtree(d, ignore_errors=True)
        os.makedirs(d)
        cmd = ["gcc"] + VARIANTS[variant].split() + ["-w"] + lib["cflags"] + ["-I" + HARNESS] + (extra or []) + \
              ["-o", exe] + srcs + [lib["lib"], "-lpthread", "-latomic"] + (libs or [])
        p = subprocess.run(cmd, capture_output=True, text=True)
        if p.returncode != 0:
            shutil.rmtree(d, ignore_errors=True)
            raise BuildError(f"harness {name} does not compile/link against the current tree", p.stdout + p.stderr)
        _prune(f"h-{name}-{variant}-", 2)
        return exe


SAN_ENV = {
    "ASAN_OPTIONS": "allocator_may_return_null=1:detect_leaks=1:abort_on_error=0:exitcode=77:max_allocation_size_mb=1024",
    "UBSAN_OPTIONS": "print_stacktrace=1:halt_on_error=1:exitcode=78",
    "LSAN_OPTIONS": "exitcode=79",
}


def env():
    e = dict(os.environ)
    e.update(SAN_ENV)
    return e


if __name__ == "__main__":
    r = nng(sys.argv[1] if len(sys.argv) > 1 else "asan")
    print(json.dumps(r, indent=1))
