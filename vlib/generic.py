"""Shared runner for the protocol-independent properties judged on implementation traces of every
protocol: C15 (poll-judge) and C03 (own-judge)."""
import os, re, time, json
from . import core, build, lean, sim, protos


def augment_c15(r, ops, nbody=[0]):
    """insert `poll` + socket-level non-blocking op pairs at quiescent points: often right after the events
    that change readiness (transport completions, receives, buffer resizes, pipe loss), sometimes elsewhere"""
    out = []
    k = 0
    hot = ("recv_done", "send_done", "recv ", "setopt", "pipe_drop", "pipe_add", "advance", "sub ", "unsub ", "ctx_close")
    for op in ops:
        out.append(op)
        if op.startswith(("open", "close", "sched")):
            continue
        if r.chance(1, 2) if op.startswith(hot) else r.chance(1, 6):
            k += 1
            out.append("poll")
            if r.chance(1, 2):
                out.append("recv - 15 nb")
            else:
                out.append(f"send - 15 - ee{k:04x}{r.bytes(2).hex()} nb")
            if r.chance(1, 3):
                out.append("poll")   # and once more: the probe itself changed the state
                out.append("recv - 15 nb" if r.chance(1, 2) else f"send - 15 - ef{k:04x}{r.bytes(2).hex()} nb")
    return out


def run_generic(PROP, MODULES, judge_comp, tier, seed, replay, augment, n_quick, n_thorough, text, extra=None, parts=None):
    t0 = time.time()
    v = core.Verdict(PROP, seed)
    core.clear_replays(PROP)
    st = lean.prepare(MODULES, extra=extra)
    core.log(PROP, f"lean: {len(st.discharged)}/{len(st.theorems)} theorems re-checked; extract {st.extract_count} constants; {st.build_s:.1f}s")
    try:
        exe = sim.build_sim("s_proto", ["s_proto.c"])
    except build.BuildError as e:
        v.violation("build", {"kind": "build", "error": str(e), "log": e.log[-4000:]}, no_input=True)
        core.write_evidence(PROP, tier, seed, "proof", {"obligations": max(1, len(st.theorems)), "discharged": 0, "checker_cmd": "lake build",
                            "trusted_base": [], "explanation": "implementation or harness does not build"}, [], time.time() - t0, 1)
        return v.finish()
    n = n_quick if tier == "quick" else n_thorough
    scheds = (1, 2) if tier == "quick" else (1, 2, 3, 4, 5)
    if replay:
        rp = json.load(open(replay))
        ops = rp["ops"]
        if ops and ops[0].startswith("sched"):
            scheds = (int(ops[0].split()[1]),)
            ops = ops[1:]
        hs = [("replay", ops)]
    else:
        hs = []
        d = os.path.join(core.HERE, "corpus", PROP)
        if os.path.isdir(d):
            for f in sorted(os.listdir(d)):
                hs.append(("corpus:" + f, [l.strip() for l in open(os.path.join(d, f)) if l.strip() and not l.startswith("#")]))
        for i, (label, ops) in enumerate(protos.histories(seed, tier, n, PROP)):
            hs.append((label, augment(core.Rng(seed, PROP, tier, "aug", i), ops)))
    cases = [ops for _, ops in hs]
    res = sim.run_sim(PROP, cases, exe, None, judge_comp if st.driver_ok else None, scheds)
    core.log(PROP, f"cases {res.cases} runs {res.runs} ops {res.ops}; judge violations {len(res.judge_viol)}, crashes {len(res.crashes)}")
    known = core.known_findings(PROP)
    reported = set()
    for c in res.crashes[:3]:
        ops = sim.minimise(exe, None, c["ops"], False)
        v.violation(f"crash-{c['case']}", {"kind": "crash / sanitizer report / deadlock of the implementation under the simulated platform",
                    "ops": ops, "rc": c["rc"], "last_output": c["last"], "stderr": c["stderr"]})
    for jv in res.judge_viol:
        sig = jv["clause"]
        kf = None
        for k in known:
            if k.get("status") != "open":
                continue
            mt = k.get("match", {})
            if mt.get("clause_contains", "\0") in sig and any(re.search(mt.get("open_regex", "^open"), o) for o in jv["ops"][:3]):
                kf = k
                break
        if kf:
            if kf["key"] not in reported:
                reported.add(kf["key"])
                v.known_finding(kf["text"])
            continue
        key = (sig, " ".join(next((o for o in jv["ops"] if o.startswith("open")), "").split()[:3]))
        if key in reported or len(v.violations) >= 6:
            continue
        reported.add(key)
        ops = sim.minimise(exe, judge_comp, jv["ops"], True)
        impl, il, verdicts = sim.run_one(exe, judge_comp, ops, True)
        v.violation(f"judge-{jv['case']}", {"kind": f"implementation trace violates the {PROP} trace predicate (Spec/Generic.lean)",
                    "clause": jv["clause"], "ops": ops, "impl": il, "judge": verdicts})
    # further parts of the property with their own executor (C15: the pollable under thread schedules, vlib/props/c15_pollable.py)
    part_cov = {}
    for name, fn in (parts or []):
        pc, pv = fn(tier, seed, st, replay)
        part_cov[name] = {k: x for k, x in pc.items() if k != "samples"}
        for tag, payload, no_input in pv:
            if not no_input or not v.violations:
                v.violation(tag, payload, no_input=no_input)
    if not v.violations and not st.ok:
        v.violation("proof", {"kind": "proof obligation no longer checks", "broken": st.broken, "log": st.log[-3000:]}, no_input=True)
    labels = {}
    for l, _ in hs:
        labels[l.split(":")[0]] = labels.get(l.split(":")[0], 0) + 1
    cov = {"obligations": len(st.theorems), "discharged": len(st.discharged),
           "checker_cmd": "lake build " + " ".join(MODULES) + " && lake env lean <#print axioms for each theorem>",
           "trusted_base": ["Lean 4.33.0 kernel", "axioms: " + ", ".join(sorted({a for x in st.axioms.values() if x for a in x})),
                            "harness/simplat.c, mocktran.c, s_proto.c, valloc.c", "vlib/sim.py", "gcc ASan/UBSan/LSan"],
           "theorems": st.discharged, "axioms": st.axioms, "broken": st.broken,
           "evaluations": res.runs, "distinct_nontrivial": len({tuple(c) for c in cases if len(c) > 4}),
           "rule": text, "histories_by_protocol": labels, "ops": res.ops, "op_histogram": res.op_hist, "event_histogram": res.ev_hist,
           "samples": [cases[0], cases[-1]] if cases else [], "judge_violations": len(res.judge_viol), "crashes": len(res.crashes),
           "known_findings_reported": sorted(reported & {k["key"] for k in known})}
    cov.update(part_cov)
    cov["evaluations"] += sum(pc.get("cases", 0) for pc in part_cov.values())
    core.write_evidence(PROP, tier, seed, "proof", cov,
                        ["the protocol-independent judge sees only API-level observables", "per-protocol flag/ownership invariants are theorems of the protocol models (Props/Cxx)",
                         "SIM interleaves at lock granularity"], time.time() - t0, len(v.violations))
    return v.finish()
