"""constants and source-shape anchors for the nng_device model (Model/Device.lean): protocol flag bits,
forwarder state numbers, the ORDER of the decisions in device_init with their error codes, the shape of
device_cb / device_cancel / device_close / nni_device that the model mirrors branch by branch"""
import re
from . import extract as X

DEV = "src/core/device.c"


def _ordered(body, fn, pats):
    """every anchor must match, and in this order (the model mirrors the order of the checks)"""
    pos = -1
    for pat, what in pats:
        m = X.one(pat, body, f"{DEV} {fn}: {what}")
        if m.start() <= pos:
            raise X.ExtractError(f"{DEV} {fn}: `{what}` is no longer placed after the preceding step (order of checks changed)")
        pos = m.start()


def hook(put):
    ph = X.src("src/core/protocol.h")
    for lean, c in (("devFlagRcv", "NNI_PROTO_FLAG_RCV"), ("devFlagSnd", "NNI_PROTO_FLAG_SND"), ("devFlagRaw", "NNI_PROTO_FLAG_RAW")):
        m = X.one(r"#define\s+" + c + r"\s+(\d+)u", ph, c)
        put(lean, int(m.group(1)), f"core/protocol.h {c}")
    sock = X.src("src/core/socket.c")
    X.one(r"return \(\(nni_sock_flags\(sock\) & NNI_PROTO_FLAG_RAW\) != 0\);", X.func_body(sock, "nni_sock_raw"), "nni_sock_raw = flags & RAW")

    text = X.src(DEV)
    t = X.strip_comments(text)
    for lean, c in (("devStateInit", "NNI_DEVICE_STATE_INIT"), ("devStateRecv", "NNI_DEVICE_STATE_RECV"),
                    ("devStateSend", "NNI_DEVICE_STATE_SEND"), ("devStateFini", "NNI_DEVICE_STATE_FINI")):
        put(lean, X.define(text, c), f"core/device.c {c}")
    m = X.one(r"device_path\s+paths\[(\d+)\];", t, "device_data.paths dimension")
    put("devMaxPaths", int(m.group(1)), "core/device.c device_data.paths[N]")

    # ---- device_init: the decisions in source order --------------------------------------------------
    init = X.func_body(text, "device_init")
    m = X.one(r"int\s+num_paths\s*=\s*(\d+);", init, "num_paths initial value")
    put("devInitPaths", int(m.group(1)), "core/device.c device_init: int num_paths = N")
    steps = [
        (r"if\s*\(s1 == NULL\)\s*\{\s*s1 = s2;\s*\}", "s1 == NULL => s1 = s2"),
        (r"if\s*\(s2 == NULL\)\s*\{\s*s2 = s1;\s*\}", "s2 == NULL => s2 = s1"),
        (r"if\s*\(\(s1 == NULL\) \|\| \(s2 == NULL\)\)\s*\{\s*return \(NNG_EINVAL\);", "both NULL => NNG_EINVAL"),
        (r"if\s*\(\(nni_sock_peer_id\(s1\) != nni_sock_proto_id\(s2\)\) \|\|\s*\(nni_sock_peer_id\(s2\) != nni_sock_proto_id\(s1\)\)\)\s*\{\s*return \(NNG_EINVAL\);", "peer test => NNG_EINVAL"),
        (r"if\s*\(!nni_sock_raw\(s1\)\)\s*\{\s*return \(NNG_EINVAL\);", "s1 not raw => NNG_EINVAL"),
        (r"if\s*\(!nni_sock_raw\(s2\)\)\s*\{\s*return \(NNG_EINVAL\);", "s2 not raw => NNG_EINVAL"),
        (r"if\s*\(\(nni_sock_flags\(s1\) & NNI_PROTO_FLAG_RCV\) == 0\)\s*\{\s*nni_sock \*temp = s1;\s*s1\s*=\s*s2;\s*s2\s*=\s*temp;\s*\}", "swap when s1 cannot receive"),
        (r"if\s*\(\(\(nni_sock_flags\(s2\) & NNI_PROTO_FLAG_RCV\) == 0\) \|\| \(s1 == s2\)\)\s*\{\s*num_paths = 1;\s*\}", "one path when s2 cannot receive or s1 == s2 (tested on the normalised, swapped sockets)"),
        (r"if\s*\(\(d = NNI_ALLOC_STRUCT\(d\)\) == NULL\)\s*\{\s*return \(NNG_ENOMEM\);", "allocation failure => NNG_ENOMEM"),
        (r"for\s*\(i = 0; i < num_paths; i\+\+\)\s*\{", "path loop"),
        (r"p->src\s*=\s*i == 0 \? s1 : s2;\s*p->dst\s*=\s*i == 0 \? s2 : s1;", "path 0 = (s1,s2), path 1 = (s2,s1)"),
        (r"p->state\s*=\s*NNI_DEVICE_STATE_INIT;", "paths start in INIT"),
        (r"nni_aio_set_timeout\(&p->aio, NNG_DURATION_INFINITE\);", "path aios never time out"),
        (r"d->num_paths = num_paths;\s*d->owned\s*=\s*false;", "num_paths stored, not owned yet"),
    ]
    _ordered(init, "device_init", steps)
    # no other assignment to s1/s2/num_paths, no other return
    if len(re.findall(r"\bnum_paths\s*=[^=]", init)) != 4:   # declaration, `= 1`, `d->num_paths = 0`, `d->num_paths = num_paths`
        raise X.ExtractError(f"{DEV} device_init: num_paths is assigned in an unexpected place")
    if len(re.findall(r"\breturn\b", init)) != 6:
        raise X.ExtractError(f"{DEV} device_init: number of return statements changed")
    if re.search(r"\bbool\b", init):
        raise X.ExtractError(f"{DEV} device_init: a boolean local appeared (the model has none: every test reads the current s1/s2)")
    nngh = X.src("include/nng/nng.h")
    for lean, c in (("devErrInval", "NNG_EINVAL"), ("devErrNomem", "NNG_ENOMEM"), ("devErrClosed", "NNG_ECLOSED"), ("devErrBusy", "NNG_EBUSY"),
                    ("devErrCanceled", "NNG_ECANCELED"), ("devErrStopped", "NNG_ESTOPPED")):
        m = X.one(r"\b" + c + r"\s*=\s*(\d+)", nngh, c)
        put(lean, int(m.group(1)), f"include/nng/nng.h {c}")

    # ---- device_cb -----------------------------------------------------------------------------------
    cb = X.func_body(text, "device_cb")
    _ordered(cb, "device_cb", [
        (r"nni_mtx_lock\(&device_mtx\);\s*rv = nni_aio_result\(&p->aio\);", "result read under device_mtx"),
        (r"if\s*\(rv == 0\)\s*\{\s*rv = d->rv;\s*if\s*\(\(rv != 0\) && \(p->state == NNI_DEVICE_STATE_RECV\)\)\s*\{\s*nni_msg_free\(nni_aio_get_msg\(&p->aio\)\);\s*nni_aio_set_msg\(&p->aio, NULL\);", "late receive: message freed when the device already failed"),
        (r"if\s*\(rv != 0\)\s*\{\s*if\s*\(p->state == NNI_DEVICE_STATE_SEND\)\s*\{\s*nni_msg_free\(nni_aio_get_msg\(&p->aio\)\);\s*nni_aio_set_msg\(&p->aio, NULL\);", "failed send: message freed"),
        (r"p->state = NNI_DEVICE_STATE_FINI;\s*d->running--;\s*if\s*\(d->rv == 0\)\s*\{\s*d->rv = rv;\s*\}", "FINI, running--, first error kept"),
        (r"if\s*\(\(p != &d->paths\[i\]\) &&\s*\(d->paths\[i\]\.state != NNI_DEVICE_STATE_FINI\)\)\s*\{\s*nni_aio_abort\(&d->paths\[i\]\.aio, rv\);", "abort the other unfinished paths with rv"),
        (r"if\s*\(d->running == 0\)\s*\{\s*nni_aio \*user = d->user;\s*nng_err\s+err\s*=\s*d->rv;\s*d->user = NULL;\s*nni_mtx_unlock\(&device_mtx\);\s*device_close\(d\);\s*if\s*\(user != NULL\)\s*\{\s*nni_aio_finish_error\(user, err\);\s*\}\s*nni_reap\(&device_reap, d\);\s*return;", "last path: close, finish the user aio with d->rv, reap"),
        (r"next = p->state;\s*switch\s*\(p->state\)", "state switch"),
        (r"case NNI_DEVICE_STATE_SEND:\s*p->state = NNI_DEVICE_STATE_RECV;\s*break;", "SEND -> RECV"),
        (r"case NNI_DEVICE_STATE_RECV:\s*p->state = NNI_DEVICE_STATE_SEND;\s*break;", "RECV -> SEND, message stays in the aio"),
        (r"nni_aio_reset\(&p->aio\);\s*nni_mtx_unlock\(&device_mtx\);", "aio reset under the lock"),
        (r"case NNI_DEVICE_STATE_SEND:\s*nni_sock_recv\(p->src, &p->aio\);\s*break;", "after a send: receive from src"),
        (r"case NNI_DEVICE_STATE_RECV:\s*nni_sock_send\(p->dst, &p->aio\);\s*break;", "after a receive: send to dst, same aio"),
    ])
    if re.search(r"nni_msg_(header_)?(append|insert|trim|chop|clear|dup|clone)", cb):
        raise X.ExtractError(f"{DEV} device_cb edits or copies the message")
    if len(re.findall(r"nni_sock_send\(", t)) != 1 or len(re.findall(r"nni_sock_recv\(", t)) != 2:
        raise X.ExtractError(f"{DEV}: number of nni_sock_send / nni_sock_recv call sites changed (model: one send site, recv in device_cb and device_start)")

    # ---- device_cancel / device_close / device_start / nni_device -----------------------------------------
    _ordered(X.func_body(text, "device_cancel"), "device_cancel", [
        (r"if\s*\(d->user == aio\)\s*\{\s*if\s*\(d->rv == 0\)\s*\{\s*d->rv = rv;\s*\}", "only while the user aio is attached; first error kept"),
        (r"if\s*\(d->paths\[i\]\.state != NNI_DEVICE_STATE_FINI\)\s*\{\s*nni_aio_abort\(&d->paths\[i\]\.aio, rv\);", "abort every unfinished path"),
    ])
    _ordered(X.func_body(text, "device_close"), "device_close", [
        (r"if\s*\(!d->owned\)\s*\{\s*return;\s*\}\s*d->owned = false;", "only once, only when owned"),
        (r"nni_sock_close_device\(d->paths\[0\]\.src\);\s*if\s*\(d->paths\[0\]\.dst != d->paths\[0\]\.src\)\s*\{\s*nni_sock_close_device\(d->paths\[0\]\.dst\);", "src of path 0, then dst if different"),
    ])
    _ordered(X.func_body(text, "device_start"), "device_start", [
        (r"d->user = user;", "user attached"),
        (r"p->state\s*=\s*NNI_DEVICE_STATE_RECV;\s*nni_sock_recv\(p->src, &p->aio\);\s*d->running\+\+;", "every path: RECV, receive posted, running++"),
    ])
    _ordered(X.func_body(text, "nni_device"), "nni_device", [
        (r"if\s*\(\(rv = device_init\(&d, s1, s2\)\) != 0\)\s*\{\s*nni_mtx_unlock\(&device_mtx\);\s*nni_aio_finish_error\(aio, rv\);\s*return;", "init error finishes the user aio"),
        (r"if\s*\(!nni_aio_start\(aio, device_cancel, d\)\)\s*\{\s*nni_mtx_unlock\(&device_mtx\);\s*nni_reap\(&device_reap, d\);\s*return;", "user aio already stopped/aborted: reap only"),
        (r"if\s*\(\(rv = nni_sock_device_hold\(d->paths\[0\]\.src, d->paths\[0\]\.dst\)\) != 0\)\s*\{\s*nni_mtx_unlock\(&device_mtx\);\s*nni_aio_finish_error\(aio, rv\);\s*nni_reap\(&device_reap, d\);\s*return;", "hold failure: finish + reap"),
        (r"d->owned = true;\s*device_start\(d, aio\);", "owned, started"),
    ])
    # nng_device_aio maps an equal second id to NULL (so `s1 == s2` in device_init is reached through NULL normalisation)
    pub = X.func_body(X.src("src/nng.c"), "nng_device_aio")
    X.one(r"if\s*\(\(\(s2\.id > 0\) && \(s2\.id != \(uint32_t\) -1\)\) && \(s2\.id != s1\.id\)\)", pub, "nng_device_aio: equal ids => second socket NULL")
