"""Lean side of a check: regenerate Generated/, build the property's modules and the driver,
audit axioms and forbidden constructs.  Returns a ProofStatus that names what is broken."""
import os, re, subprocess, time, fcntl, json, tempfile
from . import extract

HERE = os.path.dirname(os.path.dirname(os.path.abspath(__file__)))
LEAN = os.path.join(HERE, "lean")
DRIVER = os.path.join(LEAN, ".lake", "build", "bin", "driver")
ALLOWED_AXIOMS = {"propext", "Classical.choice", "Quot.sound"}
FORBIDDEN = re.compile(r"\b(sorry|admit|native_decide|bv_decide|implemented_by|unsafe)\b|^\s*axiom\s|maxHeartbeats\s+0\b", re.M)


class ProofStatus:
    def __init__(self):
        self.theorems = []        # names registered for the property
        self.discharged = []      # built + axioms ok
        self.broken = []          # (name-or-module, reason)
        self.driver_ok = False
        self.extract_changed = []
        self.extract_count = 0
        self.log = ""
        self.axioms = {}
        self.build_s = 0.0

    @property
    def ok(self):
        return not self.broken and self.driver_ok and len(self.discharged) == len(self.theorems) and self.theorems


def _lock():
    os.makedirs(os.path.join(HERE, ".cache"), exist_ok=True)
    f = open(os.path.join(HERE, ".cache", "lake.lock"), "w")
    fcntl.flock(f, fcntl.LOCK_EX)
    return f


def strip_lean_comments(s):
    # nested block comments
    out, i, depth = [], 0, 0
    while i < len(s):
        if s.startswith("/-", i):
            depth += 1; i += 2; continue
        if depth and s.startswith("-/", i):
            depth -= 1; i += 2; continue
        if depth:
            i += 1; continue
        if s.startswith("--", i):
            j = s.find("\n", i)
            i = len(s) if j < 0 else j
            continue
        out.append(s[i]); i += 1
    return "".join(out)


def module_file(mod):
    return os.path.join(LEAN, *mod.split(".")) + ".lean"


def imports_closure(mod, seen=None):
    seen = seen if seen is not None else set()
    if mod in seen or not mod.startswith("NngModel"):
        return seen
    p = module_file(mod)
    if not os.path.exists(p):
        return seen
    seen.add(mod)
    for m in re.findall(r"^import\s+(\S+)", open(p).read(), re.M):
        imports_closure(m, seen)
    return seen


def theorem_names(mod):
    p = module_file(mod)
    if not os.path.exists(p):
        return []
    txt = strip_lean_comments(open(p).read())
    ns = []
    names = []
    for m in re.finditer(r"^(namespace|end|theorem)\s+(\S+)", txt, re.M):
        kind, name = m.group(1), m.group(2)
        if kind == "namespace":
            ns.append(name)
        elif kind == "end":
            if ns and ns[-1] == name:
                ns.pop()
        else:
            names.append(".".join(ns + [name]))
    return names


def grep_audit(mods):
    bad = []
    for m in sorted(mods):
        txt = strip_lean_comments(open(module_file(m)).read())
        # ignore string literals
        txt = re.sub(r'"(?:[^"\\]|\\.)*"', '""', txt)
        for mm in FORBIDDEN.finditer(txt):
            bad.append((m, mm.group(0).strip()))
    return bad


def lake(args, timeout=3600):
    p = subprocess.run(["lake"] + args, cwd=LEAN, capture_output=True, text=True, timeout=timeout)
    return p.returncode, p.stdout + p.stderr


def prepare(prop_modules, need_driver=True):
    """prop_modules: list of Lean modules holding the property's theorems (Props/Cxx ...)."""
    st = ProofStatus()
    t0 = time.time()
    lk = _lock()
    try:
        try:
            c, changed = extract.generate()
            st.extract_changed, st.extract_count = changed, len(c)
        except extract.ExtractError as e:
            st.broken.append(("extract", str(e)))
            st.log += f"extract: {e}\n"
        # driver first (models only); then the property's proof modules
        if need_driver:
            rc, out = lake(["build", "driver"])
            st.driver_ok = rc == 0
            if rc != 0:
                st.log += out
                st.broken.append(("driver", "model/driver does not build:\n" + _errors(out)))
        else:
            st.driver_ok = True
        for mod in prop_modules:
            names = theorem_names(mod)
            st.theorems += names
            rc, out = lake(["build", mod])
            if rc != 0:
                st.log += out
                st.broken.append((mod, "proof module does not build:\n" + _errors(out)))
                # find which theorems still hold: elaborate the file with errors -> those names reported
                failing = set(re.findall(r"error: [^\n]*?\n?", out))
                continue
            ax = axioms(mod, names)
            for n in names:
                a = ax.get(n)
                st.axioms[n] = sorted(a) if a is not None else None
                if a is None:
                    st.broken.append((n, "theorem not found by #print axioms"))
                elif not set(a) <= ALLOWED_AXIOMS:
                    st.broken.append((n, "depends on axioms outside the allowed set: " + ", ".join(sorted(set(a) - ALLOWED_AXIOMS))))
                else:
                    st.discharged.append(n)
        mods = set()
        for mod in prop_modules:
            imports_closure(mod, mods)
        for m, what in grep_audit(mods):
            st.broken.append((m, f"forbidden construct `{what}`"))
    finally:
        lk.close()
    st.build_s = time.time() - t0
    return st


def _errors(out):
    lines = out.splitlines()
    keep = [l for l in lines if "error" in l.lower() or l.startswith("✖")]
    return "\n".join(keep[:40])


def axioms(mod, names):
    """name -> set of axioms, via `#print axioms` in a scratch file under lake env."""
    if not names:
        return {}
    src = f"import {mod}\n" + "".join(f"#print axioms {n}\n" for n in names)
    d = os.path.join(HERE, ".cache")
    fd, path = tempfile.mkstemp(suffix=".lean", dir=d)
    os.write(fd, src.encode()); os.close(fd)
    try:
        p = subprocess.run(["lake", "env", "lean", path], cwd=LEAN, capture_output=True, text=True, timeout=1200)
    finally:
        os.unlink(path)
    out = p.stdout + p.stderr
    res = {}
    for m in re.finditer(r"'([^']+)' depends on axioms: \[([^\]]*)\]", out, re.S):
        res[m.group(1)] = set(x.strip() for x in m.group(2).replace("\n", " ").split(",") if x.strip())
    for m in re.finditer(r"'([^']+)' does not depend on any axioms", out):
        res[m.group(1)] = set()
    return res


def leanchecker(mod):
    p = subprocess.run(["lake", "env", "leanchecker", mod], cwd=LEAN, capture_output=True, text=True, timeout=3600)
    return p.returncode == 0, (p.stdout + p.stderr)[-2000:]


def driver_cmd(component):
    return [DRIVER, component]
