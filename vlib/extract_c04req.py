"""constants for the REQ model (C04 requester half, C12)"""
import re
from . import extract as X


def hook(put):
    req = X.src("src/sp/protocol/reqrep0/req.c")
    plain = X.strip_comments(req)
    put("reqProtoSelf", X.define(plain, "REQ0_SELF"), "reqrep0/req.c REQ0_SELF")
    put("reqProtoPeer", X.define(plain, "REQ0_PEER"), "reqrep0/req.c REQ0_PEER")
    init = X.func_body(req, "req0_sock_init")
    m = X.one(r"nni_id_map_init\(&s->requests, (0x[0-9a-fA-F]+)u?, (0x[0-9a-fA-F]+)u?, true\)", init, "req id map range (random start)")
    lo, hi = X.cint(m.group(1)), X.cint(m.group(2))
    put("reqIdMin", lo, "reqrep0/req.c req0_sock_init nni_id_map_init lower bound (request bit)")
    put("reqIdMax", hi, "reqrep0/req.c req0_sock_init nni_id_map_init upper bound")
    if lo != 0x80000000:
        raise X.ExtractError("REQ request ids no longer start at the high bit")
    second = X.define(X.strip_comments(X.src("src/core/defs.h")), "NNI_SECOND")
    m = X.one(r"s->retry\s*=\s*NNI_SECOND \* (\d+);", init, "req default resend time")
    put("reqResendTimeDefault", second * int(m.group(1)), "reqrep0/req.c req0_sock_init s->retry (ms)")
    X.one(r"s->retry_tick\s*=\s*NNI_SECOND;", init, "req default resend tick")
    put("reqResendTickDefault", second, "reqrep0/req.c req0_sock_init s->retry_tick (ms)")
    # option names and value range (nni_copyin_ms accepts every duration >= NNG_DURATION_INFINITE)
    hdr = X.src("include/nng/nng.h")
    X.one(r'#define\s+NNG_OPT_REQ_RESENDTIME\s+"req:resend-time"', hdr, "NNG_OPT_REQ_RESENDTIME name")
    X.one(r'#define\s+NNG_OPT_REQ_RESENDTICK\s+"req:resend-tick"', hdr, "NNG_OPT_REQ_RESENDTICK name")
    m = X.one(r"#define\s+NNG_DURATION_INFINITE\s+\((-?\d+)\)", hdr, "NNG_DURATION_INFINITE")
    inf = int(m.group(1))
    cp = X.func_body(X.src("src/core/options.c"), "nni_copyin_ms")
    m = X.one(r"if \(dur < (-?\d+)\) \{\s*return \(NNG_EINVAL\);", cp, "nni_copyin_ms lower bound")
    if int(m.group(1)) != inf:
        raise X.ExtractError("nni_copyin_ms lower bound is not NNG_DURATION_INFINITE")
    put("durationMinNeg", -int(m.group(1)), "core/options.c nni_copyin_ms: durations below -(this) are NNG_EINVAL")
    # the shapes the model relies on: the reply id is the first 4 body bytes; shorter is malformed
    rcv = X.func_body(req, "req0_recv_cb")
    m = X.one(r"if \(nni_msg_len\(msg\) < (\d+)\) \{\s*goto malformed;", rcv, "req0_recv_cb short reply test")
    put("reqIdLen", int(m.group(1)), "reqrep0/req.c req0_recv_cb minimum reply length")
    X.one(r"id = nni_msg_trim_u32\(msg\);", rcv, "req0_recv_cb reply id extraction")
    X.one(r"nni_msg_header_append_u32\(msg, ctx->request_id\);", X.func_body(req, "req0_ctx_send"), "req0_ctx_send request id header")
