"""constants and anchors for the general SP/UDP association model (Model/HostileNetQ.lean): per-pipe receive queue,
receive posting, pipe close, the shared transmit ring, the peer table with its probing over nng_sockaddr_hash."""
import re
from . import extract as X


def hook(put):
    udps = X.src("src/sp/transport/udp/udp.c")
    udp = X.strip_comments(udps)
    put("c11tUdpTxQueueLen", X.define(udp, "NNG_UDP_TXQUEUE_LEN"), "udp.c NNG_UDP_TXQUEUE_LEN")
    # ---- the receive queue of a pipe
    X.one(r"nni_lmq_init\(&p->rx_mq, NNG_UDP_RXQUEUE_LEN\);", X.func_body(udps, "udp_pipe_init"), "udp_pipe_init: rx_mq of NNG_UDP_RXQUEUE_LEN")
    rd = X.strip_comments(X.func_body(udps, "udp_recv_data"))
    X.one(r"if \(\(p = udp_find_pipe\(ep, sa\)\) == NULL\) \{\s*nni_stat_inc\(&ep->st_rcv_nomatch, 1\);\s*return;\s*\}.*?"
          r"if \(\(dreq->us_length > len\) \|\| \(dreq->us_length > p->rcvmax\)\) \{\s*nni_stat_inc\(&ep->st_rcv_toobig, 1\);\s*"
          r"udp_send_disc\(ep, p, DISC_MSGSIZE\);\s*return;\s*\}.*?"
          r"if \(nni_lmq_full\(&p->rx_mq\)\) \{\s*nni_msg \*old;\s*\(void\) nni_lmq_get\(&p->rx_mq, &old\);\s*nni_msg_free\(old\);\s*"
          r"nni_stat_inc\(&ep->st_rcv_nobuf, 1\);\s*\}.*?"
          r"if \(len <= ep->copymax\) \{\s*nni_stat_inc\(&ep->st_rcv_copy, 1\);.*?nni_lmq_put\(&p->rx_mq, msg\);.*?"
          r"\} else \{\s*nni_stat_inc\(&ep->st_rcv_nocopy, 1\);.*?nni_lmq_put\(&p->rx_mq, msg\);\s*\}\s*"
          r"while \(\(\(aio = nni_list_first\(&p->rx_aios\)\) != NULL\) &&\s*\(!nni_lmq_empty\(&p->rx_mq\)\)\) \{\s*nni_aio_list_remove\(aio\);\s*"
          r"nni_lmq_get\(&p->rx_mq, &msg\);\s*nni_aio_set_msg\(aio, msg\);", rd,
          "udp_recv_data: no match, length rule, drop oldest when full, copy / loan, put, hand to posted receives")
    if re.search(r"\bp->closed", rd):
        raise X.ExtractError("udp_recv_data now looks at p->closed (the model queues data for a closed, not yet forgotten pipe)")
    pr = X.strip_comments(X.func_body(udps, "udp_pipe_recv"))
    X.one(r"if \(p->closed\) \{\s*nni_mtx_unlock\(&ep->mtx\);\s*nni_aio_finish_error\(aio, NNG_ECLOSED\);\s*return;\s*\}.*?"
          r"if \(nni_list_empty\(&p->rx_aios\) && !nni_lmq_empty\(&p->rx_mq\)\) \{\s*nni_msg \*msg;\s*nni_lmq_get\(&p->rx_mq, &msg\);.*?"
          r"nni_list_append\(&p->rx_aios, aio\);", pr, "udp_pipe_recv: closed, oldest queued message, else wait")
    sd = X.strip_comments(X.func_body(udps, "udp_send_disc"))
    X.one(r"if \(p->closed\) \{\s*return;\s*\}\s*p->closed = true;\s*while \(\(aio = nni_list_first\(&p->rx_aios\)\) != NULL\) \{\s*"
          r"nni_aio_list_remove\(aio\);\s*nni_aio_finish_error\(aio, NNG_ECLOSED\);\s*\}\s*udp_send_disc_full\(ep, &p->peer_addr, reason\);\s*"
          r"nni_pipe_close\(p->npipe\);", sd, "udp_send_disc: once, fail receives, DISC, close")
    ds = X.strip_comments(X.func_body(udps, "udp_recv_disc"))
    X.one(r"if \(p != NULL\) \{\s*p->closed = true;\s*while \(\(aio = nni_list_first\(&p->rx_aios\)\) != NULL\) \{\s*nni_aio_list_remove\(aio\);\s*"
          r"nni_aio_finish_error\(aio, NNG_ECLOSED\);\s*\}\s*nni_pipe_close\(p->npipe\);", ds, "udp_recv_disc: closed, fail receives, close")
    ck = X.strip_comments(X.func_body(udps, "udp_recv_cack"))
    X.one(r"if \(\(p = udp_find_pipe\(ep, sa\)\) && \(!p->closed\)\)", ck, "udp_recv_cack ignores a closed pipe")
    cr = X.strip_comments(X.func_body(udps, "udp_recv_creq"))
    if re.search(r"\bp->closed", cr):
        raise X.ExtractError("udp_recv_creq now looks at p->closed (the model answers a refresh of a closed pipe with CACK)")
    pc = X.strip_comments(X.func_body(udps, "udp_pipe_close"))
    X.one(r"udp_remove_pipe\(p\);\s*udp_send_disc\(ep, p, DISC_CLOSED\);\s*while \(\(aio = nni_list_first\(&p->rx_aios\)\) != NULL\)", pc,
          "udp_pipe_close: forget, DISC(CLOSED) unless closed, fail receives")
    tm = X.strip_comments(X.func_body(udps, "udp_timer_cb"))
    X.one(r"nni_stat_inc\(&ep->st_peer_inactive, 1\);\s*udp_send_disc\(ep, p, DISC_INACTIVE\);", tm, "udp_timer_cb: inactive pipe")
    # ---- transmit ring
    qt = X.strip_comments(X.func_body(udps, "udp_queue_tx"))
    X.one(r"if \(ring->count == ring->size \|\| !ep->started\) \{\s*nni_stat_inc\(&ep->st_snd_nobuf, 1\);.*?return;\s*\}.*?ring->count\+\+;", qt,
          "udp_queue_tx: full ring drops the datagram")
    X.one(r"ring->tail\+\+;\s*ring->count--;", X.strip_comments(X.func_body(udps, "udp_finish_tx")), "udp_finish_tx: one descriptor released")
    X.one(r"ep->tx_ring\.size = NNG_UDP_TXQUEUE_LEN;", X.strip_comments(X.func_body(udps, "udp_ep_init")), "udp_ep_init: ring size")
    # ---- the peer table: open addressing over nng_sockaddr_hash without tombstones
    fp = X.strip_comments(X.func_body(udps, "udp_find_pipe"))
    X.one(r"uint64_t\s+id = nng_sockaddr_hash\(peer_addr\);.*?for \(;;\) \{\s*if \(\(p = nni_id_get\(&ep->pipes, id\)\) == NULL\) \{\s*return \(NULL\);\s*\}\s*"
          r"if \(nng_sockaddr_equal\(&p->peer_addr, peer_addr\)\) \{\s*return \(p\);\s*\}\s*id\+\+;\s*if \(id == 0\) \{\s*id = 1;\s*\}", fp,
          "udp_find_pipe: probe from the hash until an empty key")
    # The model carries BOTH removals: `ptRemoveOld` (the pinned text: probe from the hash, delete the key, leave the hole — defect e.1 of
    # integration/C11T.md, reported by the r_udp6 reproducers with a concrete replay) and `ptRemoveKey` + `ptCloseGap` (fix
    # C11T-udp-peer-table-gap).  The source must be one of the two.
    ap = X.strip_comments(X.func_body(udps, "udp_add_pipe"))
    X.one(r"uint64_t id = p->id;\s*while \(nni_id_get\(&ep->pipes, id\) != NULL\) \{\s*id\+\+;\s*if \(id == 0\) \{\s*id = 1;\s*\}\s*\}.*?"
          r"nni_id_set\(&ep->pipes, id, p\)\) == NNG_OK\) \{\s*(p->key = id;\s*)?ep->peer_count\+\+;", ap,
          "udp_add_pipe: first free key from the hash")
    rm = X.strip_comments(X.func_body(udps, "udp_remove_pipe"))
    # the count is taken down either before the test (C11T fix) or inside it (UDPALLOC-udp-peer-count-unstored-pipe: a pipe that
    # udp_add_pipe could not store was never counted); the same thing for every pipe the model knows (the model stores every pipe)
    fixed = re.search(r"uint64_t key = p->key;\s*if \(p->id == 0\) \{\s*return;\s*\}\s*p->id = 0;\s*(?:"
                      r"NNI_ASSERT\(ep->peer_count != 0\);\s*ep->peer_count--;\s*if \(nni_id_get\(&ep->pipes, key\) == p\) \{\s*|"
                      r"if \(nni_id_get\(&ep->pipes, key\) == p\) \{\s*NNI_ASSERT\(ep->peer_count != 0\);\s*ep->peer_count--;\s*)"
                      r"nni_id_remove\(&ep->pipes, key\);\s*udp_close_gap\(ep, key\);\s*\}", rm, re.S)
    pinned = re.search(r"uint64_t id = p->id;\s*if \(id == 0\) \{\s*return;\s*\}\s*p->id = 0;.*?ep->peer_count--;\s*for \(;;\) \{\s*udp_pipe \*srch;\s*"
                       r"if \(\(srch = nni_id_get\(&ep->pipes, id\)\) == NULL\) \{\s*break;\s*\}\s*if \(srch == p\) \{\s*nni_id_remove\(&ep->pipes, id\);\s*break;\s*\}\s*"
                       r"id\+\+;", rm, re.S)
    if not fixed and not pinned:
        raise X.ExtractError("anchor missing: udp_remove_pipe is neither the pinned text (ptRemoveOld) nor the fixed one (ptRemoveKey, ptCloseGap)")
    if fixed:
        cg = X.strip_comments(X.func_body(udps, "udp_close_gap"))
        X.one(r"for \(;;\) \{\s*uint64_t want;\s*key\+\+;\s*if \(key == 0\) \{\s*key = 1;\s*\}\s*if \(\(q = nni_id_get\(&ep->pipes, key\)\) == NULL\) \{\s*return;\s*\}\s*"
              r"want = q->id;\s*while \(\(want != key\) &&\s*\(nni_id_get\(&ep->pipes, want\) != NULL\)\) \{\s*want\+\+;\s*if \(want == 0\) \{\s*want = 1;\s*\}\s*\}\s*"
              r"if \(\(want != key\) &&\s*\(nni_id_set\(&ep->pipes, want, q\) == NNG_OK\)\) \{\s*nni_id_remove\(&ep->pipes, key\);\s*q->key = want;", cg,
              "udp_close_gap: every pipe of the rest of the run moves to the first free key of its probe sequence")
    put("c11tUdpRemoveClosesGap", bool(fixed), "udp.c udp_remove_pipe: fixed form (removes p->key, udp_close_gap) rather than the pinned one")
    X.one(r"p->id\s*=\s*nng_sockaddr_hash\(sa\);", X.strip_comments(X.func_body(udps, "udp_pipe_start")), "udp_pipe_start: id = hash of the address")
    sa = X.strip_comments(X.src("src/core/sockaddr.c"))
    X.one(r"case NNG_AF_INET:\s*return \(\s*\(\(uint64_t\) \(sa->s_in\.sa_addr\) << 16\) \+ sa->s_in\.sa_port\);", sa,
          "nng_sockaddr_hash: IPv4 = (addr << 16) + port (injective)")
    X.one(r"case NNG_AF_INET6:\s*memcpy\(&val1, sa->s_in6\.sa_addr, sizeof\(val1\)\);\s*memcpy\(&val2, sa->s_in6\.sa_addr \+ sizeof\(val1\), sizeof\(val2\)\);\s*"
          r"return \(\(1ULL << 63\) \| \(val1 \^ val2 \^ sa->s_in6\.sa_port\)\);", sa,
          "nng_sockaddr_hash: IPv6 = 2^63 | (addr[0..8) ^ addr[8..16) ^ port) (not injective)")
