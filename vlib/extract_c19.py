"""C19 extraction hook: URL scheme table, default-port table, special (host-less) schemes,
inline buffer size and host length bound, from /repo/src/core/url.c and nng.h."""
import re
from . import extract as X


def _strip(s):
    """comment stripper that respects string literals (url.c has "://" in strings)"""
    out, i, n = [], 0, len(s)
    while i < n:
        c = s[i]
        if c == '"' or c == "'":
            j = i + 1
            while j < n and s[j] != c:
                j += 2 if s[j] == "\\" else 1
            out.append(s[i:j + 1]); i = j + 1
        elif s.startswith("//", i):
            j = s.find("\n", i); i = n if j < 0 else j
        elif s.startswith("/*", i):
            j = s.find("*/", i + 2); i = n if j < 0 else j + 2
            out.append(" ")
        else:
            out.append(c); i += 1
    return "".join(out)


def _func(text, name):
    t = _strip(text)
    m = re.search(r"\n" + re.escape(name) + r"\s*\([^;{]*\)\s*\{", t)
    if not m:
        raise X.ExtractError(f"function {name} not found")
    i, depth, instr = m.end(), 1, False
    while depth and i < len(t):
        ch = t[i]
        if ch == '"' and t[i - 1] != "\\":
            instr = not instr
        elif not instr and ch == "{":
            depth += 1
        elif not instr and ch == "}":
            depth -= 1
        i += 1
    return t[m.end():i - 1]


def _strings(block):
    return re.findall(r'"([^"\\]*)"', block)


def hook(put):
    url = _strip(X.src("src/core/url.c"))
    # --- scheme table (order matters: first match wins)
    m = X.one(r"static const char \*nni_schemes\[\]\s*=\s*\{(.*?)\};", url, "nni_schemes table")
    body = m.group(1)
    if not re.search(r"NULL\s*,?\s*$", body.strip()):
        raise X.ExtractError("nni_schemes: NULL terminator not found")
    schemes = _strings(body)
    if not schemes:
        raise X.ExtractError("nni_schemes: empty")
    for s in schemes:
        if not s or any(ord(c) >= 128 or c in ":\0" for c in s):
            raise X.ExtractError(f"nni_schemes: unexpected entry {s!r}")
    put("urlSchemes", [([ord(c) for c in s],) for s in schemes],  # 1-tuples: renders as List (List Nat)
        "core/url.c nni_schemes[]: " + " ".join(schemes))
    # --- default ports
    m = X.one(r"nni_url_default_ports\[\]\s*=\s*\{(.*?)\{\s*NULL\s*,\s*0\s*\}", url, "nni_url_default_ports table")
    ents = re.findall(r'\{\s*"([^"]*)"\s*,\s*(\d+)\s*\}', m.group(1))
    if not ents:
        raise X.ExtractError("nni_url_default_ports: empty")
    put("urlDefaultPorts", [([ord(c) for c in s], int(p)) for s, p in ents],
        "core/url.c nni_url_default_ports[]: " + " ".join(f"{s}={p}" for s, p in ents))
    # --- special schemes: the strcmp chains in parse and sprintf must name the same set
    parse = _func(X.src("src/core/url.c"), "nni_url_parse_inline_inner")
    spr = _func(X.src("src/core/url.c"), "nng_url_sprintf")
    m = X.one(r"if \(((?:\s*\(strcmp\(url->u_scheme, \"[a-z]+\"\) == 0\)\s*(?:\|\|)?)+)\)\s*\{\s*url->u_path\s*=\s*p;", parse,
              "special-scheme chain in nni_url_parse_inline_inner")
    sp1 = _strings(m.group(1))
    m = X.one(r"if \(((?:\s*\(strcmp\(scheme, \"[a-z]+\"\) == 0\)\s*(?:\|\|)?)+)\)\s*\{\s*return \(snprintf\(str, size, \"%s://%s\"", spr,
              "special-scheme chain in nng_url_sprintf")
    sp2 = _strings(m.group(1))
    if sorted(sp1) != sorted(sp2):
        raise X.ExtractError(f"special schemes differ between parse {sp1} and sprintf {sp2}")
    put("urlSpecialSchemes", [([ord(c) for c in s],) for s in sp1], "core/url.c host-less schemes: " + " ".join(sp1))
    # --- inline buffer
    urlh = _strip(X.src("src/core/url.h"))
    X.one(r"char\s+u_static\[NNG_MAXADDRLEN\];", urlh, "nng_url.u_static dimension")
    X.one(r"if \(strlen\(s\) >= sizeof\(url->u_static\)\)", parse, "inline/heap decision")
    put("urlInlineSize", X.define(X.src("include/nng/nng.h"), "NNG_MAXADDRLEN"), "nng.h NNG_MAXADDRLEN = sizeof(u_static)")
    m = X.one(r"if \(strlen\(url->u_hostname\) >= (\d+)\)\s*\{\s*return \(NNG_EINVAL\);", parse, "hostname length check")
    put("urlHostMax", int(m.group(1)), "core/url.c hostname length check (>= is rejected)")
    m = X.one(r"char portstr\[(\d+)\];", spr, "portstr size")
    put("urlPortStrSize", int(m.group(1)), "core/url.c nng_url_sprintf portstr[]")
