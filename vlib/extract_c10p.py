"""anchors for the model of the epoll poller (Model/Pfd.lean): every interposed point of src/platform/posix/posix_pollq_epoll.c in
the order the model steps through them (arm: atomic_or, read of added, epoll_ctl ADD/MOD; close: test-and-set, shutdown, DEL;
stop: test-and-set, close, lock, append, write, wait loop; fini: close(fd); thread: epoll_wait, wake branch = read + reap flag,
pfd branch = atomic_and + callback with no lock, reap after the dispatch loop under pq->mtx), the waker registered
level-triggered, and the callers' order stop-before-fini that clause K4 of the contract rests on"""
import re
from . import extract as X


def sq(s):
    return re.sub(r"\s+", " ", re.sub(r"//[^\n]*", "", s))


def hook(put):
    ep = X.src("src/platform/posix/posix_pollq_epoll.c")
    arm = sq(X.func_body(ep, "nni_posix_pfd_arm"))
    X.one(r"events \|= nni_atomic_or\(&pfd->events, \(int\) events\); memset\(&ev, 0, sizeof\(ev\)\); ev\.events = events \| EPOLLONESHOT; "
          r"ev\.data\.ptr = pfd; if \(!pfd->added\) \{ rv = epoll_ctl\(pq->epfd, EPOLL_CTL_ADD, pfd->fd, &ev\); if \(rv == 0\) \{ "
          r"pfd->added = true; \} \} else \{ rv = epoll_ctl\(pq->epfd, EPOLL_CTL_MOD, pfd->fd, &ev\); \} if \(rv != 0\) \{ "
          r"rv = nni_plat_errno\(errno\); \} return \(rv\);", arm, "nni_posix_pfd_arm: atomic_or, ONESHOT, ADD iff !added else MOD, no lock")
    if re.search(r"nni_mtx_lock", arm):
        raise X.ExtractError("nni_posix_pfd_arm takes a lock that Model/Pfd.lean does not model")
    cl = sq(X.func_body(ep, "nni_posix_pfd_close"))
    X.one(r"if \(pq == NULL\) \{ return; \} if \(nni_atomic_flag_test_and_set\(&pfd->closing\)\) \{ return; \} struct epoll_event ev; "
          r"\(void\) shutdown\(pfd->fd, SHUT_RDWR\); \(void\) epoll_ctl\(pq->epfd, EPOLL_CTL_DEL, pfd->fd, &ev\);", cl,
          "nni_posix_pfd_close: test-and-set closing, shutdown, EPOLL_CTL_DEL")
    st = sq(X.func_body(ep, "nni_posix_pfd_stop"))
    X.one(r"if \(nni_atomic_flag_test_and_set\(&pfd->stopped\)\) \{ return; \} nni_posix_pfd_close\(pfd\); "
          r"NNI_ASSERT\(!nni_thr_is_self\(&pq->thr\)\); nni_mtx_lock\(&pq->mtx\); if \(!pq->close\) \{ "
          r"nni_list_append\(&pq->reapq, pfd\); if \(write\(pq->evfd, &one, sizeof\(one\)\) != sizeof\(one\)\) \{ nni_panic\([^;]*\); \} "
          r"while \(nni_list_node_active\(&pfd->node\)\) \{ nni_cv_wait\(&pq->cv\); \} \} nni_mtx_unlock\(&pq->mtx\);", st,
          "nni_posix_pfd_stop: test-and-set stopped, close, lock, append, write, wait loop, unlock")
    fi = sq(X.func_body(ep, "nni_posix_pfd_fini"))
    X.one(r"if \(pq == NULL\) \{ return; \} \(void\) close\(pfd->fd\); pfd->fd = -1;", fi, "nni_posix_pfd_fini: close(fd); fd = -1 (no stop, no DEL)")
    rp = sq(X.func_body(ep, "nni_posix_pollq_reap"))
    X.one(r"while \(\(pfd = nni_list_first\(&pq->reapq\)\) != NULL\) \{ nni_list_remove\(&pq->reapq, pfd\); \} nni_cv_wake\(&pq->cv\);", rp,
          "nni_posix_pollq_reap: unlink all, wake all")
    th = sq(X.func_body(ep, "nni_epoll_thr"))
    X.one(r"for \(;;\) \{ int n; bool reap = false; n = epoll_wait\(pq->epfd, events, NNI_MAX_EPOLL_EVENTS, -1\);", th,
          "nni_epoll_thr: reap = false, epoll_wait without timeout")
    X.one(r"for \(int i = 0; i < n; \+\+i\) \{ const struct epoll_event \*ev; ev = &events\[i\]; if \(\(ev->data\.ptr == NULL\) && "
          r"\(ev->events & \(unsigned\) POLLIN\)\) \{ uint64_t clear; \(void\) read\(pq->evfd, &clear, sizeof\(clear\)\); reap = true; \} "
          r"else \{ nni_posix_pfd \*pfd = ev->data\.ptr; unsigned mask; mask = ev->events & \(\(unsigned\) \(EPOLLIN \| EPOLLOUT \| "
          r"EPOLLERR \| EPOLLHUP\)\); nni_atomic_and\(&pfd->events, \(int\) ~mask\); pfd->cb\(pfd->arg, mask\); \} \} "
          r"if \(reap\) \{ nni_mtx_lock\(&pq->mtx\); nni_posix_pollq_reap\(pq\); if \(pq->close\) \{ nni_mtx_unlock\(&pq->mtx\); return; \} "
          r"nni_mtx_unlock\(&pq->mtx\); \} \}", th,
          "nni_epoll_thr: wake entry = read + reap flag; pfd entry = atomic_and then callback with no lock; reap AFTER the dispatch loop")
    ae = sq(X.func_body(ep, "nni_epoll_pq_add_eventfd"))
    X.one(r"ev\.events = EPOLLIN; ev\.data\.ptr = 0; if \(epoll_ctl\(pq->epfd, EPOLL_CTL_ADD, fd, &ev\) != 0\)", ae,
          "the waker is registered level-triggered (no EPOLLONESHOT) with data.ptr = 0")
    ini = sq(X.func_body(ep, "nni_posix_pfd_init"))
    X.one(r"nni_atomic_init\(&pfd->events\); nni_atomic_flag_reset\(&pfd->stopped\); nni_atomic_flag_reset\(&pfd->closing\); pfd->pq = pq; "
          r"pfd->fd = fd; pfd->cb = cb; pfd->arg = arg; pfd->added = false;", ini, "nni_posix_pfd_init")
    m = X.one(r"#define\s+NNI_MAX_EPOLL_EVENTS\s+(\d+)", ep, "NNI_MAX_EPOLL_EVENTS")
    put("pfdMaxEvents", int(m.group(1)), "posix_pollq_epoll.c NNI_MAX_EPOLL_EVENTS (the model's epoll_wait returns at most 2 entries)")
    hdr = X.src("src/platform/posix/posix_pollq_epoll.h")
    X.one(r"nni_atomic_int\s+events;\s*bool\s+added;\s*nni_atomic_flag\s+stopped;\s*nni_atomic_flag\s+closing;", hdr,
          "struct nni_posix_pfd: atomic events, plain bool added, atomic flags stopped / closing")
    # the callers: every owner stops before it finalises, and closes under its own mutex (contract K1, K4)
    callers = [("posix_tcpconn.c", "tcp_fini", r"tcp_stop\(c\); nni_posix_pfd_fini\(&c->pfd\);"),
               ("posix_ipcconn.c", "ipc_reap", r"ipc_stop\(c\);.*nni_posix_pfd_fini\(&c->pfd\);"),
               ("posix_sockfd.c", "sfd_fini", r"sfd_stop\(c\); nni_posix_pfd_fini\(&c->pfd\);"),
               ("posix_tcplisten.c", "tcp_listener_free", r"tcp_listener_stop\(l\); nni_posix_pfd_fini\(&l->pfd\);"),
               ("posix_ipclisten.c", "ipc_listener_free", r"ipc_listener_stop\(l\); nni_posix_pfd_fini\(&l->pfd\);"),
               ("posix_udp.c", "nni_plat_udp_close", r"nni_plat_udp_stop\(udp\); nni_posix_pfd_fini\(&udp->udp_pfd\);")]
    for f, fn, pat in callers:
        X.one(pat, sq(X.func_body(X.src("src/platform/posix/" + f), fn)), f"{f} {fn}: stop before nni_posix_pfd_fini")
    for f, fn, pat in [("posix_tcpconn.c", "tcp_stop", r"tcp_close\(c\); nni_posix_pfd_stop\(&c->pfd\);"),
                       ("posix_ipcconn.c", "ipc_stop", r"ipc_close\(c\); nni_posix_pfd_stop\(&c->pfd\);"),
                       ("posix_sockfd.c", "sfd_stop", r"sfd_close\(c\); nni_posix_pfd_stop\(&c->pfd\);")]:
        X.one(pat, sq(X.func_body(X.src("src/platform/posix/" + f), fn)), f"{f} {fn}: close (under the owner's mutex) before nni_posix_pfd_stop")
    put("pfdAnchored", True, "posix_pollq_epoll.c: interposed points and their order match Model/Pfd.lean; the owners stop before fini")
