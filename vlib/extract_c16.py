"""C16 constants and tables re-extracted from /repo on every run: base64 tables, WebSocket opcodes,
close codes and the literal limits used by the frame checks, chunk decoder states."""
import re
from . import extract as X


def hook(put):
    b64 = X.strip_comments(X.src("src/supplemental/websocket/base64.c"))
    m = X.one(r"const uint8_t decode\[256\]\s*=\s*\{([^}]*)\}", b64, "base64 decode table")
    dec = [X.cint(t) for t in m.group(1).replace("\n", " ").split(",") if t.strip()]
    if len(dec) != 256:
        raise X.ExtractError(f"base64 decode table has {len(dec)} entries")
    put("b64DecodeTable", dec, "websocket/base64.c nni_base64_decode decode[256]")
    m = X.one(r"const uint8_t encode\[65\]\s*=\s*((?:\"[^\"]*\"\s*)+);", b64, "base64 encode table")
    enc = "".join(re.findall(r'"([^"]*)"', m.group(1)))
    if len(enc) != 64:
        raise X.ExtractError("base64 encode alphabet is not 64 characters")
    put("b64EncodeTable", [ord(c) for c in enc], "websocket/base64.c nni_base64_encode encode[65]")
    # the index expression must go through an unsigned byte (the model indexes with 0..255)
    # is the table indexed through an unsigned byte (index 0..255)?  With `(int) in[ii]` and a signed
    # char the index is negative for bytes >= 0x80 (out of bounds).  A flag, not an anchor, so that other
    # properties' runs are not disturbed on a tree without the fix; Props/C16 has the obligation.
    put("b64IndexUnsigned", bool(re.search(r"decode\[\s*\(\s*(?:uint8_t|unsigned char)\s*\)", b64)),
        "websocket/base64.c nni_base64_decode: decode[] indexed with an unsigned byte")

    ws = X.strip_comments(X.src("src/supplemental/websocket/websocket.c"))
    ops = {}
    for name in ["CONT", "TEXT", "BINARY", "CLOSE", "PING", "PONG"]:
        ops[name] = X.cint(X.one(r"\bWS_" + name + r"\s*=\s*(0x[0-9A-Fa-f]+)", ws, "WS_" + name).group(1))
    put("wsOpcodes", [ops[n] for n in ["CONT", "TEXT", "BINARY", "CLOSE", "PING", "PONG"]],
        "websocket.c enum ws_type: CONT TEXT BINARY CLOSE PING PONG")
    codes = {}
    for name in ["NORMAL_CLOSE", "PROTOCOL_ERR", "UNSUPP_FORMAT", "TOO_BIG", "INTERNAL"]:
        codes[name] = int(X.one(r"\bWS_CLOSE_" + name + r"\s*=\s*(\d+)", ws, "WS_CLOSE_" + name).group(1))
    put("wsCloseCodes", [codes[n] for n in ["NORMAL_CLOSE", "PROTOCOL_ERR", "UNSUPP_FORMAT", "TOO_BIG", "INTERNAL"]],
        "websocket.c enum ws_reason: NORMAL PROTOCOL_ERR UNSUPP_FORMAT TOO_BIG INTERNAL")
    rd = X.func_body(X.src("src/supplemental/websocket/websocket.c"), "ws_read_cb")
    X.one(r"case 127:\s*NNI_GET64\(frame->head \+ 2, frame->len\);\s*if \(frame->len < 65536\)", rd, "ws_read_cb 64-bit minimal length test")
    X.one(r"case 126:\s*NNI_GET16\(frame->head \+ 2, frame->len\);\s*if \(frame->len < 126\)", rd, "ws_read_cb 16-bit minimal length test")
    X.one(r"frame->op\s*=\s*frame->head\[0\] & 0x7fu;", rd, "ws_read_cb op includes the RSV bits")
    put("wsRecvmaxSkipsControl", bool(re.search(r"ws->recvmax > 0\) &&\s*\(\(frame->op & 0x08\) == 0\)\)", rd)),
        "websocket.c ws_read_cb: the recvmax test is limited to data frames")
    fc = X.func_body(X.src("src/supplemental/websocket/websocket.c"), "ws_read_frame_cb")
    n = len(re.findall(r"frame->len > 125", fc))
    if n != 2:
        raise X.ExtractError("ws_read_frame_cb: expected the 125-byte test on PING and PONG")
    ic = X.func_body(X.src("src/supplemental/websocket/websocket.c"), "ws_msg_init_control")
    put("wsCtlMax", int(X.one(r"if \(len > (\d+)\)", ic, "ws_msg_init_control limit").group(1)), "websocket.c ws_msg_init_control")
    tx = X.func_body(X.src("src/supplemental/websocket/websocket.c"), "ws_frame_prep_tx")
    X.one(r"if \(frame->len < 126\).*?else if \(frame->len < 65536\)", tx, "ws_frame_prep_tx length forms")

    ch = X.strip_comments(X.src("src/supplemental/http/http_chunk.c"))
    m = X.one(r"enum chunk_state\s*\{([^}]*)\}", ch, "enum chunk_state")
    states = [t.strip() for t in m.group(1).split(",") if t.strip()]
    put("chunkStates", len(states), "http_chunk.c enum chunk_state (count)")
    if states != ["CS_INIT", "CS_LEN", "CS_EXT", "CS_CR", "CS_DATA", "CS_TRLR", "CS_TRLRCR", "CS_DONE"]:
        raise X.ExtractError("http_chunk.c: chunk_state enumerators changed: " + ",".join(states))
    X.one(r"cl->cl_size > \(\(SIZE_MAX - digit\) / 16\)", ch, "chunk size overflow test")
