"""Registry of protocol history providers for the protocol-independent checks (C03, C15, C10...).
A provider is a function (seed, tier, i) -> list of op lines starting with `open <proto> [raw]`,
fully concrete (no symbolic ids)."""
import importlib

PROVIDERS = []  # (name, fn)


def _try(modname, fn_name, label):
    try:
        mod = importlib.import_module(f"vlib.props.{modname}")
        fn = getattr(mod, fn_name)
        PROVIDERS.append((label, fn))
    except Exception:
        pass


def load():
    if PROVIDERS:
        return PROVIDERS
    _try("c06", "history", "pipeline")
    try:
        from .props import c05
        PROVIDERS.append(("pubsub", lambda seed, tier, i: c05.gen_case(seed, tier, i)[1]))
    except Exception:
        pass
    def _filtered(modname, label):
        # generators that use symbolic ids (`@...`, resolved interactively by their own runner) are used
        # with those lines dropped: the generic judges need no particular reply contents
        try:
            mod = importlib.import_module(f"vlib.props.{modname}")
            def fn(seed, tier, i, _m=mod):
                ops = _m.gen_case(seed, tier, i)
                ops = ops[1] if isinstance(ops, tuple) else ops
                return [o for o in ops if "@" not in o and not o.startswith("pipe_id")]
            PROVIDERS.append((label, fn))
        except Exception:
            pass
    _filtered("c09", "bus")
    _filtered("c08", "pair")
    _filtered("c07", "survey")
    _filtered("c04rep", "rep")
    _filtered("c04req", "req")
    PROVIDERS.append(("pair1poly", pair1poly_history))
    return PROVIDERS


def pair1poly_history(seed, tier, i):
    """PAIR1 in polyamorous mode (src/sp/protocol/pair1/pair1_poly.c: several peers at once, per-pipe send queues, one
    receive queue): no protocol model of its own; its histories feed the protocol-independent judges (poll/non-blocking
    agreement, ownership, allocator balance) and the allocation-failure sweeps"""
    from . import core
    r = core.Rng(seed, "POLY", tier, i)
    ops = ["open pair1poly"]
    if r.chance(1, 2):
        ops.append(f"setopt - recv-buffer int {r.choice([0, 1, 2, 8])}")
    if r.chance(1, 2):
        ops.append(f"setopt - send-buffer int {r.choice([0, 1, 2, 8])}")
    npipes, live, busy, n = 0, [], set(), 0
    for _ in range(r.range(8, 40)):
        k = r.below(100)
        free = [a for a in range(16) if a not in busy]
        if k < 14 and npipes < 5:
            ops.append("pipe_add 0011"); live.append(npipes); npipes += 1
        elif k < 20 and live:
            p_ = r.choice(live); live.remove(p_); ops.append(f"pipe_drop {p_}")
        elif k < 42 and live:
            n += 1
            hops = r.choice(["00000001", "00000001", "00000002", "00000008", "00000009", "000000", "01000001"])
            ops.append(f"recv_done {r.choice(live)} {hops}{n:04x}{r.bytes(r.choice([0, 1, 5])).hex()}")
        elif k < 60 and free:
            a = r.choice(free); m = r.choice(["nb", "nb", "inf", "20"])
            ops.append(f"recv - {a} {m}")
            if m != "nb":
                busy.add(a)
        elif k < 80 and free:
            a = r.choice(free); n += 1; m = r.choice(["nb", "nb", "inf", "20"])
            ops.append(f"send - {a} - {n:04x}{r.bytes(r.choice([0, 2])).hex()} {m}")
            if m != "nb":
                busy.add(a)
        elif k < 90 and npipes:
            ops.append(f"send_done {r.below(npipes)} {0 if r.chance(9, 10) else 7}")
        elif k < 94 and busy:
            a = r.choice(sorted(busy)); ops.append(f"cancel {a}")
        elif k < 97:
            ops.append(f"advance {r.choice([1, 21, 50])}"); busy.clear()
        else:
            ops.append("poll")
    return ops


def histories(seed, tier, n, prop):
    """n histories, round-robin over the providers"""
    provs = load()
    out = []
    for i in range(n):
        label, fn = provs[i % len(provs)]
        out.append((label, fn(seed, f"{prop}-{tier}", i)))
    return out
