"""Registry of protocol history providers for the protocol-independent checks (C03, C15, C10...).
A provider is a function (seed, tier, i) -> list of op lines starting with `open <proto> [raw]`,
fully concrete (no symbolic ids)."""
import importlib

PROVIDERS = []  # (name, fn)


def _try(modname, fn_name, label):
    try:
        mod = importlib.import_module(f"vlib.props.{modname}")
        fn = getattr(mod, fn_name)
        PROVIDERS.append((label, fn))
    except Exception:
        pass


def load():
    if PROVIDERS:
        return PROVIDERS
    _try("c06", "history", "pipeline")
    try:
        from .props import c05
        PROVIDERS.append(("pubsub", lambda seed, tier, i: c05.gen_case(seed, tier, i)[1]))
    except Exception:
        pass
    for mod, label in [("c04req", "req"), ("c04rep", "rep"), ("c07", "survey"), ("c08", "pair"), ("c09", "bus")]:
        _try(mod, "history", label)
    return PROVIDERS


def histories(seed, tier, n, prop):
    """n histories, round-robin over the providers"""
    provs = load()
    out = []
    for i in range(n):
        label, fn = provs[i % len(provs)]
        out.append((label, fn(seed, f"{prop}-{tier}", i)))
    return out
