"""Registry of protocol history providers for the protocol-independent checks (C03, C15, C10...).
A provider is a function (seed, tier, i) -> list of op lines starting with `open <proto> [raw]`,
fully concrete (no symbolic ids)."""
import importlib

PROVIDERS = []  # (name, fn)


def _try(modname, fn_name, label):
    try:
        mod = importlib.import_module(f"vlib.props.{modname}")
        fn = getattr(mod, fn_name)
        PROVIDERS.append((label, fn))
    except Exception:
        pass


def load():
    if PROVIDERS:
        return PROVIDERS
    _try("c06", "history", "pipeline")
    try:
        from .props import c05
        PROVIDERS.append(("pubsub", lambda seed, tier, i: c05.gen_case(seed, tier, i)[1]))
    except Exception:
        pass
    def _filtered(modname, label):
        # generators that use symbolic ids (`@...`, resolved interactively by their own runner) are used
        # with those lines dropped: the generic judges need no particular reply contents
        try:
            mod = importlib.import_module(f"vlib.props.{modname}")
            def fn(seed, tier, i, _m=mod):
                ops = _m.gen_case(seed, tier, i)
                ops = ops[1] if isinstance(ops, tuple) else ops
                return [o for o in ops if "@" not in o and not o.startswith("pipe_id")]
            PROVIDERS.append((label, fn))
        except Exception:
            pass
    _filtered("c09", "bus")
    _filtered("c08", "pair")
    _filtered("c07", "survey")
    _filtered("c04rep", "rep")
    _filtered("c04req", "req")
    return PROVIDERS


def histories(seed, tier, n, prop):
    """n histories, round-robin over the providers"""
    provs = load()
    out = []
    for i in range(n):
        label, fn = provs[i % len(provs)]
        out.append((label, fn(seed, f"{prop}-{tier}", i)))
    return out
