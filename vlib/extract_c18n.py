"""C18N anchors: where src/core/msgqueue.c calls nni_msgq_run_notify, what it computes, and how
core/socket.c maps the poll descriptors / buffer options / shutdown of a socket without its own
poll-fd getters (the raw protocols) onto the two upper queues.

The Lean model (Model/MsgqNotify.lean) mirrors exactly this placement, so every anchor is a shape test on
the C text (comments stripped): a removed, moved or added run_notify call, or a changed readiness formula,
is an ExtractError (= broken correspondence for C18, reported even when no failing input is found).
The values put into Generated/C18N.lean are the per-function call counts, the list of protocols that
rely on the queue pollables, and the initial / maximal buffer depths."""
import os, re
from . import extract as X

CALL = r"nni_msgq_run_notify\(mq\);"
# function -> number of run_notify call sites in the code the model mirrors
EXPECT = [("nni_msgq_init", 0), ("nni_msgq_fini", 0), ("nni_msgq_run_putq", 0), ("nni_msgq_run_getq", 0),
          ("nni_msgq_cancel", 1), ("nni_msgq_aio_put", 1), ("nni_msgq_aio_get", 1), ("nni_msgq_tryput", 2),
          ("nni_msgq_close", 0), ("nni_msgq_cap", 0), ("nni_msgq_resize", 1), ("nni_msgq_get_recvable", 1),
          ("nni_msgq_get_sendable", 1)]


def hook(put):
    mq = X.src("src/core/msgqueue.c")
    body = {f: X.func_body(mq, f) for f, _ in EXPECT}
    body["nni_msgq_run_notify"] = X.func_body(mq, "nni_msgq_run_notify")

    # --- what run_notify computes (fixed code: sendable also requires an empty put list)
    X.one(r"^\s*if \(nni_list_empty\(&mq->mq_aio_putq\) &&\s*\(mq->mq_len < mq->mq_cap \|\| !nni_list_empty\(&mq->mq_aio_getq\)\)\) \{\s*"
          r"nni_pollable_raise\(&mq->mq_sendable\);\s*\} else \{\s*nni_pollable_clear\(&mq->mq_sendable\);\s*\}\s*"
          r"if \(\(mq->mq_len != 0\) \|\| !nni_list_empty\(&mq->mq_aio_putq\)\) \{\s*"
          r"nni_pollable_raise\(&mq->mq_recvable\);\s*\} else \{\s*nni_pollable_clear\(&mq->mq_recvable\);\s*\}\s*$",
          body["nni_msgq_run_notify"],
          "nni_msgq_run_notify: sendable iff no parked writer and (len < cap or a parked reader); recvable iff len != 0 or a parked writer")
    # the pollables are touched nowhere else
    for what in ("nni_pollable_raise", "nni_pollable_clear"):
        n = len(re.findall(what + r"\(", X.strip_comments(mq)))
        if n != 2:
            raise X.ExtractError(f"msgqueue.c: {n} calls of {what}, the model has 2 (both in nni_msgq_run_notify)")
    X.one(r"nni_pollable_init\(&mq->mq_recvable\);\s*nni_pollable_init\(&mq->mq_sendable\);", body["nni_msgq_init"],
          "nni_msgq_init initialises both pollables (levels false) and does not run the notification")

    # --- the call sites, function by function
    counts = []
    for f, want in EXPECT:
        n = len(re.findall(CALL, body[f]))
        counts.append((f, n))
        if n != want:
            raise X.ExtractError(f"{f}: {n} nni_msgq_run_notify call site(s), the model mirrors {want}")
    total = len(re.findall(r"nni_msgq_run_notify\(", X.strip_comments(mq)))
    if total != sum(n for _, n in counts) + 2:  # + prototype + definition
        raise X.ExtractError("msgqueue.c: nni_msgq_run_notify is called from a function the model does not know")
    X.one(r"if \(nni_aio_list_active\(aio\)\) \{\s*nni_aio_list_remove\(aio\);\s*nni_aio_finish_error\(aio, rv\);\s*\}\s*"
          + CALL + r"\s*nni_mtx_unlock\(&mq->mq_lock\);\s*$", body["nni_msgq_cancel"],
          "nni_msgq_cancel: unconditional run_notify after the list removal, before the unlock")
    X.one(r"if \(\(!nni_list_empty\(&mq->mq_aio_putq\)\) \|\|\s*\(\(mq->mq_len >= mq->mq_cap\) &&\s*nni_list_empty\(&mq->mq_aio_getq\)\)\) \{\s*"
          r"if \(!nni_aio_start\(aio, nni_msgq_cancel, mq\)\) \{\s*nni_mtx_unlock\(&mq->mq_lock\);\s*return;\s*\}\s*\}\s*"
          r"nni_aio_list_append\(&mq->mq_aio_putq, aio\);\s*nni_msgq_run_putq\(mq\);\s*" + CALL + r"\s*nni_mtx_unlock\(&mq->mq_lock\);\s*$",
          body["nni_msgq_aio_put"], "nni_msgq_aio_put: waiting test, early return without notify, append + run_putq + run_notify")
    X.one(r"if \(\(!nni_list_empty\(&mq->mq_aio_getq\)\) \|\|\s*\(\(mq->mq_len == 0\) && nni_list_empty\(&mq->mq_aio_putq\)\)\) \{\s*"
          r"if \(!nni_aio_start\(aio, nni_msgq_cancel, mq\)\) \{\s*nni_mtx_unlock\(&mq->mq_lock\);\s*return;\s*\}\s*\}\s*"
          r"nni_aio_list_append\(&mq->mq_aio_getq, aio\);\s*nni_msgq_run_getq\(mq\);\s*" + CALL + r"\s*nni_mtx_unlock\(&mq->mq_lock\);\s*$",
          body["nni_msgq_aio_get"], "nni_msgq_aio_get: waiting test, early return without notify, append + run_getq + run_notify")
    tp = body["nni_msgq_tryput"]
    X.one(r"if \(mq->mq_closed\) \{\s*nni_mtx_unlock\(&mq->mq_lock\);\s*return \(NNG_ECLOSED\);\s*\}", tp,
          "nni_msgq_tryput: closed branch returns without notify")
    X.one(r"nni_aio_finish_msg\(raio, msg\);\s*" + CALL + r"\s*nni_mtx_unlock\(&mq->mq_lock\);\s*return \(0\);", tp,
          "nni_msgq_tryput: run_notify after the hand-over to a parked reader")
    X.one(r"mq->mq_len\+\+;\s*" + CALL + r"\s*nni_mtx_unlock\(&mq->mq_lock\);\s*return \(0\);\s*\}\s*"
          r"nni_mtx_unlock\(&mq->mq_lock\);\s*return \(NNG_EAGAIN\);\s*$", tp,
          "nni_msgq_tryput: run_notify after queueing; the NNG_EAGAIN exit has none")
    rs = body["nni_msgq_resize"]
    X.one(r"if \(newq == NULL\) \{\s*return \(NNG_ENOMEM\);\s*\}.*nni_mtx_lock\(&mq->mq_lock\);", rs,
          "nni_msgq_resize: the failing allocation returns before the lock")
    X.one(r"out:\s*" + CALL + r"\s*nni_mtx_unlock\(&mq->mq_lock\);\s*return \(0\);\s*$", rs,
          "nni_msgq_resize: run_notify at `out:` before the unlock (both the shrink and the re-allocation path end there)")
    for f, fld in (("nni_msgq_get_recvable", "mq_recvable"), ("nni_msgq_get_sendable", "mq_sendable")):
        X.one(r"^\s*nni_mtx_lock\(&mq->mq_lock\);\s*" + CALL + r"\s*nni_mtx_unlock\(&mq->mq_lock\);\s*\*sp = &mq->" + fld
              + r";\s*return \(0\);\s*$", body[f], f + ": lock, run_notify, unlock, hand out &mq->" + fld)
    put("c18nNotifyCalls", [(f, n) for f, n in counts], "core/msgqueue.c: nni_msgq_run_notify call sites per function")

    # --- composition with C15: socket.c hands out these pollables for every protocol without its own getters
    sock = X.src("src/core/socket.c")
    gf = X.func_body(sock, "sock_get_fd")
    X.one(r"if \(flag == NNI_PROTO_FLAG_SND\) \{\s*rv = nni_msgq_get_sendable\(s->s_uwq, &p\);\s*\} else \{\s*"
          r"rv = nni_msgq_get_recvable\(s->s_urq, &p\);\s*\}\s*if \(rv == 0\) \{\s*rv = nni_pollable_getfd\(p, fdp\);", gf,
          "sock_get_fd: send fd = sendable of s_uwq, recv fd = recvable of s_urq")
    X.one(r"if \(s->s_sock_ops\.sock_send_poll_fd != NULL\) \{\s*return \(s->s_sock_ops\.sock_send_poll_fd\(s->s_data, fdp\)\);\s*\}\s*"
          r"return \(sock_get_fd\(s, NNI_PROTO_FLAG_SND, fdp\)\);", X.func_body(sock, "nni_sock_get_send_fd"),
          "nni_sock_get_send_fd falls back to sock_get_fd(SND)")
    X.one(r"if \(s->s_sock_ops\.sock_recv_poll_fd != NULL\) \{\s*return \(s->s_sock_ops\.sock_recv_poll_fd\(s->s_data, fdp\)\);\s*\}\s*"
          r"return \(sock_get_fd\(s, NNI_PROTO_FLAG_RCV, fdp\)\);", X.func_body(sock, "nni_sock_get_recv_fd"),
          "nni_sock_get_recv_fd falls back to sock_get_fd(RCV)")
    m = X.one(r"nni_copyin_int\(&len, buf, sz, 0, (\d+), t\)\) != NNG_OK\) \{\s*return \(rv\);\s*\}\s*return \(nni_msgq_resize\(SOCK\(s\)->s_urq, len\)\);",
              X.func_body(sock, "sock_set_recvbuf"), "NNG_OPT_RECVBUF = nni_msgq_resize(s_urq)")
    m2 = X.one(r"nni_copyin_int\(&len, buf, sz, 0, (\d+), t\)\) != NNG_OK\) \{\s*return \(rv\);\s*\}\s*return \(nni_msgq_resize\(SOCK\(s\)->s_uwq, len\)\);",
               X.func_body(sock, "sock_set_sendbuf"), "NNG_OPT_SENDBUF = nni_msgq_resize(s_uwq)")
    if m.group(1) != m2.group(1):
        raise X.ExtractError("socket.c: RECVBUF and SENDBUF have different upper bounds")
    put("c18nBufMax", int(m.group(1)), "core/socket.c sock_set_recvbuf / sock_set_sendbuf upper bound")
    m = X.one(r"nni_msgq_init\(&s->s_uwq, (\d+)\)\) != 0\) \|\|\s*\(\(rv = nni_msgq_init\(&s->s_urq, (\d+)\)\) != 0\)",
              X.func_body(sock, "nni_sock_create"), "nni_sock_create: initial depth of s_uwq / s_urq")
    put("c18nInitSendBuf", int(m.group(1)), "core/socket.c nni_sock_create nni_msgq_init(&s->s_uwq, n)")
    put("c18nInitRecvBuf", int(m.group(2)), "core/socket.c nni_sock_create nni_msgq_init(&s->s_urq, n)")
    X.one(r"nni_msgq_close\(sock->s_urq\);\s*nni_msgq_close\(sock->s_uwq\);", X.func_body(sock, "sock_shutdown"),
          "sock_shutdown closes both upper queues")
    # which protocol implementations use the upper queues and define no poll-fd getter of their own
    users = []
    root = os.path.join(X.REPO, "src", "sp", "protocol")
    for d, _, files in sorted(os.walk(root)):
        for f in sorted(files):
            if not f.endswith(".c") or f.endswith("_test.c"):
                continue
            t = X.strip_comments(open(os.path.join(d, f), encoding="utf-8", errors="replace").read())
            uses_uwq = bool(re.search(r"nni_msgq_aio_put\(\s*(?:s|sock|p->psock)->uwq", t))
            uses_urq = bool(re.search(r"nni_msgq_aio_get\(\s*(?:s|sock)->urq", t))
            own_s = bool(re.search(r"\.sock_send_poll_fd\s*=", t))
            own_r = bool(re.search(r"\.sock_recv_poll_fd\s*=", t))
            if (uses_uwq and own_s) or (uses_urq and own_r):
                raise X.ExtractError(f"{f}: uses the upper queue for user operations but has its own poll-fd getter")
            if uses_uwq or uses_urq:
                users.append((f[:-2], 1 if uses_uwq else 0, 1 if uses_urq else 0))
    if not users:
        raise X.ExtractError("no protocol uses the socket-level queues for user send/receive")
    put("c18nQueuePolled", users, "src/sp/protocol/**: (file, user send = nni_msgq_aio_put(uwq) with the queue's send fd, "
                                  "user recv = nni_msgq_aio_get(urq) with the queue's recv fd)")
