"""Generic UNIT differential check: the same op streams go to (1) the real code (C op
interpreter linked with the ASan build of /repo's working tree), (2) the Lean *specification*
(the property, executable) and (3) the Lean *model* (what the theorems are about).

 impl vs spec differ  -> the implementation violates the property on a concrete input
 impl vs model differ -> correspondence broken (theorems no longer speak about this code)
"""
import os, time, json
from . import core, build, lean


class UnitResult:
    def __init__(self):
        self.cases = 0
        self.ops = 0
        self.spec_mismatch = []   # (case_index, op_index, ops, impl_line, spec_line)
        self.model_mismatch = []
        self.crashes = []         # (case ops (chunk), stderr tail, rc)
        self.op_hist = {}
        self.rv_hist = {}
        self.notes = {}


def _first_word_hist(cases, hist, key=lambda l: l.split()[0]):
    for c in cases:
        for l in c:
            k = key(l)
            hist[k] = hist.get(k, 0) + 1


def run_unit(prop, cases, impl_exe, spec_comp, model_comp, proj_spec, proj_model=None, judge=None,
             prelude=(), opkey=None, chunks=None, spec_rewrite=None):
    """cases: list[list[str]].  proj_spec(line)->comparable projection of an impl/spec line.
    judge(case_ops, impl_lines)->None or str : extra property clauses judged on the impl trace."""
    res = UnitResult()
    res.cases = len(cases)
    res.ops = sum(len(c) for c in cases)
    _first_word_hist(cases, res.op_hist, opkey or (lambda l: l.split()[0]))
    proj_model = proj_model or (lambda l: l)
    parts = core.chunked(list(enumerate(cases)), chunks or core.NCPU)
    env = build.env()

    def work(part):
        text = core.cases_to_text([c for _, c in part], prelude)
        out = {}
        out["impl"] = core.run_stream([impl_exe], text, env=env)
        stext = text
        if spec_rewrite and spec_comp:
            # the specification is judged against the implementation's trace: ops on which the
            # implementation reported an environment failure (ENOMEM) become explicit no-ops
            ic = core.split_cases(out["impl"].lines)[0]
            rc = []
            for j, (_, c) in enumerate(part):
                rc.append(spec_rewrite(c, ic[j][len(prelude):]) if j < len(ic) else c)
            stext = core.cases_to_text(rc, prelude)
        out["spec"] = core.run_stream(lean.driver_cmd(spec_comp), stext) if spec_comp else None
        out["model"] = core.run_stream(lean.driver_cmd(model_comp), text) if model_comp else None
        return part, out

    npre = len(prelude)
    for part, out in core.parallel_map(work, parts):
        impl_cases, partial = core.split_cases(out["impl"].lines)
        spec_cases = core.split_cases(out["spec"].lines)[0] if out["spec"] else None
        model_cases = core.split_cases(out["model"].lines)[0] if out["model"] else None
        if out["impl"].rc != 0 or len(impl_cases) != len(part):
            # crash / sanitizer abort: the case being executed is the one after the last complete one
            k = len(impl_cases)
            idx, ops = part[k] if k < len(part) else part[-1]
            # the harness' stdout is block buffered: the output of cases that completed before the abort may be
            # lost with it, so the failing case is part[k] OR A LATER ONE - run the candidates alone to find it
            for j in range(k, len(part)):
                one = core.run_stream([impl_exe], core.cases_to_text([part[j][1]], prelude), env=env)
                if one.rc != 0:
                    idx, ops = part[j]
                    out["impl"] = one if j != k else out["impl"]
                    partial = one.lines
                    break
            res.crashes.append({"case": idx, "ops": ops, "done_ops": max(0, len(partial) - npre), "rc": out["impl"].rc,
                                "stderr": out["impl"].err[-4000:]})
        for j, (idx, ops) in enumerate(part):
            if j >= len(impl_cases):
                break
            il = impl_cases[j][npre:]
            for l in il:
                k = l.split()[0] if l else ""
                res.rv_hist[k] = res.rv_hist.get(k, 0) + 1
            if spec_cases is not None and j < len(spec_cases):
                sl = spec_cases[j][npre:]
                for t, (a, b) in enumerate(zip(il, sl)):
                    if proj_spec(a) != proj_spec(b):
                        res.spec_mismatch.append({"case": idx, "op_index": t, "ops": ops, "impl": a, "spec": b})
                        break
            if model_cases is not None and j < len(model_cases):
                ml = model_cases[j][npre:]
                for t, (a, b) in enumerate(zip(il, ml)):
                    if proj_model(a) != proj_model(b):
                        res.model_mismatch.append({"case": idx, "op_index": t, "ops": ops, "impl": a, "model": b})
                        break
            if judge:
                why = judge(ops, il)
                if why:
                    res.spec_mismatch.append({"case": idx, "op_index": -1, "ops": ops, "impl": why, "spec": "judge"})
    return res


def single(impl_exe, spec_comp, model_comp, ops, prelude=("verbose",), spec_rewrite=None):
    """run one case verbosely on all three; returns dict of line lists."""
    text = core.cases_to_text([ops], prelude)
    env = build.env()
    r = {"impl": core.run_stream([impl_exe], text, env=env)}
    if spec_comp:
        stext = text
        if spec_rewrite:
            ic = core.split_cases(r["impl"].lines)[0]
            if ic:
                stext = core.cases_to_text([spec_rewrite(ops, ic[0][len(prelude):])], prelude)
        r["spec"] = core.run_stream(lean.driver_cmd(spec_comp), stext)
    if model_comp:
        r["model"] = core.run_stream(lean.driver_cmd(model_comp), text)
    return r


def minimise(impl_exe, other_comp, ops, proj, budget_s=45, spec_rewrite=None):
    """ddmin an op list on which impl and the Lean component disagree (or impl crashes)."""
    env = build.env()

    def fails(o):
        text = core.cases_to_text([o])
        a = core.run_stream([impl_exe], text, env=env, timeout=60)
        if a.rc != 0:
            return True
        la = core.split_cases(a.lines)[0]
        if spec_rewrite and la:
            text = core.cases_to_text([spec_rewrite(o, la[0])])
        b = core.run_stream(lean.driver_cmd(other_comp), text, timeout=60)
        lb = core.split_cases(b.lines)[0]
        if not la or not lb:
            return True
        return any(proj(x) != proj(y) for x, y in zip(la[0], lb[0]))

    if not fails(ops):
        return ops
    return core.ddmin(ops, fails, budget_s)
