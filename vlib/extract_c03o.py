"""C03 option plumbing: the tables the option model (Model/Options.lean) runs on, extracted from the sources.

 c03oTypeTags   nni_type enum (core/defs.h)                                  [(short name, number)]
 c03oTypeSizes  sizeof of the C type each tag stands for (compiled with gcc against the tree's headers)
 c03oCopyin / c03oCopyout   shape anchors of every nni_copyin_* / nni_copyout_* in core/options.c
 c03oWrappers   every typed public getter/setter of src/nng.c: (wrapper, generic fn, dir, C type of the value
                parameter, how the buffer is passed, the size argument, the tag)
 c03oRows       every entry of every nni_option table (non-Windows sources) + the options core/dialer.c and
                core/socket.c (contexts) handle by name: (table, option name, tag, -lo if lo<0, lo, hi, flags)
                flags: 1 = has getter, 2 = has setter, 4 = setter has conditions beyond type+range
                (state, resources: exact result not modelled), 8 = getter value is not what a setter stored,
                16 = getter has conditions beyond the type test
 c03oObjects    the search order of tables for every object kind the harness can create: (kind, open function /
                URL, tables searched by set, tables searched by get; '@' = a table of the owning socket)
Names of ranges that older hooks extracted as scalars (pushSendBufMax, busBufMax, pair1TtlMax, ...) are not
redefined here; Props/C03Options.lean proves that the rows agree with them.
"""
import os, re, hashlib, subprocess, tempfile
from . import extract as X

TAGS = {"NNI_TYPE_NONE": "none", "NNI_TYPE_BOOL": "bool", "NNI_TYPE_INT32": "int", "NNI_TYPE_SIZE": "size",
        "NNI_TYPE_DURATION": "ms", "NNI_TYPE_STRING": "str", "NNI_TYPE_SOCKADDR": "addr"}
CTYPE = {"bool": "bool", "int": "int", "size": "size_t", "ms": "nng_duration", "str": "const char *", "addr": "nng_sockaddr"}
FN_TAG = {"bool": "bool", "int": "int", "size": "size", "ms": "ms", "str": "str", "sockaddr": "addr"}


def _strip_testlib(t):
    """code under #ifdef NNG_TEST_LIB is not part of the library the checks build"""
    out, skip, depth = [], 0, 0
    for line in t.split("\n"):
        s = line.strip()
        if skip:
            if re.match(r"#\s*if", s):
                skip += 1
            elif re.match(r"#\s*endif", s):
                skip -= 1
            elif skip == 1 and re.match(r"#\s*else", s):
                skip = 0
                depth += 1
            continue
        if re.match(r"#\s*ifdef\s+NNG_TEST_LIB\b", s):
            skip = 1
            continue
        out.append(line)
    return "\n".join(out)


def _sources():
    out = {}
    root = os.path.join(X.REPO, "src")
    for d, dirs, files in os.walk(root):
        dirs.sort()
        if "windows" in d.split(os.sep):
            continue
        for f in sorted(files):
            if f.endswith(".c") and not f.endswith("_test.c"):
                p = os.path.join(d, f)
                out[os.path.relpath(p, root)] = _strip_testlib(X.strip_comments(open(p, encoding="utf-8", errors="replace").read()))
    return out


def _fbody(t, name):
    m = re.search(r"\n" + re.escape(name) + r"\s*\([^;{]*\)\s*\{", t)
    if not m:
        return None
    i, depth = m.end(), 1
    while depth and i < len(t):
        depth += {"{": 1, "}": -1}.get(t[i], 0)
        i += 1
    return t[m.end():i - 1]


def _ceval(exprs):
    """values of C constant expressions / sizeofs under the tree's headers (gcc, cached by content)"""
    exprs = sorted(set(exprs))
    hdrs = ["include/nng/nng.h", "src/core/defs.h", "src/core/options.h"]
    prog = "#include <stdio.h>\n#include <stdint.h>\n#include <sys/stat.h>\n#include \"core/nng_impl.h\"\nint main(void){\n"
    for e in exprs:
        prog += f'  printf("%llu\\n", (unsigned long long) ({e}));\n'
    prog += "  return 0; }\n"
    h = hashlib.sha256(prog.encode())
    for f in hdrs:
        h.update(X.src(f).encode())
    cache = os.path.join(X.HERE, ".cache", "c03o-ceval")
    os.makedirs(cache, exist_ok=True)
    cf = os.path.join(cache, h.hexdigest()[:16] + ".txt")
    if os.path.exists(cf):
        vals = open(cf).read().split()
        if len(vals) == len(exprs):
            return dict(zip(exprs, map(int, vals)))
    with tempfile.TemporaryDirectory() as td:
        src = os.path.join(td, "e.c")
        open(src, "w").write(prog)
        exe = os.path.join(td, "e")
        p = subprocess.run(["gcc", "-w", "-DNNG_PLATFORM_POSIX", "-DNNG_PLATFORM_LINUX", "-DNNG_STATIC_LIB",
                            "-I" + os.path.join(X.REPO, "src"), "-I" + os.path.join(X.REPO, "include"), "-o", exe, src],
                           capture_output=True, text=True)
        if p.returncode != 0:
            raise X.ExtractError("cannot evaluate option range expressions with gcc: " + p.stderr[-300:])
        vals = subprocess.run([exe], capture_output=True, text=True).stdout.split()
    if len(vals) != len(exprs):
        raise X.ExtractError("option range evaluation produced the wrong number of values")
    for old in os.listdir(cache)[:-20]:
        pass
    open(cf, "w").write("\n".join(vals))
    return dict(zip(exprs, map(int, vals)))


# ------------------------------------------------------------------ core/options.c shapes
def _copy_shapes(put):
    t = X.strip_comments(X.src("src/core/options.c"))
    cin, cout = [], []
    guarded = [False]
    for fn, tag in FN_TAG.items():
        name = "nni_copyin_" + ("ms" if fn == "ms" else fn)
        b = _fbody(t, name)
        if b is None:
            raise X.ExtractError(f"{name} not found in core/options.c")
        b1 = re.sub(r"\s+", " ", b)
        tg = [k for k, v in TAGS.items() if v == tag][0]
        # the type test is the first statement that can return, before any access to the caller's buffer
        m = X.one(r"if \(t != (NNI_TYPE_\w+)\) \{ return \(NNG_EBADTYPE\); \}", b1, f"{name}: type test")
        if m.group(1) != tg:
            raise X.ExtractError(f"{name} tests {m.group(1)}, expected {tg}")
        first_deref = re.search(r"\*\s*\(|nni_strnlen|memcpy", b1)
        if first_deref and first_deref.start() < m.start():
            raise X.ExtractError(f"{name}: the caller's buffer is accessed before the type test")
        if fn == "ms":
            X.one(r"dur = \*\(nng_duration \*\) v; if \(dur < -1\) \{ return \(NNG_EINVAL\); \} if \(dp != NULL\) \{ \*dp = dur; \} return \(NNG_OK\);",
                  b1, "nni_copyin_ms: read, lower bound -1, store")
            cin.append((name, tag, "nng_duration", "min-1"))
        elif fn == "bool":
            X.one(r"\*bp = \*\(bool \*\) v; return \(NNG_OK\);", b1, "nni_copyin_bool: read and store")
            cin.append((name, tag, "bool", "none"))
        elif fn == "int":
            X.one(r"i = \*\(int \*\) v; if \(i > maxv\) \{ return \(NNG_EINVAL\); \} if \(i < minv\) \{ return \(NNG_EINVAL\); \} \*ip = i; return \(NNG_OK\);",
                  b1, "nni_copyin_int: read, upper bound, lower bound, store")
            cin.append((name, tag, "int", "minmax"))
        elif fn == "size":
            X.one(r"val = \*\(size_t \*\) v; if \(\(val > maxv\) \|\| \(val < minv\)\) \{ return \(NNG_EINVAL\); \} \*sp = val; return \(NNG_OK\);",
                  b1, "nni_copyin_size: read, bounds, store")
            cin.append((name, tag, "size_t", "minmax"))
        elif fn == "str":
            mm = X.one(r"z = nni_strnlen\(v, maxsz\); if \((z == maxsz && \(\(char \*\) v\)\[maxsz - 1\] != 0|z == maxsz)\) \{ return \(NNG_EINVAL\); \} memcpy\(s, v, z\); s\[z\] = 0; return \(NNG_OK\);",
                       b1, "nni_copyin_str: bounded length, too-long test, copy, terminator")
            guarded[0] = mm.group(1) == "z == maxsz"
            cin.append((name, tag, "char[]", "maxsz"))
        elif fn == "sockaddr":
            X.one(r"\*ap = \*\(nng_sockaddr \*\) v; return \(NNG_OK\);", b1, "nni_copyin_sockaddr: read and store")
            cin.append((name, tag, "nng_sockaddr", "none"))
        name = "nni_copyout_" + ("ms" if fn == "ms" else fn)
        b = _fbody(t, name)
        if b is None:
            raise X.ExtractError(f"{name} not found in core/options.c")
        b1 = re.sub(r"\s+", " ", b)
        m = X.one(r"if \(t != (NNI_TYPE_\w+)\) \{ return \(NNG_EBADTYPE\); \} \*\(((?:const )?[\w ]+\*{0,2}) ?\*\) dst = (\*?\w+); return \(NNG_OK\);", b1,
                  f"{name}: type test, then one store of the value's C type")
        if m.group(1) != tg:
            raise X.ExtractError(f"{name} tests {m.group(1)}, expected {tg}")
        cout.append((name, tag, m.group(2).strip()))
    put("c03oCopyin", cin, "core/options.c nni_copyin_*: (function, tag required, C type read from the buffer, range rule)")
    put("c03oCopyinStrGuarded", guarded[0], "core/options.c nni_copyin_str: true = too-long test is `z == maxsz` (repaired); false = it also reads v[maxsz - 1] (pinned: out of bounds for maxsz = 0)")
    put("c03oCopyout", cout, "core/options.c nni_copyout_*: (function, tag required, C type stored through dst)")
    # table walkers
    for fn, miss, err in (("nni_getopt", "o_get", "NNG_EWRITEONLY"), ("nni_setopt", "o_set", "NNG_EREADONLY")):
        b1 = re.sub(r"\s+", " ", _fbody(t, fn) or "")
        X.one(r"while \(opts->o_name != NULL\) \{ if \(strcmp\(opts->o_name, nm\) == 0\) \{ if \(opts->" + miss + r" == NULL\) \{ return \(" + err +
              r"\); \} return \(opts->" + miss + r"\(arg, buf, szp?, otype\)\); \} opts\+\+; \} return \(NNG_ENOTSUP\);", b1,
              f"{fn}: first matching name wins, missing handler, not found")
    ws = X.strip_comments(X.src("src/supplemental/websocket/websocket.c"))
    b1 = re.sub(r"\s+", " ", _fbody(ws, "ws_check_string") or "")
    mm = X.one(r"if \(t != NNI_TYPE_STRING\) \{ return \(NNG_EBADTYPE\); \} if \((\(?v == NULL\)? \|\| \(?)?nni_strnlen\(v, sz\) >= sz\)?\) \{ return \(NNG_EINVAL\); \} return \(0\);", b1,
               "ws_check_string: type test, [NULL test,] terminator inside the declared size")
    put("c03oCheckStringNullGuard", mm.group(1) is not None, "supplemental/websocket/websocket.c ws_check_string: true = NULL is rejected before nni_strnlen "
                                                           "(repaired); false = NULL (what nng_*_set_string(.., NULL) passes) reaches strnlen (pinned)")
    st = X.strip_comments(X.src("src/core/strs.c"))
    b1 = re.sub(r"\s+", " ", _fbody(st, "nni_strlcpy") or "")
    X.one(r"n = 0; do \{ c = \*src\+\+; n\+\+; if \(n < len\) \{ \*dst\+\+ = c; \} else if \(n == len\) \{ \*dst = '\\0'; \} \} while \(c\); return \(n - 1\);", b1,
          "nni_strlcpy fallback loop")
    b1 = re.sub(r"\s+", " ", _fbody(X.strip_comments(X.src("src/nng.c")), "nng_pipe_get_strcpy") or "")
    X.one(r"rv = nni_pipe_getopt\(pipe, n, &s, NULL, NNI_TYPE_STRING\); if \(rv == NNG_OK\) \{ if \(nni_strlcpy\(buf, s != NULL \? s : \"\", len\) >= len\) \{ rv = NNG_ENOSPC; \} \}",
          b1, "nng_pipe_get_strcpy: strlcpy into the caller's buffer, NNG_ENOSPC on truncation")


# ------------------------------------------------------------------ typed public wrappers
def _wrappers(put):
    rows = []
    for rel, generic_re in (("src/nng.c", r"(socket|ctx|dialer|listener|pipe)_(get|set)"),
                            ("src/core/stream.c", r"nni_(stream|stream_dialer|stream_listener)_(get|set)")):
        t = X.strip_comments(X.src(rel))
        for m in re.finditer(r"\n(nng_\w+?_(?:get|set)_(?:int|bool|size|ms|string|addr))\s*\(([^)]*)\)\s*\{\s*return\s*\(\s*(" + generic_re +
                             r")\(\s*(\w+),\s*(\w+),\s*(&?\w+),\s*([^;]*?),\s*(NNI_TYPE_\w+)\)\);\s*\}", t):
            name, params, gen, _, direction, a0, a1, varg, szarg, tag = m.groups()
            ps = [p.strip() for p in params.replace("\n", " ").split(",")]
            vt = re.sub(r"\s+", " ", ps[-1])
            vt = re.sub(r"\s*\bv$", "", vt).strip()
            rows.append((name, gen, direction, vt, "&v" if varg.startswith("&") else "v", re.sub(r"\s+", " ", szarg.strip()), TAGS[tag]))
    if len(rows) < 40:
        raise X.ExtractError(f"only {len(rows)} typed option wrappers recognised in nng.c / core/stream.c")
    # every nng_*_{get,set}_<type> definition of these files must have been recognised (a wrapper of another shape is not covered)
    for rel in ("src/nng.c", "src/core/stream.c"):
        t = X.strip_comments(X.src(rel))
        for m in re.finditer(r"\n(nng_(?:socket|ctx|dialer|listener|pipe|stream|stream_dialer|stream_listener)_(?:get|set)_(?:int|bool|size|ms|string|addr|uint64|ptr))\s*\(", t):
            if m.group(1) not in [r[0] for r in rows]:
                raise X.ExtractError(f"typed wrapper {m.group(1)} has an unrecognised shape")
    put("c03oWrappers", sorted(rows), "nng.c, core/stream.c typed option wrappers: (wrapper, generic function, get/set, C type of the value parameter, "
                                      "buffer argument, size argument, type tag)")


# ------------------------------------------------------------------ option tables
def _analyse_setter(t, fn, depth=0):
    """-> (tag, lo_expr, hi_expr, plain) or None"""
    b = _fbody(t, fn)
    if b is None:
        return None
    b1 = re.sub(r"\s+", " ", b)
    m = re.search(r"nni_copyin_(int|size)\(\s*&[^,]+, \w+, \w+, ([^,]+), ([^,]+), \w+\)", b1)
    res = None
    if m:
        res = (FN_TAG[m.group(1)], m.group(2).strip(), m.group(3).strip())
    else:
        m = re.search(r"nni_copyin_(ms|bool)\(\s*&[^,]+, \w+, \w+, \w+\)", b1)
        if m:
            res = (FN_TAG[m.group(1)], "-1" if m.group(1) == "ms" else "0", "NNI_MAXINT" if m.group(1) == "ms" else "1")
        else:
            m = re.search(r"nni_copyin_sockaddr\(\s*&[^,]+, \w+, \w+\)", b1)
            if m:
                res = ("addr", "0", "0")
            elif re.search(r"ws_check_string\(\w+, \w+, \w+\)", b1):
                res = ("str", "0", "0")
    if res:
        rest = b1.replace(m.group(0), "") if m else b1
        # further conditions = any other error literal (NNG_ENOMEM excepted: no allocation failure is injected) or errno
        plain = not re.search(r"NNG_E(?!NOMEM\b|NABLE_)[A-Z]+|errno", rest)
        return res + (plain,)
    if depth < 3:
        # delegation: return (other(..., buf, sz, t));
        for m in re.finditer(r"\b(\w+)\(([^;]*?), \w+, sz, t\)", b1):
            if not m.group(1).startswith("nni_copy") and m.group(1) != fn and _fbody(t, m.group(1)) is not None:
                a = _analyse_setter(t, m.group(1), depth + 1)
                if a is not None:
                    rest = b1.replace(m.group(0), "")
                    return a[:3] + (a[3] and not re.search(r"NNG_E(?!NOMEM\b|NABLE_)[A-Z]+|errno", rest),)
    return None


def _analyse_getter(t, fn, depth=0):
    """-> (tag, plain) or None"""
    b = _fbody(t, fn)
    if b is None:
        return None
    b1 = re.sub(r"\s+", " ", b)
    plain = not re.search(r"NNG_E(?!NOMEM\b|NABLE_)[A-Z]+|errno", b1)
    m = re.search(r"nni_copyout_(int|size|ms|bool|str|sockaddr)\(", b1)
    if m:
        return FN_TAG[m.group(1)], plain
    if depth < 3:
        for m in re.finditer(r"\b(\w+)\(([^;]*?), \w+, szp, t\)", b1):
            if not m.group(1).startswith("nni_copy") and m.group(1) != fn and _fbody(t, m.group(1)) is not None:
                a = _analyse_getter(t, m.group(1), depth + 1)
                if a is not None:
                    return a[0], a[1] and plain
    return None


def _tables(srcs, names):
    rows, exprs = [], set()
    tables = {}
    for rel, t in srcs.items():
        for m in re.finditer(r"static\s+(?:const\s+)?nni_option\s+(\w+)\[\]\s*=\s*\{(.*?)\n\};", t, re.S):
            tid = m.group(1)
            if tid in tables:
                raise X.ExtractError(f"two option tables named {tid}")
            ents = []
            for e in re.finditer(r"\{([^{}]*)\}", m.group(2)):
                f = dict(re.findall(r"\.(o_\w+)\s*=\s*([^,]+?)\s*(?:,|$)", e.group(1).strip()))
                if not f or f.get("o_name") == "NULL":
                    continue
                nm = f.get("o_name", "")
                if nm.startswith('"'):
                    name = nm.strip('"')
                elif nm in names:
                    name = names[nm]
                else:
                    raise X.ExtractError(f"{rel} {tid}: option name {nm} is not a known string macro")
                g, s = f.get("o_get", "NULL"), f.get("o_set", "NULL")
                tag, lo, hi, flags = "other", "0", "0", 0
                gt = None
                if g != "NULL":
                    flags |= 1
                    ga = _analyse_getter(t, g)
                    gt = ga[0] if ga else None
                    if ga is None or not ga[1]:
                        flags |= 16     # getter has conditions beyond the type test
                if s != "NULL":
                    flags |= 2
                    a = _analyse_setter(t, s)
                    if a is None:
                        flags |= 4
                        tag = gt or "other"
                    else:
                        tag, lo, hi, plain = a
                        if not plain:
                            flags |= 4
                        if gt is not None and gt != tag:
                            raise X.ExtractError(f"{rel} {tid} {name}: getter copies out {gt}, setter copies in {tag}")
                        if gt is None and g != "NULL":
                            flags |= 8
                else:
                    tag = gt or "other"
                    flags |= 8      # read-only: the value is state of the object, not something a setter stored
                ents.append((tid, name, tag, lo, hi, flags))
                exprs.update([lo, hi])
            tables[tid] = (rel, ents)
    return tables, exprs


def _option_names():
    names = {}
    for rel in ("include/nng/nng.h", "include/nng/http.h", "src/core/defs.h", "src/supplemental/websocket/websocket.h",
                "src/core/nng_impl.h", "src/core/socket.h", "src/sp/transport.h"):
        try:
            t = X.src(rel)
        except OSError:
            continue
        for m in re.finditer(r'#\s*define\s+(NN[GI]_OPT_\w+)\s+"([^"]*)"', t):
            names[m.group(1)] = m.group(2)
    root = os.path.join(X.REPO, "src")
    for d, _, files in os.walk(root):
        for f in files:
            if f.endswith(".h"):
                for m in re.finditer(r'#\s*define\s+(NN[GI]_OPT_\w+)\s+"([^"]*)"', open(os.path.join(d, f), errors="replace").read()):
                    names.setdefault(m.group(1), m.group(2))
    # aliases: #define NNG_OPT_IPC_PEER_PID NNG_OPT_PEER_PID
    for _ in range(2):
        for d, _d, files in os.walk(os.path.join(X.REPO, "include")):
            for f in files:
                for m in re.finditer(r'#\s*define\s+(NN[GI]_OPT_\w+)\s+(NN[GI]_OPT_\w+)\s*$', open(os.path.join(d, f), errors="replace").read(), re.M):
                    if m.group(2) in names:
                        names.setdefault(m.group(1), names[m.group(2)])
    return names


def _protocols(srcs, tables):
    """open function -> (sock option table, ctx option table or None)"""
    out = {}
    for rel, t in srcs.items():
        if not rel.startswith("sp/protocol/"):
            continue
        sock_ops = {m.group(1): m.group(2) for m in re.finditer(r"nni_proto_sock_ops\s+(\w+)\s*=\s*\{(.*?)\n\};", t, re.S)}
        ctx_ops = {m.group(1): m.group(2) for m in re.finditer(r"nni_proto_ctx_ops\s+(\w+)\s*=\s*\{(.*?)\n\};", t, re.S)}
        protos = {m.group(1): m.group(2) for m in re.finditer(r"nni_proto\s+(\w+)\s*=\s*\{(.*?)\n\};", t, re.S)}
        for m in re.finditer(r"\n(nng_\w+_open\w*)\s*\(nng_socket \*\w+\)\s*\{\s*return \(nni_proto_open\(\w+, &(\w+)\)\);", t):
            fn, pr = m.group(1), m.group(2)
            if pr not in protos:
                raise X.ExtractError(f"{rel}: protocol {pr} of {fn} not found")
            so = re.search(r"\.proto_sock_ops\s*=\s*&(\w+)", protos[pr])
            co = re.search(r"\.proto_ctx_ops\s*=\s*&(\w+)", protos[pr])
            st = re.search(r"\.sock_options\s*=\s*(\w+)", sock_ops.get(so.group(1), "")) if so else None
            ct = re.search(r"\.ctx_options\s*=\s*(\w+)", ctx_ops.get(co.group(1), "")) if co else None
            if not st or st.group(1) not in tables:
                raise X.ExtractError(f"{rel}: socket option table of {fn} not found")
            has_ctx = bool(co) and co.group(1) in ctx_ops
            out[fn] = (st.group(1), (ct.group(1) if ct and ct.group(1) in tables else None), has_ctx)
    if len(out) < 12:
        raise X.ExtractError(f"only {len(out)} protocol open functions recognised")
    return out


def hook(put):
    defs = X.src("src/core/defs.h")
    m = X.one(r"typedef enum \{([^}]*)\}\s*nni_type;", X.strip_comments(defs), "enum nni_type")
    tags = []
    for i, w in enumerate(x.strip() for x in m.group(1).split(",") if x.strip()):
        if w not in TAGS:
            raise X.ExtractError(f"unknown member {w} of enum nni_type: the option model has no case for it")
        tags.append((TAGS[w], i))
    if [t for t, _ in tags] != list(TAGS.values()):
        raise X.ExtractError("enum nni_type changed")
    put("c03oTypeTags", tags, "core/defs.h enum nni_type, in declaration order")
    _copy_shapes(put)
    _wrappers(put)

    srcs = _sources()
    names = _option_names()
    tables, exprs = _tables(srcs, names)
    # options handled by name outside tables
    sock = srcs["core/socket.c"]
    for fn, cp in (("nni_ctx_setopt", "nni_copyin_ms"), ("nni_ctx_getopt", "nni_copyout_ms")):
        b1 = re.sub(r"\s+", " ", _fbody(sock, fn) or "")
        X.one(r"if \(strcmp\(opt, NNG_OPT_RECVTIMEO\) == 0\) \{ rv = " + cp + r"\(&?ctx->c_rcvtimeo, v, szp?, t\); \} else if \(strcmp\(opt, NNG_OPT_SENDTIMEO\) == 0\) \{ rv = "
              + cp + r"\(&?ctx->c_sndtimeo, v, szp?, t\); \} else if \(ctx->c_ops.ctx_options != NULL\) \{ for \(o = ctx->c_ops.ctx_options; o->o_name != NULL; o\+\+\)", b1,
              f"{fn}: receive/send timeout by name, then the protocol's context option table")
    tables["ctx_core"] = ("core/socket.c", [("ctx_core", names["NNG_OPT_RECVTIMEO"], "ms", "-1", "NNI_MAXINT", 3),
                                            ("ctx_core", names["NNG_OPT_SENDTIMEO"], "ms", "-1", "NNI_MAXINT", 3)])
    dl = srcs["core/dialer.c"]
    b1 = re.sub(r"\s+", " ", _fbody(dl, "nni_dialer_setopt") or "")
    X.one(r"if \(strcmp\(name, NNG_OPT_RECONNMAXT\) == 0\) \{.*?rv = nni_copyin_ms\(&d->d_maxrtime, val, sz, t\);.*?return \(rv\); \} "
          r"if \(strcmp\(name, NNG_OPT_RECONNMINT\) == 0\) \{.*?rv = nni_copyin_ms\(&d->d_inirtime, val, sz, t\);.*?return \(rv\); \} "
          r"if \(d->d_ops.d_setopt != NULL\) \{ int rv = d->d_ops.d_setopt\(d->d_data, name, val, sz, t\); if \(rv != NNG_ENOTSUP\) \{ return \(rv\); \} \} "
          r"for \(o = d->d_ops.d_options; o && o->o_name; o\+\+\)", b1, "nni_dialer_setopt: reconnect times by name, transport, option table")
    b1 = re.sub(r"\s+", " ", _fbody(dl, "nni_dialer_getopt") or "")
    X.one(r"if \(strcmp\(name, NNG_OPT_RECONNMAXT\) == 0\).*?nni_copyout_ms\(d->d_maxrtime.*?if \(strcmp\(name, NNG_OPT_RECONNMINT\) == 0\).*?nni_copyout_ms\(d->d_inirtime.*?"
          r"d->d_ops.d_getopt\(d->d_data, name, valp, szp, t\).*?return \(nni_sock_getopt\(d->d_sock, name, valp, szp, t\)\);", b1,
          "nni_dialer_getopt: reconnect times, transport, table, then the socket")
    tables["dialer_core"] = ("core/dialer.c", [("dialer_core", names["NNG_OPT_RECONNMAXT"], "ms", "-1", "NNI_MAXINT", 3),
                                               ("dialer_core", names["NNG_OPT_RECONNMINT"], "ms", "-1", "NNI_MAXINT", 3)])
    ls = srcs["core/listener.c"]
    b1 = re.sub(r"\s+", " ", _fbody(ls, "nni_listener_getopt") or "")
    X.one(r"l->l_ops.l_getopt\(l->l_data, name, val, szp, t\).*?return \(nni_sock_getopt\(l->l_sock, name, val, szp, t\)\);", b1,
          "nni_listener_getopt: transport, table, then the socket")
    b1 = re.sub(r"\s+", " ", _fbody(ls, "nni_listener_setopt") or "")
    X.one(r"l->l_ops.l_setopt\(l->l_data, name, val, sz, t\).*?for \(o = l->l_ops.l_options; o && o->o_name; o\+\+\).*?return \(NNG_ENOTSUP\);", b1,
          "nni_listener_setopt: transport, table, not supported")
    for fn, w in (("nni_sock_setopt", "nni_setopt"), ("nni_sock_getopt", "nni_getopt")):
        b1 = re.sub(r"\s+", " ", _fbody(sock, fn) or "")
        X.one(r"rv = " + w + r"\(\s*s->s_sock_ops.sock_options, name, s->s_data, \w+, \w+, t\); if \(rv != NNG_ENOTSUP\) \{ nni_mtx_unlock\(&s->s_mx\); return \(rv\); \}.*?rv = "
              + w + r"\(sock_options, name, s, \w+, \w+, t\);", b1, f"{fn}: the protocol's table first, then sock_options")
    exprs.update(["-1", "NNI_MAXINT", "0", "1"])
    exprs.update(f"sizeof({CTYPE[t]})" for t in CTYPE)
    vals = _ceval([e for e in exprs])
    put("c03oTypeSizes", [(t, vals[f"sizeof({CTYPE[t]})"]) for t in ("bool", "int", "size", "ms", "str", "addr")],
        "sizeof of the C type behind each tag (gcc, the tree's headers): bool, int, size_t, nng_duration, const char *, nng_sockaddr")

    def signed(e, tag):
        v = vals[e]
        if tag in ("int", "ms") and v >= 1 << 63:
            v -= 1 << 64
        return v

    rows = []
    for tid in sorted(tables):
        rel, ents = tables[tid]
        for (_, name, tag, lo, hi, flags) in ents:
            l, h = signed(lo, tag), signed(hi, tag)
            if h < 0:
                raise X.ExtractError(f"{tid} {name}: negative upper bound")
            rows.append((tid, name, tag, -l if l < 0 else 0, l if l >= 0 else 0, h, flags))
    put("c03oRows", rows, "every nni_option table entry + by-name options of contexts and dialers: (table, option, tag, -lo if lo<0, lo if lo>=0, hi, "
                          "flags 1=get 2=set 4=setter has further conditions 8=value read is object state 16=getter has further conditions)")

    # ---- objects the harness can create and the order in which their tables are searched
    protos = _protocols(srcs, tables)
    objs = []
    for fn in sorted(protos):
        st, ct, has_ctx = protos[fn]
        objs.append(("sock:" + fn, fn, [st, "sock_options"], [st, "sock_options"]))
        if has_ctx:
            lay = ["ctx_core"] + ([ct] if ct else [])
            objs.append(("ctx:" + fn, fn, lay, lay))
    # endpoints: created on a pair0 socket.  Transport layering anchored on each transport's ep get/set functions.
    host = "nng_pair0_open"
    if host not in protos:
        raise X.ExtractError("nng_pair0_open not found (endpoint host socket)")
    hs = ["@" + protos[host][0], "@sock_options"]

    def anchor(rel, fn, pat, what):
        b1 = re.sub(r"\s+", " ", _fbody(srcs[rel], fn) or "")
        X.one(pat, b1, f"{rel} {fn}: {what}")

    anchor("sp/transport/inproc/inproc.c", "inproc_ep_setopt", r"return \(nni_setopt\(inproc_ep_options, name, arg, v, sz, t\)\);", "one table")
    anchor("sp/transport/inproc/inproc.c", "inproc_ep_getopt", r"return \(nni_getopt\(inproc_ep_options, name, arg, v, szp, t\)\);", "one table")
    objs.append(("dialer:inproc", "inproc://c03o", ["dialer_core", "inproc_ep_options"], ["dialer_core", "inproc_ep_options"] + hs))
    objs.append(("listener:inproc", "inproc://c03o", ["inproc_ep_options"], ["inproc_ep_options"] + hs))
    for k, w in (("dialer", "nni_stream_dialer"), ("listener", "nni_stream_listener")):
        anchor("sp/transport/tcp/tcp.c", f"tcptran_{k}_setopt", r"rv = " + w + r"_set\(ep->" + k + r", name, buf, sz, t\); if \(rv == NNG_ENOTSUP\) \{ rv = nni_setopt\(tcptran_ep_opts, name, ep, buf, sz, t\); \}",
               "stream first, then tcptran_ep_opts")
        anchor("sp/transport/tcp/tcp.c", f"tcptran_{k}_getopt", r"rv = " + w + r"_get\(ep->" + k + r", name, buf, szp, t\); if \(rv == NNG_ENOTSUP\) \{ rv = nni_getopt\(tcptran_ep_opts, name, ep, buf, szp, t\); \}",
               "stream first, then tcptran_ep_opts")
        anchor("sp/transport/ipc/ipc.c", f"ipc_{k}_set", r"rv = nni_setopt\(ipc_ep_options, name, ep, buf, sz, t\); if \(rv == NNG_ENOTSUP\) \{ rv = " + w + r"_set\(ep->" + k + r", name, buf, sz, t\); \}",
               "ipc_ep_options first, then the stream")
        anchor("sp/transport/ipc/ipc.c", f"ipc_{k}_get", r"rv = nni_getopt\(ipc_ep_options, name, ep, buf, szp, t\); if \(rv == NNG_ENOTSUP\) \{ rv = " + w + r"_get\(ep->" + k + r", name, buf, szp, t\); \}",
               "ipc_ep_options first, then the stream")
    anchor("core/tcp.c", "tcp_dialer_set", r"return \(nni_tcp_dialer_set\(d->d, name, buf, sz, t\)\);", "platform dialer")
    anchor("core/tcp.c", "tcp_dialer_get", r"return \(nni_tcp_dialer_get\(d->d, name, buf, szp, t\)\);", "platform dialer")
    anchor("platform/posix/posix_tcpdial.c", "nni_tcp_dialer_set", r"return \(nni_setopt\(tcp_dialer_options, name, d, buf, sz, t\)\);", "one table")
    anchor("platform/posix/posix_tcplisten.c", "tcp_listener_set", r"return \(nni_setopt\(tcp_listener_options, name, arg, buf, sz, t\)\);", "one table")
    anchor("platform/posix/posix_ipcdial.c", "ipc_dialer_set", r"return \(nni_setopt\(ipc_dialer_options, nm, d, buf, sz, t\)\);", "one table")
    anchor("platform/posix/posix_ipclisten.c", "ipc_listener_set", r"return \(nni_setopt\(ipc_listener_options, name, l, buf, sz, t\)\);", "one table")
    objs.append(("dialer:tcp", "tcp://127.0.0.1:1", ["dialer_core", "tcp_dialer_options", "tcptran_ep_opts"], ["dialer_core", "tcp_dialer_options", "tcptran_ep_opts"] + hs))
    objs.append(("listener:tcp", "tcp://127.0.0.1:0", ["tcp_listener_options", "tcptran_ep_opts"], ["tcp_listener_options", "tcptran_ep_opts"] + hs))
    objs.append(("dialer:ipc", "ipc:///tmp/c03o-never.sock", ["dialer_core", "ipc_ep_options", "ipc_dialer_options"], ["dialer_core", "ipc_ep_options", "ipc_dialer_options"] + hs))
    objs.append(("listener:ipc", "ipc:///tmp/c03o-never.sock", ["ipc_ep_options", "ipc_listener_options"], ["ipc_ep_options", "ipc_listener_options"] + hs))
    for k in ("dialer", "listener"):
        anchor("sp/transport/udp/udp.c", f"udp_{k}_setopt", r"return \(nni_setopt\(udp_ep_opts, name, ep, buf, sz, t\)\);", "one table")
        anchor("sp/transport/udp/udp.c", f"udp_{k}_getopt", r"return \(nni_getopt\(udp_ep_opts, name, ep, buf, szp, t\)\);", "one table")
    objs.append(("dialer:udp", "udp://127.0.0.1:1", ["dialer_core", "udp_ep_opts"], ["dialer_core", "udp_ep_opts"] + hs))
    objs.append(("listener:udp", "udp://127.0.0.1:0", ["udp_ep_opts"], ["udp_ep_opts"] + hs))
    wsx = "supplemental/websocket/websocket.c"
    anchor(wsx, "ws_dialer_set", r"rv = nni_setopt\(ws_dialer_options, name, d, buf, sz, t\); if \(rv == NNG_ENOTSUP\) \{ rv = nni_http_client_set\(d->client, name, buf, sz, t\); \} "
                                 r"if \(rv == NNG_ENOTSUP\) \{ if \(startswith\(name, NNG_OPT_WS_HEADER\)\)", "table, http client (stream dialer), header prefix")
    anchor(wsx, "ws_dialer_get", r"rv = nni_getopt\(ws_dialer_options, name, d, buf, szp, t\); if \(rv == NNG_ENOTSUP\) \{ rv = nni_http_client_get\(d->client, name, buf, szp, t\); \} return", "table, http client")
    anchor(wsx, "ws_listener_set", r"rv = nni_setopt\(ws_listener_options, name, l, buf, sz, t\); if \(rv == NNG_ENOTSUP\) \{ rv = nni_http_server_set\(l->server, name, buf, sz, t\); \} "
                                   r"if \(rv == NNG_ENOTSUP\) \{ if \(startswith\(name, NNG_OPT_WS_HEADER\)\)", "table, http server (stream listener), header prefix")
    anchor(wsx, "ws_listener_get", r"rv = nni_getopt\(ws_listener_options, name, l, buf, szp, t\); if \(rv == NNG_ENOTSUP\) \{ rv = nni_http_server_get\(l->server, name, buf, szp, t\); \} return", "table, http server")
    anchor("supplemental/http/http_client.c", "nni_http_client_set", r"return \(nni_stream_dialer_set\(c->dialer, name, buf, sz, t\)\);", "pass through")
    anchor("supplemental/http/http_client.c", "nni_http_client_get", r"return \(nni_stream_dialer_get\(c->dialer, name, buf, szp, t\)\);", "pass through")
    anchor("supplemental/http/http_server.c", "nni_http_server_set", r"return \(nni_stream_listener_set\(s->listener, name, buf, sz, t\)\);", "pass through")
    anchor("supplemental/http/http_server.c", "nni_http_server_get", r"return \(nni_stream_listener_get\(s->listener, name, buf, szp, t\)\);", "pass through")
    wt = "sp/transport/ws/websocket.c"
    anchor(wt, "wstran_dialer_setopt", r"rv = nni_stream_dialer_set\(d->dialer, name, buf, sz, t\); if \(rv == NNG_ENOTSUP\) \{ rv = nni_setopt\(wstran_ep_opts, name, d, buf, sz, t\); \}", "stream, then wstran_ep_opts")
    anchor(wt, "wstran_listener_set", r"rv = nni_stream_listener_set\(l->listener, name, buf, sz, t\); if \(rv == NNG_ENOTSUP\) \{ rv = nni_setopt\(wstran_ep_opts, name, l, buf, sz, t\); \}", "stream, then wstran_ep_opts")
    anchor(wt, "wstran_dialer_getopt", r"rv = nni_stream_dialer_get\(d->dialer, name, buf, szp, t\); if \(rv == NNG_ENOTSUP\) \{ rv = nni_getopt\(wstran_ep_opts, name, d, buf, szp, t\); \}", "stream, then wstran_ep_opts")
    anchor(wt, "wstran_listener_get", r"rv = nni_stream_listener_get\(l->listener, name, buf, szp, t\); if \(rv == NNG_ENOTSUP\) \{ rv = nni_getopt\(wstran_ep_opts, name, l, buf, szp, t\); \}", "stream, then wstran_ep_opts")
    # (option names with the prefix NNG_OPT_WS_HEADER are handled between the stream layer and wstran_ep_opts; the harness never uses them)
    put("c03oWsHeaderPrefix", names["NNG_OPT_WS_HEADER"], "include/nng/nng.h NNG_OPT_WS_HEADER: names with this prefix are outside the table model")
    objs.append(("dialer:ws", "ws://127.0.0.1:1/c03o", ["dialer_core", "ws_dialer_options", "tcp_dialer_options", "wstran_ep_opts"],
                 ["dialer_core", "ws_dialer_options", "tcp_dialer_options", "wstran_ep_opts"] + hs))
    objs.append(("listener:ws", "ws://127.0.0.1:0/c03o", ["ws_listener_options", "tcp_listener_options", "wstran_ep_opts"],
                 ["ws_listener_options", "tcp_listener_options", "wstran_ep_opts"] + hs))
    # a live websocket pipe (listener side): transport pipe, then the listener, then the socket (nni_pipe_getopt); pipes have no setters
    anchor(wt, "wstran_pipe_getopt", r"if \(\(rv = nni_stream_get\(p->ws, name, buf, szp, t\)\) == NNG_ENOTSUP\) \{ rv = nni_getopt\(ws_pipe_options, name, p, buf, szp, t\); \}", "stream, then ws_pipe_options")
    anchor(wsx, "ws_str_get", r"rv = nni_http_conn_getopt\(ws->http, nm, buf, szp, t\); if \(rv == NNG_ENOTSUP\) \{ rv = nni_getopt\(ws_options, nm, ws, buf, szp, t\); \}", "http connection, then ws_options")
    anchor("supplemental/http/http_conn.c", "nni_http_conn_getopt", r"rv = nni_stream_get\(conn->sock, name, buf, szp, t\);", "the underlying stream")
    anchor("platform/posix/posix_tcpconn.c", "tcp_get", r"return \(nni_getopt\(tcp_options, name, c, buf, szp, t\)\);", "one table")
    anchor("core/pipe.c", "nni_pipe_getopt", r"rv = p->p_tran_ops.p_getopt\(p->p_tran_data, name, val, szp, t\); if \(rv != NNG_ENOTSUP\) \{ return \(rv\); \} if \(p->p_dialer != NULL\) \{ return \(nni_dialer_getopt\(p->p_dialer, name, val, szp, t\)\); \} "
           r"if \(p->p_listener != NULL\) \{ return \(nni_listener_getopt\(p->p_listener, name, val, szp, t\)\); \}", "transport pipe, then the endpoint")
    objs.append(("pipe:ws", "ws://127.0.0.1:0", ["ws_pipe_options"],
                 ["tcp_options", "ws_options", "ws_pipe_options", "ws_listener_options", "tcp_listener_options", "wstran_ep_opts", hs[0].lstrip("@"), "sock_options"]))
    for kind, arg, ls_, lg in objs:
        for tname in ls_ + lg:
            if tname.lstrip("@") not in tables:
                raise X.ExtractError(f"object {kind}: option table {tname} not found")
    # tables with no entries still have to exist as (empty) layers: give them a row-less marker
    objs = [(k, a, ls_, [(1 if t.startswith("@") else 0, t.lstrip("@")) for t in lg]) for (k, a, ls_, lg) in objs]
    put("c03oObjects", objs, "objects of harness/u_options.c: (kind, open function or URL, tables searched by a set in order, tables searched by a get in order "
                             "as (1 = table of the owning socket (pair0) / 0 = own, table)); order anchored on nni_sock_*opt, nni_ctx_*opt, nni_dialer_*opt, nni_listener_*opt and the transports' ep functions")
    put("c03oTables", sorted(tables), "names of all option tables (a table may have no entries)")
