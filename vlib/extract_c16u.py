"""C16U constants re-extracted from /repo on every run: SHA-1 (sha1.c: initial digest, round constants, block size,
padding thresholds, rotation amounts, loop bounds), ws_make_accept (GUID, lengths, the buffers its callers pass) and the
literals of the WebSocket opening handshake on both sides (websocket.c ws_handler, ws_http_cb_dialer, ws_conn_cb)."""
import re
from . import extract as X


def _ints(rx, text, what, n=None):
    v = [X.cint(t) for t in re.findall(rx, text)]
    if not v or (n is not None and len(v) != n):
        raise X.ExtractError(f"anchor missing: {what} (found {len(v)})")
    return v


def _same(vals, what):
    if len(set(vals)) != 1:
        raise X.ExtractError(f"{what}: expected one value, found {sorted(set(vals))}")
    return vals[0]


def hook(put):
    sha_src = X.src("src/supplemental/websocket/sha1.c")
    hdr = X.strip_comments(X.src("src/supplemental/websocket/sha1.h"))
    m = X.one(r"uint32_t\s+digest\[(\d+)\];\s*uint64_t\s+len;\s*uint8_t\s+blk\[(\d+)\];\s*int\s+idx;", hdr, "nni_sha1_ctx layout")
    if int(m.group(1)) != 5:
        raise X.ExtractError("nni_sha1_ctx.digest is not 5 words")
    put("sha1BlkSize", int(m.group(2)), "sha1.h nni_sha1_ctx: uint8_t blk[N]; uint64_t len (bits); uint32_t digest[5]")

    ini = X.func_body(sha_src, "nni_sha1_init")
    X.one(r"ctx->len\s*=\s*0;\s*ctx->idx\s*=\s*0;", ini, "nni_sha1_init clears len and idx")
    h = re.findall(r"ctx->digest\[(\d)\]\s*=\s*(0x[0-9A-Fa-f]+);", ini)
    if [int(i) for i, _ in h] != [0, 1, 2, 3, 4]:
        raise X.ExtractError("nni_sha1_init: digest[0..4] initialisers")
    put("sha1Init", [X.cint(v) for _, v in h], "sha1.c nni_sha1_init digest[0..4]")

    upd = X.func_body(sha_src, "nni_sha1_update")
    X.one(r"ctx->blk\[ctx->idx\+\+\]\s*=\s*\(\*msg & 0xFF\);\s*ctx->len\s*\+=\s*8;", upd, "nni_sha1_update store and bit count")
    put("sha1FullIdx", int(X.one(r"if \(ctx->idx == (\d+)\)\s*\{\s*nni_sha1_process\(ctx\);", upd, "nni_sha1_update full-block test").group(1)),
        "sha1.c nni_sha1_update: process when idx == N")

    pr = X.func_body(sha_src, "nni_sha1_process")
    k = X.one(r"const unsigned K\[\]\s*=\s*\{([^}]*)\}", pr, "sha1 K[]")
    ks = [X.cint(t) for t in k.group(1).split(",") if t.strip()]
    if len(ks) != 4:
        raise X.ExtractError("sha1 K[] is not 4 constants")
    put("sha1K", ks, "sha1.c nni_sha1_process K[0..3]")
    X.one(r"unsigned W\[80\];", pr, "W[80]")
    X.one(r"for \(int t = 0; t < 16; t\+\+\)\s*\{\s*W\[t\]\s*=\s*\(\(unsigned\) ctx->blk\[t \* 4\]\) << 24;\s*"
          r"W\[t\] \|= \(\(unsigned\) ctx->blk\[t \* 4 \+ 1\]\) << 16;\s*W\[t\] \|= \(\(unsigned\) ctx->blk\[t \* 4 \+ 2\]\) << 8;\s*"
          r"W\[t\] \|= \(\(unsigned\) ctx->blk\[t \* 4 \+ 3\]\);", pr, "big-endian load of W[0..15]")
    m = X.one(r"for \(int t = 16; t < 80; t\+\+\)\s*\{\s*W\[t\]\s*=\s*nni_sha1_circular_shift\(\s*(\d+),\s*"
              r"W\[t - 3\] \^ W\[t - 8\] \^ W\[t - 14\] \^ W\[t - 16\]\);", pr, "message schedule")
    put("sha1RotW", int(m.group(1)), "sha1.c nni_sha1_process: rotation in the message schedule")
    bounds = re.findall(r"for \(int t = (\d+); t < (\d+); t\+\+\)", pr)
    if [(int(a), int(b)) for a, b in bounds] != [(0, 16), (16, 80), (0, 20), (20, 40), (40, 60), (60, 80)]:
        raise X.ExtractError(f"nni_sha1_process loop bounds changed: {bounds}")
    rounds = re.findall(r"temp = nni_sha1_circular_shift\((\d+), A\) \+\s*(.*?) \+\s*E \+ W\[t\] \+\s*K\[(\d)\];\s*"
                        r"temp &= 0xFFFFFFFF;\s*E = D;\s*D = C;\s*C = nni_sha1_circular_shift\((\d+), B\);\s*B = A;\s*A = temp;", pr, re.S)
    if len(rounds) != 4 or [int(r[2]) for r in rounds] != [0, 1, 2, 3]:
        raise X.ExtractError("nni_sha1_process: the four round loops were not recognised")
    fs = [re.sub(r"\s+", "", r[1]) for r in rounds]
    if fs != ["((B&C)|((~B)&D))", "(B^C^D)", "((B&C)|(B&D)|(C&D))", "(B^C^D)"]:
        raise X.ExtractError(f"nni_sha1_process: round functions changed: {fs}")
    put("sha1RotA", _same([int(r[0]) for r in rounds], "rotation of A"), "sha1.c nni_sha1_process: circular_shift(n, A) in all four loops")
    put("sha1RotB", _same([int(r[3]) for r in rounds], "rotation of B"), "sha1.c nni_sha1_process: circular_shift(n, B) in all four loops")
    X.one(r"ctx->digest\[0\] = \(ctx->digest\[0\] \+ A\) & 0xFFFFFFFF;.*ctx->digest\[4\] = \(ctx->digest\[4\] \+ E\) & 0xFFFFFFFF;\s*ctx->idx = 0;",
          pr, "digest accumulation and idx reset")
    X.one(r"#define nni_sha1_circular_shift\(bits, word\)\s*\\\s*\(\(\(\(word\) << \(bits\)\) & 0xFFFFFFFF\) \| \(\(word\) >> \(32 - \(bits\)\)\)\)",
          X.strip_comments(sha_src), "circular shift macro")

    pad = X.func_body(sha_src, "nni_sha1_pad")
    put("sha1PadThreshold", int(X.one(r"if \(ctx->idx > (\d+)\)", pad, "pad threshold").group(1)),
        "sha1.c nni_sha1_pad: two-block padding when idx > N")
    put("sha1PadMark", X.cint(_same(re.findall(r"ctx->blk\[ctx->idx\+\+\] = (0x[0-9A-Fa-f]+);", pad), "pad marker")),
        "sha1.c nni_sha1_pad: first padding byte (both branches)")
    fills = [int(t) for t in re.findall(r"while \(ctx->idx < (\d+)\)", pad)]
    if len(fills) != 3:
        raise X.ExtractError(f"nni_sha1_pad: expected three zero-fill loops, found {fills}")
    put("sha1PadFillFull", fills[0], "sha1.c nni_sha1_pad: zero fill to the end of the block before the extra process")
    put("sha1PadFillLen", _same(fills[1:], "zero fill up to the length field"), "sha1.c nni_sha1_pad: zero fill up to the length field")
    ls = re.findall(r"ctx->blk\[(\d+)\] = \(ctx->len(?: >> (\d+))?\) & 0xff;", pad)
    if [(int(a), int(b or 0)) for a, b in ls] != [(56 + i, 56 - 8 * i) for i in range(8)]:
        raise X.ExtractError(f"nni_sha1_pad: length field stores changed: {ls}")
    put("sha1LenFieldAt", 56, "sha1.c nni_sha1_pad: blk[56..63] = big-endian 64-bit bit length")
    fin = X.func_body(sha_src, "nni_sha1_final")
    X.one(r"nni_sha1_pad\(ctx\);\s*for \(int i = 0; i < 5; i\+\+\)\s*\{\s*digest\[i \* 4\]\s*=\s*\(ctx->digest\[i\] >> 24\) & 0xff;\s*"
          r"digest\[i \* 4 \+ 1\] = \(ctx->digest\[i\] >> 16\) & 0xff;\s*digest\[i \* 4 \+ 2\] = \(ctx->digest\[i\] >> 8\) & 0xff;\s*"
          r"digest\[i \* 4 \+ 3\] = \(ctx->digest\[i\] >> 0\) & 0xff;", fin, "nni_sha1_final big-endian digest output")
    put("sha1DigestLen", int(X.one(r"nni_sha1_final\(nni_sha1_ctx \*ctx, uint8_t digest\[(\d+)\]\)", X.strip_comments(sha_src), "digest[20]").group(1)),
        "sha1.c nni_sha1_final(ctx, uint8_t digest[N])")

    # ---------------------------------------------------------------- ws_make_accept and its callers
    ws_src = X.src("src/supplemental/websocket/websocket.c")
    ws = X.strip_comments(ws_src)
    mk = X.func_body(ws_src, "ws_make_accept")
    put("wsKeyGuid", X.one(r'#define WS_KEY_GUID "([^"]*)"', mk, "WS_KEY_GUID").group(1), "websocket.c ws_make_accept WS_KEY_GUID")
    put("wsKeyGuidLen", int(X.one(r"#define WS_KEY_GUIDLEN (\d+)", mk, "WS_KEY_GUIDLEN").group(1)), "websocket.c ws_make_accept WS_KEY_GUIDLEN")
    put("wsMkDigestBuf", int(X.one(r"uint8_t\s+digest\[(\d+)\];", mk, "digest buffer").group(1)), "websocket.c ws_make_accept: uint8_t digest[N]")
    m = X.one(r"if \(strlen\(key\) != (\d+)\)\s*\{\s*return \(NNG_EINVAL\);\s*\}\s*nni_sha1_init\(&ctx\);\s*nni_sha1_update\(&ctx, key, (\d+)\);\s*"
              r"nni_sha1_update\(&ctx, WS_KEY_GUID, WS_KEY_GUIDLEN\);\s*nni_sha1_final\(&ctx, digest\);\s*"
              r"nni_base64_encode\(digest, (\d+), accept, (\d+)\);\s*accept\[(\d+)\] = '\\0';\s*return \(0\);", mk, "ws_make_accept body")
    put("wsMkKeyLen", int(m.group(1)), "websocket.c ws_make_accept: strlen(key) != N -> NNG_EINVAL")
    put("wsMkKeyFeed", int(m.group(2)), "websocket.c ws_make_accept: nni_sha1_update(&ctx, key, N)")
    put("wsMkEncIn", int(m.group(3)), "websocket.c ws_make_accept: nni_base64_encode(digest, N, accept, _)")
    put("wsMkEncOut", int(m.group(4)), "websocket.c ws_make_accept: nni_base64_encode(digest, _, accept, N)")
    put("wsMkNulAt", int(m.group(5)), "websocket.c ws_make_accept: accept[N] = 0")

    hd = X.func_body(ws_src, "ws_handler")
    dl = X.func_body(ws_src, "ws_http_cb_dialer")
    cc = X.func_body(ws_src, "ws_conn_cb")
    put("wsHandlerKeyBuf", int(X.one(r"char\s+key\[(\d+)\];", hd, "ws_handler key buffer").group(1)), "websocket.c ws_handler: char key[N] passed to ws_make_accept")
    put("wsDialerKeyBuf", int(X.one(r"char\s+wskey\[(\d+)\];", dl, "ws_http_cb_dialer wskey buffer").group(1)), "websocket.c ws_http_cb_dialer: char wskey[N] passed to ws_make_accept")
    put("wsKeybufSize", int(X.one(r"char\s+keybuf\[(\d+)\];", ws, "nni_ws keybuf").group(1)), "websocket.c struct nni_ws: char keybuf[N]")
    X.one(r"memcpy\(ws->keybuf, key, sizeof\(ws->keybuf\)\);", hd, "ws_handler copies key[] into keybuf")
    m = X.one(r"uint8_t\s+raw\[(\d+)\];", cc, "ws_conn_cb raw nonce")
    put("wsNonceLen", int(m.group(1)), "websocket.c ws_conn_cb: uint8_t raw[N]")
    m = X.one(r"for \(int i = 0; i < (\d+); i\+\+\)\s*\{\s*raw\[i\] = \(uint8_t\) nni_random\(\);\s*\}\s*"
              r"nni_base64_encode\(raw, (\d+), ws->keybuf, (\d+)\);\s*ws->keybuf\[(\d+)\] = '\\0';", cc, "ws_conn_cb key generation")
    if int(m.group(1)) != int(m.group(2)):
        raise X.ExtractError("ws_conn_cb: nonce loop bound and encode length differ")
    put("wsKeyEncOut", int(m.group(3)), "websocket.c ws_conn_cb: nni_base64_encode(raw, 16, keybuf, N)")
    put("wsKeyNulAt", int(m.group(4)), "websocket.c ws_conn_cb: keybuf[N] = 0")

    # ---------------------------------------------------------------- handshake literals
    http_h = X.strip_comments(X.src("include/nng/http.h"))
    stat = {n: int(v) for n, v in re.findall(r"NNG_HTTP_STATUS_(\w+)\s*=\s*(\d+)", http_h)}
    nng_h = X.strip_comments(X.src("include/nng/nng.h"))
    errs = {n: int(v) for n, v in re.findall(r"\bNNG_(E[A-Z]+)\s*=\s*(\d+)", nng_h)}

    # server side: the order of the tests and the status each answers
    pre = hd.split("nng_http_set_status(conn, NNG_HTTP_STATUS_SWITCHING")[0]
    seq = re.findall(r"status = NNG_HTTP_STATUS_(\w+);", pre)
    want = ["SERVICE_UNAVAILABLE", "HTTP_VERSION_NOT_SUPP", "BAD_REQUEST", "CONTENT_TOO_LARGE", "BAD_REQUEST", "BAD_REQUEST", "BAD_REQUEST", "BAD_REQUEST"]
    if len(seq) != len(want):
        raise X.ExtractError(f"ws_handler: number of rejecting branches changed: {seq}")
    put("wsSrvStatuses", [stat[s] for s in seq],
        "websocket.c ws_handler: status of each rejecting branch in source order (closed, version, method, body, upgrade headers, key, protocol missing, protocol mismatch)")
    put("wsStatusSwitching", stat["SWITCHING"], "nng/http.h NNG_HTTP_STATUS_SWITCHING")
    put("wsSrvVersion", X.one(r'strcmp\(nng_http_get_version\(conn\), "([^"]*)"\) != 0', pre, "version test").group(1), "ws_handler: exact HTTP version")
    put("wsSrvMethod", X.one(r'strcmp\(nng_http_get_method\(conn\), "([^"]*)"\) != 0', pre, "method test").group(1), "ws_handler: exact method")
    X.one(r'nng_http_get_header\(conn, "Content-Length"\)\) != NULL\) &&\s*\(atoi\(ptr\) > 0\)\) \|\|\s*'
          r'\(\(\(ptr = nng_http_get_header\(conn, "Transfer-Encoding"\)\) !=\s*NULL\) &&\s*\(nni_strcasestr\(ptr, "chunked"\) != NULL\)\)\)', pre, "body tests")
    m = X.one(r'nng_http_get_header\(conn, "Upgrade"\)\) == NULL\) \|\|\s*\(!ws_contains_word\(ptr, "([^"]*)"\)\) \|\|\s*'
              r'\(\(ptr = nng_http_get_header\(conn, "Connection"\)\) == NULL\) \|\|\s*\(!ws_contains_word\(ptr, "([^"]*)"\)\) \|\|\s*'
              r'\(\(ptr = nng_http_get_header\(conn, "Sec-WebSocket-Version"\)\) ==\s*NULL\) \|\|\s*\(strcmp\(ptr, "([^"]*)"\) != 0\)', pre, "upgrade header tests")
    put("wsSrvUpgradeWord", m.group(1), "ws_handler: ws_contains_word(Upgrade, w)")
    put("wsSrvConnWord", m.group(2), "ws_handler: ws_contains_word(Connection, w)")
    put("wsSrvWsVersion", m.group(3), "ws_handler: strcmp(Sec-WebSocket-Version, v)")
    X.one(r'nng_http_get_header\(conn, "Sec-WebSocket-Key"\)\) == NULL\) \|\|\s*\(ws_make_accept\(ptr, key\) != 0\)', pre, "key test")
    m = X.one(r'proto = nng_http_get_header\(conn, "Sec-WebSocket-Protocol"\);\s*if \(proto == NULL\) \{\s*if \(l->proto != NULL\) \{.*?\}\s*\}\s*'
              r'else if \(\(l->proto == NULL\) \|\|\s*(\(proto\[0\] == \'\\0\'\) \|\|\s*\(strpbrk\(proto, " ,"\) != NULL\) \|\|\s*)?'
              r'\(!ws_contains_word\(l->proto, proto\)\)\)', pre, "protocol tests")
    # a flag, not an anchor: with the proposed fix (integration/fixes/C16U-ws-protocol-offer-list.patch) ws_handler refuses a client
    # value that is empty or itself a list, so that the value it echoes in the 101 response is always a single token
    put("wsSrvSingleOffer", m.group(1) is not None,
        "ws_handler: a Sec-WebSocket-Protocol request value that is empty or contains ' ' / ',' is refused (only a single token is echoed)")
    post = hd.split("nng_http_set_status(conn, NNG_HTTP_STATUS_SWITCHING")[1]
    em = re.findall(r'nni_http_set_static_header\(\s*conn, &ws->hdrs\.\w+, "([^"]*)", ("[^"]*"|ws->keybuf|proto)\);', post)
    put("wsSrvEmits", [(a, b.strip('"') if b.startswith('"') else "$" + b.split(">")[-1]) for a, b in em],
        "ws_handler: headers of the 101 response in source order ($keybuf = accept value, $proto = the client's header value, only if present)")

    # client side
    sw = X.one(r"switch \(status\) \{(.*?)\n\t\}", dl, "status switch").group(1)
    groups, cur = [], []
    for line in sw.split("\n"):
        line = line.strip()
        mm = re.match(r"case NNG_HTTP_STATUS_(\w+):", line)
        if mm:
            cur.append(stat[mm.group(1)])
        elif line.startswith("default:"):
            cur.append(0)
        mm = re.match(r"rv = NNG_(E\w+);", line)
        if mm:
            groups.append((cur, errs[mm.group(1)]))
            cur = []
        elif line == "break;":
            groups.append((cur, 0))
            cur = []
    tbl = []
    for codes, rv in groups:
        for c in codes:
            tbl.append((c, rv))
    put("wsCliStatusMap", tbl, "ws_http_cb_dialer: status -> result of the dial (0 = go on validating; status 0 = default branch)")
    m = X.one(r'nng_http_get_header\(ws->http, "Sec-WebSocket-Accept"\)\) ==\s*NULL\) \|\|\s*\(strcmp\(ptr, wskey\) != 0\) \|\|\s*'
              r'\(\(ptr = nng_http_get_header\(ws->http, "Connection"\)\) == NULL\) \|\|\s*\(!ws_contains_word\(ptr, "([^"]*)"\)\) \|\|\s*'
              r'\(\(ptr = nng_http_get_header\(ws->http, "Upgrade"\)\) == NULL\) \|\|\s*\((strcmp|nni_strcasecmp)\(ptr, "([^"]*)"\) != 0\)\)\s*\{\s*'
              r'ws_close_error\(ws, WS_CLOSE_PROTOCOL_ERR\);\s*rv = NNG_(E\w+);', dl, "response header tests")
    put("wsCliConnWord", m.group(1), "ws_http_cb_dialer: ws_contains_word(Connection, w)")
    put("wsCliUpgradeCaseSensitive", m.group(2) == "strcmp", "ws_http_cb_dialer: Upgrade compared with strcmp (true) or nni_strcasecmp (false)")
    put("wsCliUpgradeValue", m.group(3), "ws_http_cb_dialer: Upgrade value")
    put("wsCliHeaderErr", errs[m.group(4)], "ws_http_cb_dialer: result when a response header test fails")
    m = X.one(r'if \(d->proto != NULL\) \{\s*if \(\(\(ptr = nng_http_get_header\(\s*ws->http, "Sec-WebSocket-Protocol"\)\) == NULL\) \|\|\s*'
              r'\(!ws_contains_word\(d->proto, ptr\)\)\) \{\s*ws_close_error\(ws, WS_CLOSE_PROTOCOL_ERR\);\s*rv = NNG_(E\w+);', dl, "response protocol test")
    put("wsCliProtoErr", errs[m.group(1)], "ws_http_cb_dialer: result when the protocol test fails")
    put("wsErrEinval", errs["EINVAL"], "nng.h NNG_EINVAL")
    em = re.findall(r'nni_http_set_static_header\(\s*ws->http, &ws->hdrs\.\w+,\s*"([^"]*)", ("[^"]*"|ws->keybuf|d->proto)\);', cc)
    put("wsCliEmits", [(a, b.strip('"') if b.startswith('"') else "$" + b.split(">")[-1]) for a, b in em],
        "ws_conn_cb: headers of the upgrade request in source order ($keybuf = the key, $proto = the dialer's protocol, only if set)")

    cw = X.func_body(ws_src, "ws_contains_word")
    X.one(r"size_t len = strlen\(word\);\s*while \(\(phrase != NULL\) && \(\*phrase != '\\0'\)\) \{\s*"
          r"if \(\(nni_strncasecmp\(phrase, word, len\) == 0\) &&\s*\(\(phrase\[len\] == 0\) \|\| \(phrase\[len\] == ' '\) \|\|\s*\(phrase\[len\] == ','\)\)\) \{\s*return \(true\);\s*\}\s*"
          r"if \(\(phrase = strchr\(phrase, ' '\)\) != NULL\) \{\s*while \(\(\*phrase == ' '\) \|\| \(\*phrase == ','\)\) \{\s*phrase\+\+;\s*\}\s*\}\s*\}\s*return \(false\);",
          cw, "ws_contains_word loop")
