"""constants and shape anchors for the raw SURVEYOR / raw RESPONDENT models (C07, work item C07X)"""
import re
from . import extract as X


def hook(put):
    xs = X.src("src/sp/protocol/survey0/xsurvey.c")
    xr = X.src("src/sp/protocol/survey0/xrespond.c")
    sock = X.src("src/core/socket.c")
    mq = X.src("src/core/msgqueue.c")
    put("xsvProtoSelf", X.define(xs, "SURVEYOR0_SELF"), "survey0/xsurvey.c SURVEYOR0_SELF")
    put("xsvProtoPeer", X.define(xs, "SURVEYOR0_PEER"), "survey0/xsurvey.c SURVEYOR0_PEER")
    m = X.one(r"#define\s+NNI_PROTO_SURVEYOR_V0\s+NNI_PROTO\((\d+), (\d+)\)", xr, "SURVEYOR proto id (xrespond.c)")
    put("xrsProtoPeer", int(m.group(1)) * 16 + int(m.group(2)), "survey0/xrespond.c NNI_PROTO_SURVEYOR_V0")
    m = X.one(r"#define\s+NNI_PROTO_RESPONDENT_V0\s+NNI_PROTO\((\d+), (\d+)\)", xr, "RESPONDENT proto id (xrespond.c)")
    put("xrsProtoSelf", int(m.group(1)) * 16 + int(m.group(2)), "survey0/xrespond.c NNI_PROTO_RESPONDENT_V0")
    # per-pipe send queue depths
    m = X.one(r"nni_msgq_init\(&p->sendq, (\d+)\)", X.func_body(xs, "xsurv0_pipe_init"), "xsurvey pipe sendq depth")
    put("xsvPipeSendq", int(m.group(1)), "survey0/xsurvey.c xsurv0_pipe_init per-pipe send queue depth")
    m = X.one(r"nni_msgq_init\(&p->sendq, (\d+)\)", X.func_body(xr, "xresp0_pipe_init"), "xrespond pipe sendq depth")
    put("xrsPipeSendq", int(m.group(1)), "survey0/xrespond.c xresp0_pipe_init per-pipe send queue depth")
    # default ttl, ttl option range
    m = X.one(r"nni_atomic_set\(&s->ttl, (\d+)\)", X.func_body(xs, "xsurv0_sock_init"), "xsurvey default ttl")
    put("xsvTtlInit", int(m.group(1)), "survey0/xsurvey.c xsurv0_sock_init default ttl")
    m = X.one(r"nni_atomic_set\(&s->ttl, (\d+)\)", X.func_body(xr, "xresp0_sock_init"), "xrespond default ttl")
    put("xrsTtlInit", int(m.group(1)), "survey0/xrespond.c xresp0_sock_init default ttl")
    m = X.one(r"nni_copyin_int\(&ttl, buf, sz, (\d+), NNI_MAX_MAX_TTL, t\)", X.func_body(xs, "xsurv0_sock_set_max_ttl"), "xsurvey ttl range")
    put("xsvTtlMin", int(m.group(1)), "survey0/xsurvey.c xsurv0_sock_set_max_ttl lower bound (upper: NNI_MAX_MAX_TTL)")
    m = X.one(r"nni_copyin_int\(&ttl, buf, sz, (\d+), NNI_MAX_MAX_TTL, t\)", X.func_body(xr, "xresp0_sock_set_maxttl"), "xrespond ttl range")
    put("xrsTtlMin", int(m.group(1)), "survey0/xrespond.c xresp0_sock_set_maxttl lower bound (upper: NNI_MAX_MAX_TTL)")
    # socket-level queue depths
    b = X.func_body(sock, "nni_sock_create")
    m1 = X.one(r"nni_msgq_init\(&s->s_uwq, (\d+)\)", b, "socket uwq default depth")
    m2 = X.one(r"nni_msgq_init\(&s->s_urq, (\d+)\)", b, "socket urq default depth")
    put("xsvSockSendq", int(m1.group(1)), "core/socket.c nni_sock_create s_uwq depth (raw sockets send through it)")
    put("xsvSockRecvq", int(m2.group(1)), "core/socket.c nni_sock_create s_urq depth (raw sockets receive through it)")
    # shape anchors: the loops the models take from Model/Backtrace.lean (C13)
    rb = X.func_body(xr, "xresp0_recv_cb")
    X.one(r"nni_msg_header_append_u32\(msg, p->id\);", rb, "xrespond stores the pipe id first")
    X.one(r"hops = 1;\s*for \(;;\) \{[^}]*?if \(hops > ttl\) \{\s*goto drop;\s*\}\s*hops\+\+;\s*if \(nni_msg_len\(msg\) < 4\)", rb, "xrespond hop loop")
    X.one(r"end\s*=\s*\(\(body\[0\] & 0x80u\) != 0\);", rb, "xrespond terminator test")
    X.one(r"drop:\s*nni_msg_free\(msg\);\s*nni_pipe_recv\(p->npipe, &p->aio_recv\);", rb, "xrespond drop re-arms the receive")
    X.one(r"nni_aio_set_msg\(&p->aio_putq, msg\);\s*nni_msgq_aio_put\(urq, &p->aio_putq\);", rb, "xrespond hands up through the read queue")
    gb = X.func_body(xr, "xresp0_sock_getq_cb")
    X.one(r"if \(nni_msg_header_len\(msg\) < 4\) \{\s*nni_msg_free\(msg\);", gb, "xrespond short header discards")
    X.one(r"id = nni_msg_header_trim_u32\(msg\);", gb, "xrespond pops the pipe id")
    X.one(r"if \(\(\(p = nni_id_get\(&s->pipes, id\)\) == NULL\) \|\|\s*\(nni_msgq_tryput\(p->sendq, msg\) != 0\)\) \{\s*nni_msg_free\(msg\);", gb,
          "xrespond unknown pipe / full queue discards")
    sb = X.func_body(xs, "xsurv0_recv_cb")
    X.one(r"while \(!end\) \{[^}]*?if \(nni_msg_len\(msg\) < 4\) \{[^}]*?nni_msg_free\(msg\);\s*nni_pipe_close\(p->npipe\);", sb, "xsurvey end loop")
    X.one(r"end\s*=\s*\(\(body\[0\] & 0x80u\) != 0\);", sb, "xsurvey terminator test")
    X.one(r"nni_aio_set_msg\(&p->aio_putq, msg\);\s*nni_msgq_aio_put\(p->psock->urq, &p->aio_putq\);", sb, "xsurvey hands up through the read queue")
    fb = X.func_body(xs, "xsurv0_sock_getq_cb")
    X.one(r"NNI_LIST_FOREACH \(&s->pipes, p\) \{\s*nni_msg_clone\(msg\);\s*if \(nni_msgq_tryput\(p->sendq, msg\) != 0\) \{\s*nni_msg_free\(msg\);\s*\}\s*\}",
          fb, "xsurvey fan-out loop")
    # nni_msgq_aio_get / put look at the queue before starting the aio (F13 repaired): 1 if so
    g = X.func_body(mq, "nni_msgq_aio_get")
    p = X.func_body(mq, "nni_msgq_aio_put")
    def queue_first(body):
        i_start = body.find("nni_aio_start(")
        i_test = min([i for i in (body.find("mq_len"), body.find("nni_list_empty")) if i >= 0] or [-1])
        return 1 if 0 <= i_test < i_start else 0
    put("xsvMsgqQueueFirst", 1 if queue_first(g) and queue_first(p) else 0,
        "core/msgqueue.c nni_msgq_aio_get/put: 1 if the queue is examined before nni_aio_start (non-blocking operations "
        "complete from the queue; F13 repaired)")
