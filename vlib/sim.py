"""SIM executor runs: protocol op sequences against the real library (simulated platform +
mock transport), each under several schedules; every implementation trace is (a) judged by
the Lean trace predicate of the property and (b) compared with the Lean model's outputs."""
import os, time, json
from . import core, build, lean

SIM_SOURCES = ["simplat.c", "simev.c", "mocktran.c", "valloc.c"]


def canon(line):
    """order of events inside one quiescent batch is not significant"""
    if " ; " not in line:
        return line
    return " ; ".join(sorted(line.split(" ; ")))


class SimResult:
    def __init__(self):
        self.cases = 0
        self.runs = 0
        self.ops = 0
        self.judge_viol = []     # dict(case, sched, ops, clause, op_index, impl)
        self.model_mismatch = []
        self.crashes = []
        self.op_hist = {}
        self.ev_hist = {}


def build_sim(name, extra_sources):
    return build.harness(name, SIM_SOURCES + extra_sources)


def run_sim(prop, cases, exe, model_comp, judge_comp, scheds=(1, 2, 3), hist_key=None, timeout=900):
    res = SimResult()
    res.cases = len(cases)
    jobs = []
    for ci, ops in enumerate(cases):
        for k in scheds:
            jobs.append((ci, k, [f"sched {k}"] + ops))
        for l in ops:
            w = l.split()[0]
            res.op_hist[w] = res.op_hist.get(w, 0) + 1
    res.runs = len(jobs)
    res.ops = sum(len(j[2]) for j in jobs)
    env = build.env()
    parts = core.chunked(jobs, core.NCPU)

    def work(part):
        text = core.cases_to_text([j[2] for j in part])
        impl = core.run_stream([exe], text, env=env, timeout=timeout)
        if impl.rc == -999:
            # the whole stream ran out of wall time: a genuinely stuck case is turned into a result by
            # the harness's own per-line watchdog (HANG / DEADLOCK), so this is a slow machine: once more
            impl = core.run_stream([exe], text, env=env, timeout=timeout * 3)
        icases, partial = core.split_cases(impl.lines)
        out = {"impl": impl, "icases": icases, "partial": partial}
        if model_comp:
            out["model"] = core.split_cases(core.run_stream(lean.driver_cmd(model_comp), text).lines)[0]
        if judge_comp:
            jl = []
            for j, (_, _, ops) in enumerate(part):
                if j >= len(icases):
                    break
                for op, o in zip(ops, icases[j]):
                    jl.append(f"{op} => {o}")
                jl.append("reset")
            out["judge"] = core.split_cases(core.run_stream(lean.driver_cmd(judge_comp), "\n".join(jl) + "\n").lines)[0]
        return part, out

    for part, out in core.parallel_map(work, parts):
        icases = out["icases"]
        if out["impl"].rc != 0 or len(icases) != len(part):
            k = len(icases)
            ci, sk, ops = part[k] if k < len(part) else part[-1]
            res.crashes.append({"case": ci, "sched": sk, "ops": ops, "done_ops": len(out["partial"]), "rc": out["impl"].rc,
                                "last": out["partial"][-3:], "stderr": out["impl"].err[-3000:]})
        for j, (ci, sk, ops) in enumerate(part):
            if j >= len(icases):
                break
            il = icases[j]
            for l in il:
                for e in l.split(" ; "):
                    w = " ".join(e.split()[:1])
                    res.ev_hist[w] = res.ev_hist.get(w, 0) + 1
            if judge_comp and j < len(out["judge"]):
                for t, v in enumerate(out["judge"][j]):
                    if v.startswith("VIOLATION"):
                        res.judge_viol.append({"case": ci, "sched": sk, "ops": ops, "clause": v[10:], "op_index": t,
                                               "impl": il[t] if t < len(il) else None})
                        break
            if model_comp and j < len(out["model"]):
                for t, (a, b) in enumerate(zip(il, out["model"][j])):
                    if canon(a) != canon(b):
                        res.model_mismatch.append({"case": ci, "sched": sk, "ops": ops, "op_index": t, "impl": a, "model": b})
                        break
    return res


def run_one(exe, comp, ops, judge=False):
    env = build.env()
    text = core.cases_to_text([ops])
    impl = core.run_stream([exe], text, env=env, timeout=120)
    ic = core.split_cases(impl.lines)
    il = ic[0][0] if ic[0] else ic[1]
    if comp is None:
        return impl, il, None
    if judge:
        jl = [f"{op} => {o}" for op, o in zip(ops, il)] + ["reset"]
        other = core.split_cases(core.run_stream(lean.driver_cmd(comp), "\n".join(jl) + "\n").lines)[0]
    else:
        other = core.split_cases(core.run_stream(lean.driver_cmd(comp), text).lines)[0]
    return impl, il, (other[0] if other else [])


def minimise(exe, comp, ops, judge, budget_s=45):
    """ddmin keeping the leading `sched` line; failure = crash, judge violation or model diff"""

    def fails(o):
        impl, il, other = run_one(exe, comp, o, judge)
        if impl.rc != 0:
            return True
        if other is None:
            return False
        if judge:
            return any(v.startswith("VIOLATION") for v in other)
        return any(canon(a) != canon(b) for a, b in zip(il, other))

    if not fails(ops):
        return ops
    return core.ddmin(ops, fails, budget_s, keep_prefix=2)
