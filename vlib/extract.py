"""Translator part: re-extract constants and tables from /repo's current sources
into lean/NngModel/Generated/*.lean.  Fails loudly (ExtractError) when an anchor
is missing: that is a broken correspondence, never a silent default."""
import os, re, sys, subprocess, json, hashlib

REPO = os.environ.get("VERIF_REPO", "/repo")
HERE = os.path.dirname(os.path.dirname(os.path.abspath(__file__)))
GEN = os.path.join(HERE, "lean", "NngModel", "Generated")


class ExtractError(Exception):
    pass


def src(rel):
    with open(os.path.join(REPO, rel), encoding="utf-8", errors="replace") as f:
        return f.read()


def strip_comments(s):
    s = re.sub(r"/\*.*?\*/", " ", s, flags=re.S)
    s = re.sub(r"//[^\n]*", " ", s)
    return s


def func_body(text, name):
    """text of the C function `name` (definition), comments stripped."""
    t = strip_comments(text)
    m = re.search(r"\n" + re.escape(name) + r"\s*\([^;{]*\)\s*\{", t)
    if not m:
        raise ExtractError(f"function {name} not found")
    i = m.end()
    depth = 1
    while depth and i < len(t):
        if t[i] == "{":
            depth += 1
        elif t[i] == "}":
            depth -= 1
        i += 1
    return t[m.end() : i - 1]


def one(pattern, text, what, flags=re.S):
    m = re.search(pattern, text, flags)
    if not m:
        raise ExtractError(f"anchor missing: {what} (/{pattern}/)")
    return m


def cint(s):
    s = s.strip().rstrip("uUlL")
    return int(s, 0)


def define(text, name):
    m = one(r"#\s*define\s+" + name + r"\s+\(?\s*([0-9xXa-fA-F]+)[uUlL]*\s*\)?\s*$", text, f"#define {name}", re.M)
    return cint(m.group(1))


# ---------------------------------------------------------------------------

def consts():
    """name -> (value, provenance).  Values are ints, or lists for tables."""
    out = {}
    group = ["Base"]

    def put(k, v, prov):
        if k in out and out[k][2] != group[0]:
            raise ExtractError(f"constant name {k} defined by two extraction hooks ({out[k][2]} and {group[0]})")
        out[k] = (v, prov, group[0])

    errors = {}

    def fallback(g, e):
        """an anchor of group g no longer matches: keep the values of the last good extraction (the generated
        file on disk) so that the search for a failing input can still run; the breakage is reported through
        ERRORS to every property whose proofs import that group"""
        errors[g] = str(e)
        for k in [k for k, t in out.items() if t[2] == g]:
            del out[k]
        for k, (v, prov) in read_generated(g).items():
            out[k] = (v, prov, g)

    def base():
        defs = src("src/core/defs.h")
        maxttl = define(defs, "NNI_MAX_MAX_TTL")
        put("maxMaxTtl", maxttl, "core/defs.h NNI_MAX_MAX_TTL")
        one(r"#define\s+NNI_MAX_HEADER_SIZE\s+\(\(NNI_MAX_MAX_TTL \+ 1\) \* sizeof\(uint32_t\)\)", defs, "NNI_MAX_HEADER_SIZE shape")
        put("expireBatch", define(defs, "NNI_EXPIRE_BATCH"), "core/defs.h NNI_EXPIRE_BATCH")

        msg = strip_comments(src("src/core/message.c"))
        one(r"uint32_t\s+m_header_buf\[\(NNI_MAX_MAX_TTL \+ 1\)\];", msg, "nng_msg.m_header_buf dimension")
        put("headerCap", (maxttl + 1) * 4, "core/message.c m_header_buf[(NNI_MAX_MAX_TTL+1)] of uint32_t")
        body = func_body(src("src/core/message.c"), "nni_msg_alloc")
        m = one(r"if \(\(sz < (\d+)\) \|\| \(\(sz & \(sz - 1\)\) != 0\)\) \{\s*rv = nni_chunk_grow\(&m->m_body, sz \+ (\d+), (\d+)\);\s*\} else \{\s*rv = nni_chunk_grow\(&m->m_body, sz, 0\);", body, "nni_msg_alloc headroom policy")
        if m.group(2) != m.group(3):
            raise ExtractError("nni_msg_alloc: tail slack and headroom differ; model assumes equal")
        put("msgBigThreshold", int(m.group(1)), "core/message.c nni_msg_alloc")
        put("msgHeadroom", int(m.group(2)), "core/message.c nni_msg_alloc")
        ins = func_body(src("src/core/message.c"), "nni_chunk_insert")
        one(r"\(needed \+ sizeof\(uint64_t\)\) <= ch->ch_cap", ins, "nni_chunk_insert pad test")
        one(r"shift\s*=\s*\(shift \+ \(sizeof\(uint64_t\) - 1\)\) &\s*~\(sizeof\(uint64_t\) - 1\);", ins, "nni_chunk_insert rounding")

        # error numbers
        nngh = src("include/nng/nng.h")
        errs = {}
        for name in ["EINTR", "ENOMEM", "EINVAL", "EBUSY", "ETIMEDOUT", "ECONNREFUSED", "ECLOSED", "EAGAIN", "ENOTSUP",
                     "EADDRINUSE", "ESTATE", "ENOENT", "EPROTO", "EUNREACHABLE", "EADDRINVAL", "EPERM", "EMSGSIZE",
                     "ECONNABORTED", "ECONNRESET", "ECANCELED", "ENOFILES", "ENOSPC", "EEXIST", "EREADONLY",
                     "EWRITEONLY", "ECRYPTO", "EPEERAUTH", "EBADTYPE", "ECONNSHUT", "ESTOPPED"]:
            m = one(r"\bNNG_" + name + r"\s*=\s*(\d+)", nngh, "NNG_" + name)
            errs[name.lower()] = int(m.group(1))
        put("errTable", sorted(errs.items()), "include/nng/nng.h enum nng_err")
    try:
        base()
    except (ExtractError, OSError) as e:
        fallback("Base", e)
    for hook in EXTRA:
        group[0] = GROUP_OF.get(hook, "Misc")
        try:
            hook(put)
        except (ExtractError, OSError) as e:
            fallback(group[0], e)
    ERRORS.clear()
    ERRORS.update(errors)
    return out


ERRORS = {}  # group -> message of the anchor that no longer matches (filled by consts())


def read_generated(g):
    """values of the last good extraction of group g (Generated/<g>.pyval, written next to <g>.lean):
    name -> (value, provenance)"""
    import ast
    path = os.path.join(GEN, f"{g}.pyval")
    if not os.path.exists(path):
        return {}
    try:
        return {k: (v, prov) for k, (v, prov) in ast.literal_eval(open(path).read()).items()}
    except Exception:
        return {}


EXTRA = []  # extraction hooks fn(put), one per vlib/extract_*.py (loaded below)
GROUP_OF = {}  # hook -> name of the generated Lean file (Generated/<Group>.lean)


def _load_hooks():
    import importlib, glob
    here = os.path.dirname(os.path.abspath(__file__))
    for f in sorted(glob.glob(os.path.join(here, "extract_*.py"))):
        name = os.path.basename(f)[:-3]
        mod = importlib.import_module(f"vlib.{name}")
        if mod.hook not in EXTRA:
            EXTRA.append(mod.hook)
            GROUP_OF[mod.hook] = name[len("extract_"):].upper().replace("_", "")


def lean_value(v):
    if isinstance(v, bool):
        return "true" if v else "false"
    if isinstance(v, int):
        return str(v)
    if isinstance(v, str):
        return json.dumps(v)
    if isinstance(v, (list, tuple)):
        if isinstance(v, tuple):
            return "(" + ", ".join(lean_value(x) for x in v) + ")"
        return "[" + ", ".join(lean_value(x) for x in v) + "]"
    raise TypeError(v)


def lean_type(v):
    if isinstance(v, bool):
        return "Bool"
    if isinstance(v, int):
        return "Nat"
    if isinstance(v, str):
        return "String"
    if isinstance(v, tuple):
        return "(" + " × ".join(lean_type(x) for x in v) + ")"
    if isinstance(v, list):
        return "List " + (lean_type(v[0]) if v else "Nat")
    raise TypeError(v)


def render(c, group):
    lines = ["/- GENERATED by vlib/extract.py from /repo's working tree on every run. Do not edit. -/",
             "namespace Nng.Generated", ""]
    for k, (v, prov, g) in c.items():
        if g != group:
            continue
        lines.append(f"/-- {prov} -/")
        lines.append(f"def {k} : {lean_type(v)} := {lean_value(v)}")
        lines.append("")
    lines.append("end Nng.Generated")
    return "\n".join(lines) + "\n"


def generate():
    """Writes Generated/<Group>.lean (one file per extraction hook, so that a changed constant only
    invalidates the proofs that depend on it) and the umbrella Generated/Consts.lean, each only if
    changed; returns (consts, changed_names)."""
    _load_hooks()
    c = consts()
    os.makedirs(GEN, exist_ok=True)
    groups = []
    for _, (_, _, g) in c.items():
        if g not in groups:
            groups.append(g)
    changed = []
    for g in groups:
        if g in ERRORS:
            continue
        path = os.path.join(GEN, f"{g}.lean")
        new = render(c, g)
        old = open(path).read() if os.path.exists(path) else ""
        pv = os.path.join(GEN, f"{g}.pyval")
        pvnew = repr({k: (v, prov) for k, (v, prov, gg) in c.items() if gg == g})
        if not os.path.exists(pv) or open(pv).read() != pvnew:
            open(pv, "w").write(pvnew)
        if old != new:
            oldvals = dict(re.findall(r"^def (\w+) : [^\n]*? := ([^\n]*)$", old, re.M))
            for k, (v, _, gg) in c.items():
                if gg == g and oldvals.get(k) != lean_value(v):
                    changed.append(k)
            with open(path, "w") as f:
                f.write(new)
    umbrella = "/- GENERATED umbrella: imports every Generated/<Group>.lean. Models import only the groups they use. -/\n" + \
               "".join(f"import NngModel.Generated.{g}\n" for g in groups)
    upath = os.path.join(GEN, "Consts.lean")
    if not os.path.exists(upath) or open(upath).read() != umbrella:
        open(upath, "w").write(umbrella)
    return {k: (v, p) for k, (v, p, _) in c.items()}, changed


def groups_of_names():
    _load_hooks()
    return {k: g for k, (_, _, g) in consts().items()}


if __name__ == "__main__":
    sys.path.insert(0, HERE)
    from vlib import extract as _E  # run as a package member so hooks can `from . import extract`
    c, ch = _E.generate()
    print(f"extracted {len(c)} constants/tables; changed: {ch}")
