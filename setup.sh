#!/bin/sh
# Offline setup: build the Lean project (models, proofs, driver) and the cached sanitizer build of
# /repo's working tree.  Everything is rebuilt on demand by the checks anyway; this only warms caches.
set -e
cd "$(dirname "$0")"
python3 vlib/extract.py
(cd lean && lake build)
python3 vlib/build.py asan >/dev/null
echo setup-ok
