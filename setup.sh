#!/bin/sh
# Offline setup: build the Lean project (models, all property modules, driver) and the cached sanitizer
# build of /repo's working tree.  Everything is rebuilt on demand by the checks anyway; this warms caches.
set -e
cd "$(dirname "$0")"
python3 vlib/extract.py
python3 -c "import sys; sys.path.insert(0,'.'); from vlib import lean; lean.gen_main()"
MODS=$(cd lean/NngModel/Props && ls *.lean | sed 's/\.lean$//; s/^/NngModel.Props./')
(cd lean && lake build driver)
# property modules: a module that does not build is reported by its own check, not by setup
(cd lean && lake build $MODS) || echo "setup: some property modules did not build (their checks will report it)"
python3 vlib/build.py asan >/dev/null
echo setup-ok
