// REAL end-to-end scenario for C09: cooked BUS peers talk through nng_device over inproc.
//   r_busdev bridge  <na> <nb> <rounds> <seed>   device between two raw BUS sockets A and B;
//                                                 na peers dial A, nb peers dial B
//   r_busdev reflect <n>  0    <rounds> <seed>   device(A, A): one raw BUS socket forwarding
//                                                 among its own n peers (the raw header names
//                                                 the arrival pipe, which must be skipped)
// Each round one peer (chosen from the seed) sends one numbered message; then every peer
// drains what it can get (short timeout).  Output: the trace
//   sent <peer> <seq> <rv>      got <peer> <origin> <seq>      end
// The judge (vlib/props/c09.py) checks: never delivered back to the sender, at most once per
// peer, per-origin order; in bridge mode never to a peer on the sender's own side.
#include <nng/nng.h>
#include <stdio.h>
#include <stdlib.h>
#include <string.h>

#define MAXPEER 8
static nng_socket peers[MAXPEER];
static int        peer_raw[MAXPEER]; // `rawfan` mode: this peer is a RAW bus socket (it sees the protocol header)

static void
fatal(const char *what, int rv)
{
	printf("fatal %s %d\n", what, rv);
	exit(2);
}

static void
drain(int np, int wait_ms)
{
	for (int p = 0; p < np; p++) {
		for (;;) {
			nng_msg *m;
			nng_socket_set_ms(peers[p], NNG_OPT_RECVTIMEO, wait_ms);
			int rv = nng_recvmsg(peers[p], &m, 0);
			if (rv != 0) {
				break;
			}
			uint8_t *b = nng_msg_body(m);
			if (peer_raw[p]) {
				// a raw receiver: the header is exactly one word, the id of the pipe the message arrived on
				uint32_t pid = (uint32_t) nng_pipe_id(nng_msg_get_pipe(m));
				uint8_t *h   = nng_msg_header(m);
				if (nng_msg_len(m) == 3 && nng_msg_header_len(m) == 4 &&
				    ((uint32_t) h[0] << 24 | (uint32_t) h[1] << 16 | (uint32_t) h[2] << 8 | h[3]) == pid) {
					printf("got %d %d %d\n", p, b[0], (b[1] << 8) | b[2]);
				} else {
					printf("got %d bad %zu %zu\n", p, nng_msg_len(m), nng_msg_header_len(m));
				}
			} else if (nng_msg_len(m) == 3 && nng_msg_header_len(m) == 0) {
				printf("got %d %d %d\n", p, b[0], (b[1] << 8) | b[2]);
			} else {
				printf("got %d bad %zu %zu\n", p, nng_msg_len(m), nng_msg_header_len(m));
			}
			nng_msg_free(m);
		}
	}
}

int
main(int argc, char **argv)
{
	if (argc != 6) {
		return (2);
	}
	int      reflect = strcmp(argv[1], "reflect") == 0;
	int      rawfan  = strcmp(argv[1], "rawfan") == 0; // no device: peer 0 (cooked) listens, the others are RAW dialers
	int      na = atoi(argv[2]), nb = atoi(argv[3]), rounds = atoi(argv[4]);
	uint64_t seed = strtoull(argv[5], NULL, 10) * 0x9e3779b97f4a7c15ull + 1;
	int      np   = na + nb;
	int      rv;
	nng_socket da, db;
	nng_aio   *daio;

	if (np > MAXPEER || np < 2) {
		return (2);
	}
	nng_init(NULL);
	if (rawfan) {
		// peer 0: cooked listener and the only sender; peers 1..np-1: RAW dialers (fan-out to several raw receivers
		// over inproc: each must get its own message whose header names the pipe it arrived on)
		if ((rv = nng_bus0_open(&peers[0])) != 0) fatal("open", rv);
		if ((rv = nng_listen(peers[0], "inproc://c09-f", NULL, 0)) != 0) fatal("listen", rv);
		for (int p = 1; p < np; p++) {
			peer_raw[p] = 1;
			if ((rv = nng_bus0_open_raw(&peers[p])) != 0) fatal("open", rv);
			if ((rv = nng_dial(peers[p], "inproc://c09-f", NULL, 0)) != 0) fatal("dial", rv);
		}
		nng_msleep(50);
		for (int q = 0; q < rounds; q++) {
			nng_msg *m;
			nng_msg_alloc(&m, 0);
			uint8_t b[3] = { 0, (uint8_t) (q >> 8), (uint8_t) q };
			nng_msg_append(m, b, 3);
			rv = nng_sendmsg(peers[0], m, (q & 1) ? NNG_FLAG_NONBLOCK : 0);
			if (rv != 0) {
				nng_msg_free(m);
			}
			printf("sent 0 %d %d\n", q, rv);
			drain(np, 10);
		}
		drain(np, 100);
		printf("end\n");
		fflush(stdout);
		for (int p = 0; p < np; p++) {
			nng_socket_close(peers[p]);
		}
		nng_fini();
		return (0);
	}
	if ((rv = nng_bus0_open_raw(&da)) != 0) fatal("open", rv);
	if ((rv = nng_listen(da, "inproc://c09-a", NULL, 0)) != 0) fatal("listen", rv);
	if (!reflect) {
		if ((rv = nng_bus0_open_raw(&db)) != 0) fatal("open", rv);
		if ((rv = nng_listen(db, "inproc://c09-b", NULL, 0)) != 0) fatal("listen", rv);
	} else {
		db = da;
	}
	for (int p = 0; p < np; p++) {
		if ((rv = nng_bus0_open(&peers[p])) != 0) fatal("open", rv);
		if ((rv = nng_dial(peers[p], p < na ? "inproc://c09-a" : "inproc://c09-b", NULL, 0)) != 0) fatal("dial", rv);
	}
	nng_msleep(50);
	if ((rv = nng_aio_alloc(&daio, NULL, NULL)) != 0) fatal("aio", rv);
	nng_device_aio(daio, da, db);
	int q = 0; // message number (unique per scenario)
	for (int r = 0; r < rounds; r++) {
		seed      = seed * 6364136223846793005ull + 1442695040888963407ull;
		int      p = (int) ((seed >> 33) % (unsigned) np);
		// every third round on average is a burst of 8 back-to-back messages of one peer: several
		// messages of the same origin are then inside the device at the same time (order clause)
		int      burst = ((seed >> 45) % 3 == 0) ? 8 : 1;
		for (int i = 0; i < burst && q < 65000; i++, q++) {
			nng_msg *m;
			nng_msg_alloc(&m, 0);
			uint8_t b[3] = { (uint8_t) p, (uint8_t) (q >> 8), (uint8_t) q };
			nng_msg_append(m, b, 3);
			// alternate blocking and non-blocking sends: BUS send never blocks
			rv = nng_sendmsg(peers[p], m, (q & 1) ? NNG_FLAG_NONBLOCK : 0);
			if (rv != 0) {
				nng_msg_free(m);
			}
			printf("sent %d %d %d\n", p, q, rv);
		}
		if ((seed >> 20) % 4 != 0) {
			drain(np, rounds > 100 ? 3 : 20);
		}
	}
	drain(np, 150);
	printf("end\n");
	fflush(stdout);
	nng_aio_cancel(daio);
	nng_aio_wait(daio);
	nng_aio_free(daio);
	for (int p = 0; p < np; p++) {
		nng_socket_close(peers[p]);
	}
	nng_socket_close(da);
	if (!reflect) {
		nng_socket_close(db);
	}
	nng_fini();
	return (0);
}
