// C20 support (UNIT): the real websocket.c under "fail the k-th allocation".
//
// Reuses u_ws.c as it is (that file #includes the real supplemental/websocket/websocket.c and replaces
// only the HTTP byte transport and nni_random): its main() is renamed away and this file provides the op
// loop, with harness/valloc.c (accounting + fail-the-k-th allocation) installed through nni_alloc_set
// before nng_init.
//
// Lines (one output line each):
//   failat <k>                      from now on the k-th allocation fails (one shot, 0 = never);
//                                   counters reset, the live-block baseline is taken here
//   cfg <server> <isstream> <recvtext> <sendtext> <maxframe> <recvmax> <fragsize>
//                                   ws_init + the state the handshake leaves behind + one receive posted
//   rx <hex>                        transport delivers bytes (as in u_ws.c)
//   send <hdrhex> <bodyhex> <seed>  ws_str_send + write completions (as in u_ws.c)
//   close                           ws_close_error(NORMAL) + write completions
//   end                             teardown (close, write completions, ws_fini), failure injection off,
//                                   -> end live=<blocks above the baseline> badfree=<n> allocs=<n> fired=<n>
//   reset                           teardown; -> reset
// A stuck operation (self-deadlock on a non-error-checking mutex, lost completion) is turned into
// "HANG" + exit 4 by the alarm watchdog; a panic (error-checking mutex) aborts the process.
#define main u_ws_main_unused
#include "u_ws.c"
#undef main

#include "valloc.h"

#include <signal.h>
#include <unistd.h>

static void
on_alarm(int sig)
{
	(void) sig;
	static const char msg[] = "HANG\n";
	(void) !write(1, msg, sizeof(msg) - 1);
	_exit(4);
}

static unsigned long live0, fired0;

int
main(void)
{
	setvbuf(stdout, NULL, _IOLBF, 0);
	signal(SIGALRM, on_alarm);
	nni_alloc_set(valloc_malloc, valloc_calloc, valloc_free);
	if (nng_init(NULL) != 0) {
		fprintf(stderr, "nng_init failed\n");
		return (3);
	}
	nng_aio_alloc(&raio, NULL, NULL);
	nng_aio_alloc(&saio, NULL, NULL);
	nng_aio_set_timeout(raio, NNG_DURATION_INFINITE);
	nng_aio_set_timeout(saio, NNG_DURATION_INFINITE);
	strbufsz = (size_t) 1 << 21;
	strbuf   = malloc(strbufsz);

	while (next_line()) {
		unsigned long live, bytes, bad, tot;
		if (vn == 0) {
			continue;
		}
		alarm(20);
		const char *op = vw[0];
		if (strcmp(op, "reset") == 0) {
			valloc_fail_at(0);
			teardown();
			printf("reset\n");
			continue;
		}
		if (strcmp(op, "failat") == 0 && vn == 2) {
			teardown();
			valloc_reset_counters();
			valloc_stats(&live0, &bytes, &bad, &tot);
			fired0 = valloc_failures_fired();
			valloc_fail_at(atol(vw[1]));
			printf("ok\n");
			continue;
		}
		if (strcmp(op, "end") == 0) {
			teardown();
			valloc_fail_at(0);
			valloc_stats(&live, &bytes, &bad, &tot);
			printf("end live=%ld badfree=%lu allocs=%lu fired=%lu\n", (long) live - (long) live0, bad, tot,
			    valloc_failures_fired() - fired0);
			continue;
		}
		if (strcmp(op, "cfg") == 0 && vn == 8) {
			teardown();
			ws = NULL;
			if (ws_init(&ws) != 0) {
				ws = NULL;
				printf("cfg rv=2\n");
				continue;
			}
			ws->server    = atoi(vw[1]) != 0;
			ws->isstream  = atoi(vw[2]) != 0;
			ws->recv_text = atoi(vw[3]) != 0;
			ws->send_text = atoi(vw[4]) != 0;
			ws->maxframe  = strtoull(vw[5], NULL, 10);
			ws->recvmax   = strtoull(vw[6], NULL, 10);
			ws->fragsize  = strtoull(vw[7], NULL, 10);
			ws->ready     = true;
			nni_aio_set_timeout(&ws->closeaio, 600000); // keep the linger timer out of the way
			lcg        = 0;
			recv_armed = true;
			post_recv();
			collect_recv(); // the receive may have failed at once (no frame could be allocated)
			status("cfg");
			continue;
		}
		if (ws == NULL) {
			printf("no-ws\n");
			continue;
		}
		if (strcmp(op, "rx") == 0 && vn == 2) {
			size_t   n;
			uint8_t *b = parse_hex(vw[1], &n);
			feed(b, n);
			free(b);
			collect_recv();
			status("rx");
		} else if (strcmp(op, "send") == 0 && vn == 4) {
			size_t   hn, bn;
			uint8_t *h = parse_hex(vw[1], &hn);
			uint8_t *b = parse_hex(vw[2], &bn);
			int      rv;
			lcg = (uint32_t) strtoul(vw[3], NULL, 10);
			if (ws->isstream) {
				nng_iov iov;
				iov.iov_buf = b;
				iov.iov_len = bn;
				nng_aio_set_iov(saio, 1, &iov);
			} else {
				nng_msg *m = NULL;
				if (nng_msg_alloc(&m, 0) != 0 || nng_msg_header_append(m, h, hn) != 0 ||
				    nng_msg_append(m, b, bn) != 0) {
					// the injected failure hit the harness's own message
					if (m != NULL) {
						nng_msg_free(m);
					}
					free(h);
					free(b);
					printf("harness-enomem\n");
					continue;
				}
				nng_aio_set_msg(saio, m);
			}
			ws_str_send(ws, saio);
			pump_writes();
			nng_aio_wait(saio);
			rv = nng_aio_result(saio);
			if (!ws->isstream) {
				nng_msg *m = nng_aio_get_msg(saio);
				if (m != NULL) {
					if (rv == 0) {
						printf("send-kept-msg "); // on success the message belongs to the stream
					}
					nng_aio_set_msg(saio, NULL);
					nng_msg_free(m);
				}
			}
			collect_recv();
			printf("send rv=%d n=%zu closed=%d ev=%s\n", rv, rv == 0 ? nng_aio_count(saio) : (size_t) 0,
			    ws->closed ? 1 : 0, evlen ? ev : "-");
			evlen = 0;
			free(h);
			free(b);
		} else if (strcmp(op, "close") == 0) {
			ws_close_error(ws, WS_CLOSE_NORMAL_CLOSE);
			pump_writes();
			collect_recv();
			status("close");
		} else {
			printf("bad-op\n");
		}
	}
	valloc_fail_at(0);
	teardown();
	fflush(stdout);
	nng_aio_free(raio);
	nng_aio_free(saio);
	free(strbuf);
	free(inbuf);
	free(ev);
	free(vline);
	nng_fini();
	{
		unsigned long live, bytes, bad, tot;
		valloc_stats(&live, &bytes, &bad, &tot);
		printf("fini live=%lu badfree=%lu\n", live, bad);
	}
	return (0);
}
