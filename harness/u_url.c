// UNIT op interpreter for nng_url (C19): nng_url_parse / nng_url_sprintf / nng_url_clone /
// nng_url_free and the accessors; nni_url_canonify_uri for the `canon` op.
#include <nng/nng.h>

#include "core/nng_impl.h"

#include "common.h"

#include <netdb.h>

// environment parameter of the model: the service database is empty (numeric ports only)
struct servent *
getservbyname(const char *name, const char *proto)
{
	(void) name;
	(void) proto;
	return (NULL);
}

static void
put_str(const char *key, const char *s)
{
	printf(" %s=", key);
	if (s == NULL) {
		printf("~");
		return;
	}
	if (*s == 0) {
		printf("-");
		return;
	}
	for (const unsigned char *p = (const unsigned char *) s; *p; p++) {
		printf("%02x", *p);
	}
}

static void
show_url(const char *pre, const nng_url *u)
{
	char k[8];
#define K(x) (snprintf(k, sizeof(k), "%s%s", pre, x), k)
	put_str(K("s"), nng_url_scheme(u));
	put_str(K("u"), nng_url_userinfo(u));
	put_str(K("h"), nng_url_hostname(u));
	printf(" %sp=%u", pre, nng_url_port(u));
	put_str(K("P"), nng_url_path(u));
	put_str(K("q"), nng_url_query(u));
	put_str(K("f"), nng_url_fragment(u));
	printf(" %sbz=%zu", pre, u->u_bufsz);
#undef K
}

// exact-size NUL terminated copy, so that ASan sees any read past the terminator
static char *
cstr(const uint8_t *d, size_t n)
{
	char *s = malloc(n + 1);
	memcpy(s, d, n);
	s[n] = 0;
	return (s);
}

static void
do_url(const char *raw)
{
	nng_url *u = NULL;
	int      rv = nng_url_parse(&u, raw);
	if (rv != 0) {
		printf("%d $\n", rv);
		return;
	}
	printf("0");
	show_url("", u);
	// print: size query first, then an exactly sized buffer
	int   n   = nng_url_sprintf(NULL, 0, u);
	char *buf = malloc((size_t) n + 1);
	int   n2  = nng_url_sprintf(buf, (size_t) n + 1, u);
	if (n2 != n || strlen(buf) != (size_t) n) {
		printf(" S=LENGTH-MISMATCH");
	} else {
		put_str("S", buf);
	}
	nng_url *u2 = NULL;
	rv          = nng_url_parse(&u2, buf);
	printf(" rt=%d", rv);
	if (rv == 0) {
		show_url("r", u2);
		nng_url_free(u2);
	}
	free(buf);
	// clone, then free the original before looking at the clone (independence)
	nng_url *c = NULL;
	rv         = nng_url_clone(&c, u);
	nng_url_free(u);
	printf(" cl=%d", rv);
	if (rv == 0) {
		show_url("c", c);
		nng_url_free(c);
	}
	printf(" $\n"); // "$" marks a complete line (a sanitizer abort may leave a partial one)
}

static void
do_canon(char *s)
{
	int rv = nni_url_canonify_uri(s);
	if (rv != 0) {
		printf("%d $\n", rv);
		return;
	}
	printf("0");
	put_str("o", s);
	char *t = cstr((uint8_t *) s, strlen(s));
	rv      = nni_url_canonify_uri(t);
	printf(" again=%d", rv);
	if (rv == 0) {
		put_str("o2", t);
	}
	free(t);
	printf(" $\n"); // "$" marks a complete line (a sanitizer abort may leave a partial one)
}

int
main(void)
{
	// line buffered: after a sanitizer abort the completed cases are on the pipe
	setvbuf(stdout, NULL, _IOLBF, 0);
	while (next_line()) {
		if (vn == 0) {
			continue;
		}
		if (strcmp(vw[0], "reset") == 0) {
			printf("reset $\n");
			continue;
		}
		if (strcmp(vw[0], "verbose") == 0) {
			printf("ok $\n");
			continue;
		}
		if (vn == 2 && (strcmp(vw[0], "url") == 0 || strcmp(vw[0], "canon") == 0)) {
			size_t   n;
			uint8_t *d = parse_hex(vw[1], &n);
			char    *s = cstr(d, n);
			free(d);
			if (strlen(s) != n) {
				printf("bad-op $\n"); // NUL inside: not a C string
			} else if (vw[0][0] == 'u') {
				do_url(s);
			} else {
				do_canon(s);
			}
			free(s);
			continue;
		}
		printf("bad-op $\n");
	}
	return (0);
}
