// C20 support (UNIT): the real http_conn.c / http_msg.c under "fail the k-th allocation".
//
// Reuses u_http.c unchanged (that file #includes the real supplemental/http/http_msg.c and http_conn.c and
// replaces only the byte stream under them): its main() is renamed and called from here after
// harness/valloc.c (accounting + fail-the-k-th allocation) was installed with nni_alloc_set, and its line
// reader is wrapped so that two more lines are understood before u_http.c's interpreter sees anything:
//   failat <k>   tear the connection down, reset the counters, take the live-block baseline, then make the
//                k-th allocation from now on fail (one shot; 0 = never)            -> ok
//   redir <status> <reason hex|-> <location hex>   nni_http_set_redirect              -> redir rv=<rv>
//   seterr <status> <reason hex|-> <body hex|->    nni_http_set_error                 -> seterr rv=<rv>
//   end          tear the connection down (close + fini), switch failure injection off
//                -> end live=<blocks above the baseline> badfree=<n> allocs=<n> fired=<n>
// All other lines (conn, rx, req, res, full, disc, setm, seturi, setv, sets, seth, addh, body, emit, reset)
// are u_http.c's.  A stuck line is turned into "HANG" + exit 4 by the alarm watchdog.
#include <signal.h>
#include <stdio.h>
#include <unistd.h>

#include "core/nng_impl.h"
#include "supplemental/http/http_api.h"

#include "common.h"
#include "valloc.h"

static void      teardown(void);
static nng_http *conn; // u_http.c's connection (tentative definition; defined there)

static char *
uf_str(const char *hex)
{
	size_t   n;
	uint8_t *b = parse_hex(hex, &n);
	char    *s = calloc(1, n + 1);
	memcpy(s, b, n);
	free(b);
	return (s);
}

static unsigned long uf_live0, uf_fired0;

static void
uf_alarm(int sig)
{
	(void) sig;
	static const char msg[] = "HANG\n";
	(void) !write(1, msg, sizeof(msg) - 1);
	_exit(4);
}

static int
uf_next_line(void)
{
	for (;;) {
		unsigned long live, bytes, bad, tot;
		if (!next_line()) {
			valloc_fail_at(0);
			return (0);
		}
		alarm(20);
		if (vn == 2 && strcmp(vw[0], "failat") == 0) {
			valloc_fail_at(0);
			teardown();
			valloc_reset_counters();
			valloc_stats(&uf_live0, &bytes, &bad, &tot);
			uf_fired0 = valloc_failures_fired();
			valloc_fail_at(atol(vw[1]));
			printf("ok\n");
			continue;
		}
		if (vn == 1 && strcmp(vw[0], "end") == 0) {
			teardown();
			valloc_fail_at(0);
			valloc_stats(&live, &bytes, &bad, &tot);
			printf("end live=%ld badfree=%lu allocs=%lu fired=%lu\n", (long) live - (long) uf_live0, bad, tot,
			    valloc_failures_fired() - uf_fired0);
			continue;
		}
		if (vn == 4 && conn != NULL && (strcmp(vw[0], "redir") == 0 || strcmp(vw[0], "seterr") == 0)) {
			char *rsn = strcmp(vw[2], "-") == 0 ? NULL : uf_str(vw[2]);
			char *arg = strcmp(vw[3], "-") == 0 ? NULL : uf_str(vw[3]);
			int   rv;
			if (vw[0][0] == 'r') {
				rv = nni_http_set_redirect(conn, (nng_http_status) atoi(vw[1]), rsn, arg ? arg : "");
			} else {
				rv = nni_http_set_error(conn, (nng_http_status) atoi(vw[1]), rsn, arg);
			}
			printf("%s rv=%d\n", vw[0], rv);
			free(rsn);
			free(arg);
			continue;
		}
		if (vn >= 1 && strcmp(vw[0], "reset") == 0) {
			valloc_fail_at(0);
		}
		return (1);
	}
}

#define next_line() uf_next_line()
#define main u_http_main
#include "u_http.c"
#undef main
#undef next_line

int
main(void)
{
	unsigned long live, bytes, bad, tot;
	int           rv;
	setvbuf(stdout, NULL, _IOLBF, 0);
	signal(SIGALRM, uf_alarm);
	nni_alloc_set(valloc_malloc, valloc_calloc, valloc_free);
	rv = u_http_main(); // ends with teardown + nng_fini
	valloc_stats(&live, &bytes, &bad, &tot);
	printf("fini live=%lu badfree=%lu\n", live, bad);
	return (rv);
}
