// UNIT op interpreter for the HTTP request/response layer (C16, part H).
//
// http_conn.c keeps http_rd_buf / http_rd_cb / http_buf_pull_up / http_prepare static and http_msg.c keeps
// http_scan_line and the line parsers static, so this file *includes* the real source text of both (from
// the tree under test, -I<repo>/src) and drives the real functions through the real entry points:
//   nni_http_init, nni_http_read_req, nni_http_read_res, nni_http_read_full, nni_http_read_discard,
//   http_rd_cb (the completion of the physical read), nni_http_write_req/res + http_wr_cb,
//   nni_http_set_header/add_header/set_method/set_uri/set_version/set_status/copy_body.
// Only the byte transport under it (nng_stream_recv/send/close/free...) is replaced: a receive request
// records the iov it was given, and the interpreter delivers the bytes that are "available" (op `rx`),
// at most iov_len of them per read, by copying into that iov and calling http_rd_cb -- exactly the
// contract of a stream transport (1..iov_len bytes per completed read).
// Because this object defines every external symbol of http_conn.c and http_msg.c, the archive members are
// never pulled in.
#include <stddef.h>
#include <stdint.h>

#define nng_stream_recv vf_stream_recv
#define nng_stream_send vf_stream_send
#define nng_stream_close vf_stream_close
#define nng_stream_free vf_stream_free
#define nng_stream_stop vf_stream_stop

#include "supplemental/http/http_msg.c"
#include "supplemental/http/http_conn.c"

#include "common.h"

// ---------------------------------------------------------------- fake transport
static struct {
	uint8_t *buf;
	size_t   len;
	bool     pending;
} rd;

static uint8_t *wbuf;
static size_t   wlen, wcap;
static bool     wr_pending;

void
vf_stream_recv(nng_stream *s, nng_aio *aio)
{
	unsigned niov;
	nni_iov *iov;
	(void) s;
	nni_aio_get_iov(aio, &niov, &iov);
	rd.buf     = niov > 0 ? iov[0].iov_buf : NULL;
	rd.len     = niov > 0 ? iov[0].iov_len : 0;
	rd.pending = true;
}

void
vf_stream_send(nng_stream *s, nng_aio *aio)
{
	unsigned niov;
	nni_iov *iov;
	(void) s;
	nni_aio_get_iov(aio, &niov, &iov);
	for (unsigned i = 0; i < niov; i++) {
		if (wlen + iov[i].iov_len + 1 > wcap) {
			wcap = (wlen + iov[i].iov_len + 1) * 2;
			wbuf = realloc(wbuf, wcap);
		}
		memcpy(wbuf + wlen, iov[i].iov_buf, iov[i].iov_len);
		wlen += iov[i].iov_len;
	}
	wr_pending = true;
}
void
vf_stream_close(nng_stream *s)
{
	(void) s;
}
void
vf_stream_free(nng_stream *s)
{
	(void) s;
}
void
vf_stream_stop(nng_stream *s)
{
	(void) s;
}

// ---------------------------------------------------------------- state
enum cur { C_NONE, C_REQ, C_RES, C_FULL, C_DISC };
static nng_http *conn;
static nng_aio  *uaio, *waio;
static enum cur  cur;
static uint8_t  *inq;
static size_t    inlen, incap;
static size_t    taken; // bytes handed to the library so far
static uint8_t  *ubuf;  // user buffer of a `full` read
static size_t    ulen;
static bool      verbose;
static int       dummy_stream;

static bool
op_finished(void)
{
	return (conn->rd_uaio == NULL && nni_list_empty(&conn->rdq));
}

static void
pump(void)
{
	size_t pos = 0;
	while (cur != C_NONE && rd.pending && pos < inlen && !op_finished()) {
		size_t k = inlen - pos;
		if (k > rd.len) {
			k = rd.len;
		}
		if (k == 0) {
			break; // a zero-length read request: nothing can be delivered
		}
		memcpy(rd.buf, inq + pos, k);
		pos += k;
		taken += k;
		rd.pending          = false;
		conn->rd_aio.a_result = NNG_OK;
		conn->rd_aio.a_count  = k;
		http_rd_cb(conn);
	}
	if (pos > 0) {
		memmove(inq, inq + pos, inlen - pos);
		inlen -= pos;
	}
}

static void
put_hexf(const char *tag, const uint8_t *b, size_t n)
{
	printf(" %s=", tag);
	if (n == 0) {
		printf("-");
	}
	for (size_t i = 0; i < n; i++) {
		printf("%02x", b[i]);
	}
}

static void
put_headers(nni_list *hdrs)
{
	http_header *h;
	size_t       cap = 64, len = 0, nh = 0;
	uint8_t     *t = malloc(cap);
	NNI_LIST_FOREACH (hdrs, h) {
		size_t a = strlen(h->name), b = strlen(h->value);
		if (len + a + b + 4 > cap) {
			cap = (len + a + b + 4) * 2;
			t   = realloc(t, cap);
		}
		memcpy(t + len, h->name, a);
		len += a;
		t[len++] = ':';
		t[len++] = ' ';
		memcpy(t + len, h->value, b);
		len += b;
		t[len++] = '\n';
		nh++;
	}
	printf(" nh=%zu hd=%zu:%016" PRIx64, nh, len, fnv64(t, len));
	if (verbose) {
		put_hexf("hdrs", t, len);
	}
	free(t);
}

static void
put_req_fields(void)
{
	const char *s;
	printf(" status=%d", (int) nni_http_get_status(conn));
	s = nni_http_get_method(conn);
	put_hexf("meth", (const uint8_t *) s, strlen(s));
	s = nni_http_get_uri(conn);
	put_hexf("uri", (const uint8_t *) s, strlen(s));
	s = nni_http_get_version(conn);
	put_hexf("vers", (const uint8_t *) s, strlen(s));
	put_headers(&conn->req.data.hdrs);
}

static void
put_res_fields(void)
{
	const char *s;
	printf(" status=%d", (int) nni_http_get_status(conn));
	s = nni_http_get_reason(conn);
	put_hexf("rsn", (const uint8_t *) s, strlen(s));
	s = nni_http_get_version(conn);
	put_hexf("vers", (const uint8_t *) s, strlen(s));
	put_headers(&conn->res.data.hdrs);
}

static void
tail(void)
{
	printf(" | g=%zu p=%zu w=%zu\n", conn->rd_get, conn->rd_put, (cur != C_NONE && rd.pending) ? rd.len : (size_t) 0);
}

// report the state of the outstanding operation after the op line `op` was executed
static void
status(const char *op)
{
	if (cur == C_NONE) {
		printf("%s idle", op);
		tail();
		return;
	}
	if (!op_finished()) {
		printf("%s wait", op);
		tail();
		return;
	}
	nng_aio_wait(uaio);
	int       rv = nng_aio_result(uaio);
	enum cur  c  = cur;
	cur          = C_NONE;
	rd.pending   = false;
	if (rv != 0) {
		printf("%s err rv=%d", op, rv);
		tail();
		return;
	}
	printf("%s done rv=0", op);
	switch (c) {
	case C_REQ:
		put_req_fields();
		break;
	case C_RES:
		put_res_fields();
		break;
	case C_FULL:
		printf(" data=%zu:%016" PRIx64, nng_aio_count(uaio), fnv64(ubuf, nng_aio_count(uaio)));
		break;
	default:
		break;
	}
	printf(" pos=%zu", taken - (conn->rd_put - conn->rd_get));
	tail();
}

static void
teardown(void)
{
	if (conn != NULL) {
		nni_http_conn_close(conn);
		if (cur != C_NONE) {
			nng_aio_wait(uaio);
		}
		nni_http_conn_fini(conn);
		conn = NULL;
	}
	cur        = C_NONE;
	rd.pending = false;
	wr_pending = false;
	inlen      = 0;
	taken      = 0;
	wlen       = 0;
	free(ubuf);
	ubuf = NULL;
}

int
main(void)
{
	if (nng_init(NULL) != 0) {
		fprintf(stderr, "nng_init failed\n");
		return (3);
	}
	setvbuf(stdout, NULL, _IOLBF, 0);
	nng_aio_alloc(&uaio, NULL, NULL);
	nng_aio_alloc(&waio, NULL, NULL);
	nng_aio_set_timeout(uaio, NNG_DURATION_INFINITE);
	nng_aio_set_timeout(waio, NNG_DURATION_INFINITE);

	while (next_line()) {
		if (vn == 0) {
			continue;
		}
		const char *op = vw[0];
		if (strcmp(op, "reset") == 0) {
			teardown();
			verbose = false;
			printf("reset\n");
			fflush(stdout);
			continue;
		}
		if (strcmp(op, "verbose") == 0) {
			verbose = true;
			printf("ok\n");
			continue;
		}
		if (strcmp(op, "conn") == 0 && vn == 2) {
			teardown();
			if (http_init(&conn, (nng_stream *) &dummy_stream, atoi(vw[1]) != 0) != 0) {
				printf("conn enomem\n");
				conn = NULL;
				continue;
			}
			printf("conn ok\n");
			continue;
		}
		if (strcmp(op, "scan") == 0 && vn == 2) {
			// scan <hex>: http_scan_line on an exact-size heap copy
			size_t   n, len = 0;
			uint8_t *b  = parse_hex(vw[1], &n);
			int      rv = http_scan_line(b, n, &len);
			if (rv == 0) {
				printf("scan rv=0 cnt=%zu", len);
				put_hexf("line", b, strlen((char *) b) < n ? strlen((char *) b) : n);
				printf("\n");
			} else {
				printf("scan rv=%d\n", rv);
			}
			free(b);
			continue;
		}
		if (conn == NULL) {
			printf("no-conn\n");
			continue;
		}
		if (strcmp(op, "rx") == 0 && vn == 2) {
			size_t   n;
			uint8_t *b = parse_hex(vw[1], &n);
			if (inlen + n > incap) {
				incap = (inlen + n) * 2 + 64;
				inq   = realloc(inq, incap);
			}
			memcpy(inq + inlen, b, n);
			inlen += n;
			free(b);
			pump();
			status("rx");
		} else if (cur != C_NONE && (strcmp(op, "req") == 0 || strcmp(op, "res") == 0 || strcmp(op, "full") == 0 ||
		                                strcmp(op, "disc") == 0)) {
			printf("%s busy\n", op);
		} else if (strcmp(op, "req") == 0) {
			cur = C_REQ;
			nni_http_read_req(conn, uaio);
			pump();
			status("req");
		} else if (strcmp(op, "res") == 0) {
			cur = C_RES;
			nni_http_read_res(conn, uaio);
			pump();
			status("res");
		} else if (strcmp(op, "full") == 0 && vn == 2) {
			nng_iov iov;
			ulen = strtoull(vw[1], NULL, 10);
			free(ubuf);
			ubuf        = malloc(ulen ? ulen : 1);
			iov.iov_buf = ubuf;
			iov.iov_len = ulen;
			nng_aio_set_iov(uaio, 1, &iov);
			cur = C_FULL;
			nni_http_read_full(conn, uaio);
			pump();
			status("full");
		} else if (strcmp(op, "disc") == 0 && vn == 2) {
			cur = C_DISC;
			nni_http_read_discard(conn, strtoull(vw[1], NULL, 10), uaio);
			pump();
			status("disc");
		} else if (strcmp(op, "setm") == 0 && vn == 2) {
			size_t   n;
			uint8_t *b = parse_hex(vw[1], &n);
			char    *s = calloc(1, n + 1);
			memcpy(s, b, n);
			nni_http_set_method(conn, s);
			printf("setm ok\n");
			free(b);
			free(s);
		} else if (strcmp(op, "seturi") == 0 && vn == 2) {
			size_t   n;
			uint8_t *b = parse_hex(vw[1], &n);
			char    *s = calloc(1, n + 1);
			memcpy(s, b, n);
			printf("seturi rv=%d\n", (int) nni_http_set_uri(conn, s, NULL));
			free(b);
			free(s);
		} else if (strcmp(op, "setv") == 0 && vn == 2) {
			size_t   n;
			uint8_t *b = parse_hex(vw[1], &n);
			char    *s = calloc(1, n + 1);
			memcpy(s, b, n);
			printf("setv rv=%d\n", (int) nni_http_set_version(conn, s));
			free(b);
			free(s);
		} else if (strcmp(op, "sets") == 0 && vn == 3) {
			size_t   n;
			uint8_t *b = parse_hex(vw[2], &n);
			char    *s = calloc(1, n + 1);
			memcpy(s, b, n);
			nni_http_set_status(conn, (nng_http_status) atoi(vw[1]), s);
			printf("sets ok\n");
			free(b);
			free(s);
		} else if ((strcmp(op, "seth") == 0 || strcmp(op, "addh") == 0) && vn == 3) {
			size_t   kn, vl;
			uint8_t *kb = parse_hex(vw[1], &kn);
			uint8_t *vb = parse_hex(vw[2], &vl);
			char    *k  = calloc(1, kn + 1);
			char    *v  = calloc(1, vl + 1);
			memcpy(k, kb, kn);
			memcpy(v, vb, vl);
			int rv = op[0] == 's' ? nni_http_set_header(conn, k, v) : nni_http_add_header(conn, k, v);
			printf("%s rv=%d\n", op, rv);
			free(kb);
			free(vb);
			free(k);
			free(v);
		} else if (strcmp(op, "body") == 0 && vn == 2) {
			size_t   n;
			uint8_t *b = parse_hex(vw[1], &n);
			printf("body rv=%d\n", (int) nni_http_copy_body(conn, b, n));
			free(b);
		} else if (strcmp(op, "emit") == 0) {
			// write the request (client connection) or response head (+ body) through the real write path
			wlen = 0;
			if (conn->client) {
				nni_http_write_req(conn, waio);
			} else {
				nni_http_write_res(conn, waio);
			}
			while (wr_pending) {
				wr_pending            = false;
				conn->wr_aio.a_result = NNG_OK;
				conn->wr_aio.a_count  = nni_aio_iov_count(&conn->wr_aio);
				http_wr_cb(conn);
			}
			nng_aio_wait(waio);
			int rv = nng_aio_result(waio);
			printf("emit rv=%d n=%zu", rv, wlen);
			if (rv == 0) {
				put_hexf("b", wbuf, wlen);
				if (conn->client) {
					put_req_fields();
				} else {
					put_res_fields();
				}
				void  *bd;
				size_t bn;
				bool   cl = conn->client;
				// body as the sender holds it
				bd = cl ? conn->req.data.data : conn->res.data.data;
				bn = cl ? conn->req.data.size : conn->res.data.size;
				printf(" body=%zu:%016" PRIx64, bn, fnv64(bd, bn));
			}
			tail();
		} else {
			printf("bad-op\n");
		}
	}
	teardown();
	fflush(stdout);
	nng_aio_free(uaio);
	nng_aio_free(waio);
	free(inq);
	free(wbuf);
	free(vline);
	nng_fini();
	return (0);
}
