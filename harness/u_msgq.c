// UNIT op interpreter for nni_msgq (C18): the real nni_msgq_* with real tagged messages and
// real aios.  After every operation the aios that left the queue's wait lists are waited for
// (nni_aio_wait) and their results collected.
//
// C18N (pollable levels of the queue): after the line `norefresh` (per case, cleared by `reset`) the
// two nni_pollable objects and their descriptors are fetched ONCE, right after nni_msgq_init, and
// every result line ends with ` snd=<p_raised> rcv=<p_raised> ps=<poll(2)> pr=<poll(2)>` read WITHOUT
// calling nni_msgq_get_sendable/recvable again (those run nni_msgq_run_notify and would repair a
// stale level).  Extra ops: `levels` (no API call), `getsnd` / `getrcv` (the two getters as API
// operations), `nbput <aio> <tag>` / `nbget <aio>` (the same aio operations with a zero timeout).
#include "qcommon.h"
#include <poll.h>

#define NAIO 8
static nni_msgq *mq;
static nni_aio   aio[NAIO];
static int       kind[NAIO]; // 0 idle, 1 put pending, 2 get pending
static unsigned  atag[NAIO];
static nni_atomic_int ncb;
static bool          norefresh;
static nni_pollable *psnd, *prcv;
static int           sfd = -1, rfd = -1;

static int
polled(int fd)
{
	struct pollfd pf = { fd, POLLIN, 0 };
	if (fd < 0) {
		return (9);
	}
	int n = poll(&pf, 1, 0);
	return (n < 0 ? 8 : (n > 0 && (pf.revents & POLLIN) != 0) ? 1 : 0);
}

static void
cb(void *arg)
{
	(void) arg;
	nni_atomic_inc(&ncb);
}

// collect completions: "ev=<aio>:<rv>:<tag|->,..." in aio order
static void
collect(void)
{
	bool any = false;
	printf(" ev=");
	// writers first, so that a message handed over directly is known as accepted
	for (int pass = 1; pass <= 2; pass++) {
		for (int i = 0; i < NAIO; i++) {
			if (kind[i] != pass || nni_aio_list_active(&aio[i])) {
				continue;
			}
			nni_aio_wait(&aio[i]);
			int rv = nni_aio_result(&aio[i]);
			if (pass == 1) {
				if (rv == 0) {
					tst[atag[i]] = 1;
				} else {
					nni_aio_set_msg(&aio[i], NULL);
					drop_msg(atag[i]);
				}
				kind[i] = 3; // print in the ordered pass below
			} else {
				kind[i] = 4;
			}
		}
	}
	for (int i = 0; i < NAIO; i++) {
		if (kind[i] == 3) {
			printf("%s%d:%d:-", any ? "," : "", i, nni_aio_result(&aio[i]));
			any     = true;
			kind[i] = 0;
		} else if (kind[i] == 4) {
			int rv = nni_aio_result(&aio[i]);
			printf("%s%d:%d:", any ? "," : "", i, rv);
			if (rv == 0) {
				nng_msg *m = nni_aio_get_msg(&aio[i]);
				nni_aio_set_msg(&aio[i], NULL);
				put_delivered(m);
			} else {
				printf("-");
			}
			any     = true;
			kind[i] = 0;
		}
	}
	if (!any) {
		printf("-");
	}
}

static void
tail(void)
{
	nni_pollable *s, *r;
	if (norefresh) {
		if (mq == NULL || psnd == NULL || prcv == NULL) {
			printf(" cap=- snd=- rcv=- ps=- pr=-\n");
			return;
		}
		printf(" cap=%d snd=%d rcv=%d ps=%d pr=%d\n", nni_msgq_cap(mq), (int) nni_atomic_get_bool(&psnd->p_raised),
		    (int) nni_atomic_get_bool(&prcv->p_raised), polled(sfd), polled(rfd));
		return;
	}
	nni_msgq_get_sendable(mq, &s);
	nni_msgq_get_recvable(mq, &r);
	printf(" cap=%d snd=%d rcv=%d\n", nni_msgq_cap(mq), (int) nni_atomic_get_bool(&s->p_raised),
	    (int) nni_atomic_get_bool(&r->p_raised));
}

static void
teardown(void)
{
	if (mq != NULL) {
		nni_msgq_close(mq);
		for (int i = 0; i < NAIO; i++) {
			if (kind[i] != 0) {
				nni_aio_wait(&aio[i]);
				if (kind[i] == 1) {
					nni_aio_set_msg(&aio[i], NULL);
				}
				kind[i] = 0;
			}
		}
		nni_msgq_fini(mq); // closes the descriptors of the two pollables
		mq = NULL;
	}
	psnd = prcv = NULL;
	sfd = rfd = -1;
	drop_all();
}

int
main(void)
{
	nng_init_params p = { 0 };
	p.malloc_fn       = v_malloc;
	p.calloc_fn       = v_calloc;
	p.free_fn         = v_free;
	if (nng_init(&p) != 0) {
		fprintf(stderr, "nng_init failed\n");
		return (3);
	}
	for (int i = 0; i < NAIO; i++) {
		nni_aio_init(&aio[i], cb, NULL);
	}
	while (next_line()) {
		if (vn == 0) {
			continue;
		}
		if (strcmp(vw[0], "reset") == 0) {
			teardown();
			fail_in   = -1;
			norefresh = false;
			printf("reset\n");
			fflush(stdout);
			continue;
		}
		if (strcmp(vw[0], "verbose") == 0) {
			printf("ok\n");
			continue;
		}
		if (strcmp(vw[0], "norefresh") == 0) {
			norefresh = true;
			printf("ok\n");
			continue;
		}
		if (strcmp(vw[0], "fail") == 0) {
			fail_in = 0;
			printf("ok\n");
			continue;
		}
		if (strcmp(vw[0], "init") == 0 && vn == 2) {
			teardown();
			int rv = nni_msgq_init(&mq, (unsigned) strtoul(vw[1], NULL, 10));
			if (rv == 0 && norefresh) {
				// the way core/socket.c sock_get_fd obtains a descriptor, done once
				if (nni_msgq_get_sendable(mq, &psnd) != 0 || nni_msgq_get_recvable(mq, &prcv) != 0 ||
				    nni_pollable_getfd(psnd, &sfd) != 0 || nni_pollable_getfd(prcv, &rfd) != 0) {
					printf("bad-op\n");
					continue;
				}
			}
			printf("%d ev=- freed=-", rv);
			tail();
		} else if (mq == NULL) {
			printf("bad-op\n");
		} else if (strcmp(vw[0], "tryput") == 0 && vn == 2) {
			unsigned tag = (unsigned) strtoul(vw[1], NULL, 10);
			nng_msg *m   = mk_msg(tag);
			if (m == NULL) {
				printf("bad-op\n");
				continue;
			}
			int rv = nni_msgq_tryput(mq, m);
			if (rv == 0) {
				tst[tag] = 1;
			} else {
				drop_msg(tag);
			}
			printf("%d", rv);
			collect();
			put_freed();
			tail();
		} else if (strcmp(vw[0], "levels") == 0 && vn == 1) {
			printf("0 ev=- freed=-");
			tail();
		} else if ((strcmp(vw[0], "getsnd") == 0 || strcmp(vw[0], "getrcv") == 0) && vn == 1) {
			nni_pollable *p  = NULL;
			bool          sn = vw[0][3] == 's';
			int           rv = sn ? nni_msgq_get_sendable(mq, &p) : nni_msgq_get_recvable(mq, &p);
			printf("%d ev=%s freed=-", rv, (norefresh && p != (sn ? psnd : prcv)) ? "BADPTR" : "-");
			tail();
		} else if ((strcmp(vw[0], "aput") == 0 || strcmp(vw[0], "nbput") == 0) && vn == 3) {
			int      i   = atoi(vw[1]);
			unsigned tag = (unsigned) strtoul(vw[2], NULL, 10);
			if (i < 0 || i >= NAIO) {
				printf("bad-op\n");
				continue;
			}
			if (kind[i] != 0) {
				printf("busy\n");
				continue;
			}
			nng_msg *m = mk_msg(tag);
			if (m == NULL) {
				printf("bad-op\n");
				continue;
			}
			nni_aio_reset(&aio[i]);
			nni_aio_set_timeout(&aio[i], vw[0][0] == 'n' ? NNG_DURATION_ZERO : NNG_DURATION_INFINITE);
			nni_aio_set_msg(&aio[i], m);
			kind[i] = 1;
			atag[i] = tag;
			nni_msgq_aio_put(mq, &aio[i]);
			printf("0");
			collect();
			put_freed();
			tail();
		} else if ((strcmp(vw[0], "aget") == 0 || strcmp(vw[0], "nbget") == 0) && vn == 2) {
			int i = atoi(vw[1]);
			if (i < 0 || i >= NAIO) {
				printf("bad-op\n");
				continue;
			}
			if (kind[i] != 0) {
				printf("busy\n");
				continue;
			}
			nni_aio_reset(&aio[i]);
			nni_aio_set_timeout(&aio[i], vw[0][0] == 'n' ? NNG_DURATION_ZERO : NNG_DURATION_INFINITE);
			nni_aio_set_msg(&aio[i], NULL);
			kind[i] = 2;
			nni_msgq_aio_get(mq, &aio[i]);
			printf("0");
			collect();
			put_freed();
			tail();
		} else if (strcmp(vw[0], "cancel") == 0 && vn == 2) {
			int i = atoi(vw[1]);
			if (i >= 0 && i < NAIO && kind[i] != 0) {
				nni_aio_abort(&aio[i], NNG_ECANCELED);
			}
			printf("0");
			collect();
			put_freed();
			tail();
		} else if (strcmp(vw[0], "close") == 0) {
			nni_msgq_close(mq);
			printf("0");
			collect();
			put_freed();
			tail();
		} else if (strcmp(vw[0], "resize") == 0 && vn == 2) {
			int rv = nni_msgq_resize(mq, atoi(vw[1]));
			printf("%d", rv);
			collect();
			put_freed();
			tail();
		} else {
			printf("bad-op\n");
		}
		fail_in = -1;
	}
	teardown();
	for (int i = 0; i < NAIO; i++) {
		nni_aio_stop(&aio[i]);
		nni_aio_fini(&aio[i]);
	}
	nng_fini();
	return (0);
}
