// REAL executor scenarios for C01 (whole-message integrity under any segmentation).
//
// One case per input line, one result line per case.
//
//   case <id> peer <tran> <proto> <role> rcvmax=<n> clamp=<seed>:<pass‰>:<p1,p2,..|-> strip=<k> msgs=<m>;<m>;...
//        nng socket <-> raw peer (this harness).  tran: tcp | ipc | sfd.
//        role: d = nng dials the peer's listener, l = nng listens and the peer connects
//              (sfd: always a socketpair handed to an nng listener).
//        messages:  o/<hdr>/<body>/<step>        nng sends (hdr, body); the peer reads the frame in
//                                                reads of at most <step> bytes (0: unlimited)
//                   i/<prefix>/<body>/<cuts>/<s|b> the peer writes frame(prefix ++ body) cut at the
//                                                absolute positions <cuts> ("-": none, "*": every byte);
//                                                s: after each piece wait until nng asks for exactly the
//                                                rest (cut confirmed), b: burst, no waiting
//   case <id> n2n <tran> <proto> ...             two nng sockets; tran: inproc | ipc | tcp | sfd | ws
//        messages:  a/<hdr>/<body>               socket A (dialer side) sends, B receives
//                   b/<hdr>/<body>               B sends, A receives
//        proto "reqrep": A = req0 raw, B = rep0 raw (only a/…), strip=4 drops the pipe id
//
// Result line:
//   case <id> ok|FAIL:<why> hs=<hex of nng's 8 negotiation bytes|-> :: <per message result> ...
//          :: clamp rd=<calls>/<fired> wr=<calls>/<fired> cuts=<confirmed>/<attempted>
//   per message:  o=<frame digest>,<raw head hex>,0,<payload>  exact wire bytes (length:fnv64 of the frame)
//                                                       and the payload a conforming receiver parses
//                 i=<hlen>,<flat>                       what nng delivered: header length, header++body
//                                                       as hex (≤ 160 bytes) or D<len>:<fnv64>
//                 a=… / b=… like i=
//                 …=!<text>                            the operation failed (timeout, error code)
//
// Real time: every wait is on a descriptor or an nng operation with a 5 s timeout; only
// schedule-independent facts are reported.
#include <nng/nng.h>

#include "rawpeer.h"

#include <errno.h>
#include <inttypes.h>
#include <pthread.h>
#include <stdio.h>
#include <sys/stat.h>
#include <time.h>
#include <unistd.h>

#define TMO 5000
#define MAXMSGS 256
#define HEXLIMIT 160

typedef struct {
	char     dir;
	uint8_t *hdr;
	size_t   hlen;
	uint8_t *body;
	size_t   blen;
	size_t   step;
	char    *cuts;
	char     mode;
	bool     prewritten; // the peer wrote this frame together with the tail of its handshake
	char     res[2 * HEXLIMIT + 96]; // result, written by the observing side only
	char     err[40];                // failure of the nng-side sender thread
} mspec;

typedef struct {
	char     id[48];
	char     scn[8];
	char     tran[12];
	char     proto[16];
	char     role;
	size_t   rcvmax;
	uint64_t cseed;
	unsigned cpass;
	size_t   cpal[32];
	size_t   ncpal;
	size_t   strip;
	bool     duplex; // n2n: both directions travel at the same time
	mspec    m[MAXMSGS];
	int      nm;
} tcase;

static char     tmpdir[128];
static unsigned conn_tag;
static uint64_t cuts_confirmed, cuts_attempted;
static bool     confirm_broken;
static int      failed_cases; // fail fast: a broken tree must not cost a 5 s timeout per message

// ---------------------------------------------------------------- helpers
static void
put_flat(char *out, size_t outsz, size_t hlen, const uint8_t *h, const uint8_t *b, size_t blen, size_t strip)
{
	size_t   n = hlen + blen;
	uint8_t *f = malloc(n ? n : 1);
	size_t   o;
	if (hlen)
		memcpy(f, h, hlen);
	if (blen)
		memcpy(f + hlen, b, blen);
	if (strip > n)
		strip = n;
	o = (size_t) snprintf(out, outsz, "%zu,", hlen);
	if (n - strip == 0) {
		snprintf(out + o, outsz - o, "-");
	} else if (n - strip <= HEXLIMIT) {
		for (size_t i = strip; i < n; i++) {
			o += (size_t) snprintf(out + o, outsz - o, "%02x", f[i]);
		}
	} else {
		snprintf(out + o, outsz - o, "D%zu:%016" PRIx64, n - strip, rp_fnv64(f + strip, n - strip));
	}
	free(f);
}

static int
open_sock(const char *proto, nng_socket *s, uint16_t *self, uint16_t *peer)
{
	if (strcmp(proto, "pair0") == 0) {
		*self = *peer = 0x10;
		return (nng_pair0_open(s));
	}
	if (strcmp(proto, "pair0raw") == 0) {
		*self = *peer = 0x10;
		return (nng_pair0_open_raw(s));
	}
	if (strcmp(proto, "pair1") == 0) {
		*self = *peer = 0x11;
		return (nng_pair1_open(s));
	}
	if (strcmp(proto, "pair1raw") == 0) {
		*self = *peer = 0x11;
		return (nng_pair1_open_raw(s));
	}
	if (strcmp(proto, "reqraw") == 0) {
		*self = 0x30;
		*peer = 0x31;
		return (nng_req0_open_raw(s));
	}
	if (strcmp(proto, "repraw") == 0) {
		*self = 0x31;
		*peer = 0x30;
		return (nng_rep0_open_raw(s));
	}
	return (NNG_ENOTSUP);
}

// pipe-added notification: wait until the socket has its pipe
typedef struct {
	pthread_mutex_t mtx;
	pthread_cond_t  cv;
	int             pipes;
} pipewait;

static void
pipe_cb(nng_pipe p, nng_pipe_ev ev, void *arg)
{
	pipewait *w = arg;
	(void) p;
	pthread_mutex_lock(&w->mtx);
	if (ev == NNG_PIPE_EV_ADD_POST) {
		w->pipes++;
	}
	pthread_cond_broadcast(&w->cv);
	pthread_mutex_unlock(&w->mtx);
}

static void
pipewait_init(pipewait *w, nng_socket s)
{
	pthread_condattr_t ca;
	pthread_condattr_init(&ca);
	pthread_condattr_setclock(&ca, CLOCK_MONOTONIC);
	pthread_mutex_init(&w->mtx, NULL);
	pthread_cond_init(&w->cv, &ca);
	w->pipes = 0;
	nng_pipe_notify(s, NNG_PIPE_EV_ADD_POST, pipe_cb, w);
}

static bool
pipewait_wait(pipewait *w, int n, int ms)
{
	struct timespec ts;
	bool            ok;
	clock_gettime(CLOCK_MONOTONIC, &ts);
	ts.tv_sec += ms / 1000;
	ts.tv_nsec += (long) (ms % 1000) * 1000000L;
	if (ts.tv_nsec >= 1000000000L) {
		ts.tv_sec++;
		ts.tv_nsec -= 1000000000L;
	}
	pthread_mutex_lock(&w->mtx);
	while (w->pipes < n) {
		if (pthread_cond_timedwait(&w->cv, &w->mtx, &ts) != 0) {
			break;
		}
	}
	ok = w->pipes >= n;
	pthread_mutex_unlock(&w->mtx);
	return (ok);
}

static void
set_common_opts(nng_socket s, size_t rcvmax)
{
	nng_socket_set_ms(s, NNG_OPT_RECVTIMEO, TMO);
	nng_socket_set_ms(s, NNG_OPT_SENDTIMEO, TMO);
	nng_socket_set_size(s, NNG_OPT_RECVMAXSZ, rcvmax);
}

// ---------------------------------------------------------------- nng-side worker
typedef struct {
	nng_socket s;
	mspec     *m;
	int        n;   // messages of this phase
	bool       send;
	size_t     strip;
} phase;

static void *
phase_thread(void *arg)
{
	phase *ph = arg;
	for (int i = 0; i < ph->n; i++) {
		mspec *m = &ph->m[i];
		if (ph->send) {
			nng_msg *msg = NULL;
			int      rv;
			if ((rv = nng_msg_alloc(&msg, 0)) != 0 ||
			    (m->hlen && (rv = nng_msg_header_append(msg, m->hdr, m->hlen)) != 0) ||
			    (m->blen && (rv = nng_msg_append(msg, m->body, m->blen)) != 0)) {
				snprintf(m->err, sizeof(m->err), "!build-%d", rv);
				if (msg)
					nng_msg_free(msg);
				continue;
			}
			if ((rv = nng_sendmsg(ph->s, msg, 0)) != 0) {
				snprintf(m->err, sizeof(m->err), "!send-%d", rv);
				nng_msg_free(msg);
				// the remaining sends would only time out one after the other
				for (int j = i + 1; j < ph->n; j++) {
					snprintf(ph->m[j].err, sizeof(ph->m[j].err), "!skipped");
				}
				return (NULL);
			}
		} else {
			nng_msg *msg = NULL;
			int      rv  = nng_recvmsg(ph->s, &msg, 0);
			if (rv != 0) {
				snprintf(m->res, sizeof(m->res), "!recv-%d", rv);
				for (int j = i + 1; j < ph->n; j++) {
					snprintf(ph->m[j].res, sizeof(ph->m[j].res), "!skipped");
				}
				return (NULL);
			}
			put_flat(m->res, sizeof(m->res), nng_msg_header_len(msg), nng_msg_header(msg), nng_msg_body(msg),
			    nng_msg_len(msg), ph->strip);
			nng_msg_free(msg);
		}
	}
	return (NULL);
}

// ---------------------------------------------------------------- raw peer scenario
// what nng still asks for after having consumed the first p bytes of a frame
static size_t
remaining_after(int kind, size_t flen, size_t p)
{
	size_t hl = rp_headlen(kind);
	return (p < hl ? hl - p : flen - p);
}

static int
peer_write_frame(int fd, int kind, mspec *m)
{
	size_t   flen;
	uint8_t *f   = rp_frame(kind, m->hdr, m->hlen, m->body, m->blen, &flen);
	size_t   pos = 0;
	int      rv  = 0;
	char    *cs  = m->cuts;
	size_t   every = 0;

	if (strcmp(cs, "*") == 0) {
		every = 1;
	}
	for (;;) {
		size_t next = flen;
		if (every) {
			next = pos + 1 < flen ? pos + 1 : flen;
		} else if (cs != NULL && *cs != 0 && *cs != '-') {
			char *e;
			next = strtoull(cs, &e, 10);
			cs   = (*e == ',') ? e + 1 : e;
			if (next <= pos || next >= flen) {
				if (*cs == 0) {
					next = flen;
				} else {
					continue;
				}
			}
		}
		uint64_t since = rp_clamp_read_calls();
		if ((rv = rp_write_all(fd, f + pos, next - pos, TMO)) != 0) {
			break;
		}
		pos = next;
		if (pos >= flen) {
			break;
		}
		if (m->mode == 's' && !confirm_broken) {
			cuts_attempted++;
			if (rp_wait_read_request(remaining_after(kind, flen, pos), since, 2000)) {
				cuts_confirmed++;
			} else {
				// nng is not consuming (or there is no hook): do not wait again in this case
				confirm_broken = true;
			}
		}
	}
	free(f);
	return (rv);
}

static void
run_peer(tcase *tc, char *hsout, size_t hsoutsz, char *why, size_t whysz)
{
	int         kind = rp_kind(tc->tran);
	nng_socket  s;
	uint16_t    self = 0, peerproto = 0, got = 0;
	uint8_t     theirs[8];
	int         fd = -1, rv;
	rp_listener pl;
	pipewait    pw;
	bool        have_pl = false;
	int         sp[2]   = { -1, -1 };

	if ((rv = open_sock(tc->proto, &s, &self, &peerproto)) != 0) {
		snprintf(why, whysz, "open-%d", rv);
		return;
	}
	set_common_opts(s, tc->rcvmax);
	pipewait_init(&pw, s);

	if (kind == RP_SFD) {
		nng_listener l;
		if (rp_socketpair(sp) != 0) {
			snprintf(why, whysz, "socketpair-%d", errno);
			goto out;
		}
		if ((rv = nng_listener_create(&l, s, "socket://")) != 0 || (rv = nng_listener_start(l, 0)) != 0 ||
		    (rv = nng_listener_set_int(l, NNG_OPT_SOCKET_FD, sp[0])) != 0) {
			snprintf(why, whysz, "sfd-listen-%d", rv);
			goto out;
		}
		sp[0] = -1; // owned by nng now
		fd    = sp[1];
		sp[1] = -1;
	} else if (tc->role == 'd') {
		if (rp_listen(&pl, kind, tmpdir, ++conn_tag) != 0) {
			snprintf(why, whysz, "peer-listen-%d", errno);
			goto out;
		}
		have_pl = true;
		if ((rv = nng_dial(s, pl.url, NULL, NNG_FLAG_NONBLOCK)) != 0) {
			snprintf(why, whysz, "dial-%d", rv);
			goto out;
		}
		if ((fd = rp_accept(&pl, TMO)) < 0) {
			snprintf(why, whysz, "peer-accept-%d", errno);
			goto out;
		}
	} else {
		nng_listener l;
		char         url[200];
		if (kind == RP_TCP) {
			int port = 0;
			if ((rv = nng_listen(s, "tcp://127.0.0.1:0", &l, 0)) != 0 ||
			    (rv = nng_listener_get_int(l, NNG_OPT_BOUND_PORT, &port)) != 0) {
				snprintf(why, whysz, "listen-%d", rv);
				goto out;
			}
			snprintf(url, sizeof(url), "tcp://127.0.0.1:%d", port);
		} else {
			snprintf(url, sizeof(url), "ipc://%s/nl-%d-%u.sock", tmpdir, (int) getpid(), ++conn_tag);
			if ((rv = nng_listen(s, url, &l, 0)) != 0) {
				snprintf(why, whysz, "listen-%d", rv);
				goto out;
			}
		}
		if ((fd = rp_connect(url, TMO)) < 0) {
			snprintf(why, whysz, "peer-connect-%d", errno);
			goto out;
		}
	}
	// negotiation: ours is cut after (seed mod 8) bytes.  EARLY DATA (every third case whose first message is an
	// uncut incoming one): the peer writes the first piece of its handshake, pauses, and writes the rest of the
	// handshake TOGETHER with the whole first frame in one write - the bytes of the first message are already
	// there when nng reads the remainder of the handshake
	if (tc->nm > 0 && tc->m[0].dir == 'i' && tc->m[0].mode == 'b' && strcmp(tc->m[0].cuts, "-") == 0 && tc->cseed % 8 != 0 &&
	    tc->cseed % 3 == 0 && tc->m[0].hlen + tc->m[0].blen <= 4096) {
		uint8_t  ours[8];
		size_t   flen, cut = (size_t) (tc->cseed % 8);
		uint8_t *f   = rp_frame(kind, tc->m[0].hdr, tc->m[0].hlen, tc->m[0].body, tc->m[0].blen, &flen);
		uint8_t *buf = malloc(8 + flen);
		rp_handshake_bytes(peerproto, ours);
		memcpy(buf, ours + cut, 8 - cut);
		memcpy(buf + 8 - cut, f, flen);
		free(f);
		if (rp_write_all(fd, ours, cut, TMO) != 0) {
			free(buf);
			snprintf(why, whysz, "handshake-%d", errno);
			goto out;
		}
		usleep(30000);
		if (rp_write_all(fd, buf, 8 - cut + flen, TMO) != 0 || rp_read_exact(fd, theirs, 8, 0, TMO) != 0) {
			free(buf);
			snprintf(why, whysz, "handshake-%d", errno);
			goto out;
		}
		free(buf);
		got               = (uint16_t) ((theirs[4] << 8) | theirs[5]);
		tc->m[0].prewritten = true;
	} else if (rp_handshake(fd, peerproto, (unsigned) (tc->cseed % 8), &got, theirs, TMO) != 0) {
		snprintf(why, whysz, "handshake-%d", errno);
		goto out;
	}
	{
		size_t o = 0;
		for (int i = 0; i < 8; i++) {
			o += (size_t) snprintf(hsout + o, hsoutsz - o, "%02x", theirs[i]);
		}
	}
	if (got != self) {
		snprintf(why, whysz, "handshake-proto-%04x", got);
		goto out;
	}
	if (!pipewait_wait(&pw, 1, TMO)) {
		snprintf(why, whysz, "no-pipe");
		goto out;
	}

	// phases of equal direction
	for (int i = 0; i < tc->nm;) {
		int       j = i;
		phase     ph;
		pthread_t th;
		bool      dead = false;
		while (j < tc->nm && tc->m[j].dir == tc->m[i].dir) {
			j++;
		}
		ph.s     = s;
		ph.m     = &tc->m[i];
		ph.n     = j - i;
		ph.send  = tc->m[i].dir == 'o';
		ph.strip = tc->strip;
		pthread_create(&th, NULL, phase_thread, &ph);
		for (int k = i; k < j && !dead; k++) {
			mspec *m = &tc->m[k];
			if (m->dir == 'o') {
				uint8_t *pl2 = NULL;
				size_t   pln = 0;
				uint8_t  rawhead[9];
				char     tmp[96];
				int      r = rp_read_frame(fd, kind, m->step, (size_t) 1 << 31, &pl2, &pln, rawhead, TMO);
				if (r != 0) {
					snprintf(m->res, sizeof(m->res), "!peer-read-%d", r);
					dead = true;
				} else {
					size_t   hl = rp_headlen(kind);
					uint8_t *fr = malloc(hl + pln);
					size_t   o;
					memcpy(fr, rawhead, hl);
					if (pln)
						memcpy(fr + hl, pl2, pln);
					o = (size_t) snprintf(tmp, sizeof(tmp), "%zu:%016" PRIx64 ",", hl + pln, rp_fnv64(fr, hl + pln));
					for (size_t q = 0; q < hl; q++) {
						o += (size_t) snprintf(tmp + o, sizeof(tmp) - o, "%02x", rawhead[q]);
					}
					free(fr);
					o = (size_t) snprintf(m->res, sizeof(m->res), "%s,", tmp);
					// the payload as a conforming SP receiver parses it
					put_flat(m->res + o, sizeof(m->res) - o, 0, NULL, pl2, pln, 0);
					free(pl2);
				}
			} else {
				if (!m->prewritten && peer_write_frame(fd, kind, m) != 0) {
					dead = true;
				}
			}
		}
		pthread_join(th, NULL);
		i = j;
		if (dead) {
			for (int k = i; k < tc->nm; k++) {
				snprintf(tc->m[k].res, sizeof(tc->m[k].res), "!skipped");
			}
			break;
		}
	}
out:
	rp_close(fd);
	rp_close(sp[0]);
	rp_close(sp[1]);
	nng_socket_close(s);
	if (have_pl) {
		rp_listener_close(&pl);
	}
	pthread_mutex_destroy(&pw.mtx);
	pthread_cond_destroy(&pw.cv);
}

// ---------------------------------------------------------------- nng <-> nng scenario
static void
run_n2n(tcase *tc, char *why, size_t whysz)
{
	nng_socket a, b;
	uint16_t   x, y;
	int        rv;
	pipewait   pa, pb;
	char       url[220];
	int        sp[2] = { -1, -1 };
	const char *pa_name = tc->proto, *pb_name = tc->proto;

	if (strcmp(tc->proto, "reqrep") == 0) {
		pa_name = "reqraw";
		pb_name = "repraw";
	}
	if ((rv = open_sock(pa_name, &a, &x, &y)) != 0) {
		snprintf(why, whysz, "open-%d", rv);
		return;
	}
	if ((rv = open_sock(pb_name, &b, &x, &y)) != 0) {
		nng_socket_close(a);
		snprintf(why, whysz, "open-%d", rv);
		return;
	}
	set_common_opts(a, tc->rcvmax);
	set_common_opts(b, tc->rcvmax);
	pipewait_init(&pa, a);
	pipewait_init(&pb, b);

	if (strcmp(tc->tran, "sfd") == 0) {
		nng_listener la, lb;
		if (rp_socketpair(sp) != 0) {
			snprintf(why, whysz, "socketpair-%d", errno);
			goto out;
		}
		if ((rv = nng_listener_create(&la, a, "socket://")) != 0 || (rv = nng_listener_start(la, 0)) != 0 ||
		    (rv = nng_listener_create(&lb, b, "socket://")) != 0 || (rv = nng_listener_start(lb, 0)) != 0 ||
		    (rv = nng_listener_set_int(la, NNG_OPT_SOCKET_FD, sp[0])) != 0 ||
		    (rv = nng_listener_set_int(lb, NNG_OPT_SOCKET_FD, sp[1])) != 0) {
			snprintf(why, whysz, "sfd-listen-%d", rv);
			goto out;
		}
		sp[0] = sp[1] = -1;
	} else {
		nng_listener l;
		if (strcmp(tc->tran, "tcp") == 0 || strcmp(tc->tran, "ws") == 0) {
			int port = 0;
			snprintf(url, sizeof(url), "%s://127.0.0.1:0%s", tc->tran, tc->tran[0] == 'w' ? "/c01" : "");
			if ((rv = nng_listen(b, url, &l, 0)) != 0 ||
			    (rv = nng_listener_get_int(l, NNG_OPT_BOUND_PORT, &port)) != 0) {
				snprintf(why, whysz, "listen-%d", rv);
				goto out;
			}
			snprintf(url, sizeof(url), "%s://127.0.0.1:%d%s", tc->tran, port, tc->tran[0] == 'w' ? "/c01" : "");
		} else {
			if (strcmp(tc->tran, "ipc") == 0) {
				snprintf(url, sizeof(url), "ipc://%s/nn-%d-%u.sock", tmpdir, (int) getpid(), ++conn_tag);
			} else {
				snprintf(url, sizeof(url), "inproc://c01-%d-%u", (int) getpid(), ++conn_tag);
			}
			if ((rv = nng_listen(b, url, &l, 0)) != 0) {
				snprintf(why, whysz, "listen-%d", rv);
				goto out;
			}
		}
		if ((rv = nng_dial(a, url, NULL, 0)) != 0) {
			snprintf(why, whysz, "dial-%d", rv);
			goto out;
		}
	}
	if (!pipewait_wait(&pa, 1, TMO) || !pipewait_wait(&pb, 1, TMO)) {
		snprintf(why, whysz, "no-pipe");
		goto out;
	}
	if (tc->duplex) {
		// DUPLEX: all a-messages (A -> B) and all b-messages (B -> A) travel at the same time, so that on every
		// connection sends start while incoming frames are half read (with the clamp cutting the reads)
		mspec    *txm[2], *rxm[2];
		int       cnt[2] = { 0, 0 }, k2[2] = { 0, 0 };
		phase     ph[4];
		pthread_t th[4];
		for (int i = 0; i < tc->nm; i++) {
			cnt[tc->m[i].dir == 'b']++;
		}
		for (int d = 0; d < 2; d++) {
			txm[d] = calloc((size_t) cnt[d] + 1, sizeof(mspec));
			rxm[d] = calloc((size_t) cnt[d] + 1, sizeof(mspec));
		}
		for (int i = 0; i < tc->nm; i++) {
			int d             = tc->m[i].dir == 'b';
			txm[d][k2[d]++] = tc->m[i];
		}
		for (int d = 0; d < 2; d++) {
			ph[2 * d]     = (phase){ .s = d ? b : a, .m = txm[d], .n = cnt[d], .send = true, .strip = 0 };
			ph[2 * d + 1] = (phase){ .s = d ? a : b, .m = rxm[d], .n = cnt[d], .send = false, .strip = tc->strip };
		}
		for (int t = 0; t < 4; t++) {
			pthread_create(&th[t], NULL, phase_thread, &ph[t]);
		}
		for (int t = 0; t < 4; t++) {
			pthread_join(th[t], NULL);
		}
		k2[0] = k2[1] = 0;
		for (int i = 0; i < tc->nm; i++) {
			int d = tc->m[i].dir == 'b';
			memcpy(tc->m[i].res, rxm[d][k2[d]].res, sizeof(tc->m[i].res));
			memcpy(tc->m[i].err, txm[d][k2[d]].err, sizeof(tc->m[i].err));
			k2[d]++;
		}
		for (int d = 0; d < 2; d++) {
			free(txm[d]);
			free(rxm[d]);
		}
		goto out;
	}
	for (int i = 0; i < tc->nm;) {
		int       j = i;
		phase     tx, rxp;
		pthread_t th;
		mspec    *rxm;
		while (j < tc->nm && tc->m[j].dir == tc->m[i].dir) {
			j++;
		}
		// the sender works on the specs; the receiver (this thread) on a shadow array
		rxm = calloc((size_t) (j - i), sizeof(mspec));
		tx.s     = tc->m[i].dir == 'a' ? a : b;
		tx.m     = &tc->m[i];
		tx.n     = j - i;
		tx.send  = true;
		tx.strip = 0;
		rxp.s     = tc->m[i].dir == 'a' ? b : a;
		rxp.m     = rxm;
		rxp.n     = j - i;
		rxp.send  = false;
		rxp.strip = tc->strip;
		pthread_create(&th, NULL, phase_thread, &tx);
		phase_thread(&rxp);
		pthread_join(th, NULL);
		for (int k = i; k < j; k++) {
			memcpy(tc->m[k].res, rxm[k - i].res, sizeof(rxm[k - i].res));
		}
		free(rxm);
		i = j;
	}
out:
	rp_close(sp[0]);
	rp_close(sp[1]);
	nng_socket_close(a);
	nng_socket_close(b);
	pthread_mutex_destroy(&pa.mtx);
	pthread_cond_destroy(&pa.cv);
	pthread_mutex_destroy(&pb.mtx);
	pthread_cond_destroy(&pb.cv);
}

// ---------------------------------------------------------------- parsing
static char *
field(char **sp, char sep)
{
	char *s = *sp, *e;
	if (s == NULL) {
		return (NULL);
	}
	e = strchr(s, sep);
	if (e) {
		*e  = 0;
		*sp = e + 1;
	} else {
		*sp = NULL;
	}
	return (s);
}

static bool
parse_msg(char *txt, mspec *m)
{
	char *p = txt;
	char *d = field(&p, '/');
	memset(m, 0, sizeof(*m));
	if (d == NULL || d[0] == 0) {
		return (false);
	}
	m->dir   = d[0];
	char *f1 = field(&p, '/'), *f2 = field(&p, '/');
	if (f1 == NULL || f2 == NULL) {
		return (false);
	}
	m->hdr  = rp_parse_bytes(f1, &m->hlen);
	m->body = rp_parse_bytes(f2, &m->blen);
	m->mode = 'b';
	m->cuts = "-";
	if (m->dir == 'o') {
		char *f3 = field(&p, '/');
		m->step  = f3 ? strtoull(f3, NULL, 10) : 0;
	} else if (m->dir == 'i') {
		char *f3 = field(&p, '/'), *f4 = field(&p, '/');
		if (f3)
			m->cuts = f3;
		if (f4)
			m->mode = f4[0];
	}
	return (true);
}

static bool
parse_case(char *line, tcase *tc)
{
	char *p = line, *w;
	memset(tc, 0, offsetof(tcase, m));
	tc->nm = 0;
	w      = field(&p, ' ');
	if (w == NULL || strcmp(w, "case") != 0) {
		return (false);
	}
	if ((w = field(&p, ' ')) == NULL)
		return (false);
	snprintf(tc->id, sizeof(tc->id), "%s", w);
	if ((w = field(&p, ' ')) == NULL)
		return (false);
	snprintf(tc->scn, sizeof(tc->scn), "%s", w);
	if ((w = field(&p, ' ')) == NULL)
		return (false);
	snprintf(tc->tran, sizeof(tc->tran), "%s", w);
	if ((w = field(&p, ' ')) == NULL)
		return (false);
	snprintf(tc->proto, sizeof(tc->proto), "%s", w);
	if ((w = field(&p, ' ')) == NULL)
		return (false);
	tc->role = w[0];
	while ((w = field(&p, ' ')) != NULL) {
		if (strncmp(w, "rcvmax=", 7) == 0) {
			tc->rcvmax = strtoull(w + 7, NULL, 10);
		} else if (strncmp(w, "strip=", 6) == 0) {
			tc->strip = strtoull(w + 6, NULL, 10);
		} else if (strcmp(w, "duplex=1") == 0) {
			tc->duplex = true;
		} else if (strncmp(w, "clamp=", 6) == 0) {
			char *q = w + 6;
			char *a = field(&q, ':'), *b = field(&q, ':'), *c = q;
			tc->cseed = a ? strtoull(a, NULL, 10) : 0;
			tc->cpass = b ? (unsigned) strtoul(b, NULL, 10) : 1000;
			tc->ncpal = 0;
			while (c != NULL && *c != 0 && *c != '-' && tc->ncpal < 32) {
				char *v              = field(&c, ',');
				tc->cpal[tc->ncpal++] = strtoull(v, NULL, 10);
			}
		} else if (strncmp(w, "msgs=", 5) == 0) {
			char *q = w + 5, *mtxt;
			while ((mtxt = field(&q, ';')) != NULL && tc->nm < MAXMSGS) {
				if (mtxt[0] == 0) {
					continue;
				}
				if (!parse_msg(mtxt, &tc->m[tc->nm])) {
					return (false);
				}
				tc->nm++;
			}
		}
	}
	return (true);
}

int
main(void)
{
	char           *line = NULL;
	size_t          cap  = 0;
	ssize_t         n;
	nng_init_params ip;
	static tcase    tc;
	const char     *td = getenv("TMPDIR");

	snprintf(tmpdir, sizeof(tmpdir), "%s/c01-%d", (td && *td) ? td : "/tmp", (int) getpid());
	if (mkdir(tmpdir, 0700) != 0 && errno != EEXIST) {
		fprintf(stderr, "cannot create %s\n", tmpdir);
		return (3);
	}
	memset(&ip, 0, sizeof(ip));
	ip.num_task_threads   = 4;
	ip.max_task_threads   = 4;
	ip.num_expire_threads = 1;
	ip.max_expire_threads = 1;
	ip.num_poller_threads = 2;
	ip.max_poller_threads = 2;
	ip.num_resolver_threads = 1;
	if (nng_init(&ip) != 0) {
		fprintf(stderr, "nng_init failed\n");
		return (3);
	}
	while ((n = getline(&line, &cap, stdin)) > 0) {
		char           hs[24]  = "-";
		char           why[96] = "";
		rp_clamp_stats st;
		while (n > 0 && (line[n - 1] == '\n' || line[n - 1] == '\r')) {
			line[--n] = 0;
		}
		if (n == 0) {
			continue;
		}
		if (!parse_case(line, &tc)) {
			printf("bad-case\n");
			fflush(stdout);
			continue;
		}
		cuts_confirmed = cuts_attempted = 0;
		confirm_broken = false;
		if (failed_cases >= 3) {
			printf("case %s FAIL:aborted-after-failures hs=- :: :: clamp rd=0/0 wr=0/0 cuts=0/0\n", tc.id);
			fflush(stdout);
			for (int i = 0; i < tc.nm; i++) {
				free(tc.m[i].hdr);
				free(tc.m[i].body);
			}
			continue;
		}
		rp_clamp_install(tc.cseed, tc.cpal, tc.ncpal, tc.cpass);
		rp_clamp_get(&st, true);
		if (strcmp(tc.scn, "peer") == 0) {
			run_peer(&tc, hs, sizeof(hs), why, sizeof(why));
		} else if (strcmp(tc.scn, "n2n") == 0) {
			run_n2n(&tc, why, sizeof(why));
		} else {
			snprintf(why, sizeof(why), "unknown-scenario");
		}
		rp_clamp_observe_only();
		rp_clamp_get(&st, true);
		if (!rp_clamp_available()) {
			printf("nohook ");
		}
		printf("case %s %s%s hs=%s ::", tc.id, why[0] ? "FAIL:" : "ok", why, hs);
		{
			bool bad = why[0] != 0;
			for (int i = 0; i < tc.nm; i++) {
				if (tc.m[i].err[0] || tc.m[i].res[0] == '!' || tc.m[i].res[0] == 0) {
					bad = true;
				}
			}
			if (bad) {
				failed_cases++;
			}
		}
		for (int i = 0; i < tc.nm; i++) {
			printf(" %c=%s", tc.m[i].dir, tc.m[i].err[0] ? tc.m[i].err : tc.m[i].res[0] ? tc.m[i].res : "!none");
			free(tc.m[i].hdr);
			free(tc.m[i].body);
		}
		printf(" :: clamp rd=%" PRIu64 "/%" PRIu64 " wr=%" PRIu64 "/%" PRIu64 " cuts=%" PRIu64 "/%" PRIu64 "\n",
		    st.rd_calls, st.rd_fired, st.wr_calls, st.wr_fired, cuts_confirmed, cuts_attempted);
		fflush(stdout);
	}
	free(line);
	rp_clamp_remove();
	nng_fini();
	rmdir(tmpdir);
	return (0);
}
