// Harness-driven mock SP transport registered under scheme "gopher" (a scheme the
// URL parser knows but no transport claims).  Dialer/listener/pipe operations park
// the aio they are given; the harness completes them explicitly.  It obeys the
// transport contract the real transports obey: on a successful send it frees the
// message and finishes the aio; on failure it leaves the message on the aio; on
// close it fails parked aios with NNG_ECLOSED; the cancel function and completion
// both test-and-remove under the transport lock.  Pipes are created through the
// real core (nni_pipe_alloc_dialer/listener), so socket.c/pipe.c/dialer.c/
// listener.c run unmodified.
#include <stdio.h>
#include <string.h>

#include "core/nng_impl.h"
#include "simev.h"

typedef struct mock_ep   mock_ep;
typedef struct mock_pipe mock_pipe;

struct mock_pipe {
	nni_pipe *np;
	uint16_t  peer;
	nni_aio  *saio;
	nni_aio  *raio;
	bool      closed;
	int       idx;
};

struct mock_ep {
	nni_listener *l;
	nni_dialer   *d;
	nni_aio      *aio;
	bool          closed;
	int           idx;
};

#define MAXP 64
static nni_mtx    mock_mtx = NNI_MTX_INITIALIZER;
static mock_pipe *pipes[MAXP];
static int        npipes;
static uint32_t   pipe_idv[MAXP]; // core id of pipe i, kept after the pipe is gone
static mock_ep   *eps[MAXP];
static int        neps;
static int        ep_events;

static void
mock_init(void)
{
}
static void
mock_fini(void)
{
}

static int
mock_pipe_init(void *arg, nni_pipe *np)
{
	mock_pipe *p = arg;
	p->np        = np;
	return (0);
}
static void
mock_pipe_fini(void *arg)
{
	mock_pipe *p = arg;
	if (p->idx >= 0 && p->idx < MAXP && pipes[p->idx] == p) {
		pipes[p->idx] = NULL; // the memory belongs to the nni_pipe being freed
	}
}
static void
mock_pipe_stop(void *arg)
{
	(void) arg;
}
static void
mock_pipe_close(void *arg)
{
	mock_pipe *p = arg;
	nni_aio   *a;
	nni_mtx_lock(&mock_mtx);
	p->closed = true;
	if ((a = p->saio) != NULL) {
		p->saio = NULL;
		nni_aio_finish_error(a, NNG_ECLOSED);
	}
	if ((a = p->raio) != NULL) {
		p->raio = NULL;
		nni_aio_finish_error(a, NNG_ECLOSED);
	}
	ev_add("pclosed %d", p->idx);
	nni_mtx_unlock(&mock_mtx);
}
static void
mock_cancel(nni_aio *aio, void *arg, nng_err rv)
{
	mock_pipe *p = arg;
	nni_mtx_lock(&mock_mtx);
	if (p->saio == aio) {
		p->saio = NULL;
		nni_aio_finish_error(aio, rv);
	} else if (p->raio == aio) {
		p->raio = NULL;
		nni_aio_finish_error(aio, rv);
	}
	nni_mtx_unlock(&mock_mtx);
}
static void
mock_pipe_send(void *arg, nni_aio *aio)
{
	mock_pipe *p = arg;
	nni_msg   *m;
	nni_aio_reset(aio);
	nni_mtx_lock(&mock_mtx);
	if (!nni_aio_start(aio, mock_cancel, p)) {
		nni_mtx_unlock(&mock_mtx);
		return;
	}
	if (p->closed) {
		nni_mtx_unlock(&mock_mtx);
		nni_aio_finish_error(aio, NNG_ECLOSED);
		return;
	}
	p->saio = aio;
	m       = nni_aio_get_msg(aio);
	{
		char pre[32];
		snprintf(pre, sizeof(pre), "psend %d", p->idx);
		ev_add_msg(pre, nni_msg_header(m), nni_msg_header_len(m), nni_msg_body(m), nni_msg_len(m));
	}
	nni_mtx_unlock(&mock_mtx);
}
static void
mock_pipe_recv(void *arg, nni_aio *aio)
{
	mock_pipe *p = arg;
	nni_aio_reset(aio);
	nni_mtx_lock(&mock_mtx);
	if (!nni_aio_start(aio, mock_cancel, p)) {
		nni_mtx_unlock(&mock_mtx);
		return;
	}
	if (p->closed) {
		nni_mtx_unlock(&mock_mtx);
		nni_aio_finish_error(aio, NNG_ECLOSED);
		return;
	}
	p->raio = aio;
	ev_add("parm %d", p->idx);
	nni_mtx_unlock(&mock_mtx);
}
static uint16_t
mock_pipe_peer(void *arg)
{
	mock_pipe *p = arg;
	return (p->peer);
}
static nng_err
mock_pipe_getopt(void *arg, const char *n, void *v, size_t *sz, nni_type t)
{
	(void) arg;
	(void) n;
	(void) v;
	(void) sz;
	(void) t;
	return (NNG_ENOTSUP);
}
static const nng_sockaddr *
mock_pipe_addr(void *arg)
{
	static nng_sockaddr sa;
	(void) arg;
	return (&sa);
}
static size_t
mock_pipe_size(void)
{
	return (sizeof(mock_pipe));
}

static nng_err
mock_l_init(void *arg, nng_url *url, nni_listener *l)
{
	mock_ep *ep = arg;
	(void) url;
	ep->l   = l;
	ep->idx = neps;
	eps[neps++] = ep;
	return (NNG_OK);
}
static nng_err
mock_d_init(void *arg, nng_url *url, nni_dialer *d)
{
	mock_ep *ep = arg;
	(void) url;
	ep->d   = d;
	ep->idx = neps;
	eps[neps++] = ep;
	return (NNG_OK);
}
static void
mock_ep_fini(void *arg)
{
	mock_ep *ep = arg;
	// the memory belongs to the dialer/listener being freed
	nni_mtx_lock(&mock_mtx);
	if (ep->idx >= 0 && ep->idx < MAXP && eps[ep->idx] == ep) {
		eps[ep->idx] = NULL;
	}
	nni_mtx_unlock(&mock_mtx);
}
static void
mock_ep_stop(void *arg)
{
	(void) arg;
}
static void
mock_ep_close(void *arg)
{
	mock_ep *ep = arg;
	nni_aio *a;
	nni_mtx_lock(&mock_mtx);
	ep->closed = true;
	if ((a = ep->aio) != NULL) {
		ep->aio = NULL;
		nni_aio_finish_error(a, NNG_ECLOSED);
	}
	nni_mtx_unlock(&mock_mtx);
}
static void
mock_ep_cancel(nni_aio *aio, void *arg, nng_err rv)
{
	mock_ep *ep = arg;
	nni_mtx_lock(&mock_mtx);
	if (ep->aio == aio) {
		ep->aio = NULL;
		nni_aio_finish_error(aio, rv);
	}
	nni_mtx_unlock(&mock_mtx);
}
static nng_err
mock_bind(void *arg, nng_url *url)
{
	(void) arg;
	(void) url;
	return (NNG_OK);
}
static void
mock_ep_park(void *arg, nni_aio *aio)
{
	mock_ep *ep = arg;
	nni_aio_reset(aio);
	nni_mtx_lock(&mock_mtx);
	if (!nni_aio_start(aio, mock_ep_cancel, ep)) {
		nni_mtx_unlock(&mock_mtx);
		return;
	}
	if (ep->closed) {
		nni_mtx_unlock(&mock_mtx);
		nni_aio_finish_error(aio, NNG_ECLOSED);
		return;
	}
	ep->aio = aio;
	if (ep_events) {
		ev_add("earm %d", ep->idx);
	}
	nni_mtx_unlock(&mock_mtx);
}
static nng_err
mock_ep_getopt(void *a, const char *n, void *v, size_t *s, nni_type t)
{
	(void) a;
	(void) n;
	(void) v;
	(void) s;
	(void) t;
	return (NNG_ENOTSUP);
}
static nng_err
mock_ep_setopt(void *a, const char *n, const void *v, size_t s, nni_type t)
{
	(void) a;
	(void) n;
	(void) v;
	(void) s;
	(void) t;
	return (NNG_ENOTSUP);
}

static nni_sp_pipe_ops mock_pipe_ops = {
	.p_size      = mock_pipe_size,
	.p_init      = mock_pipe_init,
	.p_fini      = mock_pipe_fini,
	.p_send      = mock_pipe_send,
	.p_recv      = mock_pipe_recv,
	.p_close     = mock_pipe_close,
	.p_stop      = mock_pipe_stop,
	.p_peer      = mock_pipe_peer,
	.p_getopt    = mock_pipe_getopt,
	.p_peer_addr = mock_pipe_addr,
	.p_self_addr = mock_pipe_addr,
};
static nni_sp_dialer_ops mock_dialer_ops = {
	.d_size    = sizeof(mock_ep),
	.d_init    = mock_d_init,
	.d_fini    = mock_ep_fini,
	.d_connect = mock_ep_park,
	.d_close   = mock_ep_close,
	.d_stop    = mock_ep_stop,
	.d_getopt  = mock_ep_getopt,
	.d_setopt  = mock_ep_setopt,
};
static nni_sp_listener_ops mock_listener_ops = {
	.l_size   = sizeof(mock_ep),
	.l_init   = mock_l_init,
	.l_fini   = mock_ep_fini,
	.l_bind   = mock_bind,
	.l_accept = mock_ep_park,
	.l_close  = mock_ep_close,
	.l_stop   = mock_ep_stop,
	.l_getopt = mock_ep_getopt,
	.l_setopt = mock_ep_setopt,
};
static struct nni_sp_tran mock_tran = {
	.tran_scheme   = "gopher",
	.tran_dialer   = &mock_dialer_ops,
	.tran_listener = &mock_listener_ops,
	.tran_pipe     = &mock_pipe_ops,
	.tran_init     = mock_init,
	.tran_fini     = mock_fini,
};

void
mock_register(void)
{
	nni_sp_tran_register(&mock_tran);
}

// harness ops -------------------------------------------------------
int
mock_conn_done(int epi, uint16_t peer, int err)
{
	mock_ep   *ep;
	mock_pipe *p  = NULL;
	nni_aio   *a;
	int        rv;
	int        idx;
	// look the endpoint up and take its parked aio in one critical section: an
	// endpoint whose aio we hold cannot be freed (its stop waits for that aio)
	nni_mtx_lock(&mock_mtx);
	ep = (epi >= 0 && epi < neps) ? eps[epi] : NULL;
	if (ep == NULL || npipes >= MAXP) {
		nni_mtx_unlock(&mock_mtx);
		return (-1);
	}
	a       = ep->aio;
	ep->aio = NULL;
	nni_mtx_unlock(&mock_mtx);
	if (a == NULL) {
		return (-1);
	}
	if (err != 0) {
		nni_aio_finish_error(a, err);
		return (-2);
	}
	if (ep->l != NULL) {
		rv = nni_pipe_alloc_listener((void **) &p, ep->l);
	} else {
		rv = nni_pipe_alloc_dialer((void **) &p, ep->d);
	}
	if (rv != 0) {
		nni_aio_finish_error(a, rv);
		return (-3);
	}
	p->peer         = peer;
	idx             = npipes;
	p->idx          = idx;
	pipes[npipes++] = p;
	pipe_idv[idx]   = nni_pipe_id(p->np);
	nni_aio_set_output(a, 0, p->np);
	nni_aio_finish(a, 0, 0);
	return (idx); // the pipe may already have been rejected and freed
}

int
mock_recv_done(int pi, const void *unused, const void *data, size_t len, int err)
{
	(void) unused;
	mock_pipe *p = (pi >= 0 && pi < MAXP) ? pipes[pi] : NULL;
	nni_aio   *a;
	nni_msg   *m;
	if (p == NULL) {
		return (-1);
	}
	nni_mtx_lock(&mock_mtx);
	a       = p->raio;
	p->raio = NULL;
	nni_mtx_unlock(&mock_mtx);
	if (a == NULL) {
		return (-1);
	}
	if (err != 0) {
		nni_aio_finish_error(a, err);
		return (0);
	}
	if (nni_msg_alloc(&m, len) != 0) {
		nni_aio_finish_error(a, NNG_ENOMEM);
		return (0);
	}
	memcpy(nni_msg_body(m), data, len);
	nni_aio_set_msg(a, m);
	nni_aio_finish(a, 0, len);
	return (0);
}

int
mock_send_done(int pi, int err)
{
	mock_pipe *p = (pi >= 0 && pi < MAXP) ? pipes[pi] : NULL;
	nni_aio   *a;
	nni_msg   *m;
	size_t     len;
	if (p == NULL) {
		return (-1);
	}
	nni_mtx_lock(&mock_mtx);
	a       = p->saio;
	p->saio = NULL;
	nni_mtx_unlock(&mock_mtx);
	if (a == NULL) {
		return (-1);
	}
	if (err != 0) {
		nni_aio_finish_error(a, err);
		return (0);
	}
	m   = nni_aio_get_msg(a);
	len = nni_msg_len(m);
	nni_aio_set_msg(a, NULL);
	nni_msg_free(m);
	nni_aio_finish(a, 0, len);
	return (0);
}

int
mock_pipe_lose(int pi)
{
	mock_pipe *p = (pi >= 0 && pi < MAXP) ? pipes[pi] : NULL;
	if (p == NULL) {
		return (-1);
	}
	nni_pipe_close(p->np);
	return (0);
}
int
mock_neps(void)
{
	return (neps);
}
void
mock_ep_events(int on)
{
	ep_events = on;
}
uint32_t
mock_pipe_id(int pi)
{
	return (pipes[pi] ? nni_pipe_id(pipes[pi]->np) : 0);
}
// the id pipe <pi> had when it was created (still answered after the pipe is gone)
uint32_t
mock_pipe_id0(int pi)
{
	return ((pi >= 0 && pi < MAXP) ? pipe_idv[pi] : 0);
}
void
mock_reset(void)
{
	memset(pipe_idv, 0, sizeof(pipe_idv));
	// indices restart for the next case; the objects themselves are owned and
	// released by nng (pipes by the reaper, endpoints with their socket)
	npipes = 0;
	neps   = 0;
	memset(pipes, 0, sizeof(pipes));
	memset(eps, 0, sizeof(eps));
}
