// shared helpers for the UNIT op interpreters (line protocol, hex, digests)
#ifndef VERIF_COMMON_H
#define VERIF_COMMON_H
#include <ctype.h>
#include <inttypes.h>
#include <stdbool.h>
#include <stdint.h>
#include <stdio.h>
#include <stdlib.h>
#include <string.h>

#define MAXW 16
static char  *vw[MAXW];
static int    vn;
static char  *vline = NULL;
static size_t vcap  = 0;

// read one line, split into words; returns 0 at EOF
static int
next_line(void)
{
	ssize_t n = getline(&vline, &vcap, stdin);
	if (n <= 0) {
		return (0);
	}
	vn      = 0;
	char *p = vline;
	while (*p && vn < MAXW) {
		while (*p == ' ' || *p == '\n' || *p == '\r') {
			*p++ = 0;
		}
		if (!*p) {
			break;
		}
		vw[vn++] = p;
		while (*p && *p != ' ' && *p != '\n' && *p != '\r') {
			p++;
		}
	}
	return (1);
}

static int
hexval(int c)
{
	if (c >= '0' && c <= '9')
		return c - '0';
	if (c >= 'a' && c <= 'f')
		return c - 'a' + 10;
	if (c >= 'A' && c <= 'F')
		return c - 'A' + 10;
	return -1;
}

// parse hex word ("-" = empty) into malloc'd buffer (exact size, so ASan sees overreads)
static uint8_t *
parse_hex(const char *s, size_t *lenp)
{
	if (strcmp(s, "-") == 0) {
		*lenp = 0;
		return (malloc(1));
	}
	size_t   n = strlen(s) / 2;
	uint8_t *b = malloc(n ? n : 1);
	for (size_t i = 0; i < n; i++) {
		b[i] = (uint8_t) (hexval(s[2 * i]) * 16 + hexval(s[2 * i + 1]));
	}
	*lenp = n;
	return (b);
}

static uint64_t
fnv64(const uint8_t *b, size_t n)
{
	uint64_t h = 0xcbf29ce484222325ull;
	for (size_t i = 0; i < n; i++) {
		h = (h ^ b[i]) * 0x100000001b3ull;
	}
	return (h);
}

static void
put_digest(const char *tag, const uint8_t *b, size_t n)
{
	printf(" %s=%zu:%016" PRIx64, tag, n, fnv64(b, n));
}

static void
put_hex(const char *tag, const uint8_t *b, size_t n)
{
	printf(" %s=", tag);
	if (n == 0) {
		printf("-");
	}
	for (size_t i = 0; i < n; i++) {
		printf("%02x", b[i]);
	}
}
#endif
