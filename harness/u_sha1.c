// UNIT op interpreter for SHA-1 (C16, part U): the real nni_sha1_init / nni_sha1_update / nni_sha1_final /
// nni_sha1 of src/supplemental/websocket/sha1.c (exported by libnng.a; nni_sha1_process and nni_sha1_pad are
// static and reached through them).
//
//   init <g>       a fresh heap context filled with byte <g> (decimal), then nni_sha1_init   -> init idx=0 len=0
//   update <hex>   nni_sha1_update with an exact-size heap copy of the bytes ("-" = length 0) -> update idx=<idx> len=<bit count>
//   final          nni_sha1_final into an exact 20-byte heap buffer                           -> final <40 hex> idx=<idx>
//   hash <hex>     nni_sha1 (one call)                                                        -> hash <40 hex>
// The context is a heap object of exactly sizeof(nni_sha1_ctx) so that ASan sees any access past it; idx and len
// are printed so that the block buffer accounting is compared with the model, not only the digest.
#include "core/nng_impl.h"
#include "supplemental/websocket/sha1.h"

#include "common.h"

static void
hex20(const uint8_t *d)
{
	for (int i = 0; i < 20; i++) {
		printf("%02x", d[i]);
	}
}

int
main(void)
{
	nni_sha1_ctx *ctx = NULL;
	while (next_line()) {
		if (vn == 0) {
			continue;
		}
		const char *op = vw[0];
		if (strcmp(op, "reset") == 0) {
			free(ctx);
			ctx = NULL;
			printf("reset\n");
		} else if (strcmp(op, "verbose") == 0) {
			printf("ok\n");
		} else if (strcmp(op, "init") == 0 && vn == 2) {
			free(ctx);
			ctx = malloc(sizeof(*ctx));
			memset(ctx, atoi(vw[1]), sizeof(*ctx));
			nni_sha1_init(ctx);
			printf("init idx=%d len=%" PRIu64 "\n", ctx->idx, ctx->len);
		} else if (strcmp(op, "update") == 0 && vn == 2 && ctx != NULL) {
			size_t   n;
			uint8_t *b = parse_hex(vw[1], &n);
			nni_sha1_update(ctx, b, n);
			printf("update idx=%d len=%" PRIu64 "\n", ctx->idx, ctx->len);
			free(b);
		} else if (strcmp(op, "final") == 0 && ctx != NULL) {
			uint8_t *d = malloc(20);
			nni_sha1_final(ctx, d);
			printf("final ");
			hex20(d);
			printf(" idx=%d\n", ctx->idx);
			free(d);
		} else if (strcmp(op, "hash") == 0 && vn == 2) {
			size_t   n;
			uint8_t *b = parse_hex(vw[1], &n);
			uint8_t *d = malloc(20);
			nni_sha1(b, n, d);
			printf("hash ");
			hex20(d);
			printf("\n");
			free(d);
			free(b);
		} else {
			printf("bad-op\n");
		}
		fflush(stdout);
	}
	free(ctx);
	free(vline);
	return (0);
}
