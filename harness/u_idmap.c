// UNIT op interpreter for nni_id_map (C18): public nng_id_* API (thin wrappers over nni_id_*),
// plus nni_id_count and a look at the private fields for the model projection.
// nni_random() is supplied by this file so that NNG_MAP_RANDOM is reproducible: the value is
// the last argument of the `alloc` line.
#include "qcommon.h"

static uint32_t next_random;
uint32_t
nni_random(void)
{
	return (next_random);
}

static nng_id_map *map;

static void
tail(void)
{
	nni_id_map *m = (nni_id_map *) map; // struct nng_id_map_s { nni_id_map m; }
	printf(" cnt=%u tcap=%u load=%u dyn=%" PRIu64 "\n", nni_id_count(m), m->id_cap, m->id_load, m->id_dyn_val);
}

static int
cmp_kv(const void *a, const void *b)
{
	const uint64_t *x = a, *y = b;
	return (x[0] < y[0] ? -1 : x[0] > y[0] ? 1 : 0);
}

int
main(void)
{
	nni_alloc_set(v_malloc, v_calloc, v_free);
	while (next_line()) {
		if (vn == 0) {
			continue;
		}
		if (strcmp(vw[0], "reset") == 0) {
			if (map != NULL) {
				nng_id_map_free(map);
				map = NULL;
			}
			fail_in = -1;
			printf("reset\n");
			fflush(stdout);
			continue;
		}
		if (strcmp(vw[0], "verbose") == 0) {
			printf("ok\n");
			continue;
		}
		if (strcmp(vw[0], "fail") == 0) {
			fail_in = 0;
			printf("ok\n");
			continue;
		}
		if (strcmp(vw[0], "init") == 0 && vn == 4) {
			if (map != NULL) {
				nng_id_map_free(map);
			}
			int rv = nng_id_map_alloc(&map, strtoull(vw[1], NULL, 10), strtoull(vw[2], NULL, 10),
			    atoi(vw[3]) ? NNG_MAP_RANDOM : 0);
			printf("%d -", rv);
			tail();
		} else if (map == NULL) {
			printf("bad-op\n");
		} else if (strcmp(vw[0], "set") == 0 && vn == 3) {
			int rv = nng_id_set(map, strtoull(vw[1], NULL, 10), (void *) (uintptr_t) strtoull(vw[2], NULL, 10));
			printf("%d -", rv);
			tail();
		} else if (strcmp(vw[0], "get") == 0 && vn == 2) {
			void *v = nng_id_get(map, strtoull(vw[1], NULL, 10));
			printf("0 v=%" PRIu64, (uint64_t) (uintptr_t) v);
			tail();
		} else if (strcmp(vw[0], "remove") == 0 && vn == 2) {
			int rv = nng_id_remove(map, strtoull(vw[1], NULL, 10));
			printf("%d -", rv);
			tail();
		} else if (strcmp(vw[0], "alloc") == 0 && vn == 3) {
			uint64_t id = 0;
			next_random = (uint32_t) strtoul(vw[2], NULL, 10);
			int rv      = nng_id_alloc(map, &id, (void *) (uintptr_t) strtoull(vw[1], NULL, 10));
			if (rv == 0) {
				printf("0 id=%" PRIu64, id);
			} else {
				printf("%d -", rv);
			}
			tail();
		} else if (strcmp(vw[0], "fini") == 0 && vn == 1) {
			// nni_id_map_fini as the library runs it on its registered (static) maps at nng_fini: the map object
			// lives on and is used again after the next nng_init; the id cursor must survive (ids are not
			// reissued before the range wraps)
			nni_id_map_fini((nni_id_map *) map);
			printf("0 -");
			tail();
		} else if (strcmp(vw[0], "visit") == 0) {
			uint32_t  cursor = 0;
			uint64_t  k;
			void     *v;
			size_t    n = 0, capn = 64;
			uint64_t *kv = malloc(capn * 16);
			while (nng_id_visit(map, &k, &v, &cursor)) {
				if (n == capn) {
					capn *= 2;
					kv = realloc(kv, capn * 16);
				}
				kv[2 * n]     = k;
				kv[2 * n + 1] = (uint64_t) (uintptr_t) v;
				n++;
			}
			qsort(kv, n, 16, cmp_kv);
			printf("0 kv=");
			for (size_t i = 0; i < n; i++) {
				printf("%s%" PRIu64 ":%" PRIu64, i ? "," : "", kv[2 * i], kv[2 * i + 1]);
			}
			if (n == 0) {
				printf("-");
			}
			free(kv);
			tail();
		} else {
			printf("bad-op\n");
		}
		fail_in = -1;
	}
	if (map != NULL) {
		nng_id_map_free(map);
	}
	return (0);
}
