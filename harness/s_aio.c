// SIM executor for C02 (asynchronous operations complete exactly once).
//
// ONE user-visible nng_aio under test.  A case is a set of ACTOR programs that run
// concurrently as harness threads under the simulated platform (every lock/unlock/cv
// operation inside nng and inside this harness is a scheduling point), plus the
// library's own expire and task threads.  The harness implements the GENERIC PROVIDER
// of the Lean model (Model/Aio.lean) one to one with the public API:
//   submit   : lock P; ok = nng_aio_start(aio, cancel_fn, 0); if ok parked = 1; unlock P
//   complete : lock P; found = parked; parked = 0; unlock P; if found nng_aio_finish(aio, rv)
//   cancel_fn: lock P; found = parked; parked = 0; unlock P; if found nng_aio_finish(aio, rv)
// and also drives real providers (nng_sleep_aio, PULL/PUSH socket receive/send over the
// mock transport, nng_dialer_start_aio).  Every observable event is recorded with the
// virtual time; because exactly one thread holds the baton the record order is the real
// order.  One `run` line prints the whole trace: events joined by " ; ".
//
// line protocol
//   sched <seed> <rw|rr> [<delay-offset> <delay-len>]
//   setup <g|pull|push|dial> [n]    provider kind (default g = generic provider); push n = NNG_OPT_SENDBUF n
//   cb <k> <op>                     the callback re-submits (op: sub|slp:<ms>|rcv|snd) up to k times
//   A <name> <op> <op> ...          one actor program (names: one letter)
//   run                             -> trace line
//   reset                           -> "reset"
// actor ops: to:<ms|inf|def|0> ex:<ms> sub subi:<rv> skip slp:<ms> cmp:<rv> abt:<rv> can cls stp wt
//            bsy fre adv:<ms> jn:<actor> y rcv snd mrecv mrecverr:<rv> msend:<rv> sclose dial
//            mconn:<err> nbsnd (nng_sendmsg NONBLOCK: fills pipe/buffer) xrcv:<i> xsnd:<i> (auxiliary aios
//            i=0,1: more waiters on the provider's list; only their exactly-once is checked, by the harness:
//            events "auxdup i" / "auxmiss i")
// events: "<actor> c <op..>" call, "<actor> r <op> [val]" return, "<actor> xc <rv> <found>" cancel
//   function ran, "<actor> pc <rv> <found>" provider completion test-and-remove, "T cb <result>"
//   callback entered, "T ce <result>" callback about to resubmit/return, "<actor> adv <ms>",
//   "M idle" the main loop got the baton back: every other thread is blocked;
//   every event ends with "@<virtual ms since run start>".
#include <nng/nng.h>

#include "core/nng_impl.h"

#include "common.h"
#include "simev.h"

// optional simplat extensions (integration/C02.md has the diff): round-robin policy and
// cancelling an armed delay.  Weak, so this harness also links against a simplat.c without them
// (round-robin schedules then degrade to the seeded random walk).
extern void sim_policy(int) __attribute__((weak));
extern void sim_disarm_delay(void) __attribute__((weak));
static void
set_policy(int p)
{
	if (sim_policy != NULL) {
		sim_policy(p);
	}
}
static void
disarm_delay(void)
{
	if (sim_disarm_delay != NULL) {
		sim_disarm_delay();
	} else {
		sim_arm_delay(0x3fffffff, 0);
	}
}

#define MAXA 8
#define MAXOPS 24

typedef struct {
	char        name[8];
	char       *ops[MAXOPS];
	int         nops;
	bool        done;
	nng_thread *thr;
} actor;

static actor    A[MAXA];
static int      nA;
static nng_aio *aio;
static bool     aio_live;
static bool     freeing;
static nng_mtx *pmtx; // the generic provider's lock
static nng_mtx *hmtx; // harness lock (join, yield)
static nng_cv  *hcv;
static bool     parked;
static int      resub_budget;
static char     resub_op[32] = "sub";
static bool     skipflag, skip_armed;
static char     kind[8]      = "g";
static int      kind_arg;
#define NAUX 2
static nng_aio *aux[NAUX];
static int      aux_sub[NAUX], aux_cb[NAUX];
static long long t0;
static int      nsubmit;

static __thread const char *me;

static nng_socket sock;
static bool       sock_open;
static nng_dialer dlr;
static int        pipe0 = -1;
static bool       pipe_dead; // the mock pipe got an error delivered (the protocol closes it) or the socket closed
static nng_mtx   *cmtx;      // orders harness-side transport completions against socket close: the mock
                             // transport's pipe/endpoint objects die with the socket

static const char *
who(void)
{
	return (me != NULL ? me : "E");
}

static void
evt(const char *fmt, ...)
{
	char    buf[200];
	va_list ap;
	va_start(ap, fmt);
	vsnprintf(buf, sizeof(buf), fmt, ap);
	va_end(ap);
	ev_add("%s %s @%lld", who(), buf, sim_now_ms() - t0);
}

static void
cancel_fn(nng_aio *a, void *arg, nng_err rv)
{
	bool found;
	(void) arg;
	nng_mtx_lock(pmtx);
	found  = parked;
	parked = false;
	evt("xc %d %d", (int) rv, (int) found);
	nng_mtx_unlock(pmtx);
	if (found) {
		nng_aio_finish(a, rv);
	}
}

static nng_duration
parse_dur(const char *s)
{
	if (strcmp(s, "inf") == 0) {
		return (NNG_DURATION_INFINITE);
	}
	if (strcmp(s, "def") == 0) {
		return (NNG_DURATION_DEFAULT);
	}
	return (atoi(s));
}

static void do_op(char *op);

static void
submit_generic(void)
{
	bool ok;
	nng_mtx_lock(pmtx);
	evt("c sub"); // (recorded under the provider lock: nothing of the provider interleaves)
	ok = nng_aio_start(aio, cancel_fn, NULL);
	if (ok) {
		parked = true;
	}
	evt("r sub %d", (int) ok);
	nng_mtx_unlock(pmtx);
}

static void
aux_cbfn(void *arg)
{
	int      i = (int) (intptr_t) arg;
	int      rv;
	nng_msg *m;
	me = "X";
	rv = (int) nng_aio_result(aux[i]);
	m  = nng_aio_get_msg(aux[i]);
	aux_cb[i]++;
	evt("xcb %d %d", i, rv);
	if (aux_cb[i] > aux_sub[i]) {
		evt("auxdup %d", i);
	}
	if (m != NULL && ((rv == 0 && strcmp(kind, "pull") == 0) || (rv != 0 && strcmp(kind, "push") == 0))) {
		nng_msg_free(m);
		nng_aio_set_msg(aux[i], NULL);
	}
	me = NULL;
}

static void
the_cb(void *arg)
{
	int rv;
	(void) arg;
	me = "T";
	rv = (int) nng_aio_result(aio);
	evt("cb %d", rv);
	if (rv == 0 && (strcmp(kind, "pull") == 0) && nng_aio_get_msg(aio) != NULL) {
		nng_msg_free(nng_aio_get_msg(aio));
		nng_aio_set_msg(aio, NULL);
	}
	if (rv != 0 && (strcmp(kind, "push") == 0) && nng_aio_get_msg(aio) != NULL) {
		nng_msg_free(nng_aio_get_msg(aio));
		nng_aio_set_msg(aio, NULL);
	}
	evt("ce %d", (int) nng_aio_result(aio));
	if (resub_budget > 0) {
		char tmp[32];
		resub_budget--;
		snprintf(tmp, sizeof(tmp), "%s", resub_op);
		do_op(tmp);
	}
	evt("cx");
	me = NULL;
}

static actor *
find_actor(const char *n)
{
	for (int i = 0; i < nA; i++) {
		if (strcmp(A[i].name, n) == 0) {
			return (&A[i]);
		}
	}
	return (NULL);
}

static void
do_op(char *op)
{
	char *arg = strchr(op, ':');
	char  name[16];
	size_t nl = arg ? (size_t) (arg - op) : strlen(op);
	if (nl >= sizeof(name)) {
		nl = sizeof(name) - 1;
	}
	memcpy(name, op, nl);
	name[nl] = 0;
	if (arg) {
		arg++;
	}
#define OP(s) (strcmp(name, s) == 0)
	if (OP("adv")) {
		sim_advance_noq(atoi(arg));
		evt("adv %d", atoi(arg));
		return;
	}
	if (OP("y")) {
		nng_mtx_lock(hmtx);
		nng_mtx_unlock(hmtx);
		return;
	}
	if (OP("jn")) {
		actor *o = find_actor(arg);
		nng_mtx_lock(hmtx);
		while (o != NULL && !o->done) {
			nng_cv_wait(hcv);
		}
		nng_mtx_unlock(hmtx);
		return;
	}
	if (OP("cmp")) {
		// provider completion: never touches the aio unless it found it parked
		bool found;
		int  rv = atoi(arg);
		nng_mtx_lock(pmtx);
		found  = parked;
		parked = false;
		evt("pc %d %d", rv, (int) found);
		nng_mtx_unlock(pmtx);
		if (found) {
			nng_aio_finish(aio, (nng_err) rv);
			evt("r cmp");
		}
		return;
	}
	if (OP("mrecv") || OP("mrecverr") || OP("msend") || OP("mconn")) {
		int rv = -9;
		evt("c %s", name);
		nng_mtx_lock(cmtx);
		if (sock_open && !pipe_dead) {
			if (OP("mrecv")) {
				rv = mock_recv_done(pipe0, NULL, "\x01\x02", 2, 0);
			} else if (OP("mrecverr")) {
				rv        = mock_recv_done(pipe0, NULL, NULL, 0, atoi(arg));
				pipe_dead = true;
			} else if (OP("msend")) {
				rv = mock_send_done(pipe0, atoi(arg));
				if (atoi(arg) != 0) {
					pipe_dead = true;
				}
			} else {
				rv = mock_conn_done(mock_neps() - 1, 0x51, atoi(arg));
			}
		}
		nng_mtx_unlock(cmtx);
		evt("r %s %d", name, rv);
		return;
	}
	if (OP("nbsnd")) {
		nng_msg *m;
		int      rv;
		evt("c nbsnd");
		nng_msg_alloc(&m, 2);
		if ((rv = nng_sendmsg(sock, m, NNG_FLAG_NONBLOCK)) != 0) {
			nng_msg_free(m);
		}
		evt("r nbsnd %d", rv);
		return;
	}
	if (OP("xrcvt")) {
		// auxiliary receive WITH a timeout ("xrcvt:<i>:<ms>"): an operation that is not a sleep and expires in the same
		// batch as the aio under test - the expire thread calls its cancel function with the queue lock dropped
		int i  = atoi(arg) % NAUX;
		int ms = 0;
		const char *c2 = strchr(arg, ':');
		if (c2 != NULL) {
			ms = atoi(c2 + 1);
		}
		if (aux[i] == NULL || aux_sub[i] != aux_cb[i]) {
			evt("skip %s", name);
			return;
		}
		aux_sub[i]++;
		evt("c %s %d", name, i);
		nng_aio_set_timeout(aux[i], ms);
		nng_socket_recv(sock, aux[i]);
		evt("r %s %d", name, i);
		return;
	}
	if (OP("xrcv") || OP("xsnd")) {
		int i = atoi(arg) % NAUX;
		if (aux[i] == NULL || aux_sub[i] != aux_cb[i]) {
			evt("skip %s", name); // still busy: one operation at a time per aio
			return;
		}
		aux_sub[i]++;
		evt("c %s %d", name, i);
		nng_aio_set_timeout(aux[i], NNG_DURATION_INFINITE);
		if (OP("xrcv")) {
			nng_socket_recv(sock, aux[i]);
		} else {
			nng_msg *m;
			nng_msg_alloc(&m, 2);
			nng_aio_set_msg(aux[i], m);
			nng_socket_send(sock, aux[i]);
		}
		evt("r %s %d", name, i);
		return;
	}
	if (OP("sclose")) {
		bool doit;
		evt("c sclose");
		nng_mtx_lock(cmtx);
		doit      = sock_open;
		sock_open = false;
		nng_mtx_unlock(cmtx);
		if (doit) {
			nng_socket_close(sock);
		}
		evt("r sclose");
		return;
	}
	if (!aio_live) {
		evt("skip %s", name);
		return;
	}
	if (OP("to")) {
		nng_aio_set_timeout(aio, parse_dur(arg));
		evt("to %s", arg);
	} else if (OP("ex")) {
		nng_aio_set_expire(aio, nng_clock() + (nng_time) atoi(arg));
		evt("ex %lld", sim_now_ms() - t0 + atoi(arg));
	} else if (OP("skip")) {
		nng_aio_skip_callback(aio, &skipflag);
		skip_armed = true;
		evt("skip");
	} else if (OP("sub")) {
		submit_generic();
	} else if (OP("subi")) {
		// provider completes synchronously, without nni_aio_start
		evt("c subi %d", atoi(arg));
		nng_aio_finish(aio, (nng_err) atoi(arg));
		if (skip_armed) {
			evt("r subi %d", (int) skipflag);
			skip_armed = false;
		} else {
			evt("r subi 0");
		}
	} else if (OP("slp")) {
		evt("c slp %d", atoi(arg));
		nng_sleep_aio(atoi(arg), aio);
		evt("r slp");
	} else if (OP("rcv")) {
		evt("c rcv");
		nng_socket_recv(sock, aio);
		evt("r rcv");
	} else if (OP("snd")) {
		nng_msg *m;
		evt("c snd");
		nng_msg_alloc(&m, 2);
		nng_aio_set_msg(aio, m);
		nng_socket_send(sock, aio);
		evt("r snd");
	} else if (OP("dial")) {
		evt("c dial");
		nng_dialer_start_aio(dlr, NNG_FLAG_NONBLOCK, aio);
		evt("r dial");
	} else if (OP("abt")) {
		evt("c abt %d", atoi(arg));
		nng_aio_abort(aio, (nng_err) atoi(arg));
		evt("r abt");
	} else if (OP("can")) {
		evt("c abt %d", (int) NNG_ECANCELED);
		nng_aio_cancel(aio);
		evt("r abt");
	} else if (OP("cls")) {
		evt("c cls");
		nni_aio_close(aio);
		evt("r cls");
	} else if (OP("stp")) {
		evt("c stp");
		nng_aio_stop(aio);
		evt("r stp");
	} else if (OP("wt")) {
		evt("c wt");
		nng_aio_wait(aio);
		evt("r wt %d", (int) nng_aio_result(aio));
	} else if (OP("bsy")) {
		evt("c bsy");
		evt("r bsy %d", (int) nng_aio_busy(aio));
	} else if (OP("fre")) {
		freeing = true;
		evt("c fre");
		nng_aio_free(aio);
		aio_live = false;
		evt("r fre");
	} else {
		evt("badop %s", name);
	}
}

static void
actor_main(void *arg)
{
	actor *a = arg;
	me       = a->name;
	for (int i = 0; i < a->nops; i++) {
		do_op(a->ops[i]);
	}
	nng_mtx_lock(hmtx);
	a->done = true;
	nng_cv_wake(hcv);
	nng_mtx_unlock(hmtx);
	me = NULL;
}

static bool
all_done(void)
{
	for (int i = 0; i < nA; i++) {
		if (!A[i].done) {
			return (false);
		}
	}
	return (true);
}

static void
run_case(uint64_t seed, int policy, int doff, int dlen)
{
	me = "M";
	{
		// ONE expire thread: the aio under test and the auxiliary aios share an expire list, so that they can fall into
		// the same pass of nni_aio_expire_loop (gen_batch)
		nng_init_params ip;
		memset(&ip, 0, sizeof(ip));
		ip.num_expire_threads = 1;
		ip.max_expire_threads = 1;
		nng_init(&ip);
	}
	mock_register();
	mock_reset();
	set_policy(0);
	sim_seed(1);
	sim_seed_user(0x1234567);
	nng_mtx_alloc(&pmtx);
	nng_mtx_alloc(&hmtx);
	nng_cv_alloc(&hcv, hmtx);
	nng_mtx_alloc(&cmtx);
	pipe_dead = false;
	nng_aio_alloc(&aio, the_cb, NULL);
	for (int i = 0; i < NAUX; i++) {
		nng_aio_alloc(&aux[i], aux_cbfn, (void *) (intptr_t) i);
		aux_sub[i] = aux_cb[i] = 0;
	}
	aio_live = true;
	freeing  = false;
	parked   = false;
	skip_armed = false;
	pipe0    = -1;
	sock_open = false;
	if (strcmp(kind, "pull") == 0 || strcmp(kind, "push") == 0) {
		if (kind[2] == 'l') {
			nng_pull0_open(&sock);
		} else {
			nng_push0_open(&sock);
		}
		sock_open = true;
		if (kind[2] == 's' && kind_arg > 0) {
			nng_socket_set_int(sock, NNG_OPT_SENDBUF, kind_arg);
		}
		nng_listen(sock, "gopher://sut", NULL, 0);
		sim_quiesce();
		pipe0 = mock_conn_done(0, kind[2] == 'l' ? 0x50 : 0x51, 0);
		sim_quiesce();
	} else if (strcmp(kind, "dial") == 0) {
		nng_pair0_open(&sock);
		sock_open = true;
		nng_dialer_create(&dlr, sock, "gopher://peer");
		sim_quiesce();
	}
	if (sim_now_ms() & 1) {
		// keep the virtual clock even: timeouts are odd, so an advance never lands exactly
		// on a deadline (the expire thread would spin without a scheduling point)
		sim_advance_noq(1);
	}
	ev_clear();
	t0 = sim_now_ms();
	sim_seed(seed);
	set_policy(policy);
	for (int i = 0; i < nA; i++) {
		A[i].done = false;
		nng_thread_create(&A[i].thr, actor_main, &A[i]);
	}
	if (dlen > 0) {
		sim_arm_delay(doff, dlen);
	}
	for (int it = 0;; it++) {
		sim_quiesce();
		if (all_done()) {
			break;
		}
		// every other thread (actors, expire, task threads) is blocked: whatever was due at the
		// current virtual time has happened (the monitor's clause "timer liveness")
		evt("idle");
		if (it % 16 == 15 && aio_live && !freeing) {
			// rescue: an operation nobody completes; cancel it so the case terminates
			evt("c abt 98");
			nng_aio_abort(aio, 98);
			evt("r abt");
			if (strcmp(kind, "dial") == 0) {
				// (the dialer registers no cancel function: fail the connect)
				evt("c mconn");
				evt("r mconn %d", sock_open ? mock_conn_done(mock_neps() - 1, 0x51, NNG_ECONNREFUSED) : -9);
			}
		} else if (it > 300) {
			evt("STUCK");
			ev_flush();
			fflush(stdout);
			_exit(4);
		} else {
			sim_advance_noq(4);
			evt("adv 4");
		}
	}
	disarm_delay();
	// drain: let outstanding timers fire and callbacks finish
	for (int it = 0; it < 3; it++) {
		sim_quiesce();
		sim_advance_noq(40);
		evt("adv 40");
	}
	sim_quiesce();
	if (aio_live) {
		evt("c stp");
		nng_aio_stop(aio);
		evt("r stp");
		sim_quiesce();
		evt("c fre");
		nng_aio_free(aio);
		aio_live = false;
		evt("r fre");
	}
	sim_quiesce();
	for (int i = 0; i < NAUX; i++) {
		nng_aio_stop(aux[i]);
		sim_quiesce();
		if (aux_cb[i] != aux_sub[i]) {
			evt(aux_cb[i] > aux_sub[i] ? "auxdup %d" : "auxmiss %d", i);
		}
		nng_aio_free(aux[i]);
		aux[i] = NULL;
	}
	sim_quiesce();
	set_policy(0);
	for (int i = 0; i < nA; i++) {
		nng_thread_destroy(A[i].thr);
	}
	if (sock_open) {
		nng_socket_close(sock);
		sock_open = false;
	}
	sim_quiesce();
	nng_cv_free(hcv);
	nng_mtx_free(hmtx);
	nng_mtx_free(pmtx);
	nng_mtx_free(cmtx);
	nng_fini();
	sim_reset_mutex_table(); // simplat's address table has no deletion
	evt("end");
	ev_flush();
	me = NULL;
}

int
main(void)
{
	uint64_t seed   = 1;
	int      policy = 0, doff = 0, dlen = 0;
	while (next_line()) {
		if (vn == 0) {
			continue;
		}
		const char *op = vw[0];
		if (strcmp(op, "sched") == 0 && vn >= 2) {
			seed   = strtoull(vw[1], NULL, 10);
			policy = (vn >= 3 && strcmp(vw[2], "rr") == 0) ? 1 : 0;
			doff   = vn >= 5 ? atoi(vw[3]) : 0;
			dlen   = vn >= 5 ? atoi(vw[4]) : 0;
			printf("ok\n");
		} else if (strcmp(op, "setup") == 0 && vn >= 2) {
			snprintf(kind, sizeof(kind), "%s", vw[1]);
			kind_arg = vn >= 3 ? atoi(vw[2]) : 0;
			printf("ok\n");
		} else if (strcmp(op, "cb") == 0 && vn >= 3) {
			resub_budget = atoi(vw[1]);
			snprintf(resub_op, sizeof(resub_op), "%s", vw[2]);
			printf("ok\n");
		} else if (strcmp(op, "A") == 0 && vn >= 2 && nA < MAXA) {
			actor *a = &A[nA++];
			snprintf(a->name, sizeof(a->name), "%s", vw[1]);
			a->nops = 0;
			for (int i = 2; i < vn && a->nops < MAXOPS; i++) {
				a->ops[a->nops] = strdup(vw[i]);
				a->ops[a->nops][strcspn(a->ops[a->nops], "\r\n")] = 0;
				a->nops++;
			}
			printf("ok\n");
		} else if (strcmp(op, "run") == 0) {
			run_case(seed, policy, doff, dlen);
		} else if (strcmp(op, "reset") == 0) {
			for (int i = 0; i < nA; i++) {
				for (int j = 0; j < A[i].nops; j++) {
					free(A[i].ops[j]);
				}
			}
			nA           = 0;
			resub_budget = 0;
			snprintf(resub_op, sizeof(resub_op), "sub");
			snprintf(kind, sizeof(kind), "g");
			kind_arg = 0;
			seed = 1;
			policy = doff = dlen = 0;
			printf("reset\n");
		} else {
			printf("bad-op\n");
		}
		fflush(stdout);
	}
	return (0);
}
