// Simulated platform layer for nng (link-time override of posix_thread.c /
// posix_clock.c / posix_rand_*.c: this object defines every symbol those files
// define, so the archive members are never pulled in).  nng threads are real
// pthreads but exactly one holds the baton; every platform call (lock, unlock,
// cv wait/wake, thread start/exit/join, sleep) is a scheduling point at which a
// seeded scheduler picks the next enabled thread.  Time is virtual: it advances
// only when the harness says so, or when every thread is blocked and a timed
// waiter exists (discrete-event step).
#include <pthread.h>
#include <semaphore.h>
#include <stdbool.h>
#include <stdint.h>
#include <stdio.h>
#include <stdlib.h>
#include <string.h>
#include <unistd.h>

#include "core/nng_impl.h"

pthread_condattr_t  nni_cvattr;
pthread_mutexattr_t nni_mxattr;
pthread_attr_t      nni_thrattr;

enum { S_FREE, S_RUN, S_MTX, S_CV, S_JOIN, S_SLEEP, S_DONE };

typedef struct {
	pthread_t tid;
	sem_t     sem;
	int       state;
	void     *wobj;
	nni_time  deadline;
	bool      timed;
	bool      signalled;
	void (*fn)(void *);
	void *arg;
} sthr;

#define MAXT 256
static sthr          T[MAXT];
static int           nT;
static int           cur;
static __thread int  self = -1;
static nni_time      vnow = 1000000;
static uint64_t      rng  = 0x9e3779b97f4a7c15ull;
static uint64_t      rng_user = 12345;
static unsigned long steps, switches;
static bool          main_idle;
static unsigned long delay_at = (unsigned long) -1, delay_until;
static int           delayed = -1;
static unsigned long auto_jumps, auto_jump_ms;
static nni_time      jump_slack; // see sim_jump_slack

// ---- mutex side table (address -> owner) ----
#define MTAB 8192
static struct {
	void *key;
	int   owner;
} mt[MTAB];

static unsigned mt_used;
static int *
mowner(void *k)
{
	size_t h = ((uintptr_t) k >> 3) % MTAB;
	if (mt_used > MTAB - 64) {
		fprintf(stderr, "SIM: mutex table full\n");
		abort();
	}
	for (;;) {
		if (mt[h].key == k) {
			return &mt[h].owner;
		}
		if (mt[h].key == NULL) {
			mt_used++;
			mt[h].key   = k;
			mt[h].owner = -1;
			return &mt[h].owner;
		}
		h = (h + 1) % MTAB;
	}
}

static uint64_t
nextrand(uint64_t *s)
{
	uint64_t z = (*s += 0x9e3779b97f4a7c15ull);
	z          = (z ^ (z >> 30)) * 0xbf58476d1ce4e5b9ull;
	z          = (z ^ (z >> 27)) * 0x94d049bb133111ebull;
	return z ^ (z >> 31);
}

static void
reg_main(void)
{
	if (self >= 0) {
		return;
	}
	self       = 0;
	nT         = 1;
	cur        = 0;
	T[0].state = S_RUN;
	sem_init(&T[0].sem, 0, 0);
}

static bool
enabled(int i)
{
	switch (T[i].state) {
	case S_RUN:
		return true;
	case S_MTX:
		return *mowner(T[i].wobj) == -1;
	case S_CV:
		return T[i].signalled || (T[i].timed && T[i].deadline <= vnow);
	case S_JOIN:
		return T[*(int *) &T[i].wobj].state == S_DONE;
	case S_SLEEP:
		return T[i].deadline <= vnow;
	}
	return false;
}

static void
deadlock(void)
{
	// nobody enabled, nobody timed: a genuine deadlock of the library under
	// this schedule.  Reported on stdout (it is a result) and exit code 3.
	printf("DEADLOCK vnow=%lld", (long long) vnow);
	for (int i = 0; i < nT; i++) {
		printf(" thr%d:state%d:obj%p", i, T[i].state, T[i].wobj);
	}
	printf("\n");
	fflush(stdout);
	_exit(3);
}

// Called by the baton holder after it set its own state.
static void
yield_next(void)
{
	int cand[MAXT];
	int n;
	steps++;
	if (steps == delay_at) {
		delayed = self; // suspend whoever is running now
	}
	if (delayed >= 0 && steps > delay_until) {
		delayed = -1;
	}
	for (;;) {
		n = 0;
		for (int i = 0; i < nT; i++) {
			if (i == 0 && main_idle) {
				continue;
			}
			if (i == delayed) {
				continue;
			}
			if (enabled(i)) {
				cand[n++] = i;
			}
		}
		if (n == 0 && delayed >= 0 && enabled(delayed) &&
		    !(delayed == 0 && main_idle)) {
			cand[n++] = delayed; // nobody else can run: release it
			delayed   = -1;
		}
		if (n == 0 && main_idle && enabled(0)) {
			cand[n++] = 0;
		}
		if (n > 0) {
			break;
		}
		// nobody enabled: advance virtual time to next deadline
		nni_time best = NNI_TIME_NEVER;
		for (int i = 0; i < nT; i++) {
			if ((T[i].state == S_CV) && T[i].timed) {
				if (T[i].deadline < best) {
					best = T[i].deadline;
				}
			} else if (T[i].state == S_SLEEP) {
				if (T[i].deadline < best) {
					best = T[i].deadline;
				}
			}
		}
		if (best == NNI_TIME_NEVER) {
			deadlock();
		}
		if (best > vnow) {
			auto_jumps++;
			auto_jump_ms += (unsigned long) (best - vnow);
			// with slack the jump lands past the deadline, so expiry tests
			// written `deadline < now` fire instead of spinning
			best += jump_slack;
		}
		vnow = best;
	}
	int pick = cand[nextrand(&rng) % n];
	int me   = self;
	if (pick == me) {
		return;
	}
	switches++;
	cur = pick;
	sem_post(&T[pick].sem);
	if (T[me].state != S_DONE) {
		sem_wait(&T[me].sem);
	}
}

static void
sched_point(void)
{
	reg_main();
	T[self].state = S_RUN;
	yield_next();
}

void
nni_plat_mtx_init(nni_plat_mtx *m)
{
	reg_main();
	*mowner(m) = -1;
}
void
nni_plat_mtx_fini(nni_plat_mtx *m)
{
	*mowner(m) = -1;
}
void
nni_plat_mtx_lock(nni_plat_mtx *m)
{
	sched_point();
	int *o = mowner(m);
	while (*o != -1) {
		if (*o == self) {
			fprintf(stderr, "SIM: recursive lock %p by %d\n",
			    (void *) m, self);
			abort();
		}
		T[self].state = S_MTX;
		T[self].wobj  = m;
		yield_next();
	}
	T[self].state = S_RUN;
	*o            = self;
}
void
nni_plat_mtx_unlock(nni_plat_mtx *m)
{
	int *o = mowner(m);
	if (*o != self) {
		fprintf(stderr, "SIM: unlock of %p not owned (%d vs %d)\n",
		    (void *) m, *o, self);
		abort();
	}
	*o = -1;
	sched_point();
}
void
nni_plat_cv_init(nni_plat_cv *c, nni_plat_mtx *m)
{
	c->mtx = &m->mtx;
}
void
nni_plat_cv_fini(nni_plat_cv *c)
{
	c->mtx = NULL;
}
void
nni_plat_cv_wake(nni_plat_cv *c)
{
	for (int i = 0; i < nT; i++) {
		if (T[i].state == S_CV && T[i].wobj == c) {
			T[i].signalled = true;
		}
	}
}
void
nni_plat_cv_wake1(nni_plat_cv *c)
{
	for (int i = 0; i < nT; i++) {
		if (T[i].state == S_CV && T[i].wobj == c && !T[i].signalled) {
			T[i].signalled = true;
			return;
		}
	}
}
static int
cv_wait_common(nni_plat_cv *c, bool timed, nni_time until)
{
	nni_plat_mtx *m = (nni_plat_mtx *) c->mtx; // mtx is first member
	int          *o = mowner(m);
	bool          timedout;
	if (*o != self) {
		fprintf(stderr, "SIM: cv wait without mutex\n");
		abort();
	}
	*o                = -1;
	T[self].state     = S_CV;
	T[self].wobj      = c;
	T[self].signalled = false;
	T[self].timed     = timed;
	T[self].deadline  = until;
	yield_next();
	timedout      = !T[self].signalled;
	T[self].timed = false;
	// reacquire
	while (*o != -1) {
		T[self].state = S_MTX;
		T[self].wobj  = m;
		yield_next();
	}
	T[self].state = S_RUN;
	*o            = self;
	return (timedout ? NNG_ETIMEDOUT : 0);
}
void
nni_plat_cv_wait(nni_plat_cv *c)
{
	(void) cv_wait_common(c, false, 0);
}
int
nni_plat_cv_until(nni_plat_cv *c, nni_time until)
{
	return (cv_wait_common(c, true, until));
}

static void *
tramp(void *arg)
{
	int i = (int) (intptr_t) arg;
	self  = i;
	sem_wait(&T[i].sem);
	T[i].fn(T[i].arg);
	T[i].state = S_DONE;
	yield_next();
	return NULL;
}

int
nni_plat_thr_init(nni_plat_thr *t, void (*fn)(void *), void *arg)
{
	reg_main();
	int i = -1;
	for (int k = 1; k < nT; k++) {
		if (T[k].state == S_FREE) {
			i = k; // slot of a joined thread
			break;
		}
	}
	if (i < 0) {
		i = nT++;
	}
	if (i >= MAXT) {
		fprintf(stderr, "SIM: too many threads\n");
		abort();
	}
	T[i].state = S_RUN;
	T[i].fn    = fn;
	T[i].arg   = arg;
	sem_init(&T[i].sem, 0, 0);
	t->func = fn;
	t->arg  = arg;
	t->tid  = (pthread_t) (i + 1);
	if (pthread_create(&T[i].tid, NULL, tramp, (void *) (intptr_t) i) !=
	    0) {
		return (NNG_ENOMEM);
	}
	return (0);
}
void
nni_plat_thr_fini(nni_plat_thr *t)
{
	int i = (int) t->tid - 1;
	while (T[i].state != S_DONE) {
		T[self].state          = S_JOIN;
		*(int *) &T[self].wobj = i;
		yield_next();
	}
	T[self].state = S_RUN;
	pthread_join(T[i].tid, NULL);
	sem_destroy(&T[i].sem);
	T[i].state = S_FREE;
}
bool
nni_plat_thr_is_self(nni_plat_thr *t)
{
	return ((int) t->tid - 1) == self;
}
void
nni_plat_thr_set_name(nni_plat_thr *t, const char *n)
{
	(void) t;
	(void) n;
}
void
nni_atfork_child(void)
{
}
int
nni_plat_init(nng_init_params *p)
{
	(void) p;
	reg_main();
	return (0);
}
void
nni_plat_fini(void)
{
}
int
nni_plat_ncpu(void)
{
	return (2);
}
// The aio expiry thread wakes when `now >= next` but expires an aio only when
// `deadline < now`: with the clock standing exactly on a deadline it re-scans in a loop
// until the clock ticks.  Real time ticks on; virtual time cannot, so a thread that reads
// the clock more than 100 times without any scheduling step in between is shown the next
// millisecond.  Net effect: a timer with deadline D fires at the first quiescent point
// with now >= D.
static unsigned long clock_last_step;
static int           clock_reads;
static unsigned long clock_spins;
nni_time
nni_clock(void)
{
	if (steps != clock_last_step) {
		clock_last_step = steps;
		clock_reads     = 0;
	}
	if (++clock_reads > 100) {
		clock_spins++;
		return (vnow + 1);
	}
	return (vnow);
}
void
nni_msleep(nni_duration d)
{
	reg_main();
	T[self].state    = S_SLEEP;
	T[self].deadline = vnow + d;
	yield_next();
	T[self].state = S_RUN;
}
int
nni_time_get(uint64_t *s, uint32_t *ns)
{
	*s  = (uint64_t) vnow / 1000;
	*ns = (uint32_t) (vnow % 1000) * 1000000u;
	return (0);
}
uint32_t
nni_random(void)
{
	return ((uint32_t) nextrand(&rng_user));
}

// ---- harness-facing API ----
void
sim_seed(uint64_t s)
{
	rng = s * 0x9e3779b97f4a7c15ull + 1;
}
void
sim_quiesce(void)
{
	reg_main();
	main_idle     = true;
	T[self].state = S_RUN;
	yield_next();
	main_idle = false;
}
void
sim_advance(int ms)
{
	vnow += ms;
	sim_quiesce();
}
void
sim_stats(unsigned long *st, unsigned long *sw, int *nthr)
{
	*st   = steps;
	*sw   = switches;
	*nthr = nT;
}
void sim_advance_noq(int ms) { vnow += ms; }

void sim_arm_delay(int offset, int len) { delay_at = steps + offset; delay_until = delay_at + len; }

nni_time sim_now(void) { return vnow; }
void sim_jumps(unsigned long *n, unsigned long *ms) { *n = auto_jumps; *ms = auto_jump_ms; }
void sim_seed_user(uint64_t s) { rng_user = s; }
void sim_jump_slack(int ms) { jump_slack = ms; }

long long sim_now_ms(void) { return (long long) vnow; }

// Forget all mutex addresses.  Only legal when no mutex is held (the harness calls it
// right after nng_fini): statically initialised mutexes are re-entered on first use.
void
sim_reset_mutex_table(void)
{
	for (int i = 0; i < MTAB; i++) {
		if (mt[i].key != NULL && mt[i].owner != -1) {
			fprintf(stderr, "SIM: mutex %p still held at table reset\n", mt[i].key);
			abort();
		}
	}
	memset(mt, 0, sizeof(mt));
	mt_used = 0;
}
