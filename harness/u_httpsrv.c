// UNIT op interpreter for the HTTP SERVER layer (C16, part S: http_server.c on top of http_conn.c / http_msg.c).
//
// http_server.c keeps http_sconn_init / http_sconn_rxdone / http_sconn_cbdone / http_sconn_txdone / http_sconn_error and
// the connection object static, so this file *includes* the real source text of http_msg.c, http_conn.c and
// http_server.c (tree under test, -I<repo>/src).  A real nni_http_server is created with nni_http_server_init (its
// listener is allocated but never started), handlers are registered with the real nni_http_handler_init[_static|
// _redirect] / set_method / set_host / set_tree / collect_body / nni_http_server_add_handler, and a connection is
// attached exactly the way http_server_acccb does it (http_sconn_init over a stream, list append, nni_http_read_req).
// Replaced: ONLY the byte stream under the connection: an `nng_stream` whose recv takes min(available, iov_len) bytes of
// what the op lines have made available so far (the contract of a stream transport) and whose send records the bytes.
// Everything above runs on nng's real task threads; an op line is answered when the library is quiescent, i.e. the
// stream was closed by the server or a receive is posted and nothing is available.
//
//   srv                                  new server (the previous one is finalised)
//   h <id> <kind> <uri hex|-> <method hex|~|-> <host hex|-> <tree 0|1> <getbody 0|1|-> <maxbody n|-> [args]
//        kind echo            generic handler (harness callback): logs the request it sees, answers 200 "h<id>\n"
//        kind err <status>    generic handler answering with nni_http_set_error(status) (what the file handlers do)
//        kind static <data hex> <ctype hex|~>      nni_http_handler_init_static
//        kind redir <status> <where hex>           nni_http_handler_init_redirect
//        method: "~" = NULL (all methods), "-" = leave the default; host "-" = leave; getbody/maxbody "-" = leave
//        -> h rv=<n>           result of nni_http_server_add_handler (or of the init function)
//   tbl                                  -> tbl <ids in the order of the server's handler list>
//   errpage <code> <html hex>            nni_http_server_set_error_page
//   conn                                 new connection on the server (the previous one is ended)
//   rx <hex>                             these bytes become available -> the events until quiescence
//   eof                                  the peer closes: a posted receive fails with NNG_ECONNSHUT
// CLIENT side (http_client.c nni_http_transact_conn from libnng.a, over a client connection object of the included http_conn.c):
//   cli                                  new client connection over the fake stream (Host "h")
//   txn <method hex> <uri hex> <body hex|-> [keep 0|1]   nni_http_conn_reset (not with keep), set method / uri / body, nni_http_transact_conn
//        -> the request bytes written (W) and, when the transaction completes, T rv=<n> [st=<status> b=<body hex|->]
//   rx / eof as above (the response bytes); a closed client stream is not reported
// events, joined by " ; " ("-" if none):
//   H<id> m=<method hex> u=<uri hex> v=<version hex> b=<body hex|->      the generic handler <id> ran
//   W <hex>                                                             bytes of one send (a response: head and body)
//   C                                                                   the server closed the stream
#include <stddef.h>
#include <stdint.h>

#include "supplemental/http/http_msg.c"
#include "supplemental/http/http_conn.c"
#include "supplemental/http/http_server.c"

#include "common.h"

// ---------------------------------------------------------------- event log + fake stream (one global lock)
static nni_mtx G;
static nni_cv  Gcv;

static char  *ev;
static size_t evlen, evcap;
static bool   last_w; // the last event is a W (so the next send is appended to it)

static void
ev_room(size_t n)
{
	if (evlen + n + 8 > evcap) {
		evcap = (evlen + n + 8) * 2;
		ev    = realloc(ev, evcap);
	}
}

static void
ev_str(const char *s)
{
	size_t n = strlen(s);
	ev_room(n);
	memcpy(ev + evlen, s, n);
	evlen += n;
	ev[evlen] = 0;
}

static void
ev_hex(const uint8_t *b, size_t n)
{
	static const char *d = "0123456789abcdef";
	ev_room(2 * n + 1);
	if (n == 0) {
		ev[evlen++] = '-';
	}
	for (size_t i = 0; i < n; i++) {
		ev[evlen++] = d[b[i] >> 4];
		ev[evlen++] = d[b[i] & 15];
	}
	ev[evlen] = 0;
}

static void
ev_sep(void)
{
	if (evlen > 0) {
		ev_str(" ; ");
	}
}

static nng_http *cli; // the client connection (client mode), else NULL

typedef struct fstream {
	nng_stream ops; // must be first
	uint8_t   *in;
	size_t     inlen, inpos, incap;
	nni_aio   *pend;
	bool       closed; // closed by the library
	bool       eof;    // the peer is gone
	bool       freed;
} fstream;

static void
fs_cancel(nni_aio *aio, void *arg, nng_err rv)
{
	fstream *fs = arg;
	nni_mtx_lock(&G);
	if (fs->pend == aio) {
		fs->pend = NULL;
		nni_aio_finish_error(aio, rv);
	}
	nni_mtx_unlock(&G);
}

static void
fs_recv(void *arg, nni_aio *aio)
{
	fstream *fs = arg;
	unsigned niov;
	nni_iov *iov;
	nni_aio_reset(aio);
	nni_mtx_lock(&G);
	nni_aio_get_iov(aio, &niov, &iov);
	if (fs->closed) {
		nni_mtx_unlock(&G);
		nni_aio_finish_error(aio, NNG_ECLOSED);
		return;
	}
	if (fs->inpos < fs->inlen && niov > 0 && iov[0].iov_len > 0) {
		size_t k = fs->inlen - fs->inpos;
		if (k > iov[0].iov_len) {
			k = iov[0].iov_len;
		}
		memcpy(iov[0].iov_buf, fs->in + fs->inpos, k);
		fs->inpos += k;
		nni_mtx_unlock(&G);
		nni_aio_finish(aio, 0, k);
		return;
	}
	if (fs->eof) {
		nni_mtx_unlock(&G);
		nni_aio_finish_error(aio, NNG_ECONNSHUT);
		return;
	}
	if (!nni_aio_start(aio, fs_cancel, fs)) {
		nni_mtx_unlock(&G);
		return;
	}
	fs->pend = aio;
	nni_cv_wake(&Gcv);
	nni_mtx_unlock(&G);
}

static void
fs_send(void *arg, nni_aio *aio)
{
	fstream *fs = arg;
	unsigned niov;
	nni_iov *iov;
	size_t   tot = 0;
	nni_aio_reset(aio);
	nni_mtx_lock(&G);
	if (fs->closed) {
		nni_mtx_unlock(&G);
		nni_aio_finish_error(aio, NNG_ECLOSED);
		return;
	}
	nni_aio_get_iov(aio, &niov, &iov);
	for (unsigned i = 0; i < niov; i++) {
		tot += iov[i].iov_len;
	}
	if (tot > 0) {
		// one send = one response (http_wr_start hands head and body to the stream in one call)
		ev_sep();
		ev_str("W ");
		for (unsigned i = 0; i < niov; i++) {
			if (iov[i].iov_len > 0) {
				ev_hex(iov[i].iov_buf, iov[i].iov_len);
			}
		}
		last_w = true;
	}
	nni_mtx_unlock(&G);
	nni_aio_finish(aio, 0, tot);
}

static void
fs_close(void *arg)
{
	fstream *fs = arg;
	nni_aio *aio;
	nni_mtx_lock(&G);
	if (!fs->closed) {
		fs->closed = true;
		if (cli == NULL) {
			ev_sep();
			ev_str("C");
		}
		last_w = false;
	}
	if ((aio = fs->pend) != NULL) {
		fs->pend = NULL;
		nni_aio_finish_error(aio, NNG_ECLOSED);
	}
	nni_cv_wake(&Gcv);
	nni_mtx_unlock(&G);
}

static void
fs_free(void *arg)
{
	fstream *fs = arg;
	fs_close(fs);
	nni_mtx_lock(&G);
	fs->freed = true; // the memory is released by the interpreter, which still looks at it
	nni_cv_wake(&Gcv);
	nni_mtx_unlock(&G);
}

static nng_err
fs_get(void *arg, const char *name, void *buf, size_t *szp, nni_type t)
{
	(void) arg, (void) name, (void) buf, (void) szp, (void) t;
	return (NNG_ENOTSUP);
}
static nng_err
fs_set(void *arg, const char *name, const void *buf, size_t sz, nni_type t)
{
	(void) arg, (void) name, (void) buf, (void) sz, (void) t;
	return (NNG_ENOTSUP);
}

static fstream *
fs_new(void)
{
	fstream *fs     = calloc(1, sizeof(*fs));
	fs->ops.s_free  = fs_free;
	fs->ops.s_close = fs_close;
	fs->ops.s_stop  = fs_close;
	fs->ops.s_recv  = fs_recv;
	fs->ops.s_send  = fs_send;
	fs->ops.s_get   = fs_get;
	fs->ops.s_set   = fs_set;
	return (fs);
}

// ---------------------------------------------------------------- handlers
typedef struct hinfo {
	int id;
	int kind; // 0 echo, 1 err
	int status;
} hinfo;

#define MAXH 64
static struct {
	nni_http_handler *h;
	int               id;
} reg[MAXH];
static int nreg;

static void
generic_cb(nng_http *conn, void *arg, nng_aio *aio)
{
	hinfo      *hi = arg;
	void       *body;
	size_t      blen;
	char        tag[32];
	const char *s;

	nni_http_get_body(conn, &body, &blen);
	nni_mtx_lock(&G);
	ev_sep();
	snprintf(tag, sizeof(tag), "H%d m=", hi->id);
	ev_str(tag);
	s = nni_http_get_method(conn);
	ev_hex((const uint8_t *) s, strlen(s));
	ev_str(" u=");
	s = nni_http_get_uri(conn);
	ev_hex((const uint8_t *) s, strlen(s));
	ev_str(" v=");
	s = nni_http_get_version(conn);
	ev_hex((const uint8_t *) s, strlen(s));
	ev_str(" b=");
	ev_hex(body, blen);
	last_w = false;
	nni_mtx_unlock(&G);

	if (hi->kind == 1) {
		nng_err rv = nni_http_set_error(conn, (nng_http_status) hi->status, NULL, NULL);
		if (rv != NNG_OK) {
			nni_aio_finish_error(aio, rv);
			return;
		}
		nni_aio_finish(aio, NNG_OK, 0);
		return;
	}
	snprintf(tag, sizeof(tag), "h%d\n", hi->id);
	(void) nni_http_set_header(conn, "Content-Type", "text/plain");
	(void) nni_http_copy_body(conn, tag, strlen(tag));
	nni_http_set_status(conn, NNG_HTTP_STATUS_OK, NULL);
	nni_aio_finish(aio, NNG_OK, 0);
}

static char *
hex_str(const char *h) // hex word -> NUL-terminated C string ("~" -> NULL, "-" -> "")
{
	size_t   n;
	uint8_t *b;
	char    *s;
	if (strcmp(h, "~") == 0) {
		return (NULL);
	}
	b = parse_hex(h, &n);
	s = malloc(n + 1);
	memcpy(s, b, n);
	s[n] = 0;
	free(b);
	return (s);
}

// ---------------------------------------------------------------- state
static nni_http_server *srv;
static nng_url         *url;
static fstream         *fs;
static bool             timed_out;
static nng_aio         *txaio;
static bool             txn_active, txn_done;

static void
txn_cb(void *arg)
{
	char   tag[64];
	void  *body;
	size_t blen;
	int    rv = nng_aio_result(txaio);
	(void) arg;
	nni_mtx_lock(&G);
	ev_sep();
	snprintf(tag, sizeof(tag), "T rv=%d", rv);
	ev_str(tag);
	if (rv == 0) {
		snprintf(tag, sizeof(tag), " st=%d b=", (int) nni_http_get_status(cli));
		ev_str(tag);
		nni_http_get_body(cli, &body, &blen);
		ev_hex(body, blen);
	}
	last_w     = false;
	txn_done   = true;
	txn_active = false;
	nni_cv_wake(&Gcv);
	nni_mtx_unlock(&G);
}

static void
wait_quiet(void)
{
	nni_time end = nni_clock() + 10000;
	nni_mtx_lock(&G);
	while (fs != NULL &&
	    !(cli != NULL ? (!txn_active || (fs->pend != NULL && fs->inpos == fs->inlen && !fs->closed && !fs->eof))
	                  : (fs->closed || (fs->pend != NULL && fs->inpos == fs->inlen)))) {
		if (nni_cv_until(&Gcv, end) == NNG_ETIMEDOUT) {
			timed_out = true;
			break;
		}
	}
	nni_mtx_unlock(&G);
}

static void
print_events(const char *op)
{
	nni_mtx_lock(&G);
	printf("%s %s%s\n", op, evlen ? ev : "-", timed_out ? " TIMEOUT" : "");
	evlen     = 0;
	last_w    = false;
	timed_out = false;
	nni_mtx_unlock(&G);
}

static void
end_conn(void)
{
	nni_aio *aio;
	if (fs == NULL) {
		return;
	}
	if (cli != NULL) {
		nni_http_conn_close(cli);
		nni_mtx_lock(&G);
		nni_time e2 = nni_clock() + 10000;
		while (txn_active) {
			if (nni_cv_until(&Gcv, e2) == NNG_ETIMEDOUT) {
				break;
			}
		}
		nni_mtx_unlock(&G);
		nni_msleep(1);
		nni_http_conn_fini(cli);
		cli = NULL;
	}
	nni_mtx_lock(&G);
	fs->eof = true;
	if ((aio = fs->pend) != NULL) {
		fs->pend = NULL;
		nni_mtx_unlock(&G);
		nni_aio_finish_error(aio, NNG_ECONNSHUT);
		nni_mtx_lock(&G);
	}
	nni_time end = nni_clock() + 10000;
	while (!fs->freed) {
		if (nni_cv_until(&Gcv, end) == NNG_ETIMEDOUT) {
			fprintf(stderr, "u_httpsrv: connection was not released\n");
			break;
		}
	}
	bool freed = fs->freed;
	nni_mtx_unlock(&G);
	if (freed) {
		free(fs->in);
		free(fs);
	}
	fs = NULL;
	nni_mtx_lock(&G);
	evlen  = 0;
	last_w = false;
	nni_mtx_unlock(&G);
}

static void
end_server(void)
{
	end_conn();
	if (srv != NULL) {
		nni_http_server_fini(srv);
		srv = NULL;
	}
	nreg = 0;
}

static void
op_handler(void)
{
	nni_http_handler *h   = NULL;
	int               id  = atoi(vw[1]);
	const char       *k   = vw[2];
	char             *uri = strcmp(vw[3], "-") == 0 ? NULL : hex_str(vw[3]);
	nng_err           rv;

	if (strcmp(k, "echo") == 0 || strcmp(k, "err") == 0) {
		hinfo *hi  = calloc(1, sizeof(*hi));
		hi->id     = id;
		hi->kind   = strcmp(k, "err") == 0;
		hi->status = hi->kind && vn > 9 ? atoi(vw[9]) : 0;
		rv         = nni_http_handler_init(&h, uri, generic_cb);
		if (rv == NNG_OK) {
			nni_http_handler_set_data(h, hi, free);
		} else {
			free(hi);
		}
	} else if (strcmp(k, "static") == 0 && vn > 10) {
		size_t   n;
		uint8_t *d  = parse_hex(vw[9], &n);
		char    *ct = hex_str(vw[10]);
		rv          = nni_http_handler_init_static(&h, uri, d, n, ct);
		free(d);
		free(ct);
	} else if (strcmp(k, "redir") == 0 && vn > 10) {
		char *wh = hex_str(vw[10]);
		rv       = nni_http_handler_init_redirect(&h, uri, (nng_http_status) atoi(vw[9]), wh);
		free(wh);
	} else {
		printf("bad-op\n");
		free(uri);
		return;
	}
	free(uri);
	if (rv != NNG_OK) {
		printf("h rv=%d\n", (int) rv);
		return;
	}
	if (strcmp(vw[4], "-") != 0) {
		char *m = hex_str(vw[4]);
		nni_http_handler_set_method(h, m);
		free(m);
	}
	if (strcmp(vw[5], "-") != 0) {
		char *hs = hex_str(vw[5]);
		nni_http_handler_set_host(h, hs);
		free(hs);
	}
	if (atoi(vw[6]) != 0) {
		nni_http_handler_set_tree(h);
	}
	if (strcmp(vw[7], "-") != 0 || strcmp(vw[8], "-") != 0) {
		bool   want = strcmp(vw[7], "-") == 0 ? h->getbody : atoi(vw[7]) != 0;
		size_t mx   = strcmp(vw[8], "-") == 0 ? h->maxbody : (size_t) strtoull(vw[8], NULL, 10);
		nni_http_handler_collect_body(h, want, mx);
	}
	rv = nni_http_server_add_handler(srv, h);
	if (rv != NNG_OK) {
		nni_http_handler_fini(h);
	} else if (nreg < MAXH) {
		reg[nreg].h  = h;
		reg[nreg].id = id;
		nreg++;
	}
	printf("h rv=%d\n", (int) rv);
}

int
main(void)
{
	if (nng_init(NULL) != 0) {
		fprintf(stderr, "nng_init failed\n");
		return (3);
	}
	setvbuf(stdout, NULL, _IOLBF, 0);
	nni_mtx_init(&G);
	nni_cv_init(&Gcv, &G);
	if (nng_aio_alloc(&txaio, txn_cb, NULL) != 0) {
		return (3);
	}
	nng_aio_set_timeout(txaio, NNG_DURATION_INFINITE);
	if (nng_url_parse(&url, "http://127.0.0.1:8089/") != 0) {
		fprintf(stderr, "url\n");
		return (3);
	}
	while (next_line()) {
		if (vn == 0) {
			continue;
		}
		const char *op = vw[0];
		if (strcmp(op, "reset") == 0) {
			end_server();
			printf("reset\n");
			fflush(stdout);
		} else if (strcmp(op, "verbose") == 0) {
			printf("ok\n");
		} else if (strcmp(op, "srv") == 0) {
			end_server();
			nng_err rv = nni_http_server_init(&srv, url);
			if (rv != NNG_OK) {
				srv = NULL;
			}
			printf("srv rv=%d\n", (int) rv);
		} else if (strcmp(op, "cli") == 0) {
			end_conn();
			fs = fs_new();
			if (nni_http_init(&cli, (nng_stream *) fs, true) != NNG_OK) {
				cli = NULL;
				fs  = NULL; // nni_http_init released the stream
				printf("cli enomem\n");
				continue;
			}
			nni_http_set_host(cli, "h");
			txn_active = txn_done = false;
			printf("cli ok\n");
		} else if (strcmp(op, "txn") == 0 && (vn == 4 || vn == 5)) {
			if (cli == NULL) {
				printf("no-cli\n");
				continue;
			}
			if (txn_active) {
				printf("txn busy\n");
				continue;
			}
			char    *m = hex_str(vw[1]);
			char    *u = hex_str(vw[2]);
			size_t   n;
			uint8_t *b = parse_hex(vw[3], &n);
			if (!(vn == 5 && atoi(vw[4]) != 0)) {
				// the application starts from a fresh request; with `keep` it reuses the one it built (its
				// headers, and the body unless a new one is given): no nng_http_reset between transactions
				nni_http_conn_reset(cli);
			}
			nni_http_set_method(cli, m);
			(void) nni_http_set_uri(cli, u, NULL);
			if (n > 0) {
				(void) nni_http_copy_body(cli, b, n);
			}
			free(m);
			free(u);
			free(b);
			nni_mtx_lock(&G);
			txn_active = true;
			txn_done   = false;
			nni_mtx_unlock(&G);
			nni_http_transact_conn(cli, txaio);
			wait_quiet();
			print_events("txn");
		} else if (srv == NULL && (strcmp(op, "h") == 0 || strcmp(op, "tbl") == 0 || strcmp(op, "errpage") == 0 ||
		                              strcmp(op, "conn") == 0)) {
			printf("no-srv\n");
		} else if (strcmp(op, "h") == 0 && vn >= 9) {
			op_handler();
		} else if (strcmp(op, "tbl") == 0) {
			nni_http_handler *h;
			printf("tbl");
			nni_mtx_lock(&srv->mtx);
			NNI_LIST_FOREACH (&srv->handlers, h) {
				int id = -1;
				for (int i = 0; i < nreg; i++) {
					if (reg[i].h == h) {
						id = reg[i].id;
					}
				}
				printf(" %d", id);
			}
			nni_mtx_unlock(&srv->mtx);
			printf("\n");
		} else if (strcmp(op, "errpage") == 0 && vn == 3) {
			char *html = hex_str(vw[2]);
			printf("errpage rv=%d\n",
			    (int) nni_http_server_set_error_page(srv, (nng_http_status) atoi(vw[1]), html));
			free(html);
		} else if (strcmp(op, "conn") == 0) {
			http_sconn *sc;
			end_conn();
			fs = fs_new();
			// what http_server_acccb does with an accepted stream
			nni_mtx_lock(&srv->mtx);
			if (http_sconn_init(&sc, (nng_stream *) fs) != 0) {
				nni_mtx_unlock(&srv->mtx);
				free(fs);
				fs = NULL;
				printf("conn enomem\n");
				continue;
			}
			sc->server = srv;
			nni_list_append(&srv->conns, sc);
			sc->handler = NULL;
			nni_http_read_req(sc->conn, &sc->rxaio);
			nni_mtx_unlock(&srv->mtx);
			wait_quiet();
			print_events("conn");
		} else if (fs == NULL) {
			printf("no-conn\n");
		} else if (strcmp(op, "rx") == 0 && vn == 2) {
			size_t   n;
			uint8_t *b   = parse_hex(vw[1], &n);
			nni_aio *aio = NULL;
			size_t   k   = 0;
			nni_mtx_lock(&G);
			if (!fs->closed && !fs->eof) {
				if (fs->inlen + n > fs->incap || fs->in == NULL) {
					fs->incap = (fs->inlen + n) * 2 + 64;
					fs->in    = realloc(fs->in, fs->incap);
				}
				memcpy(fs->in + fs->inlen, b, n);
				fs->inlen += n;
				if ((aio = fs->pend) != NULL && fs->inpos < fs->inlen) {
					unsigned niov;
					nni_iov *iov;
					nni_aio_get_iov(aio, &niov, &iov);
					k = fs->inlen - fs->inpos;
					if (niov == 0 || iov[0].iov_len == 0) {
						aio = NULL; // a zero-length read request: nothing can be delivered
					} else {
						if (k > iov[0].iov_len) {
							k = iov[0].iov_len;
						}
						memcpy(iov[0].iov_buf, fs->in + fs->inpos, k);
						fs->inpos += k;
						fs->pend = NULL;
					}
				} else {
					aio = NULL;
				}
			}
			nni_mtx_unlock(&G);
			free(b);
			if (aio != NULL) {
				nni_aio_finish(aio, 0, k);
			}
			wait_quiet();
			print_events("rx");
		} else if (strcmp(op, "eof") == 0) {
			nni_aio *aio;
			nni_mtx_lock(&G);
			fs->eof = true;
			if ((aio = fs->pend) != NULL) {
				fs->pend = NULL;
			}
			nni_mtx_unlock(&G);
			if (aio != NULL) {
				nni_aio_finish_error(aio, NNG_ECONNSHUT);
			}
			nni_time end = nni_clock() + 10000;
			nni_mtx_lock(&G);
			while (!fs->closed && !(cli != NULL && !txn_active)) {
				if (nni_cv_until(&Gcv, end) == NNG_ETIMEDOUT) {
					timed_out = true;
					break;
				}
			}
			nni_mtx_unlock(&G);
			wait_quiet();
			print_events("eof");
		} else {
			printf("bad-op\n");
		}
	}
	end_server();
	fflush(stdout);
	nng_aio_free(txaio);
	nng_url_free(url);
	nng_fini();
	nni_cv_fini(&Gcv);
	nni_mtx_fini(&G);
	free(ev);
	free(vline);
	return (0);
}
