// UNIT op interpreter for nng_msg (C17): public API only.
#include <nng/nng.h>

#include "common.h"

static nng_msg *slot[4];
static bool     verbose;

// pluggable allocator with "fail the next allocation" support
static int fail_next; // armed by the "fail" line
static int fail_in = -1; // fail the allocation when this reaches 0
static unsigned long n_alloc, n_fail_fired;
static bool
should_fail(void)
{
	n_alloc++;
	if (fail_in == 0) {
		fail_in = -1;
		n_fail_fired++;
		return (true);
	}
	if (fail_in > 0) {
		fail_in--;
	}
	return (false);
}
static void *
v_malloc(size_t sz)
{
	return (should_fail() ? NULL : malloc(sz));
}
static void *
v_calloc(size_t n, size_t sz)
{
	return (should_fail() ? NULL : calloc(n, sz));
}
static void
v_free(void *p, size_t sz)
{
	(void) sz;
	free(p);
}

static void
show(int rv, bool hasv, uint64_t v, nng_msg *m)
{
	printf("%d", rv);
	if (hasv) {
		printf(" v=%" PRIu64, v);
	}
	if (m != NULL) {
		put_digest("h", nng_msg_header(m), nng_msg_header_len(m));
		put_digest("b", nng_msg_body(m), nng_msg_len(m));
		printf(" cap=%zu al=%u", nng_msg_capacity(m),
		    (unsigned) ((uintptr_t) nng_msg_body(m) % 8));
		if (verbose) {
			put_hex("H", nng_msg_header(m), nng_msg_header_len(m));
			put_hex("B", nng_msg_body(m), nng_msg_len(m));
		}
	}
	printf("\n");
}

int
main(void)
{
	extern int nni_alloc_set(void *(*)(size_t), void *(*)(size_t, size_t), void (*)(void *, size_t));
	nni_alloc_set(v_malloc, v_calloc, v_free);

	while (next_line()) {
		if (vn == 0) {
			continue;
		}
		if (strcmp(vw[0], "reset") == 0) {
			for (int i = 0; i < 4; i++) {
				if (slot[i]) {
					nng_msg_free(slot[i]);
					slot[i] = NULL;
				}
			}
			fail_next = 0;
			fail_in   = -1;
			printf("reset\n");
			continue;
		}
		if (strcmp(vw[0], "verbose") == 0) {
			verbose = true;
			printf("ok\n");
			continue;
		}
		if (strcmp(vw[0], "fail") == 0) {
			fail_next = 1;
			printf("ok\n");
			continue;
		}
		// "fail" applies to the very next line only, whatever it is
		int armed = fail_next;
		fail_next = 0;
		if (strcmp(vw[0], "alloc") == 0 && vn == 4) {
			int      i  = atoi(vw[1]);
			size_t   sz = strtoull(vw[2], NULL, 10);
			int      f  = atoi(vw[3]);
			nng_msg *m  = NULL;
			// the oracle "fail" refers to the body allocation (index 1)
			fail_in   = armed ? 1 : -1;
			int rv    = nng_msg_alloc(&m, sz);
			fail_in   = -1;
			if (rv == 0) {
				memset(nng_msg_body(m), f, sz);
				if (slot[i]) {
					nng_msg_free(slot[i]);
				}
				slot[i] = m;
			}
			show(rv, false, 0, rv == 0 ? m : NULL);
			continue;
		}
		if (strcmp(vw[0], "dup") == 0 && vn == 3) {
			int      d = atoi(vw[1]), i = atoi(vw[2]);
			nng_msg *m = NULL;
			if (!slot[i]) {
				printf("bad-slot\n");
				continue;
			}
			fail_in   = armed ? 1 : -1;
			int rv    = nng_msg_dup(&m, slot[i]);
			fail_in   = -1;
			if (rv == 0) {
				if (slot[d]) {
					nng_msg_free(slot[d]);
				}
				slot[d] = m;
			}
			show(rv, false, 0, rv == 0 ? m : NULL);
			continue;
		}
		if (strcmp(vw[0], "free") == 0 && vn == 2) {
			int i = atoi(vw[1]);
			if (slot[i]) {
				nng_msg_free(slot[i]);
				slot[i] = NULL;
			}
			printf("0\n");
			continue;
		}
		// <slot> <op> args
		if (vn < 2 || !isdigit((unsigned char) vw[0][0])) {
			printf("bad-op\n");
			continue;
		}
		int      i = atoi(vw[0]);
		nng_msg *m = slot[i];
		if (m == NULL) {
			printf("bad-slot\n");
			continue;
		}
		const char *op   = vw[1];
		int         rv   = 0;
		bool        hasv = false;
		uint64_t    v    = 0;
		size_t      len;
		uint8_t    *d = NULL;
#define IS(s) (strcmp(op, s) == 0)
		fail_in   = armed ? 0 : -1;
		if (IS("append") && vn == 3) {
			d  = parse_hex(vw[2], &len);
			rv = nng_msg_append(m, d, len);
		} else if (IS("insert") && vn == 3) {
			d  = parse_hex(vw[2], &len);
			rv = nng_msg_insert(m, d, len);
		} else if (IS("trim") && vn == 3) {
			rv = nng_msg_trim(m, strtoull(vw[2], NULL, 10));
		} else if (IS("chop") && vn == 3) {
			rv = nng_msg_chop(m, strtoull(vw[2], NULL, 10));
		} else if (IS("append_u") && vn == 4) {
			int      w = atoi(vw[2]);
			uint64_t x = strtoull(vw[3], NULL, 10);
			rv         = w == 2 ? nng_msg_append_u16(m, (uint16_t) x)
			            : w == 4 ? nng_msg_append_u32(m, (uint32_t) x)
			                     : nng_msg_append_u64(m, x);
		} else if (IS("insert_u") && vn == 4) {
			int      w = atoi(vw[2]);
			uint64_t x = strtoull(vw[3], NULL, 10);
			rv         = w == 2 ? nng_msg_insert_u16(m, (uint16_t) x)
			            : w == 4 ? nng_msg_insert_u32(m, (uint32_t) x)
			                     : nng_msg_insert_u64(m, x);
		} else if (IS("trim_u") && vn == 3) {
			int      w = atoi(vw[2]);
			uint16_t a = 0;
			uint32_t b = 0;
			uint64_t c = 0;
			rv = w == 2 ? nng_msg_trim_u16(m, &a) : w == 4 ? nng_msg_trim_u32(m, &b) : nng_msg_trim_u64(m, &c);
			v    = w == 2 ? a : w == 4 ? b : c;
			hasv = rv == 0;
		} else if (IS("chop_u") && vn == 3) {
			int      w = atoi(vw[2]);
			uint16_t a = 0;
			uint32_t b = 0;
			uint64_t c = 0;
			rv = w == 2 ? nng_msg_chop_u16(m, &a) : w == 4 ? nng_msg_chop_u32(m, &b) : nng_msg_chop_u64(m, &c);
			v    = w == 2 ? a : w == 4 ? b : c;
			hasv = rv == 0;
		} else if (IS("realloc") && vn == 4) {
			size_t n   = strtoull(vw[2], NULL, 10);
			int    f   = atoi(vw[3]);
			size_t old = nng_msg_len(m);
			rv         = nng_msg_realloc(m, n);
			if (rv == 0 && n > old) {
				memset((uint8_t *) nng_msg_body(m) + old, f, n - old);
			}
		} else if (IS("reserve") && vn == 3) {
			rv = nng_msg_reserve(m, strtoull(vw[2], NULL, 10));
		} else if (IS("clear")) {
			nng_msg_clear(m);
		} else if (IS("poke") && vn == 4) {
			size_t off = strtoull(vw[2], NULL, 10);
			d          = parse_hex(vw[3], &len);
			// a store outside the body is the caller's bug, not nng's: skipped
			if (off + len <= nng_msg_len(m)) {
				memcpy((uint8_t *) nng_msg_body(m) + off, d, len);
			}
		} else if (IS("hdr_append") && vn == 3) {
			d  = parse_hex(vw[2], &len);
			rv = nng_msg_header_append(m, d, len);
		} else if (IS("hdr_insert") && vn == 3) {
			d  = parse_hex(vw[2], &len);
			rv = nng_msg_header_insert(m, d, len);
		} else if (IS("hdr_trim") && vn == 3) {
			rv = nng_msg_header_trim(m, strtoull(vw[2], NULL, 10));
		} else if (IS("hdr_chop") && vn == 3) {
			rv = nng_msg_header_chop(m, strtoull(vw[2], NULL, 10));
		} else if (IS("hdr_append_u") && vn == 4) {
			int      w = atoi(vw[2]);
			uint64_t x = strtoull(vw[3], NULL, 10);
			rv         = w == 2 ? nng_msg_header_append_u16(m, (uint16_t) x)
			            : w == 4 ? nng_msg_header_append_u32(m, (uint32_t) x)
			                     : nng_msg_header_append_u64(m, x);
		} else if (IS("hdr_insert_u") && vn == 4) {
			int      w = atoi(vw[2]);
			uint64_t x = strtoull(vw[3], NULL, 10);
			rv         = w == 2 ? nng_msg_header_insert_u16(m, (uint16_t) x)
			            : w == 4 ? nng_msg_header_insert_u32(m, (uint32_t) x)
			                     : nng_msg_header_insert_u64(m, x);
		} else if (IS("hdr_trim_u") && vn == 3) {
			int      w = atoi(vw[2]);
			uint16_t a = 0;
			uint32_t b = 0;
			uint64_t c = 0;
			rv = w == 2 ? nng_msg_header_trim_u16(m, &a) : w == 4 ? nng_msg_header_trim_u32(m, &b) : nng_msg_header_trim_u64(m, &c);
			v    = w == 2 ? a : w == 4 ? b : c;
			hasv = rv == 0;
		} else if (IS("hdr_chop_u") && vn == 3) {
			int      w = atoi(vw[2]);
			uint16_t a = 0;
			uint32_t b = 0;
			uint64_t c = 0;
			rv = w == 2 ? nng_msg_header_chop_u16(m, &a) : w == 4 ? nng_msg_header_chop_u32(m, &b) : nng_msg_header_chop_u64(m, &c);
			v    = w == 2 ? a : w == 4 ? b : c;
			hasv = rv == 0;
		} else if (IS("hdr_clear")) {
			nng_msg_header_clear(m);
		} else {
			printf("bad-op\n");
			continue;
		}
		fail_in = -1;
		free(d);
		show(rv, hasv, v, m);
	}
	for (int i = 0; i < 4; i++) {
		if (slot[i]) {
			nng_msg_free(slot[i]);
		}
	}
	fprintf(stderr, "allocs=%lu fail_fired=%lu\n", n_alloc, n_fail_fired);
	return (0);
}
