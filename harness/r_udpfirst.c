// REAL probe for C11 (SP/UDP, NNG_OPT_RECVMAXSZ): the FIRST data datagram on a fresh endpoint.  Until the first DATA has
// been accepted the endpoint's receive buffer has its initial (maximum) size, so the size rule must not rely on the
// buffer: a PULL listener with RECVMAXSZ = <rcvmax>; a raw UDP peer sends CREQ, waits for CACK, and sends ONE DATA
// datagram whose header declares <declared> bytes and which carries <actual> payload bytes.
//   r_udpfirst <rcvmax> <declared> <actual>
// Output: "udpfirst rcvmax=<r> declared=<d> actual=<a> cack=<0|1> delivered=<len|-1> reply=<op[:reason]|->"
#include <nng/nng.h>
#include <arpa/inet.h>
#include <poll.h>
#include <stdio.h>
#include <stdlib.h>
#include <string.h>
#include <sys/socket.h>
#include <unistd.h>

#define PROTO_PUSH 0x50
#define OP_DATA 0
#define OP_CREQ 1
#define OP_CACK 2
#define OP_DISC 3

static void
hdr(uint8_t *d, uint8_t op, uint16_t type, uint16_t p0, uint16_t p1)
{
	d[0] = 1;
	d[1] = op;
	d[2] = (uint8_t) type;
	d[3] = (uint8_t) (type >> 8);
	d[4] = (uint8_t) p0;
	d[5] = (uint8_t) (p0 >> 8);
	d[6] = (uint8_t) p1;
	d[7] = (uint8_t) (p1 >> 8);
}

int
main(int argc, char **argv)
{
	if (argc != 4) {
		return (2);
	}
	size_t             rcvmax = (size_t) atol(argv[1]);
	unsigned           decl = (unsigned) atoi(argv[2]), actual = (unsigned) atoi(argv[3]);
	nng_socket         s;
	nng_listener       l;
	int                port = 0, fd, cack = 0;
	struct sockaddr_in to;
	static uint8_t     buf[70000];
	char               reply[32] = "-";
	nng_msg           *m = NULL;
	long               delivered = -1;

	if (decl > 65535 || actual > 65000 || nng_init(NULL) != 0 || nng_pull0_open(&s) != 0 ||
	    nng_socket_set_size(s, NNG_OPT_RECVMAXSZ, rcvmax) != 0 || nng_socket_set_ms(s, NNG_OPT_RECVTIMEO, 600) != 0 ||
	    nng_listen(s, "udp://127.0.0.1:0", &l, 0) != 0 || nng_listener_get_int(l, NNG_OPT_BOUND_PORT, &port) != 0) {
		printf("udpfirst setup-failed\n");
		return (0);
	}
	memset(&to, 0, sizeof(to));
	to.sin_family      = AF_INET;
	to.sin_addr.s_addr = htonl(INADDR_LOOPBACK);
	to.sin_port        = htons((uint16_t) port);
	fd                 = socket(AF_INET, SOCK_DGRAM, 0);
	hdr(buf, OP_CREQ, PROTO_PUSH, 65000, 5);
	sendto(fd, buf, 8, 0, (struct sockaddr *) &to, sizeof(to));
	for (int i = 0; i < 20 && !cack; i++) {
		struct pollfd pf = { fd, POLLIN, 0 };
		if (poll(&pf, 1, 100) > 0) {
			uint8_t r[64];
			ssize_t n = recv(fd, r, sizeof(r), 0);
			if (n >= 8 && r[1] == OP_CACK) {
				cack = 1;
			}
		}
	}
	hdr(buf, OP_DATA, PROTO_PUSH, (uint16_t) decl, 0);
	for (unsigned i = 0; i < actual; i++) {
		buf[8 + i] = (uint8_t) (i * 7 + 1);
	}
	sendto(fd, buf, 8 + actual, 0, (struct sockaddr *) &to, sizeof(to));
	if (nng_recvmsg(s, &m, 0) == 0) {
		delivered = (long) nng_msg_len(m);
		// the payload must be the first <delivered> bytes that were sent
		for (size_t i = 0; i < nng_msg_len(m); i++) {
			if (((uint8_t *) nng_msg_body(m))[i] != (uint8_t) (i * 7 + 1)) {
				delivered = -2;
				break;
			}
		}
		nng_msg_free(m);
	}
	{
		struct pollfd pf = { fd, POLLIN, 0 };
		if (poll(&pf, 1, 200) > 0) {
			uint8_t r[64];
			ssize_t n = recv(fd, r, sizeof(r), 0);
			if (n >= 8) {
				snprintf(reply, sizeof(reply), "%d:%d", r[1], r[4] | (r[5] << 8));
			}
		}
	}
	printf("udpfirst rcvmax=%zu declared=%u actual=%u cack=%d delivered=%ld reply=%s\n", rcvmax, decl, actual, cack, delivered, reply);
	close(fd);
	nng_socket_close(s);
	nng_fini();
	return (0);
}
