// SIM op interpreter for endpoint / pipe / socket LIFECYCLE scenarios (C14, C10):
// up to two sockets, any number of mock dialers and listeners, pipe notification
// callbacks, application- and transport-side pipe loss, endpoint / context / socket
// close (also two concurrent closes, and a close racing with any other op on a second
// harness thread), and probes of every old handle.  One output line per input line: all
// events until the library quiesced, joined by " ; ".
//
// Link with: simplat.c simev.c mocktran.c and  -Wl,--wrap=nni_clock  (see the
// spin-breaker below).
//
// ops (ep/pipe indices are the mock transport's creation order, from 0 per case):
//   sched <seed>                      scheduler seed                       -> ok
//   open <s> <pair0|pull|push|rep|req>                                     -> rv n
//   notify <s> <mask> [close_in_pre]  mask bits 1=ADD_PRE 2=ADD_POST 4=REM_POST; the
//                                     callbacks emit `pev <pipe> <PRE|POST|REM>`;
//                                     with close_in_pre the ADD_PRE callback
//                                     calls nng_pipe_close on the pipe      -> rv n
//   setopt_sock <s> <name> <ms>       nng_socket_set_ms                     -> rv n
//   setopt_ep <ep> <name> <ms>        nng_dialer_set_ms / nng_listener_set_ms -> rv n
//   dial <s> <nonblock 0|1>           nng_dialer_create + nng_dialer_start  -> ep <e> <rv> <min> <max>
//                                     (blocking start runs on a harness thread and
//                                     reports `dialrv <e> <rv>` when it returns)
//   listen <s>                        nng_listen                            -> ep <e> <rv>
//   conn_done <ep> <peer-hex|!err>    the parked connect/accept completes   -> pipe <p> | rv <neg>
//   pipe_close <p>                    nng_pipe_close (application)          -> rv n
//   pipe_drop <p>                     transport-side loss                   -> rv n
//   dialer_close <ep> | listener_close <ep>                                -> rv n
//   ctx_open <s> <c> | ctx_close <c>                                       -> rv n
//   send <s|cN> <aio> | recv <s|cN> <aio>   infinite timeout               -> done <aio> <rv> (when it completes)
//   advance <ms>
//   close <s>                         nng_socket_close, then at once (before the
//                                     library quiesces) a probe of the socket and
//                                     all handles derived from it           -> rv n ; iprobe ...
//   close2 <s>                        two concurrent nng_socket_close       -> rv n ; rvh n
//   race <off> <len> <opA...> | <opB...>   opA on a second harness thread (results
//                                     tagged rvh/...), opB on the main thread, under
//                                     the seeded scheduler with whoever runs at step
//                                     +off suspended for len steps
//   probe                             public calls on every handle that was closed
//                                     (or whose socket / endpoint was)      -> probe <kind><i> <rv> <rv> ...
// mock transport events: earm <ep> (endpoint armed connect/accept), parm <p>, psend <p> ..,
// pclosed <p>.
#include <nng/nng.h>

#include "core/nng_impl.h"

#include "common.h"
#include "simev.h"

#define MAXS 2
#define MAXEP 24
#define MAXPI 64
#define NAIO 16
#define NCTX 8
#define MAXJOB 32

// ---- spin breaker -------------------------------------------------------------------
// nni_aio_expire_loop re-reads the clock in a loop that contains no platform call while
// `now == deadline` (it fires only when deadline < now).  Real time ticks on; virtual
// time cannot, so a thread that reads the clock more than 100 times without reaching a
// scheduling point is shown the next millisecond.  Net effect: a timer armed at T with
// delay d fires at the first quiescent point with now >= T + d (d = 0: at once).
extern nni_time __real_nni_clock(void);
nni_time
__wrap_nni_clock(void)
{
	static unsigned long last;
	static int           n;
	unsigned long        st, sw;
	int                  nt;
	sim_stats(&st, &sw, &nt);
	if (st != last) {
		last = st;
		n    = 0;
	}
	// (simplat.c's nni_clock now does this itself; kept as a pass-through)
	(void) n;
	return (__real_nni_clock());
}

// ---- harness state --------------------------------------------------------------------
static nng_socket socks[MAXS];
static bool       sock_open[MAXS];
static bool       sock_was[MAXS]; // ever opened (so it can be probed once closed)
static int        mask[MAXS];
static bool       cip[MAXS]; // close in ADD_PRE

struct ep {
	int          kind; // 0 unused, 1 dialer, 2 listener
	int          s;
	bool         closed;
	nng_dialer   d;
	nng_listener l;
};
static struct ep eps[MAXEP];

static uint32_t pipe_id[MAXPI];
static bool     pipe_dead[MAXPI]; // the harness closed it, or its endpoint / socket
static int      pipe_ep[MAXPI];
static int      npipe;

static nng_ctx ctxs[NCTX];
static int     ctx_sock[NCTX];
static int     ctx_state[NCTX]; // 0 none, 1 open, 2 closed

static nng_aio *aios[NAIO];
static int      aio_kind[NAIO];

struct job {
	nni_thr thr;
	bool    used;
	bool    done;
	int     n;
	char   *w[MAXW];
};
static struct job jobs[MAXJOB];

extern uint32_t mock_pipe_id0(int); // mocktran.c: id at creation, survives the pipe

static int
pipe_index(uint32_t id)
{
	for (int i = 0; i < MAXPI; i++) {
		if (mock_pipe_id0(i) == id) {
			pipe_id[i] = id;
			return (i);
		}
	}
	for (int i = 0; i < MAXPI; i++) {
		if (pipe_id[i] == id) {
			return (i);
		}
	}
	return (-1);
}

static void
pipe_cb(nng_pipe p, nng_pipe_ev ev, void *arg)
{
	int s = (int) (intptr_t) arg;
	int i = pipe_index(nng_pipe_id(p));
	ev_add("pev %d %s", i, ev == NNG_PIPE_EV_ADD_PRE ? "PRE" : ev == NNG_PIPE_EV_ADD_POST ? "POST" : "REM");
	if (ev == NNG_PIPE_EV_ADD_PRE && cip[s]) {
		if (i >= 0) {
			pipe_dead[i] = true;
		}
		nng_pipe_close(p);
	}
}

static void
aio_cb(void *arg)
{
	int      i  = (int) (intptr_t) arg;
	nng_aio *a  = aios[i];
	int      rv = nng_aio_result(a);
	nng_msg *m  = nng_aio_get_msg(a);
	if (m != NULL && !(aio_kind[i] == 1 && rv == 0)) {
		nng_msg_free(m);
		nng_aio_set_msg(a, NULL);
	}
	aio_kind[i] = 0;
	ev_add("done %d %d", i, rv);
}

static struct proto {
	const char *name;
	int (*open)(nng_socket *);
} protos[] = {
	{ "pair0", nng_pair0_open },
	{ "pull", nng_pull0_open },
	{ "push", nng_push0_open },
	{ "rep", nng_rep0_open },
	{ "req", nng_req0_open },
	{ NULL, NULL },
};

static void
mark_sock_dead(int s)
{
	sock_open[s] = false;
	for (int e = 0; e < MAXEP; e++) {
		if (eps[e].kind && eps[e].s == s) {
			eps[e].closed = true;
		}
	}
	for (int p = 0; p < npipe; p++) {
		if (pipe_ep[p] >= 0 && eps[pipe_ep[p]].s == s) {
			pipe_dead[p] = true;
		}
	}
	for (int c = 0; c < NCTX; c++) {
		if (ctx_state[c] == 1 && ctx_sock[c] == s) {
			ctx_state[c] = 2;
		}
	}
}

static void
probe_sock(const char *tag, int s)
{
	nng_duration v;
	nng_ctx      c;
	int          r1 = nng_socket_get_ms(socks[s], NNG_OPT_RECVTIMEO, &v);
	int          r2 = nng_ctx_open(&c, socks[s]);
	int          r3 = nng_listen(socks[s], "gopher://probe", NULL, 0);
	int          r4 = nng_socket_close(socks[s]);
	ev_add("%s s%d %d %d %d %d", tag, s, r1, r2, r3, r4);
}
static void
probe_ctx(const char *tag, int c)
{
	nng_duration v;
	int          r1 = nng_ctx_get_ms(ctxs[c], NNG_OPT_RECVTIMEO, &v);
	int          r2 = nng_ctx_close(ctxs[c]);
	ev_add("%s c%d %d %d", tag, c, r1, r2);
}
static void
probe_ep(const char *tag, int e)
{
	if (eps[e].kind == 1) {
		nng_duration v;
		int          r1 = nng_dialer_get_ms(eps[e].d, NNG_OPT_RECONNMINT, &v);
		int          r2 = nng_dialer_start(eps[e].d, NNG_FLAG_NONBLOCK);
		int          r3 = nng_dialer_close(eps[e].d);
		ev_add("%s e%d %d %d %d", tag, e, r1, r2, r3);
	} else {
		size_t v;
		int    r1 = nng_listener_get_size(eps[e].l, NNG_OPT_RECVMAXSZ, &v);
		int    r2 = nng_listener_start(eps[e].l, 0);
		int    r3 = nng_listener_close(eps[e].l);
		ev_add("%s e%d %d %d %d", tag, e, r1, r2, r3);
	}
}
static void
probe_pipe(const char *tag, int p)
{
	nng_pipe np;
	size_t   v;
	np.id  = pipe_id[p];
	int r1 = nng_pipe_get_size(np, NNG_OPT_RECVMAXSZ, &v);
	int r2 = nng_pipe_close(np);
	ev_add("%s p%d %d %d", tag, p, r1, r2);
}

// probe the handles of socket s (s < 0: of everything the harness closed)
static void
probe(const char *tag, int s)
{
	for (int i = 0; i < MAXS; i++) {
		if (sock_was[i] && !sock_open[i] && (s < 0 || s == i)) {
			probe_sock(tag, i);
		}
	}
	for (int c = 0; c < NCTX; c++) {
		if (ctx_state[c] == 2 && (s < 0 || ctx_sock[c] == s)) {
			probe_ctx(tag, c);
		}
	}
	for (int e = 0; e < MAXEP; e++) {
		if (eps[e].kind && eps[e].closed && (s < 0 || eps[e].s == s)) {
			probe_ep(tag, e);
		}
	}
	for (int p = 0; p < npipe; p++) {
		if (pipe_id[p] == 0) {
			continue; // the application never learnt this pipe's id
		}
		if ((s < 0 && (pipe_dead[p] || mock_pipe_id(p) == 0)) ||
		    (s >= 0 && pipe_ep[p] >= 0 && eps[pipe_ep[p]].s == s)) {
			probe_pipe(tag, p);
		}
	}
}

struct dialjob {
	int e;
};

// executes one op (no quiescing).  rvt is "rv" on the main thread and "rvh" on the
// second harness thread.
static void
exec_op(char **w, int n, const char *rvt)
{
	const char *op = w[0];
#define IS(x) (strcmp(op, x) == 0)
	if (IS("open") && n == 3) {
		int s  = atoi(w[1]);
		int rv = NNG_ENOTSUP;
		for (struct proto *p = protos; p->name; p++) {
			if (strcmp(p->name, w[2]) == 0) {
				rv = p->open(&socks[s]);
			}
		}
		sock_open[s] = rv == 0;
		sock_was[s]  = sock_was[s] || rv == 0;
		mask[s]      = 0;
		cip[s]       = false;
		ev_add("%s %d", rvt, rv);
	} else if (IS("notify") && n >= 3) {
		int s  = atoi(w[1]);
		int m  = atoi(w[2]);
		int rv = 0, r;
		cip[s]  = n >= 4 && strcmp(w[3], "close_in_pre") == 0;
		mask[s] = m;
		r = nng_pipe_notify(socks[s], NNG_PIPE_EV_ADD_PRE, (m & 1) ? pipe_cb : NULL, (void *) (intptr_t) s);
		rv = rv ? rv : r;
		r = nng_pipe_notify(socks[s], NNG_PIPE_EV_ADD_POST, (m & 2) ? pipe_cb : NULL, (void *) (intptr_t) s);
		rv = rv ? rv : r;
		r = nng_pipe_notify(socks[s], NNG_PIPE_EV_REM_POST, (m & 4) ? pipe_cb : NULL, (void *) (intptr_t) s);
		rv = rv ? rv : r;
		ev_add("%s %d", rvt, rv);
	} else if (IS("setopt_sock") && n == 4) {
		ev_add("%s %d", rvt, nng_socket_set_ms(socks[atoi(w[1])], w[2], (nng_duration) atoll(w[3])));
	} else if (IS("setopt_ep") && n == 4) {
		int e  = atoi(w[1]);
		int rv = -1;
		if (e >= 0 && e < MAXEP && eps[e].kind == 1) {
			rv = nng_dialer_set_ms(eps[e].d, w[2], (nng_duration) atoll(w[3]));
		} else if (e >= 0 && e < MAXEP && eps[e].kind == 2) {
			rv = nng_listener_set_ms(eps[e].l, w[2], (nng_duration) atoll(w[3]));
		}
		ev_add("%s %d", rvt, rv);
	} else if (IS("dial") && n == 3) {
		int          s  = atoi(w[1]);
		int          nb = atoi(w[2]);
		int          e  = mock_neps();
		nng_dialer   d;
		nng_duration mn = -2, mx = -2;
		int          rv = nng_dialer_create(&d, socks[s], "gopher://peer");
		if (rv != 0 || e >= MAXEP) {
			ev_add("ep -1 %d -2 -2", rv);
			return;
		}
		eps[e].kind   = 1;
		eps[e].s      = s;
		eps[e].closed = false;
		eps[e].d      = d;
		nng_dialer_get_ms(d, NNG_OPT_RECONNMINT, &mn);
		nng_dialer_get_ms(d, NNG_OPT_RECONNMAXT, &mx);
		if (nb) {
			rv = nng_dialer_start(d, NNG_FLAG_NONBLOCK);
			ev_add("ep %d %d %d %d", e, rv, (int) mn, (int) mx);
		} else {
			ev_add("ep %d 0 %d %d", e, (int) mn, (int) mx);
			rv = nng_dialer_start(d, 0);
			ev_add("dialrv %d %d", e, rv);
		}
	} else if (IS("listen") && n == 2) {
		int          s = atoi(w[1]);
		int          e = mock_neps();
		nng_listener l;
		int          rv = nng_listen(socks[s], "gopher://sut", &l, 0);
		if (rv != 0 || e >= MAXEP) {
			ev_add("ep -1 %d", rv);
			return;
		}
		eps[e].kind   = 2;
		eps[e].s      = s;
		eps[e].closed = false;
		eps[e].l      = l;
		ev_add("ep %d %d", e, rv);
	} else if (IS("conn_done") && n == 3) {
		int e = atoi(w[1]);
		int p;
		if (e < 0 || e >= MAXEP || eps[e].kind == 0) {
			ev_add("%s -1", rvt);
			return;
		}
		if (w[2][0] == '!') {
			p = mock_conn_done(e, 0, atoi(w[2] + 1));
		} else {
			int before = npipe;
			if (before < MAXPI) {
				pipe_ep[before] = e; // the callbacks may run before we return
			}
			p = mock_conn_done(e, (uint16_t) strtoul(w[2], NULL, 16), 0);
			if (p >= 0 && p < MAXPI) {
				uint32_t id = mock_pipe_id0(p);
				if (id != 0) {
					pipe_id[p] = id;
				}
				pipe_ep[p] = e;
				if (p >= npipe) {
					npipe = p + 1;
				}
			}
		}
		if (p >= 0) {
			ev_add("pipe %d", p);
		} else {
			ev_add("%s %d", rvt, p);
		}
	} else if (IS("pipe_close") && n == 2) {
		int p = atoi(w[1]);
		if (p < 0 || p >= MAXPI || pipe_id[p] == 0) {
			ev_add("%s -1", rvt);
		} else {
			nng_pipe np;
			np.id        = pipe_id[p];
			pipe_dead[p] = true;
			ev_add("%s %d", rvt, nng_pipe_close(np));
		}
	} else if (IS("pipe_drop") && n == 2) {
		int p = atoi(w[1]);
		if (p >= 0 && p < npipe) {
			pipe_dead[p] = true;
		}
		ev_add("%s %d", rvt, mock_pipe_lose(p));
	} else if ((IS("dialer_close") || IS("listener_close")) && n == 2) {
		int e    = atoi(w[1]);
		int want = IS("dialer_close") ? 1 : 2;
		if (e < 0 || e >= MAXEP || eps[e].kind != want) {
			ev_add("%s -1", rvt);
		} else {
			int rv;
			for (int p = 0; p < npipe; p++) {
				if (pipe_ep[p] == e) {
					pipe_dead[p] = true;
				}
			}
			rv = want == 1 ? nng_dialer_close(eps[e].d) : nng_listener_close(eps[e].l);
			eps[e].closed = true;
			ev_add("%s %d", rvt, rv);
		}
	} else if (IS("ctx_open") && n == 3) {
		int s  = atoi(w[1]);
		int c  = atoi(w[2]);
		int rv = nng_ctx_open(&ctxs[c], socks[s]);
		if (rv == 0) {
			ctx_state[c] = 1;
			ctx_sock[c]  = s;
		}
		ev_add("%s %d", rvt, rv);
	} else if (IS("ctx_close") && n == 2) {
		int c = atoi(w[1]);
		if (ctx_state[c] == 0) {
			ev_add("%s -1", rvt);
		} else {
			int rv       = nng_ctx_close(ctxs[c]);
			ctx_state[c] = 2;
			ev_add("%s %d", rvt, rv);
		}
	} else if ((IS("send") || IS("recv")) && n == 3) {
		int a = atoi(w[2]);
		if (a < 0 || a >= NAIO || aio_kind[a] != 0) {
			ev_add("aio-busy");
			return;
		}
		nng_aio_set_timeout(aios[a], NNG_DURATION_INFINITE);
		if (IS("send")) {
			nng_msg *m;
			nng_msg_alloc(&m, 0);
			nng_msg_append_u32(m, 0x80000000u + (uint32_t) a); // a plausible REQ id, harmless elsewhere
			nng_aio_set_msg(aios[a], m);
			aio_kind[a] = 1;
			if (w[1][0] == 'c') {
				nng_ctx_send(ctxs[atoi(w[1] + 1)], aios[a]);
			} else {
				nng_socket_send(socks[atoi(w[1])], aios[a]);
			}
		} else {
			aio_kind[a] = 2;
			if (w[1][0] == 'c') {
				nng_ctx_recv(ctxs[atoi(w[1] + 1)], aios[a]);
			} else {
				nng_socket_recv(socks[atoi(w[1])], aios[a]);
			}
		}
	} else if (IS("close") && n == 2) {
		int s  = atoi(w[1]);
		int rv = nng_socket_close(socks[s]);
		mark_sock_dead(s);
		ev_add("%s %d", rvt, rv);
		probe("iprobe", s);
	} else if (IS("probe")) {
		probe("probe", -1);
	} else {
		ev_add("bad-op");
	}
}

static void
job_main(void *arg)
{
	struct job *j = arg;
	exec_op(j->w, j->n, "rvh");
	j->done = true;
}

static struct job *
spawn(char **w, int n)
{
	for (int i = 0; i < MAXJOB; i++) {
		struct job *j = &jobs[i];
		if (j->used) {
			continue;
		}
		j->used = true;
		j->done = false;
		j->n    = n;
		for (int k = 0; k < n; k++) {
			j->w[k] = strdup(w[k]);
		}
		if (nni_thr_init(&j->thr, job_main, j) != 0) {
			abort();
		}
		nni_thr_run(&j->thr);
		return (j);
	}
	fprintf(stderr, "too many harness threads\n");
	abort();
}

// join the harness threads that finished (all = true: they must all have finished)
static void
reap_jobs(bool all)
{
	for (int i = 0; i < MAXJOB; i++) {
		struct job *j = &jobs[i];
		if (j->used && (j->done || all)) {
			nni_thr_fini(&j->thr);
			for (int k = 0; k < j->n; k++) {
				free(j->w[k]);
			}
			j->used = false;
		}
	}
}

static void
finish_line(void)
{
	sim_quiesce();
	reap_jobs(false);
	ev_flush();
}

static void
close_all(void)
{
	for (int s = 0; s < MAXS; s++) {
		if (sock_open[s]) {
			nng_socket_close(socks[s]);
			sock_open[s] = false;
		}
	}
	sim_quiesce();
	reap_jobs(true); // blocking dials return once their socket is closed
}

static void
alloc_aios(void)
{
	for (int i = 0; i < NAIO; i++) {
		nng_aio_alloc(&aios[i], aio_cb, (void *) (intptr_t) i);
		aio_kind[i] = 0;
	}
}
static void
free_aios(void)
{
	for (int i = 0; i < NAIO; i++) {
		nng_aio_stop(aios[i]);
		nng_aio_free(aios[i]);
	}
}

int
main(void)
{
	setvbuf(stdout, NULL, _IOLBF, 0); // a sanitizer abort must not lose the lines before it
	nng_init(NULL);
	mock_register();
	mock_ep_events(1);
	alloc_aios();
	for (int i = 0; i < MAXPI; i++) {
		pipe_ep[i] = -1;
	}
	while (next_line()) {
		if (vn == 0) {
			continue;
		}
		const char *op = vw[0];
		if (IS("reset")) {
			close_all();
			free_aios();
			sim_quiesce();
			nng_fini();
			sim_reset_mutex_table(); // simplat's address table has no deletion
			ev_clear();
			mock_reset();
			memset(eps, 0, sizeof(eps));
			memset(pipe_id, 0, sizeof(pipe_id));
			memset(pipe_dead, 0, sizeof(pipe_dead));
			memset(ctx_state, 0, sizeof(ctx_state));
			memset(sock_was, 0, sizeof(sock_was));
			for (int i = 0; i < MAXPI; i++) {
				pipe_ep[i] = -1;
			}
			npipe = 0;
			nng_init(NULL);
			mock_register();
			mock_ep_events(1);
			alloc_aios();
			printf("reset\n");
			continue;
		}
		if (IS("sched") && vn >= 2) {
			sim_seed(strtoull(vw[1], NULL, 10));
			sim_seed_user(0x1234567);
			printf("ok\n");
			continue;
		}
		if (IS("advance") && vn == 2) {
			sim_advance(atoi(vw[1]));
			reap_jobs(false);
			ev_flush();
			continue;
		}
		if (IS("dial") && vn == 3 && atoi(vw[2]) == 0) {
			// blocking start: on its own harness thread, it returns when
			// the connection attempt completes
			spawn(vw, vn);
			finish_line();
			continue;
		}
		if (IS("close2") && vn == 2) {
			char *w2[2] = { "close", vw[1] };
			spawn(w2, 2);
			exec_op(w2, 2, "rv");
			finish_line();
			continue;
		}
		if (IS("race") && vn >= 6) {
			int bar = -1;
			for (int i = 3; i < vn; i++) {
				if (strcmp(vw[i], "|") == 0) {
					bar = i;
				}
			}
			if (bar < 4 || bar == vn - 1) {
				printf("bad-op\n");
				continue;
			}
			sim_arm_delay(atoi(vw[1]), atoi(vw[2]));
			spawn(vw + 3, bar - 3);
			exec_op(vw + bar + 1, vn - bar - 1, "rv");
			finish_line();
			continue;
		}
		exec_op(vw, vn, "rv");
		finish_line();
	}
	close_all();
	free_aios();
	nng_fini();
	return (0);
}
