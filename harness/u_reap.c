// UNIT harness for src/core/reap.c (C10/C03, reaper layer): deterministic replay of thread schedules on the REAL
// code, in the manner of u_taskq.c.
//
// The real reap.c is #included below with every call it makes into the thread layer renamed to a hook
// (nni_mtx_lock/unlock, nni_cv_wait/wake/wake1, nni_thr_init/run/fini/set_name).  A hook parks the calling thread on
// a semaphore (baton) BEFORE it acquires reap_mtx, so the schedule decides the order of all critical sections: one
// `step <t>` = thread t acquires the mutex it is parked at, runs its critical section and on to its next park point.
// The reap function parks at its entry (it runs outside the mutex).  nni_cv_wait releases the (tracked) mutex and
// parks until a wake on that condition variable marked the thread; re-acquiring the mutex and re-testing the loop
// condition is then a step of its own.  nni_thr_fini (the join inside nni_reap_sys_fini) parks until the worker has
// returned.  That is exactly one step of lean/NngModel/Model/Reap.lean.
//
// line protocol (one observation line out per line in):
//   init <nl> <progs>    nl reap lists; one client thread per program; a program = calls separated by `.`:
//                        r<l>:<id> | r<l>:<id>:<cl>:<cid> (the reap function of id reaps cid on list cl) | d | f; `-` empty
//   step <w|c<i>>
//   reset
// observation: subm= done= fin= (object ids in order) res=<per client: t/f drain results> live allfin
//              empty=<reap_empty> exit=<reap_exit> q=<rl_nodes of every list> order=<global reap_list> next=<park points>
#include "core/nng_impl.h"

#include <pthread.h>
#include <semaphore.h>

#include "common.h"

#define NWMAX 8
#define NCMAX 8
#define NTMAX (NWMAX + NCMAX)
#define MAXPROG 64
#define NWMAX_REAP 1

// ---- baton ----
static sem_t        go[NTMAX], ack[NTMAX];
static pthread_t    thr[NTMAX];
static int          started_thr[NTMAX];
static int          nw, nc, nthr;
static const char  *next_call[NTMAX];
static int          finished[NTMAX];
static volatile int kill_all;
static __thread int tl_tid = -1;

// ---- tracked mutexes / condition variables (no real locking: one thread runs at a time) ----
typedef struct {
	void *addr;
	int   owner; // -1 free
} tmtx;
typedef struct {
	void *addr;
	tmtx *mtx;
} tcv;
static tmtx  mtxs[8];
static tcv   cvs[8];
static int   nmtx, ncv;
static tcv  *waiting[NTMAX];
static int   woken[NTMAX];
static tmtx *want[NTMAX]; // the mutex thread t is parked at
static int   lockbad;     // unlock by a non-owner, wait without the mutex, ...
static int   pick_arg = -1;


// ---- ghost ----
#define MAXOBJ 256
#define NLMAX 8
static int      subm[MAXOBJ], done[MAXOBJ], finl[MAXOBJ];
static int      nsubm, ndone, nfin;
static char     res[NCMAX][MAXPROG + 1];
static int      nres[NCMAX];
static int      pending_subm[NTMAX]; // the id the thread is about to submit (-1: none)
static int      joining[NTMAX];

static void
section_begin(int t)
{
	if (pending_subm[t] >= 0 && nsubm < MAXOBJ) {
		subm[nsubm++] = pending_subm[t];
	}
	pending_subm[t] = -1;
}

static const char *mtx_name(void *addr);
static const char *cv_name(void *addr);

static void
die(const char *msg)
{
	fflush(stdout);
	fprintf(stderr, "u_taskq: %s\n", msg);
	abort();
}

static void
park(int t, const char *name)
{
	if (name != NULL) {
		next_call[t] = name;
	}
	sem_post(&ack[t]);
	sem_wait(&go[t]);
	if (kill_all) {
		pthread_exit(NULL);
	}
}

static tmtx *
find_mtx(void *addr)
{
	for (int i = 0; i < nmtx; i++) {
		if (mtxs[i].addr == addr) {
			return (&mtxs[i]);
		}
	}
	die("unknown mutex");
	return (NULL);
}

static tcv *
find_cv(void *addr)
{
	for (int i = 0; i < ncv; i++) {
		if (cvs[i].addr == addr) {
			return (&cvs[i]);
		}
	}
	die("unknown cv");
	return (NULL);
}

static void
hk_mtx_init(nni_mtx *m)
{
	if (nmtx >= 8) {
		die("too many mutexes");
	}
	mtxs[nmtx].addr  = m;
	mtxs[nmtx].owner = -1;
	nmtx++;
}

static void
hk_mtx_fini(nni_mtx *m)
{
	(void) m;
}

static void
hk_cv_init(nni_cv *cv, nni_mtx *m)
{
	if (ncv >= 8) {
		die("too many cvs");
	}
	cvs[ncv].addr = cv;
	cvs[ncv].mtx  = find_mtx(m);
	ncv++;
}

static void
hk_cv_fini(nni_cv *cv)
{
	(void) cv;
}

static void
hk_mtx_lock(nni_mtx *m)
{
	int   t  = tl_tid;
	tmtx *tm = find_mtx(m);
	if (t < 0) {
		return; // harness main thread (init / teardown): nobody else is inside a critical section
	}
	want[t] = tm;
	park(t, mtx_name(m)); // main releases us only if the mutex is free
	want[t] = NULL;
	if (tm->owner != -1) {
		lockbad = 1;
	}
	tm->owner = t;
	section_begin(t);
}

static void
hk_mtx_unlock(nni_mtx *m)
{
	int   t  = tl_tid;
	tmtx *tm = find_mtx(m);
	if (t < 0) {
		return;
	}
	if (tm->owner != t) {
		lockbad = 1;
	}
	tm->owner = -1;
}

static void
hk_cv_wait(nni_cv *cv)
{
	int  t = tl_tid;
	tcv *c = find_cv(cv);
	if (t < 0) {
		die("harness main thread would block in nni_cv_wait");
	}
	if (c->mtx->owner != t) {
		lockbad = 1;
	}
	c->mtx->owner = -1;
	waiting[t]    = c;
	woken[t]      = 0;
	park(t, cv_name(cv)); // main releases us only when woken and the mutex is free
	waiting[t] = NULL;
	if (c->mtx->owner != -1) {
		lockbad = 1;
	}
	c->mtx->owner = t;
}

static void
wake_thread(int t, tcv *c)
{
	woken[t]     = 1;
	next_call[t] = mtx_name(c->mtx->addr);
}

static void
hk_cv_wake(nni_cv *cv)
{
	tcv *c = find_cv(cv);
	for (int t = 0; t < nthr; t++) {
		if (waiting[t] == c && !woken[t]) {
			wake_thread(t, c);
		}
	}
}

static void
hk_cv_wake1(nni_cv *cv)
{
	tcv *c = find_cv(cv);
	int  p = pick_arg;
	if (p >= 0 && p < nthr && waiting[p] == c && !woken[p]) {
		wake_thread(p, c);
		return;
	}
	for (int t = 0; t < nthr; t++) {
		if (waiting[t] == c && !woken[t]) {
			wake_thread(t, c);
			return;
		}
	}
}

// ---- worker thread creation ----
static struct {
	nni_thr     *key;
	nni_thr_func fn;
	void        *arg;
} wthr[NWMAX];
static int nwthr;

static void *
worker_main(void *arg)
{
	int j  = (int) (intptr_t) arg;
	tl_tid = j;
	wthr[j].fn(wthr[j].arg);
	finished[j]  = 1;
	next_call[j] = "exit";
	sem_post(&ack[j]);
	return (NULL);
}

static int
hk_thr_init(nni_thr *t, nni_thr_func fn, void *arg)
{
	if (nwthr >= 1) {
		die("more than one reaper thread");
	}
	wthr[nwthr].key = t;
	wthr[nwthr].fn  = fn;
	wthr[nwthr].arg = arg;
	nwthr++;
	return (0);
}

static void
hk_thr_run(nni_thr *t)
{
	for (int j = 0; j < nwthr; j++) {
		if (wthr[j].key == t) {
			sem_init(&go[j], 0, 0);
			sem_init(&ack[j], 0, 0);
			pthread_create(&thr[j], NULL, worker_main, (void *) (intptr_t) j);
			started_thr[j] = 1;
			sem_wait(&ack[j]); // parked at its first nni_mtx_lock
			return;
		}
	}
	die("nni_thr_run of an unknown thread");
}

static void
hk_thr_fini(nni_thr *t)
{
	int me = tl_tid;
	(void) t;
	if (me < 0) {
		return; // teardown on the harness main thread: threads are gone already
	}
	joining[me] = 1;
	park(me, "join"); // main releases us only when the worker has returned
	joining[me] = 0;
}

static void
hk_thr_set_name(nni_thr *t, const char *name)
{
	(void) t;
	(void) name;
}

// ---- the real code, with its thread-layer calls routed through the hooks ----
#define nni_reap ut_reap
#define nni_reap_sys_drain ut_reap_sys_drain
#define nni_reap_sys_init ut_reap_sys_init
#define nni_reap_sys_fini ut_reap_sys_fini
#define nni_mtx_init hk_mtx_init
#define nni_mtx_fini hk_mtx_fini
#define nni_mtx_lock hk_mtx_lock
#define nni_mtx_unlock hk_mtx_unlock
#define nni_cv_init hk_cv_init
#define nni_cv_fini hk_cv_fini
#define nni_cv_wait hk_cv_wait
#define nni_cv_wake hk_cv_wake
#define nni_cv_wake1 hk_cv_wake1
#define nni_thr_init hk_thr_init
#define nni_thr_run hk_thr_run
#define nni_thr_fini hk_thr_fini
#define nni_thr_set_name hk_thr_set_name
#include "core/reap.c"
#undef nni_mtx_init
#undef nni_mtx_fini
#undef nni_mtx_lock
#undef nni_mtx_unlock
#undef nni_cv_init
#undef nni_cv_fini
#undef nni_cv_wait
#undef nni_cv_wake
#undef nni_cv_wake1
#undef nni_thr_init
#undef nni_thr_run
#undef nni_thr_fini
#undef nni_thr_set_name

typedef struct {
	nni_reap_node node;
	int           id;
	int           child_list; // -1: none
	int           child_id;
} obj;

static obj           objs[MAXOBJ];
static int           nobj;
static nni_reap_list rlists[NLMAX];
static int           nl;
static char          prog[NCMAX][MAXPROG * 8 + 1];
static int           active;

static const char *
mtx_name(void *addr)
{
	(void) addr;
	return ("lock");
}

static const char *
cv_name(void *addr)
{
	return (addr == (void *) &reap_work_cv ? "wait:work" : "wait:empty");
}

static obj *
new_obj(int id, int cl, int cid)
{
	obj *o;
	if (nobj >= MAXOBJ) {
		die("too many objects");
	}
	o             = &objs[nobj++];
	o->id         = id;
	o->child_list = cl;
	o->child_id   = cid;
	memset(&o->node, 0, sizeof(o->node));
	return (o);
}

static void
obj_reap(void *arg)
{
	obj *o = arg;
	int  t = tl_tid;
	if (t < 0) {
		die("reap function on the harness main thread");
	}
	park(t, "cb");
	if (ndone < MAXOBJ) {
		done[ndone++] = o->id;
	}
	if (o->child_list >= 0 && o->child_list < nl) {
		obj *c          = new_obj(o->child_id, -1, 0);
		pending_subm[t] = c->id;
		ut_reap(&rlists[o->child_list], c);
	}
	if (nfin < MAXOBJ) {
		finl[nfin++] = o->id;
	}
}

static void *
client_main(void *arg)
{
	int   t = (int) (intptr_t) arg;
	int   i = t - 1;
	char *w, *save = NULL;
	tl_tid = t;
	for (w = strtok_r(prog[i], ".", &save); w != NULL; w = strtok_r(NULL, ".", &save)) {
		if (w[0] == 'r') {
			int l = 0, id = 0, cl = -1, cid = 0;
			int n = sscanf(w + 1, "%d:%d:%d:%d", &l, &id, &cl, &cid);
			if (n < 2) {
				die("bad reap op");
			}
			if (n < 4) {
				cl = -1;
			}
			if (l >= 0 && l < nl) {
				obj *o          = new_obj(id, cl, cid);
				pending_subm[t] = id;
				ut_reap(&rlists[l], o);
			}
		} else if (w[0] == 'd') {
			bool r = ut_reap_sys_drain();
			if (nres[i] < MAXPROG) {
				res[i][nres[i]++] = r ? 't' : 'f';
				res[i][nres[i]]   = 0;
			}
		} else if (w[0] == 'f') {
			ut_reap_sys_fini();
		}
	}
	finished[t]  = 1;
	next_call[t] = "end";
	sem_post(&ack[t]);
	return (NULL);
}

static int
can_move(int t)
{
	if (finished[t]) {
		return (0);
	}
	if (joining[t]) {
		return (finished[0]);
	}
	if (waiting[t] != NULL) {
		return (woken[t] && waiting[t]->mtx->owner == -1);
	}
	if (want[t] != NULL) {
		return (want[t]->owner == -1);
	}
	return (1);
}

static void
print_ids(const char *k, const int *v, int n)
{
	printf("%s=", k);
	if (n == 0) {
		printf("-");
	}
	for (int i = 0; i < n; i++) {
		printf("%s%d", i ? "." : "", v[i]);
	}
}

static void
observe(void)
{
	int live = 0, fin = 1;
	for (int t = 0; t < nthr; t++) {
		if (can_move(t)) {
			live = 1;
		}
		if (t >= 1 && !finished[t]) {
			fin = 0;
		}
	}
	print_ids("subm", subm, nsubm);
	print_ids(" done", done, ndone);
	print_ids(" fin", finl, nfin);
	printf(" res=");
	if (nc == 0) {
		printf("none");
	}
	for (int i = 0; i < nc; i++) {
		printf("%s%s", i ? "," : "", res[i][0] ? res[i] : "-");
	}
	printf(" live=%d allfin=%d empty=%d exit=%d q=", live, fin, reap_empty ? 1 : 0, reap_exit ? 1 : 0);
	for (int l = 0; l < nl; l++) {
		int k = 0;
		printf("%s", l ? "," : "");
		for (nni_reap_node *n = rlists[l].rl_nodes; n != NULL && k < MAXOBJ; n = n->rn_next, k++) {
			obj *o = (obj *) ((char *) n - offsetof(obj, node));
			printf("%s%d", k ? "." : "", o->id);
		}
		if (k == 0) {
			printf("-");
		}
	}
	printf(" order=");
	{
		int k = 0;
		for (nni_reap_list *r = reap_list; r != NULL && k < NLMAX + 1; r = r->rl_next, k++) {
			printf("%s%d", k ? "." : "", (int) (r - rlists));
		}
		if (k == 0) {
			printf("-");
		}
	}
	if (lockbad) {
		printf(" lockbad=1");
	}
	printf(" next=%s|", next_call[0]);
	for (int t = 1; t < nthr; t++) {
		printf("%s%s", t > 1 ? "," : "", next_call[t]);
	}
	printf("\n");
}

static void
teardown(void)
{
	if (!active) {
		return;
	}
	kill_all = 1;
	for (int t = 0; t < nthr; t++) {
		if (started_thr[t]) {
			if (!finished[t]) {
				sem_post(&go[t]); // pthread_exit from its park point (it holds no real resource)
			}
			pthread_join(thr[t], NULL);
			sem_destroy(&go[t]);
			sem_destroy(&ack[t]);
			started_thr[t] = 0;
		}
	}
	kill_all = 0;
	active   = 0;
}

static void
do_init(void)
{
	char *w, *save = NULL;
	teardown();
	nl = atoi(vw[1]);
	if (nl < 0 || nl > NLMAX) {
		nl = NLMAX;
	}
	nc = 0;
	if (strcmp(vw[2], "none") != 0) {
		for (w = strtok_r(vw[2], ",", &save); w != NULL && nc < NCMAX; w = strtok_r(NULL, ",", &save)) {
			prog[nc][0] = 0;
			if (strcmp(w, "-") != 0) {
				strncpy(prog[nc], w, sizeof(prog[nc]) - 1);
				prog[nc][sizeof(prog[nc]) - 1] = 0;
			}
			nc++;
		}
	}
	nw   = 1;
	nthr = 1 + nc;
	nmtx = ncv = nwthr = 0;
	nsubm = ndone = nfin = nobj = 0;
	lockbad                     = 0;
	pick_arg                    = -1;
	for (int t = 0; t < NTMAX; t++) {
		finished[t]     = 0;
		next_call[t]    = "?";
		waiting[t]      = NULL;
		woken[t]        = 0;
		want[t]         = NULL;
		pending_subm[t] = -1;
		joining[t]      = 0;
	}
	for (int i = 0; i < NCMAX; i++) {
		res[i][0] = 0;
		nres[i]   = 0;
	}
	// the file-scope state of reap.c as at process start (static storage is zero-initialised)
	reap_list  = NULL;
	reap_exit  = false;
	reap_empty = false;
	memset(rlists, 0, sizeof(rlists));
	for (int l = 0; l < NLMAX; l++) {
		rlists[l].rl_offset = offsetof(obj, node);
		rlists[l].rl_func   = obj_reap;
	}
	if (ut_reap_sys_init() != 0) {
		die("nni_reap_sys_init failed");
	}
	for (int t = 1; t < nthr; t++) {
		sem_init(&go[t], 0, 0);
		sem_init(&ack[t], 0, 0);
		pthread_create(&thr[t], NULL, client_main, (void *) (intptr_t) t);
		started_thr[t] = 1;
		sem_wait(&ack[t]); // parked at its first hook (or finished)
	}
	active = 1;
	observe();
}

static void
do_step(void)
{
	int         t = -1;
	const char *w = vw[1];
	if (!active) {
		printf("bad-op\n");
		return;
	}
	if (strcmp(w, "w") == 0) {
		t = 0;
	} else if (w[0] == 'c' && isdigit((unsigned char) w[1])) {
		t = atoi(w + 1);
		t = t < nc ? t + 1 : -1;
	} else {
		printf("bad-op\n");
		return;
	}
	if (t >= 0 && can_move(t)) {
		sem_post(&go[t]);
		sem_wait(&ack[t]);
	}
	observe();
}

int
main(void)
{
	setvbuf(stdout, NULL, _IOFBF, 1 << 16);
	while (next_line()) {
		if (vn == 0) {
			continue;
		}
		if (strcmp(vw[0], "reset") == 0) {
			teardown();
			printf("reset\n");
		} else if (strcmp(vw[0], "init") == 0 && vn >= 3) {
			do_init();
		} else if (strcmp(vw[0], "step") == 0 && vn >= 2) {
			do_step();
		} else {
			printf("bad-op\n");
		}
	}
	teardown();
	fflush(stdout);
	return (0);
}
